// shared helpers of the drivers: hex-float token I/O
#pragma once
#include <cstdio>
#include <cstdlib>
#include <string>
#include <vector>
#include <sstream>
#include <iostream>
#include <cmath>
static inline double rd(std::istream& in){ std::string s; in >> s; return std::strtod(s.c_str(), nullptr); }
static inline std::string hx(double x){ char b[64]; if (std::isnan(x)) return "nan"; if (std::isinf(x)) return x>0?"inf":"-inf"; std::snprintf(b, sizeof b, "%a", x); return b; }
