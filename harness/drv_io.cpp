// drv_io: file input/output of the simulator.
//  RT <tissue> W dir pre seed [via] write the population with mesh_writer (cell + face file) after `pre` random remeshing
//                                 operations per cell (unused slots), read the cell file back with mesh_reader;
//        out: OK | cells after write {type nn {x y z} nf {a b c}} | read back {nn {x y z} nf {k ids}} | types
//  RD path                        mesh_reader on an arbitrary file: outcome class + summary
//  PR path                        parameter_reader on an arbitrary file: outcome class + every field
//  ST paramfile                   the start-up of main(): simulation_initializer (parameters + mesh + cells)
#include "tissue.hpp"
#include "local_mesh_refiner.hpp"
#include "mesh_writer.hpp"
#include "mesh_reader.hpp"
#include "parameter_reader.hpp"
#include "simulation_initializer.hpp"
#include <filesystem>
#include <omp.h>
#include <map>
#include <set>
#include <csignal>
#include <unistd.h>

#include <locale>
struct grouping_punct : std::numpunct<char> {
    char do_thousands_sep() const override { return ','; }
    std::string do_grouping() const override { return "\3"; }
};
static void on_alarm(int){ const char m[] = " TIMEOUT\n"; ssize_t r = write(1, m, sizeof m - 1); (void)r; _exit(3); }
// budget in seconds of CPU time of this process (robust against a loaded machine), with a wall-clock fallback of ten times that
#include <sys/time.h>
static void verif_budget(unsigned s){ struct itimerval it; it.it_interval.tv_sec = 0; it.it_interval.tv_usec = 0; it.it_value.tv_sec = s; it.it_value.tv_usec = 0; setitimer(ITIMER_PROF, &it, nullptr); alarm(10 * s); }

static std::string clean(std::string w){ for (char& ch : w) if (ch==' '||ch=='|'||ch=='\n') ch='_'; return w.substr(0, 200); }

static bool closed_oriented_surface(const cell_ptr& c){
    std::map<std::pair<unsigned,unsigned>, int> he; size_t nf = 0; std::set<unsigned> used;
    for (const face& f : c->get_face_lst()) if (f.is_used()){
        auto [a,b,d] = f.get_node_ids(); nf++;
        if (a==b||b==d||a==d) return false;
        unsigned v[3] = {a,b,d};
        for (int k=0;k<3;k++){ if (v[k] >= c->get_node_lst().size() || !c->get_node_lst()[v[k]].is_used()) return false; used.insert(v[k]);
            if (++he[{v[k], v[(k+1)%3]}] > 1) return false; }
    }
    if (nf < 4) return false;
    for (auto& kv : he) if (!he.count({kv.first.second, kv.first.first})) return false;
    return (long)used.size() - (long)he.size()/2 + (long)nf == 2;
}

static void dump_params(const global_simulation_parameters& g, const std::vector<cell_type_param_ptr>& cts){
    std::cout << "OK G " << clean(g.input_mesh_path_) << " " << clean(g.output_folder_path_) << " " << g.perform_initial_triangulation_ << " " << g.enable_edge_swap_operation_
              << " " << hx(g.damping_coefficient_) << " " << hx(g.simulation_duration_) << " " << hx(g.sampling_period_) << " " << hx(g.time_step_) << " " << hx(g.min_edge_len_)
              << " " << hx(g.contact_cutoff_adhesion_) << " " << hx(g.contact_cutoff_repulsion_) << " | " << cts.size();
    for (auto& c : cts){
        std::cout << " CT " << clean(c->name_) << " " << c->global_type_id_ << " " << hx(c->mass_density_) << " " << hx(c->bulk_modulus_) << " " << hx(c->max_pressure_)
                  << " " << hx(c->initial_pressure_) << " " << hx(c->area_elasticity_modulus_) << " " << hx(c->avg_division_vol_) << " " << hx(c->std_division_vol_)
                  << " " << hx(c->avg_growth_rate_) << " " << hx(c->std_growth_rate_) << " " << hx(c->min_vol_) << " " << hx(c->angle_regularization_factor_)
                  << " " << hx(c->target_isoperimetric_ratio_) << " " << hx(c->surface_coupling_max_curvature_) << " " << c->face_types_.size();
        for (auto& f : c->face_types_)
            std::cout << " FT " << clean(f.name_) << " " << f.face_type_global_id_ << " " << hx(f.surface_tension_) << " " << hx(f.adherence_strength_) << " " << hx(f.repulsion_strength_) << " " << hx(f.bending_modulus_);
    }
    std::cout << "\n";
}

int main(){
    std::string line;
    std::signal(SIGALRM, on_alarm); std::signal(SIGPROF, on_alarm);
    while (std::getline(std::cin, line)){
        if (line.empty()) continue;
        std::istringstream in(line);
        std::string mode; in >> mode;
        std::cout.flush(); verif_budget(60);
        try {
            if (mode == "RT"){
                tissue_case t = read_tissue(in);
                expect(in, "W"); std::string dir; int pre; unsigned long seed; int via = 0; in >> dir >> pre >> seed; if (!(in >> via)) via = 0;
                std::filesystem::create_directories(dir);
                std::vector<cell_ptr> cells = build_cells(t, true);
                local_mesh_refiner lmr(1e-30, 1e30, false);
                unsigned long st = seed * 6364136223846793005ULL + 1442695040888963407ULL;
                for (cell_ptr c : cells) for (int k = 0; k < pre; k++){
                    st = st * 6364136223846793005ULL + 1442695040888963407ULL;
                    const edge_set& es = c->get_edge_set(); auto it = es.begin(); std::advance(it, (st >> 33) % es.size()); edge e = *it; edge_set work = es;
                    if (((st >> 20) & 3) != 0 && lmr.can_be_merged(e, c)) lmr.merge_edge(e, c, work); else lmr.split_edge(e, c, work);
                }
                for (size_t i = 0; i < cells.size(); i++){ cells[i]->set_id((unsigned)i); cells[i]->set_local_id((unsigned)i); }
                // via 0: the simulation's path (write); 1, 2: the public single-file entry points, which compact the cells themselves;
                // +10: the host program has installed a global C++ locale that groups digits (1,000) and uses a decimal comma
                std::locale saved_locale; bool grouped = via >= 10;
                if (grouped){ saved_locale = std::locale::global(std::locale(std::locale::classic(), new grouping_punct)); via -= 10; }
                struct restore_ { std::locale l; bool on; ~restore_(){ if (on) std::locale::global(l); } } restore_guard{saved_locale, grouped};
                if (via == 1) mesh_writer::write_cell_data_file(dir + "/cells.vtk", cells);
                else if (via == 2){ std::ofstream f_(dir + "/cells.vtk"); mesh_writer::write_cell_data_file(f_, cells); f_.close(); }
                else mesh_writer::write(dir + "/cells.vtk", dir + "/faces.vtk", cells);
                std::cout << "OK |";
                for (cell_ptr c : cells){
                    std::cout << " " << c->get_cell_type_id() << " " << c->get_node_lst().size();
                    for (const node& n : c->get_node_lst()) std::cout << " " << hx(n.pos().dx()) << " " << hx(n.pos().dy()) << " " << hx(n.pos().dz());
                    std::cout << " " << c->get_face_lst().size();
                    for (const face& f : c->get_face_lst()){ auto [a,b,d] = f.get_node_ids(); std::cout << " " << a << " " << b << " " << d; }
                }
                mesh_reader rd_(dir + "/cells.vtk", false);
                std::vector<mesh> ms = rd_.read(); std::vector<short> tys; if (via == 0) tys = rd_.get_cell_types();   // the single-file entry points write no data arrays
                std::cout << " |";
                for (const mesh& m : ms){
                    std::cout << " " << m.node_pos_lst.size()/3; for (double x : m.node_pos_lst) std::cout << " " << hx(x);
                    std::cout << " " << m.face_point_ids.size(); for (auto& f : m.face_point_ids){ std::cout << " " << f.size(); for (unsigned x : f) std::cout << " " << x; }
                }
                std::cout << " |"; for (short x : tys) std::cout << " " << x;
                std::cout << "\n";
            } else if (mode == "WX"){
                // WX <tissue> W dir threads which : mesh_writer::write with the cell file (which & 1) and / or the face file (which & 2) in a
                // folder that does not exist; out: NONE | EXC what
                tissue_case t = read_tissue(in);
                expect(in, "W"); std::string dir; int threads, which; in >> dir >> threads >> which;
                std::filesystem::create_directories(dir);
                std::vector<cell_ptr> cells = build_cells(t, true);
                for (size_t i = 0; i < cells.size(); i++){ cells[i]->set_id((unsigned)i); cells[i]->set_local_id((unsigned)i); }
                omp_set_num_threads(threads);
                const std::string good_c = dir + "/cells.vtk", good_f = dir + "/faces.vtk", bad_c = dir + "/no_such_folder/cells.vtk", bad_f = dir + "/no_such_folder/faces.vtk";
                std::string res = "NONE";
                try { mesh_writer::write((which & 1) ? bad_c : good_c, (which & 2) ? bad_f : good_f, cells); }
                catch (const std::exception& e){ res = std::string("EXC ") + e.what(); for (char& ch : res) if (ch == '\n') ch = ' '; }
                omp_set_num_threads(1);
                std::cout << res << "\n";
            } else if (mode == "RD"){
                std::string path; in >> path;
                mesh_reader rd_(path, false);
                std::vector<mesh> ms = rd_.read(); std::vector<short> tys = rd_.get_cell_types();
                size_t nn = 0, nf = 0; bool dangling = false;
                for (const mesh& m : ms){ nn += m.node_pos_lst.size()/3; nf += m.face_point_ids.size(); for (auto& f : m.face_point_ids) for (unsigned x : f) if (x >= m.node_pos_lst.size()/3) dangling = true; }
                std::cout << "OK cells=" << ms.size() << " nodes=" << nn << " faces=" << nf << " types=" << tys.size() << (dangling ? " DANGLING" : "") << "\n";
            } else if (mode == "PR"){
                std::string path; in >> path;
                parameter_reader pr(path);
                global_simulation_parameters g = pr.read_numerical_parameters();
                std::vector<cell_type_param_ptr> cts = pr.read_biomechanical_parameters();
                dump_params(g, cts);
            } else if (mode == "ST"){
                std::string path; in >> path;
                simulation_initializer si(path, false);
                std::cout << "OK cells=" << si.get_cell_lst().size();
                // a start-up that completes hands its cells to the solver: each of them must be a closed oriented surface
                for (const cell_ptr& c : si.get_cell_lst()) if (!closed_oriented_surface(c)) { std::cout << " INVALIDCELL"; break; }
                std::cout << " NN"; for (const cell_ptr& c : si.get_cell_lst()) std::cout << " " << c->get_nb_of_nodes();
                std::cout << "\n";
            } else std::cout << "FATAL unknown mode\n";
        } catch (const std::exception& e){ std::cout << "EXC " << clean(e.what()) << "\n"; }
        catch (...){ std::cout << "EXCOTHER\n"; }
        verif_budget(0);
    }
    return 0;
}
