#!/usr/bin/env python3
"""translate_vec3.py — regenerates coq/Vec3_gen.v from /repo's src/math_modules/vec3.cpp and include/math_modules/vec3.hpp
on every run: the arithmetic of the vector class on which every other model rests,
    dot, cross, operator+ (both overloads), operator- (both), operator* (scalar), operator/ (scalar),
    squared_norm, norm, translate(const vec3&) (three atomic component updates), normalize
is read expression by expression (`this` = a, argument = b) and re-emitted over an abstract number type.  The one-line
accessors and assignments of the header (dx(), dy(), dz(), to_array(), reset(), reset(v)) are checked textually.
SourceTies.v proves the generated functions equal to the hand-written Vec3.v by reflexivity.  Fails closed."""
import re, sys, os
sys.path.insert(0, os.path.dirname(os.path.abspath(__file__)))
from translate_columns import strip_comments
from translate_iteration import function_body
from translate_kernel import Tr, P, tokenize


def flat(s):
    return re.sub(r"\s+", "", s)


def norm_expr(e, arg="v", scalar=None):
    """member fields and accessor calls -> plain identifiers"""
    e = re.sub(r"\b%s\.d([xyz])\(\)" % arg, r"b_\1", e)
    e = re.sub(r"\bd([xyz])_\b", r"a_\1", e)
    return e


ENV = {"a_x": "d", "a_y": "d", "a_z": "d", "b_x": "d", "b_y": "d", "b_z": "d"}
LETS_A = "let a_x := vx a in let a_y := vy a in let a_z := vz a in"
LETS_B = "let b_x := vx b in let b_y := vy b in let b_z := vz b in"


def scal(e, extra=None):
    env = dict(ENV); env.update(extra or {})
    p = P(tokenize(e), env); g, t = p.sum()
    if t != "d" or p.peek() is not None:
        raise Tr("scalar expression expected: " + e)
    return g


def ret_vec3(body, what, extra=None):
    """`return vec3(e1, e2, e3);` as the only statement"""
    m = re.fullmatch(r"\s*return\s+vec3\s*\((.*)\)\s*;\s*", body, re.S)
    if not m:
        raise Tr(what + ": not a single `return vec3(...)`")
    parts = []; depth = 0; cur = ""
    for ch in m.group(1):
        if ch == "(":
            depth += 1
        elif ch == ")":
            depth -= 1
        if ch == "," and depth == 0:
            parts.append(cur); cur = ""
        else:
            cur += ch
    parts.append(cur)
    if len(parts) != 3:
        raise Tr(what + ": vec3 with %d components" % len(parts))
    return "mkv %s %s %s" % tuple(scal(norm_expr(x), extra) for x in parts)


def bodies(src, rx):
    """all definitions matching the signature regex"""
    out = []
    for m in re.finditer(rx, src):
        out.append(function_body(src[m.start():], rx))
    return out


def generate(repo):
    err = None; defs = []
    try:
        cpp = strip_comments(open(os.path.join(repo, "src", "math_modules", "vec3.cpp")).read())
        hpp = strip_comments(open(os.path.join(repo, "include", "math_modules", "vec3.hpp")).read())
        # ---- dot
        b = function_body(cpp, r"double\s+vec3::dot\s*\(\s*const\s+vec3\s*&\s*v\s*\)\s*const\s*\{")
        m = re.fullmatch(r"\s*return\s+(.*);\s*", b, re.S)
        if not m:
            raise Tr("dot: not a single return")
        defs.append("Definition vdot_gen {T : Type} (N : Num T) (a b : vec3 T) : T :=\n  %s %s\n  %s." % (LETS_A, LETS_B, scal(norm_expr(m.group(1)))))
        # ---- cross
        b = function_body(cpp, r"vec3\s+vec3::cross\s*\(\s*const\s+vec3\s*&\s*v\s*\)\s*const\s*\{")
        defs.append("Definition vcross_gen {T : Type} (N : Num T) (a b : vec3 T) : vec3 T :=\n  %s %s\n  %s." % (LETS_A, LETS_B, ret_vec3(b, "cross")))
        # ---- operator+ and operator- : every overload must say the same
        for op, nm in (("+", "vadd_gen"), ("-", "vsub_gen")):
            bs = bodies(cpp, r"vec3\s+vec3::operator\%s\s*\(\s*(?:const\s+vec3\s*&|vec3\s+const\s*&|vec3\s*&&)\s*v\s*\)\s*const\s*\{" % op)
            if len(bs) != 2:
                raise Tr("operator%s: %d overloads found, 2 expected" % (op, len(bs)))
            gs = {ret_vec3(x, "operator" + op) for x in bs}
            if len(gs) != 1:
                raise Tr("operator%s: the two overloads differ" % op)
            defs.append("Definition %s {T : Type} (N : Num T) (a b : vec3 T) : vec3 T :=\n  %s %s\n  %s." % (nm, LETS_A, LETS_B, gs.pop()))
        # ---- operator* and operator/ by a scalar
        for op, nm in (("*", "vscale_gen"), ("/", "vdivs_gen")):
            b = function_body(cpp, r"vec3\s+vec3::operator\%s\s*\(\s*const\s+double\s+scalar\s*\)\s*const\s*\{" % op)
            defs.append("Definition %s {T : Type} (N : Num T) (a : vec3 T) (scalar : T) : vec3 T :=\n  %s\n  %s." % (nm, LETS_A, ret_vec3(b, "operator" + op, {"scalar": "d"})))
        # ---- squared_norm, norm (header, inline)
        m = re.search(r"inline\s+double\s+squared_norm\s*\(\s*\)\s*const\s*\{\s*return\s+([^;]*);\s*\}", hpp)
        if not m:
            raise Tr("squared_norm not found")
        sq = scal(norm_expr(m.group(1)))
        defs.append("Definition vsqnorm_gen {T : Type} (N : Num T) (a : vec3 T) : T :=\n  %s\n  %s." % (LETS_A, sq))
        m = re.search(r"inline\s+double\s+norm\s*\(\s*\)\s*const\s*\{\s*return\s+std::sqrt\s*\(([^;]*)\)\s*;\s*\}", hpp)
        if not m:
            raise Tr("norm is not `return std::sqrt(...)`")
        defs.append("Definition vnorm_gen {T : Type} (N : Num T) (a : vec3 T) : T :=\n  %s\n  nsqrt N %s." % (LETS_A, scal(norm_expr(m.group(1)))))
        # ---- translate(const vec3&): three component updates (atomic pragmas dropped), in any order, each once
        b = function_body(cpp, r"void\s+vec3::translate\s*\(\s*const\s+vec3\s*&\s*v\s*\)\s*\{")
        st = [flat(x) for x in b.split(";") if flat(x) and not flat(x).startswith("assert")]
        st = [re.sub(r"^(#pragmaompatomicupdate)+", "", x) for x in st]
        if sorted(st) != ["dx_+=v.dx()", "dy_+=v.dy()", "dz_+=v.dz()"]:
            raise Tr("translate(const vec3&): statements %s" % st)
        defs.append("Definition vtranslate_gen {T : Type} (N : Num T) (a b : vec3 T) : vec3 T :=\n  %s %s\n  mkv (nadd N a_x b_x) (nadd N a_y b_y) (nadd N a_z b_z)." % (LETS_A, LETS_B))
        b = function_body(cpp, r"void\s+vec3::translate\s*\(\s*const\s+double\s+dx\s*,\s*const\s+double\s+dy\s*,\s*const\s+double\s+dz\s*\)\s*\{")
        st = [flat(x) for x in b.split(";") if flat(x) and not flat(x).startswith("assert")]
        st = [re.sub(r"^(#pragmaompatomicupdate)+", "", x) for x in st]
        if sorted(st) != ["dx_+=dx", "dy_+=dy", "dz_+=dz"]:
            raise Tr("translate(dx, dy, dz): statements %s" % st)
        # ---- normalize: norm != 0 ? *this / norm : vec3(0,0,0)
        b = flat(function_body(cpp, r"vec3\s+vec3::normalize\s*\(\s*\)\s*const\s*\{"))
        if b != "constdoublenorm=this->norm();return(norm!=0.)?*(this)/norm:vec3(0.,0.,0.);":
            raise Tr("normalize: body not as expected")
        # ---- the one-liners of the header
        h = flat(hpp)
        for need in ("inlinedoubledx()const{returndx_;}", "inlinedoubledy()const{returndy_;}", "inlinedoubledz()const{returndz_;}",
                     "voidreset(){dx_=0.,dy_=0.,dz_=0.;}", "voidreset(constvec3&v){dx_=v.dx(),dy_=v.dy(),dz_=v.dz();}", "voidreset(vec3&&v){dx_=v.dx(),dy_=v.dy(),dz_=v.dz();}",
                     "std::array<double,3>to_array()const{return{dx_,dy_,dz_};}"):
            if need not in h:
                raise Tr("vec3.hpp: expected `%s`" % need)
        # the constructor stores its arguments in order
        c = flat(cpp)
        if not re.search(r"vec3::vec3\(constdoubledx,constdoubledy,constdoubledz\):dx_\(dx\),dy_\(dy\),dz_\(dz\)", c):
            raise Tr("constructor vec3(dx, dy, dz) does not initialise dx_, dy_, dz_ in order")
    except Exception as e:      # noqa
        err = str(e)
    L = ["(* Vec3_gen.v — GENERATED by harness/translate_vec3.py from /repo/src/math_modules/vec3.cpp and include/math_modules/vec3.hpp on every run.", "   Do not edit. *)",
         "From Coq Require Import ZArith Bool List.", "From SC Require Import Num Vec3.", ""]
    if err:
        L.append("(* translation failed: %s *)" % err.replace("*)", "* )"))
        L.append("Definition vec3_translation_ok : bool := false.")
        for nm in ("vdot_gen", "vsqnorm_gen", "vnorm_gen"):
            L.append("Definition %s {T : Type} (N : Num T) (a %s: vec3 T) : T := nzero N." % (nm, "b " if nm == "vdot_gen" else ""))
        for nm in ("vcross_gen", "vadd_gen", "vsub_gen", "vtranslate_gen"):
            L.append("Definition %s {T : Type} (N : Num T) (a b : vec3 T) : vec3 T := a." % nm)
        for nm in ("vscale_gen", "vdivs_gen"):
            L.append("Definition %s {T : Type} (N : Num T) (a : vec3 T) (scalar : T) : vec3 T := a." % nm)
    else:
        L.append("Definition vec3_translation_ok : bool := true.")
        L += defs
    return "\n".join(L) + "\n"


if __name__ == "__main__":
    repo = sys.argv[1] if len(sys.argv) > 1 else "/repo"
    out = sys.argv[2] if len(sys.argv) > 2 else os.path.join(os.path.dirname(os.path.dirname(os.path.abspath(__file__))), "coq", "Vec3_gen.v")
    txt = generate(repo)
    old = open(out).read() if os.path.exists(out) else None
    if old != txt:
        open(out, "w").write(txt)
