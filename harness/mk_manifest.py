#!/usr/bin/env python3
"""writes /verif/MANIFEST.json from the table below (kept in one place so it stays valid)"""
import json, os
VERIF = os.path.dirname(os.path.dirname(os.path.abspath(__file__)))

CLAIMED = {
    "C05": dict(
        text="Theorems over R for the Gallina transcription of the kernel (all seven Voronoi regions incl. the fall-through interior case: barycentric coordinates non-negative, sum one, distance = distance to the designated point, no triangle point is nearer, invariance under every orthogonal map + translation); the same Gallina term at binary64 (extracted) is compared bit-for-bit with compute_node_triangle_distance compiled from /repo's working tree on region-targeted, lattice and twin cases; an exact rational closest-point oracle judges the implementation's outputs.",
        note="Reals in the theorems, binary64 in the correspondence (rounding outside the theorems); non-degenerate triangle; extraction (ExtrOcamlBasic+ExtrOCamlFloats) and the hand-written driver/generator are trusted; axioms: the three Reals axioms of the standard library.",
        technique="Coq proof over R of a hand-written Gallina model + bit-exact differential correspondence (extracted model vs C++) + exact rational oracle",
        design="§6 C05"),
    "C20": dict(
        text="Theorems about the Gallina transcription of uspg_abstract/uspg_4d/uspg_3d (Grid.v) at R with Flocq's Zfloor/Zceil: every point of the closed declared box maps to an existing voxel, the flattened id is injective and inside the vector, placed objects are retrievable and other voxels unchanged, the full-content query is a permutation of the objects placed, a neighbourhood query contains every stored object within one voxel size (max-norm) and only stored objects. The same Gallina functions at binary64 (exact floor via Prim2SF) are compared with uspg_4d<int>/uspg_3d<int> built from /repo under ASan/UBSan; the property oracle (range, retrievability, neighbourhood, content) judges the implementation's outputs.",
        note="Reals in the theorems (a float-level statement at distance exactly one voxel size is not claimed); correspondence on generated grids incl. extents that are exact multiples of the voxel size and points on the upper boundary; extraction incl. ExtrOCamlInt63; ASan as observer of out-of-range walks.",
        technique="Coq proof over R/Z of a hand-written Gallina model + differential correspondence (extracted model vs C++ under sanitizers) + property oracle",
        design="§6 C20"),
    "C03": dict(
        text="Theorems over R about the Gallina transcription of update_nodes_positions (Integrator.v): time advances by exactly dt per update (n*dt after n); for contact models 0 and 1 the loop over cells and node slots gives every node exactly the value the documented law prescribes (list equality with the per-node specification: semi-implicit Euler / overdamped closed forms, each live node of each non-static cell once, coupled pairs together, static cells and unused slots untouched), forces of integrated nodes are zero afterwards, a mutually coupled pair receives the same displacement and momentum and the averaging keeps total momentum and force; well-formedness is preserved so the law holds over any number of steps. The same Gallina term at binary64 is compared bit-for-bit with the real integrator in all six compile-time configurations (contact 0/1/2 x dynamic 0/1); an independent closed-form recomputation judges the implementation's outputs.",
        note="Reals in the theorems; couplings mutual, none into a static cell, list index = local id (C08's invariant) are hypotheses (WF); contact model 2 is covered by the correspondence and the oracle only (its group update is a known finding: position advanced with the pre-update momentum); single-threaded runs.",
        technique="Coq proof (loop invariant over the processed prefix) of a hand-written Gallina model + bit-exact differential correspondence in six compile-time configurations + closed-form oracle",
        design="§6 C03"),
    "C04": dict(
        text="Theorems over R (ln/exp) about the Gallina transcription of update_target_volume, update_pressure, is_ready_to_divide, is_below_min_vol, the 3-sigma cap of initialize_random_properties, the initial target volume of the solver constructor and the removal filter: target volume = max(V_t + g*dt, V_min) and >= V_min over every history, pressure = min(-K ln(V/V_t), P_max), eligibility iff epithelial and V >= V_div, drawn values within mean +- 3 sigma (sigma = 0 and infinite mean included), removal iff below the minimum, initial pressure reproduced. The same Gallina functions at binary64 (log/exp from the shared glibc) recompute every (cell, iteration) step of real cells of all five classes and of the real solver from the implementation's own volume trajectory, bit-for-bit; draws are replayed from the wrapped clock with a search for draws beyond 3 sigma.",
        note="Reals in the theorems; log/exp enter as arguments (shared libm), not axioms; the first iteration of a daughter cell and the volume at the moment of removal are not observable without hooks (checked through the imposed scaling instead).",
        technique="Coq proof over R of a hand-written Gallina model + bit-exact recomputation of the recurrences along the implementation's trajectory + law oracle",
        design="§6 C04"),
    "C12": dict(
        text="Theorems over R about the Gallina transcription of the geometric queries of cell.cpp (Geometry.v) and the surface combinatorics (Mesh.v): reported volume = |sum det|/6; invariant under translation (closed surface: half-edge permutation argument), every orthogonal map, triangle permutation, cyclic shifts, node renumbering, cubic under scaling; area = sum of triangle areas with the same invariances (quadratic under scaling, unchanged by winding flips); centroid = area-weighted mean, equivariant under rigid motions; bounding box tight (all live nodes inside, every bound attained); cached normal = unit vector of the winding's cross product; after the orientation repair the signed volume is non-negative and only windings changed. The same Gallina functions at binary64, including the flood-fill orientation repair, are compared bit-for-bit with initialize_cell_properties and all getters on meshes and nine metamorphic variants each; an exact rational oracle and the metamorphic relations judge the implementation's outputs.",
        note="Reals in the theorems; 'enclosed volume' is the signed-volume formula (its meaning as a volume rests on the surface being closed and embedded); that the flood fill yields a globally consistent orientation is validated by the correspondence and the oracle, not proved; gte::SymmetricEigensolver3x3 (longest axis) is not modelled: judged by the rotation oracle on elongated cells only; the absolute-coordinate formulas lose (distance/size)^3*eps in relative accuracy, tolerances are scaled accordingly.",
        technique="Coq proof over R of a hand-written Gallina model + bit-exact differential correspondence + exact rational and metamorphic oracle",
        design="§6 C12"),
    "C02": dict(
        text="Theorems over R about the Gallina transcription of the force routines of cell.cpp (Forces.v): on every closed oriented surface with fresh cached normals the pressure forces have zero net force and zero net torque and the force on each node equals P times the exact derivative of the signed volume with respect to that node (the volume is affine in each node); tension/elasticity forces sum to zero for ANY cached normals and have zero torque for fresh ones, and the per-node vector is the Coquelicot derivative of the triangle area; the three gradients of an angle sum to zero, hence zero net angle-regularisation force; the four forces of every bending hinge sum to zero (cotangent identity through acos/tan, Rodrigues rotations at +-pi/2); the whole force field is translation invariant. The same Gallina term at binary64 (libm from the shared glibc) is compared bit-for-bit with the real routines, one term at a time and through apply_internal_forces; net force/torque, exact rational volume derivative, finite-difference area derivative and rigid-motion equivariance judge the implementation's per-node forces.",
        note="Reals in the theorems (pi = PI, exact trigonometry; Coq's total division covers the right-angle cotangent); not proved: zero net torque of the bending and angle-regularisation terms and rotation equivariance (judged by the oracle on every case); placements within 1e3 cell sizes of the origin (the absolute-coordinate signed volume used by the orientation repair loses (distance/size)^3*eps).",
        technique="Coq proof over R (closed-surface half-edge cancellation, Coquelicot derivative, trigonometric identities) of a hand-written Gallina model + bit-exact differential correspondence + momentum/energy-derivative oracle",
        design="§6 C02"),
    "C01": dict(
        text="Theorems about the operations of local_mesh_refiner as operations on the triangle list (MeshOps.v): edge split, edge collapse (under the link condition the code tests, plus distinct opposite nodes), edge swap (under the code's guards) and compaction each preserve the operational definition of a closed, consistently oriented surface with V-E+F=2 and no repeated node (ValidSurface: no directed half-edge twice, half-edge set closed under reversal, Euler count); hence every well-formed trace of operations does, for ANY node positions and momenta (positions only select which operations fire); an edge split leaves the signed volume unchanged exactly; the boolean oracle valid_surface_b is proved equivalent to ValidSurface. The real passes are tied to this model through a guarded trace hook: every refine_mesh pass / single operation of a generated history is replayed on the extracted operations and the resulting triangle set, labels and node states are compared with the store dump; the extracted proved oracle plus an independent Python recomputation of validity and of the complete bookkeeping (edge-face adjacency, counts, free slots, ids), cached normals vs winding and orientation judge every dump.",
        note="The slot-level store (free queues, std::set order, face ids) is not modelled: its coherence is recomputed on every dump instead of proved; the loop of refine_mesh is observed through the trace, not transcribed; 'genus 0' is the operational definition (the classification of surfaces is not proved; ValidSurface has no vertex-manifoldness clause, which is why the collapse theorem carries the distinct-apex guard: the unguarded statement is refuted in MeshOpsProofs.collapse_valid_false); positivity of the volume is judged only when the displacement history left a fat, outward cell.",
        technique="Coq proof (half-edge multiset permutations, Euler count) of hand-written abstract operations + trace-replay correspondence through a guarded hook + proved extracted oracle on every store dump",
        design="§6 C01"),
    "C08": dict(
        text="Theorems about the bookkeeping state machine of run_iteration / cell_divider::run (Population.v): the invariant 'list index = position, persistent ids unique and below the id counter' holds initially and is preserved by every simultaneous-division and removal event, hence over every history; ids are never reused and a removed or divided cell's id never reappears; a reference stored as a list index designates the intended cell when dereferenced; one division removes the mother's id, appends exactly two fresh ids and advances the counter by two; a failed division changes nothing. The model is fed the event sequence observed on the real solver (2-6 cells, divisions and removals forced at chosen iterations and list positions) and its ids/counter are compared after every iteration; the driver dereferences, bounds-checked, every stored reference (coupling partner cell/node, face owner, face-type index) after every iteration.",
        note="Single thread; couplings are checked at the end of an iteration except in the iteration that erased cells (they refer to the list as it was when used and are reset before their next use); one-directional couplings are by design; which vanished cells were mothers is inferred from the dump.",
        technique="Coq proof (invariant by induction over event histories) of a hand-written state-machine model + event-sequence correspondence with the real solver + bounds-checked dereference oracle",
        design="§6 C08"),
    "C11": dict(
        text="Theorems over R about the node-state side of the remeshing operations (MeshOps.v): every operation, hence every well-formed pass, conserves the total momentum (2/3-2/3-1/3 split, sum on merge); a node that an operation neither creates nor deletes keeps its position; every new node is the midpoint of the edge; the triangles a split produces carry the label of the triangle they divide; a split keeps area and volume term exactly; an operation whose guard holds splits only an edge longer than the maximum and collapses only an edge shorter than the minimum that satisfies the link condition. Every pass of generated histories is replayed from its trace (guarded hook) on the extracted model: positions, momenta, labels, triangles bit-for-bit, and the guard of each traced operation is evaluated bit-exactly in the model state at the moment it fired; total momentum, unmoved survivors, volume/area change only through collapses and swaps, the fixpoint on conforming meshes and return-or-throw within a time budget are judged on the implementation's dumps.",
        note="Termination and the fixpoint on conforming meshes are observed (time budget per history, exception path), not proved: the loop of refine_mesh is not transcribed and its guard grows with every split; the swap decision (triangle score from cached areas) is checked through the swap guard only.",
        technique="Coq proof over R of hand-written abstract operations + trace-replay correspondence through a guarded hook + conservation/selectivity oracle",
        design="§6 C11"),
    "C18": dict(
        text="The three flat readers of parameter_reader.cpp are ONE generic Gallina interpreter (Params.decode) over wiring tables that harness/translate_params.py REGENERATES from the C++ source on every run (Params_gen.v: per get_string_value call the tag, the field assigned, the conversion, the validation rules). Generic theorems, for every well-formed table, every XML section and every text semantics: a read succeeds with record r IFF r holds, per entry and in table order, the conversion of the text of the first child carrying the entry's tag and no rule is violated (so: exact value in the field, sign violations rejected); the result does not depend on the order of the tags in a section; a missing tag and an unconvertible text are rejected; INF in any case maps to infinity; cell types and face types come back in document order. Facts decided by computation over the regenerated tables: translation succeeded, tables well formed, every tag wired to the documented field with the documented conversion (INF exactly for max_inner_pressure and avg_division_volume), every validation rule tests the field its own tag was stored in with the documented sign constraint. The regenerated tables, extracted, are run against the real parameter_reader on generated XML files (all tag orders, every single omission, every single rule violation, unconvertible texts, duplicated tags), field by field and bit for bit; an independent statement of the documented wiring judges the implementation's outputs.",
        note="Model starts at the element tree (tinyxml2 not modelled); std::stod/std::stoi are arguments computed with the C library's strtod/strtol; read_biomechanical_parameters' two loops are transcribed by hand and tied by the correspondence; the strictness of each sign constraint is the operator the reader uses (the documentation has no table of constraints: damping coefficient and strengths reject negative values and accept zero although one message says 'strictly positive'); cell_type_parameters::initial_pressure_ has no tag (reported by the translator, outside the property: it ranges over the parameters the file has); 'the values govern the run they are named after' is carried by C03/C04/C11 taking these fields as their parameters, not re-proved here.",
        technique="Coq proof of a generic interpreter + model tables regenerated from the C++ source by a translator on every run (finite facts by vm_compute) + bit-exact differential correspondence of the regenerated tables with the real reader + documented-wiring oracle",
        design="§6 C18"),
}

PENDING_REASON = "not claimed yet: model, theorems and correspondence for this property are still being built (see DESIGN.md §9 staging); nothing is asserted about it"

def main():
    props = [json.loads(l)["id"] for l in open(os.path.join(VERIF, "properties.jsonl"))]
    checks = []
    for pid in props:
        if pid not in CLAIMED:
            continue
        c = CLAIMED[pid]
        checks.append(dict(
            property_id=pid,
            quick_cmd="./check %s --tier quick" % pid,
            thorough_cmd="./check %s --tier thorough" % pid,
            evidence_file="evidence/%s.json" % pid,
            replay_cmd_template="./check %s --replay {path}" % pid,
            engine="coq-model-correspondence",
            level_claimed=dict(category="proof", text=c["text"], design_ref=c["design"]),
            level_note=c["note"],
            technique=c["technique"]))
    na = [dict(property_id=p, reason=NA.get(p, PENDING_REASON)) for p in props if p not in CLAIMED]
    m = dict(
        version=1,
        setup_cmd="./setup.sh",
        hooks=dict(guard="SIMUCELL3D_VERIF",
                   enable="drivers are compiled from /repo's working tree with -DSIMUCELL3D_VERIF (one add-only hook: a weak trace callback for completed split/merge/swap operations in local_mesh_refiner; configuration, protected access and clock seeding are done from outside, see DESIGN.md §1)",
                   baseline_off_cmd="cmake -G Ninja -B /repo/_build -S /repo && cmake --build /repo/_build -j16 && ctest --test-dir /repo/_build -j8 --timeout 900",
                   source_commits=["02c4e89"], add_only=True),
        engines=[dict(name="coq-model-correspondence", path="check",
                      serves_properties=[c["property_id"] for c in checks],
                      kind_free_text="Coq 8.16 theorems about hand-written Gallina models; the same models extracted to OCaml (binary64) and run against C++ drivers built from /repo's working tree; property oracles on the implementation's outputs for the failing-input search")],
        checks=checks,
        not_applicable=na,
        notes="Known findings and fixed defects: known_findings.json. Fix commits in /repo start with 'fix:'.")
    with open(os.path.join(VERIF, "MANIFEST.json"), "w") as f:
        json.dump(m, f, indent=1)
    print("MANIFEST.json: %d checks, %d not claimed" % (len(checks), len(na)))

NA = {}

if __name__ == "__main__":
    main()
