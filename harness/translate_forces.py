#!/usr/bin/env python3
"""translate_forces.py — regenerates coq/Forces_gen.v from /repo's sources on every run: the force routines of a cell,
    cell::apply_pressure_on_surface                       the block executed for every used face
    cell::apply_surface_tension_and_membrane_elasticity   target area, elasticity factor, the block of a face
    cell::get_angle_gradient                              the whole function (guards returning zero gradients)
    cell::regularize_face_angles                          the whole function
    cell::apply_bending_forces                            the block executed for every edge (hinge)
    vec3::get_angle_with (both overloads), vec3::rotate_around_axis, almost_equal, cot
are walked statement by statement (declarations, re-assignments, if/else-if assignment chains, guarded `continue`/`return`,
the trailing add_force calls) and re-emitted over the abstract number type, the libm record and the face/hinge records of
Forces.v.  Properties_C02.v proves the generated functions equal to the hand-written Forces.v by reflexivity.  The loops around
the blocks (every used face, every edge of the edge set, the all_of test on the bending moduli) and the bindings of n1..n4 to
the nodes of the face / hinge are checked textually.  Energy accumulators must parse but are not part of the model.
Fails closed."""
import re, sys, os
sys.path.insert(0, os.path.dirname(os.path.abspath(__file__)))
from translate_columns import strip_comments
from translate_iteration import function_body
from translate_kernel import Tr
from blocktr import parse, split_statements, as_list


def flat(s):
    return re.sub(r"\s+", "", s)


class Walker:
    def __init__(self, env, subst, exit_term, out_nodes=None, skip=()):
        self.env = dict(env); self.subst = subst; self.exit = exit_term; self.out_nodes = out_nodes or {}; self.skip = skip
        self.declared = set()

    def E(self, s, want=None):
        g, t = parse(self.subst(s), self.env, want)
        return g, t

    def is_exit(self, node):
        l = as_list(node)
        return len(l) == 1 and l[0][0] == "stmt" and (l[0][1] in ("continue", "return") or re.fullmatch(r"return \{\s*vec3\(0\., 0\., 0\.\), vec3\(0\., 0\., 0\.\), vec3\(0\., 0\., 0\.\)\s*\}", l[0][1]))

    def assign_of(self, node):
        l = as_list(node)
        if len(l) == 1 and l[0][0] == "stmt":
            m = re.fullmatch(r"(\w+) = (.*)", l[0][1])
            if m and m.group(1) in self.env:
                return m.group(1), m.group(2)
        return None

    def chain(self, node):
        """if/else-if/else chain of assignments to one variable -> (var, Gallina expression)"""
        _, cond, then_, else_ = node
        a = self.assign_of(then_)
        if not a:
            return None
        var, e1 = a
        c, _ = self.E(cond, "b"); g1, t1 = self.E(e1, self.env[var])
        if else_ is None:
            if var not in self.declared:
                raise Tr("conditional assignment to %s before it has a value" % var)
            return var, "if %s then %s else %s" % (c, g1, var)
        l = as_list(else_)
        if len(l) == 1 and l[0][0] == "if":
            r = self.chain(l[0])
            if not r or r[0] != var:
                return None
            return var, "if %s then %s else %s" % (c, g1, r[1])
        a2 = self.assign_of(else_)
        if not a2 or a2[0] != var:
            return None
        g2, _ = self.E(a2[1], self.env[var])
        return var, "if %s then %s else %s" % (c, g1, g2)

    def walk(self, stmts, outputs=None):
        outputs = [] if outputs is None else outputs
        if not stmts:
            return self.finish(outputs)
        st = stmts[0]; rest = stmts[1:]
        if st[0] == "block":
            return self.walk(st[1] + rest, outputs)
        if st[0] == "if":
            if outputs:
                raise Tr("control flow after the first add_force")
            _, cond, then_, else_ = st
            if self.is_exit(then_) and else_ is None:
                c, _ = self.E(cond, "b")
                return "if %s then %s else\n  %s" % (c, self.exit, self.walk(rest))
            r = self.chain(st)
            if r:
                var, g = r
                self.declared.add(var)
                return "let %s := %s in\n  %s" % (var, g, self.walk(rest))
            if else_ is None and not rest:
                c, _ = self.E(cond, "b")
                return "if %s then\n  %s\n  else %s" % (c, self.walk(as_list(then_)), self.exit)
            raise Tr("if-statement not understood: if(%s)" % cond[:80])
        s = st[1]
        for rx in self.skip:
            m = re.fullmatch(rx, s)
            if m:
                if m.groups():
                    self.E(m.group(1))          # must parse
                return self.walk(rest, outputs)
        m = re.fullmatch(r"(n\d)\.add_force\((.*)\)", s)
        if m:
            if m.group(1) not in self.out_nodes:
                raise Tr("add_force on an unknown node " + m.group(1))
            g, _ = self.E(m.group(2), "v")
            return self.walk(rest, outputs + [(self.out_nodes[m.group(1)], g)])
        if outputs:
            raise Tr("statement after the first add_force: " + s[:80])
        m = re.fullmatch(r"(?:const |constexpr )?(double|vec3)(?:&)? (\w+) = (.*)", s) or re.fullmatch(r"const (vec3)& (\w+) = (.*)", s)
        if m:
            ty = "v" if m.group(1) == "vec3" else "d"
            g, _ = self.E(m.group(3), ty)
            self.env[m.group(2)] = ty; self.declared.add(m.group(2))
            return "let %s := %s in\n  %s" % (m.group(2), g, self.walk(rest))
        m = re.fullmatch(r"double (\w+)", s)
        if m:
            self.env[m.group(1)] = "d"
            return self.walk(rest)
        m = re.fullmatch(r"const vec3 (\w+)\((.*)\)", s)
        if m:
            g, _ = self.E("vec3(%s)" % m.group(2), "v")
            self.env[m.group(1)] = "v"; self.declared.add(m.group(1))
            return "let %s := %s in\n  %s" % (m.group(1), g, self.walk(rest))
        m = re.fullmatch(r"const auto \[(\w+), (\w+), (\w+)\] = get_angle_gradient\((.*)\)", s)
        if m:
            args = [x.strip() for x in m.group(4).split(",")]
            gs = [self.E(a, "v")[0] for a in args]
            if len(gs) != 3:
                raise Tr("get_angle_gradient: three arguments expected")
            for k in (1, 2, 3):
                self.env[m.group(k)] = "v"; self.declared.add(m.group(k))
            return "let '(%s, %s, %s) := angle_gradient N L dbl_eps dbl_min %s %s %s in\n  %s" % (m.group(1), m.group(2), m.group(3), gs[0], gs[1], gs[2], self.walk(rest))
        m = re.fullmatch(r"(\w+) = (.*)", s)
        if m and m.group(1) in self.env:
            g, _ = self.E(m.group(2), self.env[m.group(1)])
            self.declared.add(m.group(1))
            return "let %s := %s in\n  %s" % (m.group(1), g, self.walk(rest))
        m = re.fullmatch(r"return \{\s*(\w+)\s*,\s*(\w+)\s*,\s*(\w+)\s*\}", s)
        if m and not rest:
            return "(%s, %s, %s)" % m.groups()
        m = re.fullmatch(r"return (.*)", s)
        if m and not rest:
            g, _ = self.E(m.group(1))
            return g
        raise Tr("statement not understood: " + s[:100])

    def finish(self, outputs):
        if not outputs:
            raise Tr("a path ends without add_force / return")
        t = "F"
        for idx, g in outputs:
            t = "(add_force N %s %s %s)" % (t, idx, g)
        return t


def rx_sub(pairs):
    def f(s):
        for a, b in pairs:
            s = re.sub(a, b, s)
        return s
    return f


def loop_block(body, head_rx, what):
    m = re.search(head_rx, body)
    if not m:
        raise Tr(what + ": loop head not found")
    i = m.end() - 1; depth = 0
    for j in range(i, len(body)):
        if body[j] == "{":
            depth += 1
        elif body[j] == "}":
            depth -= 1
            if depth == 0:
                return body[i + 1:j], body[:m.start()], body[j + 1:]
    raise Tr(what + ": unbalanced")


FACE_NODES = ["node&n1=node_lst_[f.n1_id_]", "node&n2=node_lst_[f.n2_id_]", "node&n3=node_lst_[f.n3_id_]"]
FACE_PRE = "let '(a, b, c) := ff_tri f in\n  let p1 := pos_of N nodes a in let p2 := pos_of N nodes b in let p3 := pos_of N nodes c in\n  "


def take_bindings(stmts, wanted, what):
    """remove the statements whose flat text is in `wanted` (each must occur once); returns the others"""
    seen = set(); out = []
    for st in stmts:
        if st[0] == "stmt" and flat(st[1]) in wanted:
            if flat(st[1]) in seen:
                raise Tr(what + ": binding repeated: " + st[1])
            seen.add(flat(st[1])); continue
        out.append(st)
    if seen != set(wanted):
        raise Tr(what + ": bindings missing: %s" % sorted(set(wanted) - seen))
    return out


def generate(repo):
    err = None; defs = []
    try:
        cpp = strip_comments(open(os.path.join(repo, "src", "mesh", "cell.cpp")).read())
        vcpp = strip_comments(open(os.path.join(repo, "src", "math_modules", "vec3.cpp")).read())
        util = strip_comments(open(os.path.join(repo, "include", "utils.hpp")).read())
        # ---------------- helpers of vec3 / utils
        for overload, name, argrx in (("lvalue", "angle_with_nan_gen", r"const\s+vec3\s*&\s*v"), ("rvalue", "angle_with_gen", r"vec3\s*&&\s*v")):
            b = function_body(vcpp, r"double\s+vec3::get_angle_with\s*\(\s*" + argrx + r"\s*\)\s*const\s*\{")
            sub = rx_sub([(r"this->norm\(\)", "u.norm()"), (r"(?<![\w.>])dot\(v\)", "u.dot(v)")])
            w = Walker({"u": "v", "v": "v"}, sub, "F")
            defs.append("Definition %s {T : Type} (N : Num T) (L : Libm T) (u v : vec3 T) : T :=\n  %s." % (name, w.walk(split_statements(b))))
        b = function_body(vcpp, r"vec3\s+vec3::rotate_around_axis\s*\(\s*const\s+vec3\s*&\s*axis\s*,\s*const\s+double\s+angle\s*\)\s*const\s*\{")
        sub = rx_sub([(r"\*\s*this\b", "v")])
        w = Walker({"v": "v", "axis": "v", "angle": "d"}, sub, "F")
        defs.append("Definition rotate_around_axis_gen {T : Type} (N : Num T) (L : Libm T) (v axis : vec3 T) (angle : T) : vec3 T :=\n  %s." % w.walk(split_statements(b)))
        m = re.search(r"inline\s+almost_equal\s*\(\s*const\s+T\s+x\s*,\s*const\s+T\s+y\s*,\s*const\s+int\s+ulp\s*=\s*2\s*\)\s*\{\s*return\s+([^;]*);", util)
        if not m:
            raise Tr("almost_equal: signature / default ulp = 2")
        sub = rx_sub([(r"std::numeric_limits<T>::epsilon\(\)", "dbl_eps"), (r"std::numeric_limits<T>::min\(\)", "dbl_min"), (r"\bulp\b", "2")])
        g, _ = parse(sub(m.group(1)), {"x": "d", "y": "d", "dbl_eps": "d", "dbl_min": "d"}, "b")
        defs.append("Definition almost_equal_gen {T : Type} (N : Num T) (dbl_eps dbl_min x y : T) : bool :=\n  %s." % g)
        m = re.search(r"inline\s+double\s+cot\s*\(\s*const\s+double\s+angle\s*\)\s*\{\s*return\s+([^;]*);\s*\}", util)
        if not m:
            raise Tr("cot not found")
        g, _ = parse(m.group(1), {"angle": "d"}, "d")
        defs.append("Definition cot_gen {T : Type} (N : Num T) (L : Libm T) (angle : T) : T :=\n  %s." % g)
        # ---------------- pressure
        b = function_body(cpp, r"void\s+cell::apply_pressure_on_surface\s*\(\s*\)\s*noexcept\s*\{")
        blk, before, after = loop_block(b, r"for\s*\(\s*face\s*&\s*f\s*:\s*face_lst_\s*\)\s*\{\s*if\s*\(\s*f\.is_used\(\)\s*\)\s*\{", "apply_pressure_on_surface")
        if flat(before) != "" or flat(after) != "}":
            raise Tr("apply_pressure_on_surface: statements outside the loop over the used faces")
        st = take_bindings(split_statements(blk), FACE_NODES, "apply_pressure_on_surface")
        sub = rx_sub([(r"f\.get_normal\(\)", "ff_normal_f"), (r"f\.get_area\(\)", "ff_area_f")])
        w = Walker({"ff_normal_f": "v", "ff_area_f": "d", "pressure_": "d"}, sub, "F", {"n1": "a", "n2": "b", "n3": "c"})
        defs.append("Definition pressure_face_gen {T : Type} (N : Num T) (pressure_ : T) (F : list (vec3 T)) (f : @fface T) : list (vec3 T) :=\n  let '(a, b, c) := ff_tri f in let ff_normal_f := ff_normal f in let ff_area_f := ff_area f in\n  %s." % w.walk(st))
        # ---------------- surface tension and membrane elasticity
        b = function_body(cpp, r"void\s+cell::apply_surface_tension_and_membrane_elasticity\s*\(\s*\)\s*noexcept\s*\{")
        blk, before, after = loop_block(b, r"for\s*\(\s*face\s*&\s*f\s*:\s*face_lst_\s*\)\s*\{\s*if\s*\(\s*f\.is_used\(\)\s*\)\s*\{", "apply_surface_tension")
        if flat(after) != "}":
            raise Tr("apply_surface_tension: statements after the loop")
        bs = [x[1] for x in split_statements(before) if x[0] == "stmt"]
        ctsub = rx_sub([(r"cell_type_->target_isoperimetric_ratio_", "iso"), (r"cell_type_->area_elasticity_modulus_", "ka"), (r"\bvolume_\b", "V"), (r"\barea_\b", "A"), (r"\btarget_area_\b", "A0")])
        m = re.fullmatch(r"target_area_ = (.*)", bs[0])
        if not m:
            raise Tr("apply_surface_tension: target area")
        g, _ = parse(ctsub(m.group(1)), {"iso": "d", "V": "d"}, "d")
        defs.append("Definition target_area_gen {T : Type} (N : Num T) (L : Libm T) (iso V : T) : T :=\n  %s." % g)
        m = re.fullmatch(r"const double membrane_elasticity_factor = (.*)", bs[1])
        if not m:
            raise Tr("apply_surface_tension: elasticity factor")
        outer = flat(m.group(1))
        g, _ = parse(ctsub(m.group(1)), {"ka": "d", "A0": "d", "A": "d"}, "d")
        defs.append("Definition elasticity_factor_gen {T : Type} (N : Num T) (ka A0 A : T) : T :=\n  %s." % g)
        if [flat(x) for x in bs[2:]] != ["membrane_elasticity_energy_=0.", "surface_tension_energy_=0."]:
            raise Tr("apply_surface_tension: statements before the loop: %s" % bs[2:])
        st = take_bindings(split_statements(blk), FACE_NODES + ["constface_type_parameters&face_type=cell_type_->face_types_[f.type_id_]"], "apply_surface_tension")
        # the factor is recomputed per face with the same expression
        inner = [x for x in st if x[0] == "stmt" and x[1].startswith("const double membrane_elasticity_factor")]
        if len(inner) != 1 or flat(inner[0][1].split("=", 1)[1]) != outer:
            raise Tr("apply_surface_tension: the per-face elasticity factor differs from the one computed before the loop")
        sub = rx_sub([(r"f\.get_normal\(\)", "ff_normal_f"), (r"f\.get_area\(\)", "ff_area_f"), (r"\bn([123])\.pos_", r"p\1"), (r"face_type\.surface_tension_", "tension"),
                      (r"cell_type_->area_elasticity_modulus_", "ka"), (r"\barea_\b", "A"), (r"\btarget_area_\b", "A0")])
        w = Walker({"ff_normal_f": "v", "ff_area_f": "d", "p1": "v", "p2": "v", "p3": "v", "tension": "d", "ka": "d", "A": "d", "A0": "d"}, sub, "F", {"n1": "a", "n2": "b", "n3": "c"},
                   skip=(r"surface_tension_energy_ \+= (.*)",))
        defs.append("Definition tension_face_gen {T : Type} (N : Num T) (nodes : list (vec3 T)) (tensions : list T) (ka A0 A : T) (F : list (vec3 T)) (f : @fface T) : list (vec3 T) :=\n  let ff_normal_f := ff_normal f in let ff_area_f := ff_area f in let tension := nth (ff_type f) tensions (nzero N) in\n  %s." %
                    insert_pre(w.walk(st), FACE_PRE))
        # ---------------- angle gradient
        b = function_body(cpp, r"std::array<vec3,\s*3>\s+cell::get_angle_gradient\s*\(\s*const\s+vec3\s*&\s*i\s*,\s*const\s+vec3\s*&\s*j\s*,\s*const\s+vec3\s*&\s*k\s*\)\s*noexcept\s*\{")
        w = Walker({"i": "v", "j": "v", "k": "v"}, lambda s: s, "(zero3 N)")
        defs.append("Definition angle_gradient_gen {T : Type} (N : Num T) (L : Libm T) (dbl_eps dbl_min : T) (i j k : vec3 T) : vec3 T * vec3 T * vec3 T :=\n  %s." % w.walk(split_statements(b)))
        # ---------------- regularize_face_angles
        b = function_body(cpp, r"void\s+cell::regularize_face_angles\s*\(\s*const\s+face\s*&\s*f\s*\)\s*noexcept\s*\{")
        st = take_bindings(split_statements(b), ["constauto[n1_id,n2_id,n3_id]=f.get_node_ids()", "node&n1=node_lst_[n1_id]", "node&n2=node_lst_[n2_id]", "node&n3=node_lst_[n3_id]"], "regularize_face_angles")
        sub = rx_sub([(r"cell_type_->angle_regularization_factor_", "kreg"), (r"\bn([123])\.pos\(\)", r"p\1"), (r"\bn([123])\b(?!\.)", r"p\1")])
        w = Walker({"kreg": "d", "p1": "v", "p2": "v", "p3": "v"}, sub, "F", {"n1": "a", "n2": "b", "n3": "c"})
        defs.append("Definition anglereg_face_gen {T : Type} (N : Num T) (L : Libm T) (pi dbl_eps dbl_min : T) (nodes : list (vec3 T)) (kreg : T) (F : list (vec3 T)) (f : @fface T) : list (vec3 T) :=\n  %s." %
                    insert_pre(w.walk(st), FACE_PRE))
        lam = flat(function_body(cpp, r"void\s+cell::regularize_all_face_angles\s*\(\s*\)\s*noexcept\s*\{"))
        if lam != "std::for_each(face_lst_.begin(),face_lst_.end(),[&](constface&f)->void{if(f.is_used())regularize_face_angles(f);});":
            raise Tr("regularize_all_face_angles: not a loop over the used faces")
        # ---------------- bending
        b = function_body(cpp, r"void\s+cell::apply_bending_forces\s*\(\s*\)\s*noexcept\s*\{")
        blk, before, after = loop_block(b, r"for\s*\(\s*const\s+edge\s*&\s*e\s*:\s*edge_set_\s*\)\s*\{", "apply_bending_forces")
        if flat(after) != "":
            raise Tr("apply_bending_forces: statements after the loop over the edges")
        bs = split_statements(before)
        fb = [flat(x[1]) if x[0] == "stmt" else "IF" for x in bs]
        if len(bs) != 3 or not fb[0].startswith("constexprdoublemax_angle_threshold=") or bs[1][0] != "if" or fb[2] != "bending_energy_=0.":
            raise Tr("apply_bending_forces: statements before the loop: %s" % fb)
        if flat(bs[1][1]) != "std::all_of(cell_type_->face_types_.begin(),cell_type_->face_types_.end(),[](constface_type_parameters&f){returnf.bending_modulus_==0.;})" or not (as_list(bs[1][2])[0][1] == "return" and bs[1][3] is None):
            raise Tr("apply_bending_forces: the early return is not `all bending moduli are zero`")
        thr = bs[0][1].split("=", 1)[1]
        st = take_bindings(split_statements(blk), ["node&n1=node_lst_[e.n1()]", "node&n2=node_lst_[e.n2()]", "face&f1=face_lst_[e.f1()]", "face&f2=face_lst_[e.f2()]",
                                                   "constface_type_parameters&face_type_1=cell_type_->face_types_[f1.type_id_]", "constface_type_parameters&face_type_2=cell_type_->face_types_[f2.type_id_]",
                                                   "constunsignedn3_id=f1.get_opposite_node(e.n1(),e.n2())", "constunsignedn4_id=f2.get_opposite_node(e.n1(),e.n2())",
                                                   "node&n3=node_lst_[n3_id]", "node&n4=node_lst_[n4_id]"], "apply_bending_forces")
        sub = rx_sub([(r"face_type_([12])\.bending_modulus_", r"bend\1"), (r"f([12])\.get_area\(\)", r"area\1"), (r"f([12])\.get_normal\(\)", r"nrm\1"),
                      (r"\bn([1234])\b(?!\.)", r"x\1")])
        env = {"bend1": "d", "bend2": "d", "area1": "d", "area2": "d", "nrm1": "v", "nrm2": "v", "x1": "v", "x2": "v", "x3": "v", "x4": "v"}
        g_thr, _ = parse(thr, {}, "d")
        env["max_angle_threshold"] = "d"
        w = Walker(env, sub, "F", {"n1": "(h_n1 h)", "n2": "(h_n2 h)", "n3": "n3", "n4": "n4"}, skip=(r"bending_energy_ \+= (.*)",))
        body_g = w.walk(st)
        defs.append("Definition bending_hinge_gen {T : Type} (N : Num T) (L : Libm T) (pi : T) (nodes : list (vec3 T)) (bends : list T) (faces : list (@fface T)) (F : list (vec3 T)) (h : hinge) : list (vec3 T) :=\n"
                    "  let max_angle_threshold := %s in\n"
                    "  let f1 := nth (h_f1 h) faces (dface N) in let f2 := nth (h_f2 h) faces (dface N) in\n"
                    "  let bend1 := nth (ff_type f1) bends (nzero N) in let bend2 := nth (ff_type f2) bends (nzero N) in\n"
                    "  let area1 := ff_area f1 in let area2 := ff_area f2 in let nrm1 := ff_normal f1 in let nrm2 := ff_normal f2 in\n"
                    "  let n3 := opposite (ff_tri f1) (h_n1 h) (h_n2 h) in let n4 := opposite (ff_tri f2) (h_n1 h) (h_n2 h) in\n"
                    "  let x1 := pos_of N nodes (h_n1 h) in let x2 := pos_of N nodes (h_n2 h) in let x3 := pos_of N nodes n3 in let x4 := pos_of N nodes n4 in\n  %s." % (g_thr, body_g))
        # get_opposite_node: the node of the face that is neither of the two
        fcpp = strip_comments(open(os.path.join(repo, "src", "mesh", "face.cpp")).read())
        ob = flat(function_body(fcpp, r"unsigned\s+face::get_opposite_node\s*\([^)]*\)\s*const\s*noexcept\s*\{"))
        if "for(constautonode_id:get_node_ids()){if(node_id!=n1&&node_id!=n2){opposite_node_id=node_id;break;}}" not in ob:
            raise Tr("face::get_opposite_node: not the first node that differs from both")
    except Exception as e:      # noqa
        err = str(e)
    L = ["(* Forces_gen.v — GENERATED by harness/translate_forces.py from /repo/src/mesh/cell.cpp, src/math_modules/vec3.cpp and include/utils.hpp", "   on every run.  Do not edit. *)",
         "From Coq Require Import NArith ZArith Bool List.", "From SC Require Import Num Vec3 Mesh Geometry Forces.", "Local Open Scope bool_scope.", ""]
    if err:
        L.append("(* translation failed: %s *)" % err.replace("*)", "* )"))
        L.append("Definition forces_translation_ok : bool := false.")
    else:
        L.append("Definition forces_translation_ok : bool := true.")
        L += defs
    return "\n".join(L) + "\n", err


def insert_pre(term, pre):
    """put the face prelude after the leading zero-area / zero-factor guard, where the hand model has it: the guard does not use it"""
    m = re.match(r"(if [^\n]* then F else\n  )(.*)", term, re.S)
    if m:
        return m.group(1) + pre + m.group(2)
    return pre + term


if __name__ == "__main__":
    repo = sys.argv[1] if len(sys.argv) > 1 else "/repo"
    out = sys.argv[2] if len(sys.argv) > 2 else os.path.join(os.path.dirname(os.path.dirname(os.path.abspath(__file__))), "coq", "Forces_gen.v")
    txt, err = generate(repo)
    if err and "-v" in sys.argv:
        print("translation failed:", err)
    old = open(out).read() if os.path.exists(out) else None
    if old != txt:
        open(out, "w").write(txt)
