#!/usr/bin/env python3
"""finish_mutant.py <worktree> <seeded-name> <property-id> "<what it needs to manifest>": confirm an agent's seeded change
(confirm_mutant.sh), run the property's check against it in a scratch worktree, write seeded/<name>/meta.json, and
remove the agent's worktree.  With --existing only (re)runs the check and writes meta.json for a stored mutant."""
import sys, os, json, subprocess
V = "/verif"
def sh(cmd, timeout=7200):
    return subprocess.run(cmd, shell=True, capture_output=True, text=True, timeout=timeout)
def main():
    a = sys.argv[1:]
    existing = "--existing" in a
    a = [x for x in a if x != "--existing"]
    wt, name, pid = a[0], a[1], a[2]
    needs = a[3] if len(a) > 3 else ""
    d = os.path.join(V, "seeded", name)
    confirmed = None
    if not existing:
        r = sh("bash %s/harness/confirm_mutant.sh %s %s" % (V, wt, name))
        confirmed = "CONFIRMED " + name in r.stdout
        print(r.stdout.strip()[-200:])
    else:
        confirmed = "CONFIRMED" in open(os.path.join(d, "confirm.log")).read()
    r = sh("%s/harness/run_seeded.sh %s %s" % (V, name, pid))
    out = r.stdout.strip()
    if "PATCH-DOES-NOT-APPLY" in out:
        print(name, "PATCH-DOES-NOT-APPLY to the current /repo HEAD"); return
    detected = "VIOLATION" in out
    with_input = detected and any(("VIOLATION" in l and "no-failing-input-found" not in l) for l in out.split("\n"))
    meta = dict(property=pid, breaks=open(os.path.join(d, "README.md")).read().split("\n")[0].lstrip("# ") if os.path.exists(os.path.join(d, "README.md")) else "",
                needs_to_manifest=needs or "see README.md",
                confirmed=dict(tests_pass_with_change=confirmed, demo_fails_with_change=confirmed, demo_passes_without_change=confirmed, how="harness/confirm_mutant.sh in the agent's scratch worktree (build + 126 tests, run_demo.sh with and without the change); log in confirm.log"),
                check_run=dict(cmd="harness/run_seeded.sh %s %s  (VERIF_REPO=<scratch worktree with patch.diff applied> ./check %s --tier quick)" % (name, pid, pid),
                               detected=detected, with_failing_input=with_input, verdict_lines=out.split("\n")[:6]))
    json.dump(meta, open(os.path.join(d, "meta.json"), "w"), indent=1)
    print(name, "confirmed" if confirmed else "NOT-CONFIRMED", "| check:", "DETECTED" + (" with failing input" if with_input else " (no failing input)") if detected else "MISSED")
    if not existing and wt.startswith("/tmp/"):
        sh("rm -rf /tmp/demo_%s_obj %s/_cbuild; git -C /repo worktree remove --force %s" % (pid, wt, wt))
main()
