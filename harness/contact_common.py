"""contact_common.py — shared by the C06/C07 checks: tissue generation for the contact phase, parsing of
drv_contact / the model's output, comparison."""
import math, random
import vlib, tissue
from vlib import hx, unhx

R = 5e-6


def types_for(classes, rep=1e9, adh=1e9, maxcurv=2.5e7):
    cts = []
    for cl in classes:
        fts = [tissue.face_type(0, 1e-3, adh, rep), tissue.face_type(1, 8e-4, adh, rep * 0.5), tissue.face_type(2, 1e-3, 0.0, rep * 2)]
        cts.append(tissue.cell_type(gid=cl, K=2.5e3, Pmax=2.5e3, ka=0.0, isoratio=250.0, maxcurv=maxcurv, fts=fts))
    return cts


def sphere(level, radius, centre, rng=None, rot=True):
    n, f = tissue.icosphere(level)
    M = tissue.rnd_rot(rng) if (rng is not None and rot) else None
    return tissue.transform(n, M, centre, (radius, radius, radius)), f


def gen_tissue(rng):
    """a generated arrangement: list of (class, nodes, faces), parameters, description"""
    kind = rng.choice(["row", "row", "cluster", "overlap", "nested", "ecm", "apart", "dyadic"])
    cells = []; classes = []
    lvl = rng.choice([1, 1, 1, 2])
    edge = 2 * R * math.sin(math.radians(31.7)) / (2 ** lvl)          # approximate edge length of the icosphere
    cut = edge * rng.choice([0.1, 0.3, 0.5, 1.0, 2.0])
    lmin = edge * rng.choice([0.5, 0.8, 1.0, 0.25, 0.1])      # also faces much longer than the minimum edge length: their padded boxes span three and more voxels per axis
    if kind in ("row", "cluster", "overlap", "apart"):
        nc = rng.randint(2, 6 if lvl == 1 else 3)
        gap = {"row": rng.choice([-0.1 * R, -0.02 * R, 0.0, 0.3 * cut, 0.9 * cut]), "cluster": rng.choice([-0.05 * R, 0.3 * cut]), "overlap": -rng.choice([0.05, 0.2, 0.6]) * R, "apart": rng.choice([1.01, 3.0]) * cut}[kind]
        for i in range(nc):
            if kind == "cluster":
                c = ((i % 2) * (2 * R + gap), ((i // 2) % 2) * (2 * R + gap), (i // 4) * (2 * R + gap))
            else:
                c = (i * (2 * R + gap), (i % 2) * 0.2 * R, 0.0)
            n, f = sphere(lvl, R, c, rng)
            cells.append((n, f)); classes.append(rng.choice([0, 0, 0, 0, 2, 4]))
    elif kind == "nested":
        n, f = sphere(lvl, R, (0, 0, 0), rng); cells.append((n, f)); classes.append(0)
        r2 = R * rng.choice([0.5, 0.9, 0.98, 1.02])
        n, f = sphere(lvl, r2, (rng.uniform(-0.05, 0.05) * R, 0, 0), rng); cells.append((n, f)); classes.append(3)
    elif kind == "ecm":
        n, f = sphere(lvl, R * 1.0, (0, 0, 0), rng); cells.append((n, f)); classes.append(1)
        r2 = R * rng.choice([0.9, 0.97, 1.0, 1.03])
        n, f = sphere(lvl, r2, (0, 0, 0), rng); cells.append((n, f)); classes.append(0)
        if rng.random() < 0.5:
            n, f = sphere(lvl, R, (2 * R + 0.3 * cut, 0, 0), rng); cells.append((n, f)); classes.append(0)
    else:  # dyadic: cubes with dyadic coordinates; the padded global extent is an exact multiple of the voxel size
        lmin = 0.5; cut = 0.25                           # voxel = 3*0.5 + 2*0.25 = 2
        nb = rng.choice([1, 2, 3])
        for i in range(nb):
            n, f = tissue.cube()
            s = 0.625
            n = [[(x + 1) * s + (1.5 * i if k == 0 else 0.0) for k, x in enumerate(p)] for p in n]
            cells.append((n, f)); classes.append(rng.choice([0, 2]))
        # extent in x: 1.25 + 1.5*(nb-1) + 0.25 (max pad) + 0.25 + 0.25 (min pads): 2.0 for nb = 1, 3.5, 5.0 ...
    # placement of the whole tissue
    place = rng.choice(["origin", "straddle", "far", "far", "negative"]) if kind != "dyadic" else rng.choice(["origin", "far1024", "far1024", "neg4096"])
    scale = R if kind != "dyadic" else 1.0
    shift = {"origin": (0, 0, 0), "straddle": (-R, -0.5 * R, 0.3 * R), "far": tuple(rng.choice([1e2, 1e3, 1e4]) * R * rng.choice([-1, 1]) for _ in range(3)),
             "negative": (-50 * R, -70 * R, -20 * R), "far1024": (1024.0, 2048.0, 1024.0), "neg4096": (-4096.0, 1024.0, -512.0)}[place]
    cells = [([[p[k] + shift[k] for k in range(3)] for p in n], f) for n, f in cells]
    cut_adh = cut * rng.choice([1.0, 1.0, 0.5]); cut_rep = cut * rng.choice([1.0, 1.0, 0.7])
    ids = list(range(len(cells)))
    if rng.random() < 0.6:
        ids = [rng.randrange(3, 40) + 7 * i * 6 for i in range(len(cells))]
        rng.shuffle(ids)
    # some tissues go through a few edge merges first: their cells then hold free node and face slots (a face's position in its
    # cell is no longer its rank among the used faces)
    pm = rng.choice([1, 2, 4]) if (kind in ("row", "cluster", "overlap") and rng.random() < 0.4) else 0
    return dict(kind=kind, place=place, classes=classes, cells=cells, lmin=lmin, cut_adh=cut_adh, cut_rep=cut_rep, ids=ids, level=lvl, pre_merges=pm)


def gen_lattice_pair(rng, tie_two=False):
    """two or three facing epithelial cubes with dyadic coordinates: node-to-vertex distances tie bit for bit (the closest-vertex
    choice, the coupling decision and the closest-point regions all sit on their boundaries)"""
    nb = rng.choice([2, 2, 3])
    gap = rng.choice([0.125, 0.25, 0.0625])
    s_ = 0.5
    cells = []
    for i in range(nb):
        n, f = tissue.cube()
        # the second cube is optionally shifted by half an edge: its nodes then face edge midpoints (ties between two vertices)
        sh = (0.5 if tie_two else rng.choice([0.0, 0.5, 0.25])) if i % 2 else 0.0
        n = [[(p[0] + 1) * s_ + i * (1.0 + gap), (p[1] + 1) * s_ + sh, (p[2] + 1) * s_ + (sh if rng.random() < 0.5 else 0.0)] for p in n]
        # which vertex of a triangle comes first decides which branch of a tie is taken: every cyclic rotation
        f = [tuple(t[(k + r_) % 3] for k in range(3)) for t in f for r_ in [rng.randrange(3)]]
        cells.append((n, f))
    cut = rng.choice([0.25, 0.5, 1.0]) if not tie_two else rng.choice([0.75, 1.0, 1.0625])      # tie_two: the two tied nodes inside the cut-off, the third beyond it
    return dict(kind="lattice", cells=cells, classes=[0] * nb, ids=list(range(nb)), lmin=0.5, cut_adh=cut, cut_rep=cut, place="origin", maxcurv=1e30)


def case_line(c):
    cts = types_for(c["classes"], maxcurv=c.get("maxcurv", 2.5e7))
    p = tissue.params(dt=1e-7, damping=5e-10, T=1.0, S=1.0, lmin=c["lmin"], cut_adh=c["cut_adh"], cut_rep=c["cut_rep"], swap=0)
    cells = [(i, n, f) for i, (n, f) in enumerate(c["cells"])]
    if c.get("pre_merges"):
        return tissue.fmt_tissue(p, cts, cells) + " CTM %d %d " % (c.get("threads", 1), c["pre_merges"]) + " ".join(str(i) for i in c["ids"])
    return tissue.fmt_tissue(p, cts, cells) + " CT %d " % c.get("threads", 1) + " ".join(str(i) for i in c["ids"])


def parse_state(sec):
    """OUT/ALL section -> list of cells, each a list of node tuples (pos, force, cpl, sqd)"""
    t = sec.split()
    if len(t) < 2 or not t[1].isdigit():
        return None
    nc = int(t[1]); i = 2; cells = []
    for _ in range(nc):
        assert t[i] == "C"; nn = int(t[i + 1]); i += 2; nodes = []
        for _ in range(nn):
            pos = tuple(unhx(x) for x in t[i:i + 3]); frc = tuple(unhx(x) for x in t[i + 3:i + 6])
            cpl = None if t[i + 6] == "-" else (int(t[i + 6]), int(t[i + 7]))
            sqd = None if t[i + 8] == "-" else unhx(t[i + 8])
            nodes.append((pos, frc, cpl, sqd)); i += 9
        cells.append(nodes)
    return cells


def parse_grid(sec):
    head, _, body = sec.partition("|")
    h = head.split()
    if len(h) < 9:
        return None
    dims = (int(h[1]), int(h[2]), int(h[3]), unhx(h[4]), unhx(h[5]), unhx(h[6]), unhx(h[7]), int(h[8]))
    vox = {}
    for item in body.split():
        v, ids = item.split(":")
        vox[int(v)] = [int(x) for x in ids.split(",") if x != ""]
    return dims, vox


def parse_in(sec):
    """IN section -> per cell dict(id, local, type, nodes [(used,pos,normal,curv,force)], faces [(a,b,c,normal,area,rep,adh)])"""
    t = sec.split(); nc = int(t[1]); i = 2; cells = []
    for _ in range(nc):
        assert t[i] == "C"
        cid, loc, ty = int(t[i + 1]), int(t[i + 2]), int(t[i + 3]); mc = unhx(t[i + 4]); nn = int(t[i + 5]); i += 6
        nodes = []
        for _ in range(nn):
            used = int(t[i]); v = [unhx(x) for x in t[i + 1:i + 11]]; i += 11
            nodes.append((used, tuple(v[0:3]), tuple(v[3:6]), v[6], tuple(v[7:10])))
        nf = int(t[i]); i += 1; faces = []
        for _ in range(nf):
            a, b, c_ = int(t[i]), int(t[i + 1]), int(t[i + 2]); v = [unhx(x) for x in t[i + 3:i + 9]]; i += 9
            faces.append((a, b, c_, tuple(v[0:3]), v[3], v[4], v[5]))
        cells.append(dict(id=cid, local=loc, type=ty, maxcurv=mc, nodes=nodes, faces=faces))
    return cells


def same_state(a, b):
    """bit-exact comparison of two parsed states; returns None or a description of the first difference"""
    if a is None or b is None:
        return "one side has no result"
    if len(a) != len(b):
        return "number of cells"
    for ci, (ca, cb) in enumerate(zip(a, b)):
        if len(ca) != len(cb):
            return "number of nodes of cell %d" % ci
        for ni, (x, y) in enumerate(zip(ca, cb)):
            for k in range(3):
                if not vlib.same_bits(x[0][k], y[0][k]):
                    return "position of node %d of cell %d (%r vs %r)" % (ni, ci, x[0], y[0])
                if not vlib.same_bits(x[1][k], y[1][k]):
                    return "force on node %d of cell %d (%r vs %r)" % (ni, ci, x[1], y[1])
            if x[2] != y[2]:
                return "coupling of node %d of cell %d (%r vs %r)" % (ni, ci, x[2], y[2])
            if (x[3] is None) != (y[3] is None) or (x[3] is not None and not vlib.same_bits(x[3], y[3])):
                return "closest-node distance of node %d of cell %d" % (ni, ci)
    return None


def model_line(c, k_sec, in_sec):
    k = k_sec.split()
    return "%s %s %s %s %s %s" % (hx(c["lmin"]), hx(c["cut_adh"]), hx(c["cut_rep"]), k[1], k[2], " ".join(in_sec.split()[1:]))


def run_cases(cases, contact=1, san=False):
    impl = vlib.build_driver("contact", contact=contact, san=san)
    outs, crashes = vlib.run_lines_resilient([impl], [case_line(c) for c in cases], timeout=1800, env={"OMP_NUM_THREADS": "1"})
    return outs, crashes


def run_model(lines):
    model = vlib.ocaml_model()
    return vlib.run([model, "contact"], input="\n".join(lines) + "\n", check=True, timeout=1800).stdout.strip().split("\n")
