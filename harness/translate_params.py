#!/usr/bin/env python3
"""translate_params.py — regenerates coq/Params_gen.v from /repo's src/io/parameter_reader.cpp and
include/custom_structures.hpp on every run.

For each of the three flat readers it produces the wiring table the generic interpreter Params.decode runs:
one entry per get_string_value call, in source order: (tag, field assigned, conversion, validation rules that
follow the assignment).  Only the statement shapes listed below are understood; anything else makes the
translation fail (translation_ok = false in the generated file, the reason in a comment), which the check reports
as a correspondence that no longer holds.  The translator is part of the trusted base; it is validated on every
run by the differential run of the generated tables (extracted) against the real parameter_reader.
"""
import re, sys, os

FUNCS = [("num_table", "read_numerical_parameters"), ("cell_table", "read_cell_type_parameters"), ("face_table", "read_face_type_parameters")]


def strip_comments(s):
    s = re.sub(r"/\*.*?\*/", " ", s, flags=re.S)
    out = []
    for line in s.split("\n"):
        # remove // comments that are not inside a string literal
        res = []; instr = False; i = 0
        while i < len(line):
            ch = line[i]
            if ch == '"' and (i == 0 or line[i - 1] != "\\"):
                instr = not instr
            if not instr and line.startswith("//", i):
                break
            res.append(ch); i += 1
        out.append("".join(res))
    return "\n".join(out)


def function_body(src, name):
    m = re.search(r"parameter_reader::%s\s*\(" % re.escape(name), src)
    if not m:
        raise ValueError("function %s not found" % name)
    i = src.index("{", m.end())
    # the parameter list may contain no braces; find the matching close
    depth = 0; j = i; instr = False
    while j < len(src):
        ch = src[j]
        if ch == '"' and src[j - 1] != "\\":
            instr = not instr
        elif not instr:
            if ch == "{":
                depth += 1
            elif ch == "}":
                depth -= 1
                if depth == 0:
                    return src[i + 1:j]
        j += 1
    raise ValueError("unbalanced braces in %s" % name)


def statements(body):
    """split at ';' outside strings/parentheses; an `if(...) {throw ...;}` / `if(...) throw ...;` is one statement"""
    out = []; cur = []; instr = False; par = 0; br = 0
    for k, ch in enumerate(body):
        if ch == '"' and body[k - 1] != "\\":
            instr = not instr
        if not instr:
            if ch == "(":
                par += 1
            elif ch == ")":
                par -= 1
            elif ch == "{":
                br += 1
            elif ch == "}":
                br -= 1
                if br == 0:
                    cur.append(ch); out.append("".join(cur)); cur = []; continue
            elif ch == ";" and par == 0 and br == 0:
                out.append("".join(cur)); cur = []; continue
        cur.append(ch)
    if "".join(cur).strip():
        out.append("".join(cur))
    return [" ".join(s.split()) for s in out if s.strip()]


def field_types(hdr):
    """{struct: {field: c++ type}}"""
    res = {}
    for m in re.finditer(r"struct\s+(\w+)\s*\{", hdr):
        name = m.group(1); i = m.end(); depth = 1; j = i
        while j < len(hdr) and depth:
            depth += hdr[j] == "{"; depth -= hdr[j] == "}"; j += 1
        body = hdr[i:j]
        d = {}
        for fm in re.finditer(r"^\s*(std::string|short|double|bool|int|unsigned)\s+(\w+_)\s*(=[^;]*)?;", body, re.M):
            d[fm.group(2)] = fm.group(1)
        res[name] = d
    return res


ZERO = r"0(?:\.0*)?"


def translate_function(body, ftypes):
    entries = []          # dicts: tag, lower, var, field, conv, checks
    byvar = {}            # optional variable -> entry
    alias = {}            # std::string x = VAR.value()  -> VAR
    target = None
    for st in statements(body):
        s = st
        if re.fullmatch(r"(global_simulation_parameters|face_type_parameters) \w+", s) or \
           re.fullmatch(r"std::shared_ptr<cell_type_parameters> \w+ = std::make_shared<cell_type_parameters>\(\)", s) or \
           re.fullmatch(r"auto \w+ = select_section\(\"numerical_parameters\"\)", s) or \
           re.fullmatch(r"assert\(.*\)", s) or re.fullmatch(r"return \w+", s):
            continue
        m = re.fullmatch(r"auto (\w+) = get_string_value\((\w+), \"(\w+)\"(, true)?\)", s)
        if m:
            e = dict(var=m.group(1), tag=m.group(3), lower=bool(m.group(4)), field=None, conv=None, checks=[], required=False)
            entries.append(e); byvar[e["var"]] = e
            continue
        m = re.fullmatch(r"if\(!(\w+)\.has_value\(\)\) throw parameter_reader_exception\(.*\)", s)
        if m and m.group(1) in byvar:
            byvar[m.group(1)]["required"] = True
            continue
        m = re.fullmatch(r"std::string (\w+) = (\w+)\.value\(\)", s)
        if m and m.group(2) in byvar:
            alias[m.group(1)] = m.group(2)
            continue
        m = re.fullmatch(r"(\w+)(?:\.|->)(\w+_) = (.*)", s)
        if m:
            fld, rhs = m.group(2), m.group(3)
            def val(v):
                return r"%s\.value\(\)" % v
            found = None
            for v, e in byvar.items():
                names = [val(v)] + [re.escape(a) for a, b in alias.items() if b == v]
                alt = "(?:" + "|".join(names) + ")"
                if re.fullmatch(alt, rhs):
                    found = (e, "CString")
                elif re.fullmatch(r"std::stod\(%s\)" % alt, rhs):
                    found = (e, "CDouble")
                elif re.fullmatch(r"std::stoi\(%s\)" % alt, rhs):
                    found = (e, "CInt")
                elif re.fullmatch(r"\(std::stoi\(%s\) == 0\) \? false : true" % alt, rhs):
                    found = (e, "CBool")
                elif re.fullmatch(r"\(%s == \"inf\"\) \? std::numeric_limits<double>::infinity\(\) ?: std::stod\(%s\)" % (alt, alt), rhs):
                    found = (e, "CInfDouble" if e["lower"] else "CInfDoubleCS")
                if found:
                    break
            if not found:
                raise ValueError("assignment not understood: " + s)
            e, cv = found
            if e["field"] is not None:
                raise ValueError("tag %s assigned twice" % e["tag"])
            if e["lower"] and cv not in ("CInfDouble",):
                raise ValueError("lower-cased text of %s used by a conversion other than the inf test" % e["tag"])
            ty = None
            for sname, d in ftypes.items():
                if fld in d and ((sname == "global_simulation_parameters") == (target_struct(body) == sname) or True):
                    pass
            ty = ftypes.get(target_struct(body), {}).get(fld)
            if ty is None:
                raise ValueError("field %s not found in struct %s" % (fld, target_struct(body)))
            if cv == "CInt" and ty == "short":
                cv = "CShort"
            ok = {"CString": ["std::string"], "CDouble": ["double"], "CInfDouble": ["double"], "CInfDoubleCS": ["double"], "CInt": ["int"], "CShort": ["short"], "CBool": ["bool"]}
            if ty not in ok[cv]:
                raise ValueError("field %s of type %s assigned through %s" % (fld, ty, cv))
            e["field"] = fld; e["conv"] = cv
            continue
        m = re.fullmatch(r"if\((\w+)(?:\.|->)(\w+_) (<=|<) (%s)\) ?\{? ?throw parameter_reader_exception\(.*\) ?;? ?\}?" % ZERO, s)
        if m:
            fld, op, z = m.group(2), m.group(3), m.group(4)
            ty = ftypes.get(target_struct(body), {}).get(fld)
            if not entries or entries[-1]["field"] is None:
                raise ValueError("validation rule before any assignment: " + s)
            if ty == "double":
                entries[-1]["checks"].append(("ThrowIfNotPos" if op == "<=" else "ThrowIfNeg", fld))
            elif ty in ("short", "int") and op == "<":
                entries[-1]["checks"].append(("ThrowIfNegI", fld))
            else:
                raise ValueError("validation rule on a field of type %s: %s" % (ty, s))
            continue
        m = re.fullmatch(r"if\((\w+)(?:\.|->)(\w+_) < (\w+)(?:\.|->)(\w+_) ?\) ?\{? ?throw parameter_reader_exception\(.*\) ?;? ?\}?", s)
        if m:
            entries[-1]["checks"].append(("ThrowIfLess", m.group(2), m.group(4)))
            continue
        raise ValueError("statement not understood: " + s[:200])
    for e in entries:
        if e["field"] is None:
            raise ValueError("tag %s is read but never assigned to a field" % e["tag"])
    return entries


def target_struct(body):
    if "global_simulation_parameters" in body:
        return "global_simulation_parameters"
    if "face_type_parameters face_parameters" in body:
        return "face_type_parameters"
    return "cell_type_parameters"


def coq_entry(e):
    cks = "; ".join("%s %s" % (c[0], " ".join('"%s"' % f for f in c[1:])) for c in e["checks"])
    return 'mkentry "%s" "%s" %s [%s]' % (e["tag"], e["field"], e["conv"], cks)


def generate(repo):
    src = strip_comments(open(os.path.join(repo, "src/io/parameter_reader.cpp")).read())
    hdr = strip_comments(open(os.path.join(repo, "include/custom_structures.hpp")).read())
    ftypes = field_types(hdr)
    tables = {}; err = None
    try:
        for cname, fname in FUNCS:
            tables[cname] = translate_function(function_body(src, fname), ftypes)
        # the fields of the three structures that no tag reaches (reported in the evidence)
    except Exception as ex:
        err = str(ex)
    lines = ["(* Params_gen.v — GENERATED by harness/translate_params.py from src/io/parameter_reader.cpp; do not edit. *)",
             "From Coq Require Import String List.", "From SC Require Import Params.", "Import ListNotations.", "Local Open Scope string_scope.", ""]
    if err:
        lines.append("(* translation failed: %s *)" % err.replace("*)", "* )").replace("(*", "( *"))
    lines.append("Definition translation_ok : bool := %s." % ("false" if err else "true"))
    for cname, _ in FUNCS:
        es = tables.get(cname, []) if not err else []
        lines.append("Definition %s : list entry := [" % cname)
        lines.append(";\n".join("  " + coq_entry(e) for e in es))
        lines.append("].")
    unreached = {}
    if not err:
        for cname, sname in (("num_table", "global_simulation_parameters"), ("cell_table", "cell_type_parameters"), ("face_table", "face_type_parameters")):
            got = set(e["field"] for e in tables[cname])
            unreached[sname] = sorted(f for f in ftypes.get(sname, {}) if f not in got)
    return "\n".join(lines) + "\n", err, tables, unreached


def main():
    repo = sys.argv[1] if len(sys.argv) > 1 else "/repo"
    out = sys.argv[2] if len(sys.argv) > 2 else os.path.join(os.path.dirname(os.path.dirname(os.path.abspath(__file__))), "coq", "Params_gen.v")
    text, err, tables, unreached = generate(repo)
    old = open(out).read() if os.path.exists(out) else None
    if old != text:
        with open(out, "w") as f:
            f.write(text)
    if err:
        print("translation failed: " + err)
        return 1
    print("translated: " + ", ".join("%s=%d entries" % (k, len(v)) for k, v in tables.items()) + "; fields no tag reaches: %s" % unreached)
    return 0


if __name__ == "__main__":
    sys.exit(main())
