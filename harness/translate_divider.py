#!/usr/bin/env python3
"""translate_divider.py — regenerates coq/Divider_gen.v from /repo's src/triangulation_modules/cell_divider.cpp on every run:
    find_edge_plane_intersection   (the two dot products, the colinear case, the parameter t, the range test, the point)
    face_side_wrt_plane            (the side of the face centroid)
are walked statement by statement and re-emitted over an abstract number type.  Properties_C09.v proves them equal to
`edge_plane` and `face_side` of the hand-written Divider.v by reflexivity.  Fails closed."""
import re, sys, os
sys.path.insert(0, os.path.dirname(os.path.abspath(__file__)))
from translate_columns import strip_comments
from translate_iteration import function_body
from translate_kernel import Tr
from blocktr import parse, split_statements, as_list
from translate_forces import Walker, flat, take_bindings


class WD(Walker):
    """exits are `return std::nullopt`; an exit may have an else-branch that goes on; the value returned at the end is Some(...)"""
    def is_exit(self, node):
        l = as_list(node)
        return len(l) == 1 and l[0][0] == "stmt" and l[0][1] == "return std::nullopt"

    def walk(self, stmts, outputs=None):
        if stmts and stmts[0][0] == "if" and self.is_exit(stmts[0][2]) and stmts[0][3] is not None:
            c, _ = self.E(stmts[0][1], "b")
            return "if %s then %s else\n  %s" % (c, self.exit, self.walk(as_list(stmts[0][3]) + stmts[1:]))
        if stmts and stmts[0][0] == "stmt":
            m = re.fullmatch(r"vec3 (\w+) = (.*)", stmts[0][1])
            if m:
                g, _ = self.E(m.group(2), "v"); self.env[m.group(1)] = "v"; self.declared.add(m.group(1))
                return "let %s := %s in\n  %s" % (m.group(1), g, self.walk(stmts[1:]))
            m = re.fullmatch(r"return (\w+)", stmts[0][1])
            if m and len(stmts) == 1 and m.group(1) in self.env:
                return "Some %s" % m.group(1)
        return super().walk(stmts, outputs)


def generate(repo):
    err = None; defs = []
    try:
        src = strip_comments(open(os.path.join(repo, "src", "triangulation_modules", "cell_divider.cpp")).read())
        b = function_body(src, r"std::optional<vec3>\s+cell_divider::find_edge_plane_intersection\s*\(\s*const\s+vec3\s*&\s*e1\s*,\s*const\s+vec3\s*&\s*e2\s*,\s*const\s+vec3\s*&\s*p\s*,\s*const\s+vec3\s*&\s*n\s*\)\s*noexcept\(false\)\s*\{")
        w = WD({"e1": "v", "e2": "v", "p": "v", "n": "v"}, lambda s: s, "None")
        defs.append("Definition edge_plane_gen {T : Type} (N : Num T) (e1 e2 p n : vec3 T) : option (vec3 T) :=\n  %s." % w.walk(split_statements(b)))
        b = function_body(src, r"bool\s+cell_divider::face_side_wrt_plane\s*\(\s*const\s+face\s*&\s*f\s*,\s*const\s+cell_ptr\s+c\s*,\s*const\s+vec3\s*&\s*p\s*,\s*const\s+vec3\s*&\s*n\s*\)\s*noexcept\s*\{")
        st = take_bindings(split_statements(b), ["auto[n1_id,n2_id,n3_id]=f.get_node_ids()", "constvec3&p1=c->get_node(n1_id).pos()", "constvec3&p2=c->get_node(n2_id).pos()", "constvec3&p3=c->get_node(n3_id).pos()"], "face_side_wrt_plane")
        w = Walker({"p1": "v", "p2": "v", "p3": "v", "p": "v", "n": "v"}, lambda s: s, "false")
        defs.append("Definition face_side_gen {T : Type} (N : Num T) (p1 p2 p3 p n : vec3 T) : bool :=\n  %s." % w.walk(st))
        # ---------------- the rotation that brings the division plane to z = 0: quaternion::normalize / to_matrix, mat33::dot / transpose
        qh = strip_comments(open(os.path.join(repo, "include", "math_modules", "quaternion.hpp")).read())
        mc = strip_comments(open(os.path.join(repo, "src", "math_modules", "mat33.cpp")).read())
        if "quaternion(doublenw,doubleni,doublenj,doublenk):w(nw),i(ni),j(nj),k(nk){}" not in flat(qh):
            raise Tr("quaternion constructor")
        nb = function_body(qh, r"quaternion\s+normalize\s*\(\s*\)\s*const\s*\{")
        ns = [x[1] for x in split_statements(nb)]
        m1 = re.fullmatch(r"double norm = (.*)", ns[0]); m2 = re.fullmatch(r"return quaternion\((.*)\)", ns[1]) if len(ns) == 2 else None
        if not m1 or not m2:
            raise Tr("quaternion::normalize")
        qenv = {"w": "d", "i": "d", "j": "d", "k": "d"}
        gn, _ = parse(m1.group(1), qenv, "d")
        comps = [parse(x.strip(), dict(qenv, norm="d"), "d")[0] for x in m2.group(1).split(",")]
        if len(comps) != 4:
            raise Tr("quaternion::normalize: four components expected")
        tb = function_body(qh, r"mat33\s+to_matrix\s*\(\s*\)\s*const\s*\{")
        ts = [x[1] for x in split_statements(tb)]
        if [flat(x) for x in ts[:4]] != ["doubleqw=w", "doubleqx=i", "doubleqy=j", "doubleqz=k"]:
            raise Tr("quaternion::to_matrix: names of the components")
        ent = {}
        for x in ts[4:13]:
            mm = re.fullmatch(r"double (I[123][123]) = (.*)", x)
            if not mm:
                raise Tr("quaternion::to_matrix: entry: " + x)
            ent[mm.group(1)] = parse(mm.group(2), {"qw": "d", "qx": "d", "qy": "d", "qz": "d"}, "d")[0]
        if flat(" ".join(ts[13:])) != "mat33matrix({I11,I12,I13},{I21,I22,I23},{I31,I32,I33})returnmatrix" or len(ent) != 9:
            raise Tr("quaternion::to_matrix: assembly of the matrix")
        defs.append("Definition quat_matrix_gen {T : Type} (N : Num T) (qw qx qy qz : T) : @mat T :=\n  mkmat (mkv %s\n             %s\n             %s)\n        (mkv %s\n             %s\n             %s)\n        (mkv %s\n             %s\n             %s)." %
                    tuple(ent["I%d%d" % (r, c)] for r in (1, 2, 3) for c in (1, 2, 3)))
        # mat33::dot(vec3) (both overloads) and transpose
        dbs = [function_body(mc[m.start():], r"vec3\s+mat33::dot\s*\([^)]*\)\s*const\s*noexcept\s*\{") for m in re.finditer(r"vec3\s+mat33::dot\s*\(", mc)]
        if len(dbs) != 2 or flat(dbs[0]) != flat(dbs[1]):
            raise Tr("mat33::dot(vec3): two identical overloads expected")
        rsub = lambda x: re.sub(r"row_([123])_\[([012])\]", lambda m: "(v%s (r%s M))" % ("xyz"[int(m.group(2))], m.group(1)), x)
        ds = [x[1] for x in split_statements(dbs[0])]
        rows = []
        for ax, x in zip("xyz", ds[:3]):
            mm = re.fullmatch(r"double d%s = (.*)" % ax, x)
            if not mm:
                raise Tr("mat33::dot: component " + ax)
            e_ = re.sub(r"row_([123])_\[([012])\]", r"R\1\2", mm.group(1)).replace("v.dx()", "v_x").replace("v.dy()", "v_y").replace("v.dz()", "v_z")
            rows.append(parse(e_, dict({"R%d%d" % (r, c): "d" for r in (1, 2, 3) for c in (0, 1, 2)}, v_x="d", v_y="d", v_z="d"), "d")[0])
        if flat(ds[3]) != "returnvec3(dx,dy,dz)":
            raise Tr("mat33::dot: result")
        lets = " ".join("let R%d%d := v%s (r%d M) in" % (r, c, "xyz"[c], r) for r in (1, 2, 3) for c in (0, 1, 2))
        defs.append("Definition mdot_gen {T : Type} (N : Num T) (M : @mat T) (v : vec3 T) : vec3 T :=\n  %s\n  let v_x := vx v in let v_y := vy v in let v_z := vz v in\n  mkv %s\n      %s\n      %s." % (lets, rows[0], rows[1], rows[2]))
        tb = flat(function_body(mc, r"mat33\s+mat33::transpose\s*\(\s*\)\s*const\s*noexcept\s*\{"))
        want = "mat33result;" + "".join("result.row_%d_[%d]=row_%d_[%d];" % (r, c, c + 1, r - 1) for r in (1, 2, 3) for c in (0, 1, 2)) + "returnresult;"
        if tb != want:
            raise Tr("mat33::transpose: not the transposition")
        # the block of map_points_to_xy_plane that builds the rotation
        mb = flat(function_body(src, r"cell_divider::map_points_to_xy_plane\s*\([^)]*\)\s*noexcept\s*\{"))
        blockw = ("constvec3xy_plane_normal(0.,0.,1.);mat33rotation_matrix;if(xy_plane_normal.dot(division_plane_normal)==1.0){rotation_matrix=mat33::identity();}"
                  "else{constvec3a=division_plane_normal.cross(xy_plane_normal);constdoublew=1.0+division_plane_normal.dot(xy_plane_normal);quaternionq(w,a.dx(),a.dy(),a.dz());q=q.normalize();rotation_matrix=q.to_matrix();}")
        if blockw not in mb:
            raise Tr("map_points_to_xy_plane: construction of the rotation")
        ih = flat(strip_comments(open(os.path.join(repo, "include", "math_modules", "mat33.hpp")).read()))
        if "staticmat33identity()noexcept{returnmat33({1.,0.,0.},{0.,1.,0.},{0.,0.,1.});}" not in ih:
            raise Tr("mat33::identity")
        defs.append("Definition rot_to_z_gen {T : Type} (N : Num T) (division_plane_normal : vec3 T) : @mat T :=\n"
                    "  let xy_plane_normal := mkv (nzero N) (nzero N) (none_ N) in\n"
                    "  if neqb N (vdot N xy_plane_normal division_plane_normal) (none_ N) then midentity N else\n"
                    "  let a := vcross N division_plane_normal xy_plane_normal in\n"
                    "  let w := nadd N (none_ N) (vdot N division_plane_normal xy_plane_normal) in\n"
                    "  let i := vx a in let j := vy a in let k := vz a in\n"
                    "  let norm := %s in\n  quat_matrix_gen N %s %s %s %s." % (gn, comps[0], comps[1], comps[2], comps[3]))
        # the forward map of a point (translate, rotate, z := 0) and the way back
        for need in ("m.node_pos_lst[p_id*3]+=translation.dx();m.node_pos_lst[p_id*3+1]+=translation.dy();m.node_pos_lst[p_id*3+2]+=translation.dz();",
                     "vec3pos_after_rotation=rotation_matrix.dot(vec3(m.node_pos_lst[p_id*3],m.node_pos_lst[p_id*3+1],m.node_pos_lst[p_id*3+2]));m.node_pos_lst[p_id*3]=pos_after_rotation.dx();m.node_pos_lst[p_id*3+1]=pos_after_rotation.dy();m.node_pos_lst[p_id*3+2]=0.;"):
            if need not in mb:
                raise Tr("map_points_to_xy_plane: forward map of a point")
        bb = flat(function_body(src, r"void\s+cell_divider::map_points_to_division_plane\s*\([^)]*\)\s*noexcept\s*\{"))
        if "constmat33rotation_inv=rotation_matrix.transpose();" not in bb or "p=rotation_inv.dot(p)-translation;" not in bb:
            raise Tr("map_points_to_division_plane: the way back")
    except Exception as e:      # noqa
        err = str(e)
    L = ["(* Divider_gen.v — GENERATED by harness/translate_divider.py from /repo/src/triangulation_modules/cell_divider.cpp on every run.", "   Do not edit. *)",
         "From Coq Require Import NArith ZArith Bool List.", "From SC Require Import Num Vec3 Divider.", "Local Open Scope bool_scope.", ""]
    if err:
        L.append("(* translation failed: %s *)" % err.replace("*)", "* )"))
        L.append("Definition divider_translation_ok : bool := false.")
    else:
        L.append("Definition divider_translation_ok : bool := true.")
        L += defs
    return "\n".join(L) + "\n", err


if __name__ == "__main__":
    repo = sys.argv[1] if len(sys.argv) > 1 else "/repo"
    out = sys.argv[2] if len(sys.argv) > 2 and not sys.argv[2].startswith("-") else os.path.join(os.path.dirname(os.path.dirname(os.path.abspath(__file__))), "coq", "Divider_gen.v")
    txt, err = generate(repo)
    if err and "-v" in sys.argv:
        print("translation failed:", err)
    old = open(out).read() if os.path.exists(out) else None
    if old != txt:
        open(out, "w").write(txt)
