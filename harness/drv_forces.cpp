// drv_forces: one internal force term at a time (or all) on a real cell.
// line: <tissue case with ONE cell> F term P NF {face type id} PRE k seed   (k random edge merges/splits first: leaves unused slots)
//   term 0 pressure, 1 tension+elasticity, 2 bending, 3 angle regularisation, 4 apply_internal_forces(dt)
// out : OK P V A | nodes {used x y z} | faces {a b c type} | edges {n1 n2 f1 f2} | forces {fx fy fz} [| forces after an in-place quarter turn about z]
#include "tissue.hpp"
#include "local_mesh_refiner.hpp"
class cell_tester {
public:
    static void set_types(cell_ptr c, const std::vector<int>& ty){ for (size_t i=0;i<ty.size() && i<c->face_lst_.size();i++) c->face_lst_[i].type_id_ = (unsigned short)ty[i]; }
    static void prepare(cell_ptr c, double P){
        c->update_all_face_normals_and_areas(); c->area_ = c->compute_area(); c->volume_ = c->compute_volume(); c->pressure_ = P;
        for (node& n : c->node_lst_) n.force_.reset();
    }
    static void term(cell_ptr c, int t, double dt){
        switch (t){
            case 0: c->apply_pressure_on_surface(); break;
            case 1: c->apply_surface_tension_and_membrane_elasticity(); break;
            case 2: c->apply_bending_forces(); break;
            case 3: c->regularize_all_face_angles(); break;
            default: c->apply_internal_forces(dt);
        }
    }
    static int type_of(const face& f){ return f.type_id_; }
    static void quarter_turn(cell_ptr c){ for (node& n : c->node_lst_) if (n.is_used()) n.pos_ = vec3(-n.pos().dy(), n.pos().dx(), n.pos().dz()); }
};
int main(){
    std::string line;
    while (std::getline(std::cin, line)){
        if (line.empty()) continue;
        std::istringstream in(line);
        try {
            tissue_case t = read_tissue(in);
            expect(in, "F"); int term; in >> term; double P = rd(in); int nf; in >> nf; std::vector<int> ty(nf); for (auto& x : ty) in >> x;
            cell_ptr c = make_cell(t.meshes[0], 0u, t.types[t.cell_type_index[0]]);
            c->initialize_cell_properties();
            cell_tester::set_types(c, ty);
            std::string pre; int npre = 0; unsigned long seed = 0; in >> pre >> npre >> seed;
            if (npre > 0){
                local_mesh_refiner lmr(1e-30, 1e30, false);
                unsigned long st = seed * 6364136223846793005ULL + 1442695040888963407ULL;
                for (int k = 0; k < npre; k++){
                    st = st * 6364136223846793005ULL + 1442695040888963407ULL;
                    const edge_set& es = c->get_edge_set(); auto it = es.begin(); std::advance(it, (st >> 33) % es.size()); edge e = *it; edge_set work = es;
                    if (((st >> 20) & 3) != 0 && lmr.can_be_merged(e, c)) lmr.merge_edge(e, c, work); else lmr.split_edge(e, c, work);
                }
            }
            cell_tester::prepare(c, P);
            cell_tester::term(c, term, t.sp.time_step_);
            std::cout << "OK " << hx(c->get_pressure()) << " " << hx(c->get_volume()) << " " << hx(c->get_area()) << " |";
            for (const node& n : c->get_node_lst()) std::cout << " " << (n.is_used()?1:0) << " " << hx(n.pos().dx()) << " " << hx(n.pos().dy()) << " " << hx(n.pos().dz());
            std::cout << " |";
            for (const face& f : c->get_face_lst()){ if (f.is_used()){ auto [a,b,d] = f.get_node_ids(); std::cout << " " << a << " " << b << " " << d << " " << cell_tester::type_of(f); } else std::cout << " 0 0 0 -1"; }
            std::cout << " |";
            for (const edge& e : c->get_edge_set()) std::cout << " " << e.n1() << " " << e.n2() << " " << e.f1() << " " << e.f2();
            std::cout << " |";
            for (const node& n : c->get_node_lst()) std::cout << " " << hx(n.force().dx()) << " " << hx(n.force().dy()) << " " << hx(n.force().dz());
            // the SAME cell object again after its nodes were turned by a quarter turn about z in place (exact in binary64):
            // cached per-face data must not survive the move
            if (term != 4){
                cell_tester::quarter_turn(c);
                cell_tester::prepare(c, P);
                cell_tester::term(c, term, t.sp.time_step_);
                std::cout << " |";
                for (const node& n : c->get_node_lst()) std::cout << " " << hx(n.force().dx()) << " " << hx(n.force().dy()) << " " << hx(n.force().dz());
            }
            std::cout << "\n";
        } catch (const std::exception& e){ std::cout << "EXC " << e.what() << "\n"; }
    }
    return 0;
}
