// drv_divide: cell division end to end and stage by stage.
// line: <tissue case> DIV seed mode ax ay az     mode: 0 = natural axis (longest axis), 1 = imposed axis (ax,ay,az)
// out : MOTHER id nn nf vol area tvol | STAGES stage=ok/EXC(what) ... | AXIS x y z CENTROID x y z
//       | RESULT none   or   RESULT d1 d2 each: id type nn nf vol area tvol valid(0/1) side_ok(0/1) minside maxside
//       | MOTHER_AFTER nn nf vol same_surface(0/1)
//       | RUNPOP before ids.. after ids.. counter
#include "tissue.hpp"
#include "cell_divider.hpp"
#include "local_mesh_refiner.hpp"
#include <set>
#include <map>
extern int64_t verif_clock_ns;

static vec3 g_axis; static bool g_use_axis = false; static bool g_all_ready = true;

class axis_cell : public epithelial_cell {
public:
    using epithelial_cell::epithelial_cell;
    vec3 get_cell_division_axis() const noexcept override { return g_use_axis ? g_axis : get_cell_longest_axis(); }
    bool is_ready_to_divide() const noexcept override { return g_all_ready || epithelial_cell::is_ready_to_divide(); }
};

static std::string clean(std::string w){ for (char& ch : w) if (ch==' '||ch=='|'||ch=='\n') ch='_'; return w.substr(0, 120); }

// closed, oriented, Euler characteristic 2, no repeated node (independent recomputation from the triangle list)
static bool valid_surface(const cell_ptr& c){
    std::map<std::pair<unsigned,unsigned>, int> he; std::set<unsigned> used; size_t nf = 0;
    for (const face& f : c->get_face_lst()) if (f.is_used()){
        auto [a,b,d] = f.get_node_ids(); nf++;
        if (a==b||b==d||a==d) return false;
        unsigned v[3] = {a,b,d};
        for (int k=0;k<3;k++){ if (v[k] >= c->get_node_lst().size() || !c->get_node_lst()[v[k]].is_used()) return false; used.insert(v[k]);
            if (++he[{v[k], v[(k+1)%3]}] > 1) return false; }
    }
    for (auto& kv : he) if (!he.count({kv.first.second, kv.first.first})) return false;
    size_t nlive = 0; for (const node& n : c->get_node_lst()) if (n.is_used()) nlive++;
    if (used.size() != nlive) return false;
    return (long)nlive - (long)he.size()/2 + (long)nf == 2;
}

static double signed_volume(const cell_ptr& c){
    double v = 0;
    for (const face& f : c->get_face_lst()) if (f.is_used()){
        auto [a,b,d] = f.get_node_ids();
        const vec3& p = c->get_node_lst()[a].pos(); const vec3& q = c->get_node_lst()[b].pos(); const vec3& r = c->get_node_lst()[d].pos();
        v += p.dot(q.cross(r));
    }
    return v / 6.;
}

static std::string surface_key(const cell_ptr& c){
    // canonical description of the surface as a set of triangles over positions (independent of slot numbering)
    std::vector<std::string> tris;
    for (const face& f : c->get_face_lst()) if (f.is_used()){
        auto [a,b,d] = f.get_node_ids(); unsigned v[3] = {a,b,d};
        std::string s[3]; for (int k=0;k<3;k++){ const vec3& p = c->get_node_lst()[v[k]].pos(); s[k] = hx(p.dx())+","+hx(p.dy())+","+hx(p.dz()); }
        int m = 0; for (int k=1;k<3;k++) if (s[k] < s[m]) m = k;
        tris.push_back(s[m]+";"+s[(m+1)%3]+";"+s[(m+2)%3]);
    }
    std::sort(tris.begin(), tris.end()); std::string r; for (auto& t : tris) r += t + "|"; return r;
}

int main(){
    std::string line;
    while (std::getline(std::cin, line)){
        if (line.empty()) continue;
        std::istringstream in(line);
        try {
            if (line.rfind("EP ", 0) == 0){          // find_edge_plane_intersection: EP e1 e2 p n
                std::string w; in >> w; double v[12]; for (double& x : v) x = rd(in);
                auto r = cell_divider::find_edge_plane_intersection(vec3(v[0],v[1],v[2]), vec3(v[3],v[4],v[5]), vec3(v[6],v[7],v[8]), vec3(v[9],v[10],v[11]));
                if (r.has_value()) std::cout << "SOME " << hx(r->dx()) << " " << hx(r->dy()) << " " << hx(r->dz()) << "\n"; else std::cout << "NONE\n";
                continue;
            }
            if (line.rfind("DF ", 0) == 0){          // divide_faces on one pentagon: DF thr id0 id1 id2 id3 id4
                std::string w; in >> w; unsigned thr; in >> thr; mesh m; m.node_pos_lst.assign(15, 0.0);
                std::vector<unsigned> f(5); for (auto& x : f) in >> x; m.face_point_ids.push_back(f);
                cell_divider::divide_faces(m, thr);
                std::cout << "FACES"; for (auto& g : m.face_point_ids){ std::cout << " |"; for (unsigned x : g) std::cout << " " << x; } std::cout << "\n";
                continue;
            }
            if (line.rfind("ROT ", 0) == 0){         // map_points_to_xy_plane / map_points_to_division_plane: ROT n k pts
                std::string w; in >> w; double nx = rd(in), ny = rd(in), nz = rd(in); int k; in >> k; mesh m;
                for (int i = 0; i < 3 * k; i++) m.node_pos_lst.push_back(rd(in));
                auto [tr, rot] = cell_divider::map_points_to_xy_plane(m, 0, vec3(nx, ny, nz));
                std::cout << "TR " << hx(tr.dx()) << " " << hx(tr.dy()) << " " << hx(tr.dz()) << " M";
                for (int i = 0; i < 3; i++) for (int j = 0; j < 3; j++) std::cout << " " << hx(rot[i][j]);
                std::cout << " XY"; for (double x : m.node_pos_lst) std::cout << " " << hx(x);
                cell_divider::map_points_to_division_plane(m, 0, tr, rot);
                std::cout << " BACK"; for (double x : m.node_pos_lst) std::cout << " " << hx(x);
                std::cout << "\n"; continue;
            }
            tissue_case t = read_tissue(in);
            expect(in, "DIV"); long seed; int mode; in >> seed >> mode; double ax = rd(in), ay = rd(in), az = rd(in);
            g_use_axis = (mode & 1) != 0; g_all_ready = (mode & 2) == 0; g_axis = vec3(ax, ay, az);
            verif_clock_ns = 1700000000000000000LL + seed * 1000003LL;
            std::vector<cell_ptr> cells;
            for (size_t i = 0; i < t.meshes.size(); i++){
                cell_ptr c = std::make_shared<axis_cell>(t.meshes[i], (unsigned)i, t.types[t.cell_type_index[i]]);
                c->initialize_cell_properties(); c->set_local_id((unsigned)i); cells.push_back(c);
            }
            local_mesh_refiner lmr(t.sp.min_edge_len_, t.sp.min_edge_len_ * 3., t.sp.enable_edge_swap_operation_);
            cell_ptr c = cells[0];
            c->set_target_volume(c->get_volume() * 1.25);
            std::cout << "MOTHER " << c->get_id() << " " << c->get_nb_of_nodes() << " " << c->get_nb_of_faces() << " " << hx(c->get_volume()) << " " << hx(c->get_area()) << " " << hx(c->get_target_volume());
            // ---- stage by stage on a copy of the inputs (public static stages), to see where a division stops
            std::cout << " | STAGES";
            vec3 centroid, axis;
            try {
                c->rebase(); centroid = c->compute_centroid(); axis = c->get_cell_division_axis();
                std::cout << " axis=ok";
                const unsigned thr = c->get_node_lst().size();
                mesh m = cell_divider::add_intersection_points(c, centroid, axis); std::cout << " intersect=ok(" << (m.node_pos_lst.size()/3 - thr) << ")";
                cell_divider::divide_faces(m, thr); std::cout << " divide_faces=ok";
                const unsigned fthr = m.face_point_ids.size();
                const unsigned nbp = m.node_pos_lst.size()/3 - thr;
                std::vector<unsigned> ids(nbp); std::iota(ids.begin(), ids.end(), thr); m.face_point_ids.push_back(ids);
                initial_triangulation::coarse_triangulation(m); std::cout << " coarse=ok";
                auto [tr, rot] = cell_divider::map_points_to_xy_plane(m, thr, axis); std::cout << " to_xy=ok";
                bool fin = true; for (double x : m.node_pos_lst) if (!std::isfinite(x)) fin = false;
                if (!fin) std::cout << "(NONFINITE)";
                cell_divider::triangulate_division_interface(t.sp.min_edge_len_, m, thr, fthr, axis); std::cout << " interface=ok";
                cell_divider::map_points_to_division_plane(m, thr, tr, rot); std::cout << " to_plane=ok";
                auto [d1, d2] = cell_divider::create_daughter_cells(c, m, thr, fthr, axis, centroid); std::cout << " daughters=ok";
                lmr.refine_mesh(d1); lmr.refine_mesh(d2); std::cout << " refine=ok";
            } catch (const std::exception& e){ std::cout << " EXC(" << clean(e.what()) << ")"; }
            std::cout << " | AXIS " << hx(axis.dx()) << " " << hx(axis.dy()) << " " << hx(axis.dz()) << " CENTROID " << hx(centroid.dx()) << " " << hx(centroid.dy()) << " " << hx(centroid.dz());
            // ---- the real thing
            const std::string before = surface_key(c);
            const double vol_before = c->get_volume();
            verif_clock_ns = 1700000000000000000LL + seed * 1000003LL + 77;
            auto res = cell_divider::divide_cell(c, t.sp.min_edge_len_, lmr);
            if (!res.has_value()) std::cout << " | RESULT none";
            else {
                std::cout << " | RESULT";
                cell_ptr d[2] = {res->first, res->second};
                for (int k = 0; k < 2; k++){
                    double lo = 1e300, hi = -1e300;
                    for (const node& n : d[k]->get_node_lst()) if (n.is_used()){ double s = (n.pos() - centroid).dot(axis); lo = std::min(lo, s); hi = std::max(hi, s); }
                    std::cout << " D " << d[k]->get_cell_type_id() << " " << d[k]->get_nb_of_nodes() << " " << d[k]->get_nb_of_faces() << " " << hx(d[k]->get_volume()) << " " << hx(signed_volume(d[k]))
                              << " " << hx(d[k]->get_area()) << " " << hx(d[k]->get_target_volume()) << " " << (valid_surface(d[k]) ? 1 : 0) << " " << hx(lo) << " " << hx(hi);
                }
            }
            std::cout << " | MOTHER_AFTER " << c->get_nb_of_nodes() << " " << c->get_nb_of_faces() << " " << hx(c->get_volume()) << " " << (surface_key(c) == before ? 1 : 0) << " " << (valid_surface(c) ? 1 : 0);
            // ---- population bookkeeping through cell_divider::run on a fresh population
            std::vector<cell_ptr> pop;
            for (size_t i = 0; i < t.meshes.size(); i++){
                cell_ptr q = std::make_shared<axis_cell>(t.meshes[i], (unsigned)(10 + i), t.types[t.cell_type_index[i]]);
                q->initialize_cell_properties(); q->set_local_id((unsigned)i); pop.push_back(q);
            }
            unsigned counter = 10 + (unsigned)pop.size();
            std::cout << " | RUNPOP before";
            for (auto& q : pop) std::cout << " " << q->get_id();
            verif_clock_ns = 1700000000000000000LL + seed * 1000003LL + 991;
            cell_divider::run(pop, t.sp.min_edge_len_, lmr, counter, false);
            std::cout << " after";
            for (size_t i = 0; i < pop.size(); i++) std::cout << " " << pop[i]->get_id() << ":" << pop[i]->get_local_id() << ":" << (valid_surface(pop[i]) ? 1 : 0);
            std::cout << " counter " << counter << "\n";
        } catch (const std::exception& e){ std::cout << "FATAL " << clean(e.what()) << "\n"; }
    }
    return 0;
}
