"""C10 — no invalid memory access or undefined behaviour anywhere in a simulation.  (partial: see level_note)
proof:          coq/Properties_C10.v: the reference-lifetime discipline (Lifetime.v), index safety of the modelled
                components (contact phase total on well-formed tissues; grids; mesh reader; population references), and
                fact tables REGENERATED from /repo's headers on this run (virtual destructors of the classes solver owns
                through base pointers; default initialisers of the node scalars the contact phase reads)
exploration:    the real pipeline under AddressSanitizer + UBSan: complete solver life cycles incl. destruction (growth,
                division, removal, emptying; 2 threads), initial reconstruction incl. hole filling, divisions, contact
                phases, refinement histories with forced growth of the node/face vectors, file input/output; and under
                valgrind (memcheck) the smallest solver scenario for decisions on uninitialised values.
                This part is validation, not proof."""
import random, json, os, re, subprocess, importlib, sys
import vlib, tissue
from vlib import hx

LEVEL = "proof"

ASAN_ENV = {"OMP_NUM_THREADS": "2", "ASAN_OPTIONS": "detect_leaks=0:abort_on_error=0:new_delete_type_mismatch=1:detect_stack_use_after_return=0", "UBSAN_OPTIONS": "print_stacktrace=1:halt_on_error=1"}


def classify(stderr):
    """(kind, location) of the first sanitizer report, or None"""
    m = re.search(r"ERROR: AddressSanitizer: ([\w-]+)", stderr)
    kind = None
    if m:
        kind = m.group(1)
    else:
        m2 = re.search(r"runtime error: ([^\n]*)", stderr)
        m3 = re.search(r"([\w:<>, ~\[\]&*()]+): Assertion '([^']*)' failed", stderr)
        if m2:
            kind = "ub:" + re.sub(r"0x[0-9a-f]+|\d+", "N", m2.group(1))[:60]
        elif m3:
            # libstdc++'s checked containers (_GLIBCXX_ASSERTIONS): e.g. a vector subscript beyond its size
            return "container-precondition:" + m3.group(2)[:50], re.sub(r"\s+", " ", m3.group(1))[-90:]
    if kind is None:
        return None
    frames = re.findall(r"#\d+ 0x[0-9a-f]+ in (\S+) (/\S+?):(\d+)", stderr)
    own = [f for f in frames if "/src/" in f[1] or "/include/" in f[1]]
    fn = re.findall(r"#\d+ 0x[0-9a-f]+ in ([\w:~]+)", stderr)
    where = (os.path.basename(own[0][1]) + ":" + own[0][0].split("(")[0]) if own else (next((x for x in fn if "::" in x and not x.startswith("std::") and not x.startswith("__")), "?"))
    return kind, where


def run(ck):
    quick = ck.tier == "quick"
    ck.cov["rule"] = ("ASan+UBSan builds of the drivers, 2 threads: solver::run life cycles incl. destruction (steady, dividing, removal, emptying population), the real start-up with initial triangulation (cubes, prisms, L-shapes, ellipsoids; all windings; hole filling), divisions along natural/random/axis-aligned planes, contact phases (incl. grid extents that are exact multiples of the voxel size), refinement histories starting from compact vectors (every add_node / add_face reallocates), mesh write/read round trips; valgrind memcheck on a two-cell, three-iteration solver run; non-trivial = scenarios executed under a sanitizer")
    ok = ck.proofs()
    rng = random.Random(ck.seed * 811 + 10)
    fails = []; nscen = 0; dist = {}
    def asan_lines(name, lines, wrap=False, **cfg):
        nonlocal nscen
        exe = vlib.build_driver(name, wrap_clock=wrap, san=True, **cfg)
        for l in lines:
            nscen += 1
            dist[name] = dist.get(name, 0) + 1
            try:
                r = vlib.run([exe], input=l + "\n", timeout=1800, env=ASAN_ENV)
            except subprocess.TimeoutExpired:
                continue
            c = classify(r.stderr)
            if c:
                fails.append(("no_memory_error", c, dict(driver=name, input=l[:100000], report=r.stderr[:8000]), "%s in %s (driver %s under AddressSanitizer/UBSan)" % (c[0], c[1], name)))
            elif r.returncode < 0:
                fails.append(("no_crash", ("signal", name), dict(driver=name, input=l[:100000], stderr=r.stderr[-3000:]), "driver %s died with signal %d" % (name, -r.returncode)))
    # corpus first: minimised earlier failures
    import glob
    for cp in sorted(glob.glob(os.path.join(vlib.VERIF, "corpus", "C10", "*.json"))):
        cj = json.load(open(cp))
        asan_lines(cj["driver"], [cj["input"]], wrap=cj["driver"] in ("run", "init", "divide", "solver"))
    c19 = importlib.import_module("checks.c19"); c13 = importlib.import_module("checks.c13"); c09 = importlib.import_module("checks.c09")
    import contact_common as cc
    asan_lines("run", [c19.gen_case(rng, "c10r%d" % i, forced=s)["line"] for i, s in enumerate(["steady", "divide", "remove", "empty"] * (1 if quick else 6))], wrap=True)
    # the same life cycles with a clock that advances 111 hours / 13 years per reading: elapsed-time formatting far beyond two-digit hours
    exe_run = vlib.build_driver("run", wrap_clock=True, san=True)
    for step in ("400000000000000", "400000000000000000"):
        for sc in (["steady"] if quick else ["steady", "divide", "remove"]):
            l = c19.gen_case(rng, "c10t%s" % step[:4], forced=sc)["line"]
            nscen += 1; dist["run(long computation time)"] = dist.get("run(long computation time)", 0) + 1
            try:
                r = vlib.run([exe_run], input=l + "\n", timeout=1800, env=dict(ASAN_ENV, VERIF_CLOCK_STEP_NS=step))
            except subprocess.TimeoutExpired:
                continue
            cl = classify(r.stderr)
            if cl:
                fails.append(("no_memory_error", cl, dict(driver="run", input=l[:100000], report=r.stderr[:8000], clock_step_ns=step), "%s in %s (solver::run with %s ns of computation time per clock reading, under AddressSanitizer/UBSan)" % (cl[0], cl[1], step)))
            elif r.returncode < 0:
                fails.append(("no_crash", ("signal", "run-long"), dict(driver="run", input=l[:100000], stderr=r.stderr[-3000:], clock_step_ns=step), "driver run died with signal %d at a clock step of %s ns" % (-r.returncode, step)))
    # adhering daughter pairs of which one is removed while still coupled (the couplings of that iteration's contact phase refer
    # to list positions that the erase shifts): every stored (cell index, node index) pair must be consumed before the erase
    c08 = importlib.import_module("checks.c08")
    asan_lines("solver", [c08.gen_case(rng, "c10p%d" % i, forced_roles=(r,))["line"] for i, r in enumerate(["pair0", "pair1", "pair0", "pair1"] * (1 if quick else 5))], wrap=True)
    # three cells of ONE face type each around a junction, within adhesion range of two partners: every face-type index that the
    # polarization writes is later used as a subscript of the type's (one-element) table (own stream)
    rng_j = random.Random(ck.seed * 811 + 12)
    asan_lines("solver", [c08.gen_case(rng_j, "c10j%d" % i, forced_roles=("JUNCTION", "normal", "normal", "normal"))["line"] for i in range(2 if quick else 10)], wrap=True)
    asan_lines("init", [c13.gen_ini(rng)["line"] for _ in range(8 if quick else 80)] + [c13.gen_gate(rng)[0] for _ in range(10 if quick else 100)], wrap=True)
    # coarse L-shapes and prisms: ball pivoting leaves holes at the re-entrant / sharp edges, and the hole filler creates new
    # edges while it holds references into the edge list (its own random stream; run side by side)
    rng_h = random.Random(ck.seed * 811 + 11); hole_lines = []
    while len(hole_lines) < (48 if quick else 320):
        c_ = c13.gen_ini(rng_h, force=rng_h.choice(["lshape", "lshape", "prism"]))
        if c_["tri"] == 1 and c_["ratio"] >= 0.35:
            hole_lines.append(c_["line"])
    exe_ini = vlib.build_driver("init", wrap_clock=True, san=True)
    from concurrent.futures import ThreadPoolExecutor
    def one_ini(l):
        try:
            return l, vlib.run([exe_ini], input=l + "\n", timeout=1800, env=ASAN_ENV)
        except subprocess.TimeoutExpired:
            return l, None
    with ThreadPoolExecutor(12) as ex_:
        for l, r in ex_.map(one_ini, hole_lines):
            nscen += 1; dist["init(coarse shapes, hole filling)"] = dist.get("init(coarse shapes, hole filling)", 0) + 1
            if r is None:
                continue
            cl = classify(r.stderr)
            if cl:
                fails.append(("no_memory_error", cl, dict(driver="init", input=l[:100000], report=r.stderr[:8000]), "%s in %s (start-up of a coarse shape under AddressSanitizer/UBSan)" % (cl[0], cl[1])))
            elif r.returncode < 0:
                fails.append(("no_crash", ("signal", "init"), dict(driver="init", input=l[:100000], stderr=r.stderr[-3000:]), "driver init died with signal %d" % (-r.returncode)))
    asan_lines("divide", [c09.gen_div(rng, "c10d")["line"] for _ in range(5 if quick else 60)], wrap=True)
    # several cells dividing in one pass under 4 threads (the mothers finish in varying order): besides the sanitizer, every list
    # index a cell stores for later use as a subscript must be its position afterwards (a stale index is an access after erase
    # waiting for its trigger)
    exe_div = vlib.build_driver("divide", wrap_clock=True, san=True)
    for c in [c09.gen_multi(rng) for _ in range(4 if quick else 40)]:
        for rep in range(2):
            nscen += 1; dist["divide(4 threads)"] = dist.get("divide(4 threads)", 0) + 1
            try:
                r = vlib.run([exe_div], input=c["line"] + "\n", timeout=1800, env=dict(ASAN_ENV, OMP_NUM_THREADS="4"))
            except subprocess.TimeoutExpired:
                continue
            cl = classify(r.stderr)
            if cl:
                fails.append(("no_memory_error", cl, dict(driver="divide", input=c["line"][:100000], report=r.stderr[:8000], threads=4), "%s in %s (cell_divider::run, 4 threads, under AddressSanitizer/UBSan)" % cl)); break
            if r.returncode != 0 or "RUNPOP" not in r.stdout:
                fails.append(("no_crash", ("signal", "divide4"), dict(driver="divide", input=c["line"][:100000], stderr=r.stderr[-3000:], threads=4), "cell_divider::run on %s with 4 threads died (exit %s)" % (c["layout"], r.returncode))); break
            try:
                pop = c09.parse_div(r.stdout)[4]
            except Exception:
                continue
            idx = [x[1] for x in pop["after"]]
            if idx != list(range(len(idx))):
                fails.append(("stored_list_index_is_position", ("index", "cell_divider::run"), dict(driver="divide", input=c["line"][:100000], threads=4, list_indices=idx),
                              "after simultaneous divisions of %s under 4 threads the cells at positions 0..%d carry list indices %s: the next subscript through them reads another cell's nodes or past the list" % (c["layout"], len(idx) - 1, idx))); break
    asan_lines("contact", [cc.case_line(cc.gen_tissue(rng)) for _ in range(8 if quick else 100)], contact=1)
    # lattice-built facing cubes: bit-for-bit ties in every comparison of the narrow phase (a branch chain that forgets the
    # tie leaves its result unassigned); under the sanitizer and, because an unassigned value is not an address error, under
    # valgrind
    lat = [cc.case_line(cc.gen_lattice_pair(rng)) for _ in range(6 if quick else 60)]
    asan_lines("contact", lat, contact=1)
    try:
        # built without optimisation: an optimiser may give an unassigned variable a value (the code is then "right by accident"
        # in that build only), memcheck must see the program as written
        cimpl = vlib.build_driver("contact", contact=1, opt="-O0")
        for l in lat[:3 if quick else 12]:
            r = subprocess.run(["valgrind", "--error-exitcode=9", "--track-origins=yes", "-q", cimpl], input=l + "\n", capture_output=True, text=True, timeout=3000, env=dict(os.environ, OMP_NUM_THREADS="1"))
            nscen += 1; dist["contact(valgrind)"] = dist.get("contact(valgrind)", 0) + 1
            reps = re.findall(r"==\d+== (Conditional jump or move depends on uninitialised value\(s\)|Use of uninitialised value[^\n]*|Invalid (?:read|write)[^\n]*)\n==\d+==    at 0x[0-9A-F]+: ([^\n]*)", r.stderr)
            own = [(k, w) for k, w in reps if ".cpp:" in w or ".hpp:" in w]
            if own:
                k, w = own[0]
                loc = re.search(r"\(([\w\.]+:\d+)\)", w)
                fails.append(("no_decision_on_uninitialised_value", ("uninit", (loc.group(1) if loc else w[:40]).split(":")[0]), dict(driver="contact", input=l[:100000], report=r.stderr[:6000]), "valgrind on the contact phase of lattice cubes: %s at %s" % (k, w[:160])))
                break
            if r.returncode not in (0, 9) and r.returncode < 0:
                fails.append(("no_crash", ("signal", "contact-valgrind"), dict(driver="contact", input=l[:100000], stderr=r.stderr[-3000:]), "contact driver died under valgrind with signal %d" % -r.returncode)); break
    except FileNotFoundError:
        pass
    # refinement histories from compact vectors (the C01 generator), if available
    try:
        c01 = importlib.import_module("checks.c01")
        import refine_common
        if hasattr(refine_common, "gen_history"):
            hs = [refine_common.gen_history(random.Random(ck.seed * 17 + i), "c10h%d" % i) for i in range(4 if quick else 40)]
            asan_lines("refine", [h["line"] if isinstance(h, dict) else h for h in hs])
    except Exception as e:
        ck.notes["refine_histories"] = "not run here (%s); they run under ASan in C01/C11" % str(e)[:80]
    # ---- valgrind: decisions on uninitialised values in the smallest solver scenario
    vg_note = "not run"
    try:
        from checks.c08 import std_types, R
        impl = vlib.build_driver("solver", wrap_clock=True, opt="-O0")
        n0, f = tissue.icosphere(1); n0 = tissue.perturb(random.Random(3), n0, 0.04 * tissue.mean_edge(n0, f))
        V = abs(tissue.signed_volume([[x * R for x in p] for p in n0], f))
        cts = std_types(V, ["normal", "normal"], [3, 3])
        cells = [(i, tissue.transform(n0, None, (i * 1.95 * R, 0, 0), (R, R, R)), f) for i in range(2)]
        p = tissue.params(dt=1e-7, damping=5e-10, T=1.0, S=1.0, lmin=1.0e-6, cut_adh=5e-7, cut_rep=5e-7, swap=1)
        line = tissue.fmt_tissue(p, cts, cells) + " RUN 3 1 5 0 c10vg 0"
        r = subprocess.run(["valgrind", "--error-exitcode=9", "--track-origins=yes", "-q", impl], input=line + "\n", capture_output=True, text=True, timeout=3000,
                           env=dict(os.environ, OMP_NUM_THREADS="1"))
        nscen += 1
        reps = re.findall(r"==\d+== (Conditional jump or move depends on uninitialised value\(s\)|Use of uninitialised value[^\n]*|Invalid (?:read|write)[^\n]*)\n==\d+==    at 0x[0-9A-F]+: ([^\n]*)", r.stderr)
        own = [(k, w) for k, w in reps if ".cpp:" in w or ".hpp:" in w]
        vg_note = "%d reports" % len(reps)
        seenw = set()
        for k, w in own:
            loc = re.search(r"\(([\w\.]+:\d+)\)", w)
            key = loc.group(1) if loc else w[:60]
            if key in seenw:
                continue
            seenw.add(key)
            fails.append(("no_decision_on_uninitialised_value", ("uninit", key.split(":")[0]), dict(driver="solver", input=line[:100000], report=r.stderr[:6000]), "valgrind: %s at %s" % (k, w[:160])))
    except FileNotFoundError:
        vg_note = "valgrind not available"
    ck.cov["evaluations"] = nscen
    ck.cov["distinct_nontrivial"] = nscen
    ck.cov["traces_validated_against_impl"] = 0
    ck.notes["scenarios_per_driver"] = dist
    ck.notes["valgrind"] = vg_note
    ck.sample(dict(drivers=sorted(dist)), limit=1)
    seen = set()
    for key, sig, case, what in fails:
        k2 = "%s:%s:%s" % (key, sig[0], sig[1])
        if k2 in seen or len(seen) >= 8:
            continue
        seen.add(k2)
        ck.report(case, oracle=key, key="memory:" + k2, what=what)
    if not ck.violations and not ok:
        ck.report(dict(log=ck.proof_res["log"][-3000:]), unchecked="Properties_C10.vo (incl. the fact tables regenerated from the headers)", what="proof obligations of C10 no longer check")
    ck.cov["trusted_base"] = vlib.TRUSTED_BASE_COMMON + ["AddressSanitizer/UBSan (g++ 12) and valgrind 3.19 memcheck as observers", "harness/translate_facts.py (regex-level reading of the headers)",
                                                        "the action lists of Lifetime.v are hand transcriptions of the code fragments"]
    ck.assumptions = ["no semantics of C++ is available: memory safety of unmodelled code is explored on generated scenarios only", "data races are C15's observer (ThreadSanitizer), not repeated here"]


def replay(ck, path):
    j = json.load(open(path))
    c = j["case"]
    name = c.get("driver", "run")
    wrap = name in ("run", "init", "divide", "solver")
    if c.get("report", "").startswith("==") and "valgrind" in j.get("what", ""):
        print(c["report"][:3000]); return 0
    exe = vlib.build_driver(name, wrap_clock=wrap, san=True, **({"contact": 1} if name == "contact" else {}))
    r = vlib.run([exe], input=c["input"] + "\n", timeout=1800, env=ASAN_ENV)
    print(r.stderr[:4000])
    return 1 if classify(r.stderr) else 0
