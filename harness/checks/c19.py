"""C19 — output files and statistics are complete, well-formed and match simulated state.
proof:          coq/Properties_C19.v (model Output.v: the event machine of solver::run / run_iteration / save_mesh;
                column table regenerated from include/io/mesh_data.hpp)
correspondence: the real solver::run() (observed through an overriding run_iteration) on generated (T, dt, S) and
                population histories (growth, division, removal, emptying) vs the model's event sequence at binary64:
                file numbers, the population each file and each statistics record describes, recorded iterations,
                simulated times; file and in-memory statistics
oracle:         on the implementation alone: files in pairs numbered 1..K without gaps, K within one of T/S+1,
                each cell file parseable with the cells alive when written; one header; records at every 50th
                iteration and the last; one row per living cell; as many fields as the header; id, type, area, volume,
                target volume and pressure equal to the cell's getters at the printed precision."""
import random, json, math, os, shutil
import vlib, tissue
from vlib import hx, unhx
from checks.c08 import std_types, R

LEVEL = "proof"


def gen_case(rng, tag, forced=None):
    n0, f = tissue.icosphere(1)
    nc = rng.choice([1, 1, 2, 3])
    V = abs(tissue.signed_volume([[x * R for x in p] for p in n0], f))
    scen = forced or rng.choice(["steady", "steady", "S=dt", "S~dt", "divide", "remove", "empty", "noncomm"])
    roles = ["normal"] * nc
    evs = []
    dt = 1e-7 * rng.choice([1.0, 0.5, 0.3, 1.7])
    niter = rng.choice([3, 7, 20, 49, 50, 51, 100, 101, 149, 160])
    if scen == "S=dt":
        S = dt; niter = rng.choice([20, 33, 60, 101, 128])
        dt = rng.choice([1e-9, 1e-7, 0.7e-7, 3e-8, 1.1e-7]); S = dt
    elif scen == "S~dt":
        S = dt * (1 + rng.choice([1e-15, 1e-12, 1e-6, 0.01, 0.3]))
    elif scen == "noncomm":
        S = dt * rng.choice([math.pi, math.e, 7.3, 1.5, 2.5, 10.1])
    else:
        S = dt * rng.choice([1, 2, 3, 5, 10, 16, 50, 64])
    T = niter * dt * rng.choice([1.0, 1.0, 1.0 + 1e-9, 0.999, 1.0004, 0.97])
    if scen == "divide":
        roles[rng.randrange(nc)] = "divide0"
        if nc > 1 and rng.random() < 0.5:
            i = rng.randrange(nc); roles[i] = "divide_later"; evs.append((rng.choice([3, 6, 48, 51]), i, 1.18))
    elif scen == "remove":
        i = rng.randrange(nc); roles[i] = "remove_later"; evs.append((rng.choice([0, 2, 49, 50, 51, 99]), i, 0.85))
    elif scen == "empty":
        roles = ["remove_later"] * nc
        for i in range(nc):
            evs.append((rng.choice([1, 2, 5, 50]), i, 0.85))
    if scen == "static_merge":
        nc = max(nc, 2); roles = ["normal"] * nc
    cts = std_types(V, roles, [3] * nc)
    for k, ct in enumerate(cts):
        ct["gid"] = 0 if roles[k] != "normal" else rng.choice([0, 0, 2, 3])
    cells = []
    for i in range(nc):
        M = tissue.rnd_rot(rng)
        cells.append((i, tissue.transform(n0, M, (i * 3.0 * R, 0.0, 0.0), (R, R, R)), f))
    if scen == "static_merge":
        # a static (or ECM) cell one of whose edges is far below the minimum edge length: the refiner merges it in the first pass, the
        # cell then holds a free node slot and free face slots when the next file pair is written
        k_ = rng.randrange(nc); cts[k_]["gid"] = rng.choice([4, 4, 1])
        i_, n_, f_ = cells[k_]; a_, b_ = f_[0][0], f_[0][1]
        # (both end points are drawn towards the midpoint: the node that replaces them stays within l_max of all its neighbours, so no
        #  split refills the freed slots)
        n_ = [list(q) for q in n_]; mid_ = [(n_[a_][k] + n_[b_][k]) / 2 for k in range(3)]
        n_[a_] = [mid_[k] + 0.05 * (n_[a_][k] - mid_[k]) for k in range(3)]; n_[b_] = [mid_[k] + 0.05 * (n_[b_][k] - mid_[k]) for k in range(3)]
        cells[k_] = (i_, n_, f_)
    p = tissue.params(dt=dt, damping=5e-10, T=T, S=S, lmin=7.5e-7 * 2, cut_adh=5e-7, cut_rep=5e-7, swap=0)
    string_stats = rng.random() < 0.4
    line = tissue.fmt_tissue(p, cts, cells) + " RUN 1 %d %s %d %d %s" % (rng.randrange(10 ** 6), tag, 1 if string_stats else 0, len(evs), " ".join("%d %d %s" % (a, b, hx(c)) for a, b, c in evs))
    return dict(line=line, scen=scen, dt=dt, S=S, T=T, nc=nc, niter=niter, string=string_stats, tag=tag)


FACE_OWNERS = {}      # (id(facefiles list), file number) -> {owner id text: number of faces} read from the face_cell_id array


def parse_out(out):
    sec = [s.strip() for s in out.split(" # ")]
    its = []
    t = sec[0].split()
    i = 1
    while i < len(t):
        assert t[i] == "IT"
        k = int(t[i + 1]); tb = unhx(t[i + 2]); fb = int(t[i + 3]); i += 4
        assert t[i] == "B"; nb = int(t[i + 1]); i += 2
        before = []
        for _ in range(nb):
            a, r = t[i].split(":"); before.append((int(a), int(r))); i += 1
        assert t[i] == "A"; na = int(t[i + 1]); i += 2
        after = []
        for _ in range(na):
            after.append(dict(id=int(t[i]), type=int(t[i + 1]), area=unhx(t[i + 2]), vol=unhx(t[i + 3]), tvol=unhx(t[i + 4]), P=unhx(t[i + 5]))); i += 6
        its.append(dict(k=k, t=tb, file=fb, before=before, after=after))
    e = sec[1].split()
    end = dict(iter=int(e[1]), time=unhx(e[2]), file=int(e[3]), ncells=int(e[4]), exc=e[5])
    cellfiles = []
    body = sec[2][len("CELLFILES"):].strip()
    for item in [x.strip() for x in body.split("|") if x.strip()]:
        n, rest = item.split(":", 1); r = rest.split()
        cellfiles.append((int(n), r))
    facefiles = []; FACE_OWNERS.clear() if False else None
    for x in sec[3].split()[1:]:
        q = x.split(":")
        facefiles.append((int(q[0]), int(q[1])))
        own = {}
        if len(q) > 2 and q[2] not in ("", "-"):
            for kv in q[2].split(","):
                k_, n_ = kv.rsplit("x", 1); own[k_] = int(n_)
        FACE_OWNERS[(id(facefiles), int(q[0]))] = own if (len(q) > 2 and q[2] != "-") else None
    FACE_OWNERS[id(facefiles)] = facefiles
    stats = sec[4][len("STATS"):].strip()
    rows = [r for r in stats.split(";") if r != ""]
    return its, end, cellfiles, facefiles, rows


def history(its, pop0):
    """(mid, fin) per iteration: mid = population when the statistics are recorded (after the divisions)"""
    hist = []
    for it in its:
        before = [a for a, r in it["before"]]; ready = {a for a, r in it["before"] if r}
        after = [c["id"] for c in it["after"]]
        new = [a for a in after if a not in before]
        vanished = [a for a in before if a not in after]
        mothers = [a for a in vanished if a in ready] if (it["k"] % 5 == 0 and len(new) >= 2) else []
        mothers = mothers[:len(new) // 2]
        mid = [a for a in before if a not in mothers] + new
        hist.append((mid, after))
    return hist


def fmt3(x, f="%.3e"):
    return f % x


def oracle(c, its, end, cellfiles, facefiles, rows, colnames):
    T, S, dt = c["T"], c["S"], c["dt"]
    if end["exc"] != "-":
        return None      # an exception ended the run: other properties judge that
    nums = [n for n, _ in cellfiles]
    K = len(nums)
    if nums != list(range(1, K + 1)):
        return "file_numbers_consecutive (cell files numbered %s)" % nums[:40]
    if [n for n, _ in facefiles] != nums:
        return "files_in_pairs (cell files %s, face files %s)" % (nums[:30], [n for n, _ in facefiles][:30])
    if any(ok != 1 for _, ok in facefiles):
        return "face_file_wellformed"
    N = end["iter"]
    emptied = end["ncells"] == 0
    if not emptied:
        q = T / S
        lo = math.floor(q * (1 - 1e-9)); hi = math.floor(q * (1 + 1e-9)) + 1
        if not (lo <= K <= hi):
            return "K_within_one_of_T_over_S_plus_1 (K=%d, T/S=%r)" % (K, q)
        # simulated time advances by dt per iteration until T is reached
        if not (abs(end["time"] - N * dt) <= 1e-9 * N * dt and end["time"] >= T and (N - 1) * dt * (1 - 1e-9) < T):
            return "time_advances_by_dt_until_T (N=%d, t=%r, T=%r, dt=%r)" % (N, end["time"], T, dt)
    # every cell file parseable and describing the cells alive when it was written
    saved_at = {}
    fb = 0
    for it in its:
        pass
    # file k is written in the first iteration whose file counter afterwards is >= k: reconstruct from the counters
    counters = [it["file"] for it in its] + [end["file"]]
    for j, it in enumerate(its):
        for k in range(counters[j] + 1, counters[j + 1] + 1):
            saved_at[k] = j
    for n, _ok in facefiles:
        own = FACE_OWNERS.get((id(facefiles), n))
        j = saved_at.get(n)
        if own is None or j is None:
            continue
        alive = [a for a, _ in its[j]["before"]]
        try:
            named = sorted(int(float(k_)) for k_ in own)
        except ValueError:
            return "face_file_wellformed (result_%d.vtk: face_cell_id values %s)" % (n, list(own)[:4])
        if named != sorted(alive):
            return "file_describes_cells_alive_when_written (face_data/result_%d.vtk attributes its faces to the cells %s, alive at iteration %d were %s)" % (n, named[:12], j, sorted(alive)[:12])
    for n, r in cellfiles:
        if r and r[0] in ("UNREADABLE", "BADNAME"):
            return "cell_file_parseable (result_%d.vtk: %s)" % (n, r[0])
        j = saved_at.get(n)
        if j is None:
            continue
        alive = its[j]["before"]
        if int(r[0]) != len(alive):
            return "file_describes_cells_alive_when_written (result_%d.vtk has %s cells, %d were alive at iteration %d)" % (n, r[0], len(alive), j)
        if "W" in r:
            wf = r[r.index("W") + 1:]; r = r[:r.index("W")]
            if "0" in wf:
                return "cell_file_describes_closed_surfaces (result_%d.vtk: cell number %d of the file is not a closed consistently oriented surface using every point it lists)" % (n, wf.index("0"))
        if "I" in r:
            fid = r[r.index("I") + 1:]
            try:
                fid = [int(float(x)) for x in fid]
            except ValueError:
                return "cell_file_parseable (result_%d.vtk: cell_id array %s)" % (n, fid[:6])
            if fid != [a for a, _ in alive]:
                return "file_describes_cells_alive_when_written (result_%d.vtk names the cells %s, alive at iteration %d were %s)" % (n, fid[:12], j, [a for a, _ in alive][:12])
    # statistics
    if not rows:
        return "statistics_header_present"
    header = rows[0].rstrip(",").split(",")
    if sum(1 for r in rows if r.startswith("iteration")) != 1:
        return "one_header"
    recs = {}
    order = []
    for r in rows[1:]:
        f = r.rstrip(",").split(",")
        if len(f) != len(header):
            return "row_has_as_many_fields_as_header (%d vs %d: %s)" % (len(f), len(header), r[:100])
        itn = int(f[0])
        if itn not in recs:
            recs[itn] = []; order.append(itn)
        recs[itn].append(dict(zip(header, f)))
    expect_iters = [i for i in range(N) if i % 50 == 0] + [N]
    hist = history(its, None)
    for i in expect_iters:
        alive = (hist[i][0] if i < N else [x["id"] for x in its[-1]["after"]] if its else None)
        if alive is None:
            continue
        got = [int(r["cell_id"]) for r in recs.get(i, [])]
        if got != alive:
            return "one_row_per_cell_alive_when_recorded (iteration %d: rows for %s, alive %s)" % (i, got, alive)
    if [i for i in order if recs[i]] != [i for i in expect_iters if recs.get(i)] or any(i not in expect_iters for i in order):
        return "recorded_iterations_every_50th_and_last (recorded %s, expected %s)" % (order[:20], expect_iters[:20])
    # values at the printed precision (cells still alive at the end of the recorded iteration)
    for i in expect_iters:
        src = its[i]["after"] if i < N else (its[-1]["after"] if its else [])
        byid = {x["id"]: x for x in src}
        for r in recs.get(i, []):
            x = byid.get(int(r["cell_id"]))
            if x is None:
                continue
            want = dict(type_id="%d" % x["type"], area=fmt3(x["area"]), volume=fmt3(x["vol"]), target_volume=fmt3(x["tvol"]), pressure=fmt3(x["P"]))
            for k, v in want.items():
                if r.get(k) != v:
                    return "row_values_equal_cell_values (iteration %d cell %s column %s: printed %s, cell has %s)" % (i, r["cell_id"], k, r.get(k), v)
    return None


RUN_TIMEOUT = 240      # seconds per run (a stable run of these sizes takes 1-20 s)


def run(ck):
    ncase = 36 if ck.tier == "quick" else 600
    ck.cov["rule"] = ("real solver::run() on 1-3 icosphere cells for 3-160 iterations over generated (T, dt, S): S a multiple of dt, S = dt, S a few ulps above dt, non-commensurable ratios, T on and off the grid of time steps; scenarios steady / dividing at iteration 0 and later / removed at chosen iterations (incl. 49, 50, 51) / emptying population; file and in-memory statistics; non-trivial = runs with more than one file and a population change or S <= 1.01 dt")
    ok = ck.proofs()
    impl = vlib.build_driver("run", wrap_clock=True)
    model = vlib.ocaml_model()
    rng = random.Random(ck.seed * 6151 + 19)
    cases = []
    # corpus first: the sampling period equal to the time step (binary64 accumulation of the time)
    for j, (dt_, n_) in enumerate([(1e-9, 20), (0.7e-7, 12), (1e-7, 40)]):
        c = gen_case(random.Random(1000 + j), "c19_k%d" % j, forced="S=dt")
        cases.append(c)
    cases += [gen_case(rng, "c19_%d" % i) for i in range(ncase)]
    rng_st = random.Random(ck.seed * 1009 + 19)       # static / ECM cells that the refiner has to repair before the first files are written (own stream)
    cases += [gen_case(rng_st, "c19_st%d" % i, forced="static_merge") for i in range(3 if ck.tier == "quick" else 30)]
    # a third of the runs start with persistent ids beyond 2^15 / 2^16 (as late in a long simulation with many divisions)
    for i, c in enumerate(cases):
        if i % 3 == 1:
            c["id_offset"] = rng.choice([32766, 40000, 65534, 70000])
        # every fourth run writes into a folder that still holds the output of an earlier, longer run: the files found afterwards are
        # the files of THIS run (the numbering rule and "a file describes cells alive when it was written" are judged on the folder)
        if i % 4 == 2:
            c["stale_files"] = True
    from concurrent.futures import ThreadPoolExecutor
    def one(c):
        try:
            env = {"OMP_NUM_THREADS": "1"}
            if c.get("id_offset"):
                env["VERIF_ID_OFFSET"] = str(c["id_offset"])
            if c.get("stale_files"):
                env["VERIF_STALE_FILES"] = "1"
            p = vlib.run([impl], input=c["line"] + "\n", timeout=RUN_TIMEOUT, env=env)
            return p.returncode, p.stdout, p.stderr[-800:]
        except Exception as e:
            return -999, "", str(e)
    with ThreadPoolExecutor(vlib.NJOBS) as ex:
        res = list(ex.map(one, cases))
    fails = []; broken = []; nontriv = 0; q = []; qi = []; parsed = {}; dist = {}; timeouts = []; aborted = {}
    for ci, (c, (rc_, out, err)) in enumerate(zip(cases, res)):
        dist[c["scen"]] = dist.get(c["scen"], 0) + 1
        if rc_ == -999 and "timed out" in err:
            # the dynamics of the generated tissue left the stable regime (a collapsing cell blows up and the refiner splits for
            # minutes): nothing about the outputs can be concluded from the run, unless the files written so far already break the rule
            import glob
            nfiles = 0
            for d in glob.glob(os.path.join(vlib.CACHE, "tmp", "run_%s_*" % c["tag"])):
                nfiles = max(nfiles, len(glob.glob(os.path.join(d, "cell_data", "result_*.vtk"))))
                shutil.rmtree(d, ignore_errors=True)
            if nfiles > c["T"] / c["S"] + 2:
                fails.append((ci, "file_count_within_one_of_T_over_S (%d cell files written before the run was stopped, T/S+1 = %.2f)" % (nfiles, c["T"] / c["S"] + 1))); continue
            timeouts.append(ci); continue
        if rc_ != 0 or not out.startswith("ITS"):
            fails.append((ci, "run_completes (exit status %s: %s %s)" % (rc_, out[:200], err[-300:].replace("\n", " ")))); continue
        endsec = out.split(" # END ")[1].split(" # ")[0].split() if " # END " in out else []
        if len(endsec) >= 5 and endsec[4] != "-":
            # the run was aborted by an exception: the property speaks of runs that reach T.  Instability of the generated dynamics
            # (reported by the refiner or the geometry) is outside it; an exception of the output side means the run did not produce its outputs
            if any(w in endsec[4].lower() for w in ("write", "writer", "file", "statistic", "folder", "directory")):
                fails.append((ci, "run_completes (exception from the output side: %s)" % endsec[4][:200])); continue
            aborted[endsec[4][:60]] = aborted.get(endsec[4][:60], 0) + 1; continue
        try:
            its, end, cellfiles, facefiles, rows = parse_out(out)
        except Exception as e:
            broken.append((ci, "driver output not understood (%s)" % e)); continue
        parsed[ci] = (its, end, cellfiles, facefiles, rows)
        if len(cellfiles) > 1 and (c["scen"] in ("divide", "remove", "empty") or c["S"] <= 1.01 * c["dt"]):
            nontriv += 1
        f = oracle(c, its, end, cellfiles, facefiles, rows, None)
        if f:
            fails.append((ci, f))
        if end["exc"] == "-" and its:
            pop0 = [a for a, r in its[0]["before"]]
            hist = history(its, pop0)
            ids = lambda l: "%d %s" % (len(l), " ".join(str(x) for x in l))
            q.append("%s %s %s %s %d %s" % (hx(c["dt"]), hx(c["S"]), hx(c["T"]), ids(pop0), len(hist), " ".join(ids(m) + " " + ids(f_) for m, f_ in hist)))
            qi.append(ci)
    if q:
        mo = vlib.run([model, "output"], input="\n".join(q) + "\n", check=True, timeout=900).stdout.strip().split("\n")
        for ci, l in zip(qi, mo):
            its, end, cellfiles, facefiles, rows = parsed[ci]
            t = l.split()
            if t[0] == "OUT-OF-HISTORY":
                broken.append((ci, "the model's loop runs longer than the implementation's (%d iterations)" % len(its))); continue
            i = 0; saves = []; recs = []; mend = None
            while i < len(t):
                if t[i] == "S":
                    n = int(t[i + 2]); saves.append((int(t[i + 1]), [int(x) for x in t[i + 3:i + 3 + n]])); i += 3 + n
                elif t[i] == "R":
                    n = int(t[i + 3]); recs.append((int(t[i + 1]), unhx(t[i + 2]), [int(x) for x in t[i + 4:i + 4 + n]])); i += 4 + n
                elif t[i] == "END":
                    mend = (int(t[i + 1]), unhx(t[i + 2]), int(t[i + 3])); i += 4
            d = None
            if mend != (end["iter"], end["time"], end["file"]) and not (mend[0] == end["iter"] and vlib.same_bits(mend[1], end["time"]) and mend[2] == end["file"]):
                d = "final state differs (model iter/time/file %s, implementation %s)" % (mend, (end["iter"], end["time"], end["file"]))
            elif [k for k, _ in saves] != [n for n, _ in cellfiles]:
                d = "files written differ (model %s, implementation %s)" % ([k for k, _ in saves][:30], [n for n, _ in cellfiles][:30])
            elif [len(p) for _, p in saves] != [int(r[0]) if r and r[0].isdigit() else -1 for _, r in cellfiles]:
                d = "populations in the files differ"
            else:
                hdr = rows[0].rstrip(",").split(",")
                got = {}
                order = []
                for r in rows[1:]:
                    f = dict(zip(hdr, r.rstrip(",").split(",")))
                    k = int(f["iteration"])
                    if k not in got:
                        got[k] = []; order.append(k)
                    got[k].append((int(f["cell_id"]), f["simulation_time"]))
                mrec = [(i_, "%.2e" % tm, p) for i_, tm, p in recs]
                want_order = [i_ for i_, _, p in mrec if p]
                if order != want_order:
                    d = "recorded iterations differ (model %s, implementation %s)" % (want_order[:20], order[:20])
                else:
                    for i_, tm, p in mrec:
                        if p and ([a for a, _ in got[i_]] != p or any(s != tm for _, s in got[i_])):
                            d = "statistics record of iteration %d differs (model ids %s time %s, implementation %s)" % (i_, p, tm, got[i_][:6]); break
            if d:
                broken.append((ci, d))
    # ---- the composition of the phases (Iteration.v, run in the order generated from src/solver.cpp): from the observed
    # division / removal events the model predicts, per iteration, the population afterwards, the cells a statistics record
    # lists and the cells a mesh file describes
    iq = []; iqi = []
    for ci, (its, end, cellfiles, facefiles, rows) in parsed.items():
        if end["exc"] != "-" or not its:
            continue
        ids0 = [a for a, _ in its[0]["before"]]
        if ids0 != list(range(len(ids0))):
            continue
        t = [str(len(ids0)), str(len(its))]
        for it in its:
            before = [a for a, r in it["before"]]; ready = {a for a, r in it["before"] if r}
            after = [c_["id"] for c_ in it["after"]]
            new = [a for a in after if a not in before]; vanished = [a for a in before if a not in after]
            mothers = ([a for a in vanished if a in ready] if (it["k"] % 5 == 0 and len(new) >= 2) else [])[:len(new) // 2]
            # daughters that were removed in the same iteration are invisible here; such runs are left to the other comparisons
            removed = [a for a in vanished if a not in mothers]
            t += [str(len(mothers))] + [str(before.index(a)) for a in mothers] + [str(len(removed))] + [str(a) for a in removed] + ["0"]
        iq.append(" ".join(t)); iqi.append(ci)
    niter_model = 0
    if iq:
        mo = vlib.run([model, "iteration"], input="\n".join(iq) + "\n", check=True, timeout=1200).stdout.strip().split("\n")
        for ci, l in zip(iqi, mo):
            its, end, cellfiles, facefiles, rows = parsed[ci]
            if not l.startswith("OK"):
                broken.append((ci, "iteration model: " + l[:80])); continue
            secs = [x.strip() for x in l.split("|")[1:]]
            hdr = rows[0].rstrip(",").split(",") if rows else []
            got = {}
            for r in rows[1:]:
                f = dict(zip(hdr, r.rstrip(",").split(",")))
                got.setdefault(int(f["iteration"]), []).append(int(f["cell_id"]))
            counters = [it["file"] for it in its] + [end["file"]]
            nfile = {n: (int(r[0]) if r and r[0].isdigit() else -1) for n, r in cellfiles}
            d = None
            for j, (it, sec) in enumerate(zip(its, secs)):
                pop_, save_, stats_, uses_, cnt_ = [x.strip() for x in sec.split(";")]
                lst = lambda x: [int(y) for y in x.split(",")] if x and x != "-" else []
                if lst(pop_) != [c_["id"] for c_ in it["after"]]:
                    if len(lst(pop_)) == len(it["after"]) and sorted(lst(pop_)) != sorted(c_["id"] for c_ in it["after"]):
                        d = "population after iteration %d (model %s, implementation %s)" % (j, lst(pop_)[:12], [c_["id"] for c_ in it["after"]][:12]); break
                    d = "population after iteration %d (model %s, implementation %s)" % (j, lst(pop_)[:12], [c_["id"] for c_ in it["after"]][:12]); break
                if uses_ != "1":
                    d = "a phase of iteration %d dereferences list indices that are not positions (model)" % j; break
                if (stats_ != "-") != (j in got) and not (j == end["iter"]):
                    d = "statistics record of iteration %d: model %s, implementation %s" % (j, "records" if stats_ != "-" else "does not record", "records" if j in got else "does not record"); break
                if stats_ != "-" and j in got and got[j][:len(lst(stats_))] != lst(stats_):
                    d = "cells listed by the statistics record of iteration %d (model %s, implementation %s)" % (j, lst(stats_)[:12], got[j][:12]); break
                written = [k for k in range(counters[j] + 1, counters[j + 1] + 1)]
                if written and save_ == "-":
                    d = "mesh files %s written at iteration %d, the model writes none" % (written, j); break
                for k in written:
                    if nfile.get(k, -1) != len(lst(save_)):
                        d = "mesh file %d describes %d cells, the model %d" % (k, nfile.get(k, -1), len(lst(save_))); break
                if d:
                    break
            if d:
                broken.append((ci, "Iteration.v (phases in source order): " + d))
            else:
                niter_model += len(its)
    ck.notes["iterations_reproduced_by_the_phase_composition_model"] = niter_model
    ck.cov["evaluations"] = len(cases)
    ck.cov["distinct_nontrivial"] = nontriv
    ck.cov["traces_validated_against_impl"] = len(q) + len(iq) - len(broken)
    ck.notes["input_distribution"] = dist
    ck.notes["runs_stopped_after_%d_s_without_conclusion" % RUN_TIMEOUT] = len(timeouts)
    ck.notes["runs_aborted_by_an_exception_of_the_dynamics"] = aborted
    ck.sample(dict(scenario=cases[3]["scen"], dt=cases[3]["dt"], S=cases[3]["S"], T=cases[3]["T"]), limit=1)
    seen = set()
    for ci, f in fails:
        key = f.split(" ")[0]
        if key in seen:
            continue
        seen.add(key)
        ck.report(dict(input=cases[ci]["line"], scenario=cases[ci]["scen"], dt=cases[ci]["dt"], S=cases[ci]["S"], T=cases[ci]["T"], stale_files=bool(cases[ci].get("stale_files")), id_offset=cases[ci].get("id_offset")), oracle=key, key="output:" + key, what="solver::run: " + f)
    if not ck.violations:
        if not ok:
            ck.report(dict(log=ck.proof_res["log"][-3000:]), unchecked="Properties_C19.vo", what="proof obligations of C19 no longer check")
        if broken:
            ci, d = broken[0]
            ck.report(dict(input=cases[ci]["line"], difference=d, n_disagreements=len(broken)), unchecked="correspondence Output.v = solver::run/save_mesh/statistics",
                      what="model and implementation disagree on %d runs (%s)" % (len(broken), d))
    ck.cov["trusted_base"] = vlib.TRUSTED_BASE_COMMON + ["harness/translate_columns.py (regenerates the statistics column table from mesh_data.hpp)",
                                                        "the population history of a run is observed (overriding run_iteration) and fed to the model; which vanished cells were mothers is inferred from their readiness flag",
                                                        "mesh_reader is used to parse the cell files (its own correctness is C16)"]
    ck.assumptions = ["sampling period >= time step > 0 (what parameter_reader enforces)", "K bound and time law judged with a relative slack of 1e-9 for the binary64 accumulation of the time"]


def replay(ck, path):
    j = json.load(open(path))
    impl = vlib.build_driver("run", wrap_clock=True)
    env = {"OMP_NUM_THREADS": "1"}
    if j["case"].get("stale_files"):
        env["VERIF_STALE_FILES"] = "1"
    if j["case"].get("id_offset"):
        env["VERIF_ID_OFFSET"] = str(j["case"]["id_offset"])
    out = vlib.run([impl], input=j["case"]["input"] + "\n", timeout=900, env=env).stdout
    its, end, cellfiles, facefiles, rows = parse_out(out)
    print("END", end); print("cell files", [n for n, _ in cellfiles]); print("\n".join(rows[:8]))
    c = dict(T=j["case"]["T"], S=j["case"]["S"], dt=j["case"]["dt"])
    f = oracle(c, its, end, cellfiles, facefiles, rows, None)
    print("oracle:", f)
    return 1 if f else 0
