"""C06 — contact detection finds every node-face pair within the interaction range.
proof:          coq/Properties_C06.v (model Contact.v + Grid.v: padded face boxes, uniform grid, registration of every
                face in every voxel its box overlaps, per-node look-up; the same narrow phase driven by all pairs)
correspondence: the model at binary64 vs contact_model::run of the default contact model on generated tissues:
                grid dimensions, the content of every voxel, and every node's force, coupling and position, bit for bit
oracle:         implementation only: the repository's own narrow phase driven by ALL node-face pairs (no grid) must give
                bit-identical forces, couplings and positions; out-of-range voxel indices are caught by ASan."""
import random, json
import vlib, contact_common as cc

LEVEL = "proof"


def run(ck):
    ncase = 40 if ck.tier == "quick" else 600
    ck.cov["rule"] = ("tissues of 2-6 icosphere cells (rows, clusters, overlapping, one inside another, matrix shells, far apart) of classes epithelial/ECM/lumen/nucleus/static, cut-off/edge-length ratios 0.1-2, placements at the origin, straddling it, negative, 1e2-1e4 cell sizes away; cubes with dyadic coordinates whose padded extent is an exact multiple of the voxel size at offsets 1024-4096 (absolute epsilon absorbed); persistent ids different from list positions; default contact model, single thread, ASan+UBSan build; non-trivial = tissues with at least one force or coupling")
    ok = ck.proofs()
    rng = random.Random(ck.seed * 4447 + 6)
    cases = [cc.gen_tissue(rng) for _ in range(ncase)]
    # corpus: the dyadic arrangement whose face boxes end exactly on the upper boundary of the grid
    for k in range(4):
        r2 = random.Random(100 + k)
        c = cc.gen_tissue(r2)
        while c["kind"] != "dyadic" or c["place"] == "origin":
            c = cc.gen_tissue(r2)
        cases.insert(0, c)
    # tissues in contact placed metres from the origin (10^6 cell sizes): whatever the broad phase stores at reduced precision no
    # longer resolves a cut-off there (own stream)
    rng_v = random.Random(ck.seed * 4447 + 7); nv = 0
    while nv < (6 if ck.tier == "quick" else 60):
        c = cc.gen_tissue(rng_v)
        if c["kind"] not in ("row", "cluster", "overlap", "ecm"):
            continue
        sh = (1e6 * cc.R * rng_v.choice([-1, 1]), 2e6 * cc.R * rng_v.choice([-1, 1]), 0.5e6 * cc.R)
        c["cells"] = [([[q[k] + sh[k] for k in range(3)] for q in n_], f_) for n_, f_ in c["cells"]]; c["place"] = "metres_away"; c["pre_merges"] = 0
        cases.append(c); nv += 1
    outs, crashes = cc.run_cases(cases, contact=1, san=True)
    fails = []; broken = []; nontriv = 0; dist = {}
    cinfo = dict(crashes)
    lines = []; idx = []
    for i, (c, o) in enumerate(zip(cases, outs)):
        dist[c["kind"] + "/" + c["place"]] = dist.get(c["kind"] + "/" + c["place"], 0) + 1
        if o is not None and o.startswith("FATAL PREMERGE"):
            continue          # the preparation of the tissue (edge merges before the phase) failed: not a case
        if o is None or o.startswith("FATAL"):
            info = cinfo.get(i, o or "")
            fails.append((i, "contact_phase_indexes_existing_voxels", "the contact phase died on a %s tissue placed %s (%s)" % (c["kind"], c["place"], info[-400:].replace("\n", " "))))
            continue
        sec = o.split(" # ")
        lines.append(cc.model_line(c, sec[0], sec[1])); idx.append(i)
    mo = cc.run_model(lines) if lines else []
    for i, l in zip(idx, mo):
        c = cases[i]; sec = outs[i].split(" # "); ms = l.split(" # ")
        o_i = cc.parse_state(sec[3]); a_i = cc.parse_state(sec[4]) if len(sec) > 4 else None
        if any(n[2] or any(n[1]) for cell in o_i for n in cell):
            nontriv += 1
        d = cc.same_state(o_i, a_i)
        if d:
            fails.append((i, "grid_equals_all_pairs", "grid-based contact phase differs from the same rules applied to all node-face pairs: %s (%s tissue placed %s)" % (d, c["kind"], c["place"])))
        if ms[0].startswith("GRID OOB"):
            broken.append((i, "the model indexes a voxel that does not exist where the implementation returns")); continue
        g_i = cc.parse_grid(sec[2]); g_m = cc.parse_grid(ms[0])
        if g_i[0][:3] != g_m[0][:3] or g_i[0][7] != g_m[0][7] or any(not vlib.same_bits(a, b) for a, b in zip(g_i[0][3:7], g_m[0][3:7])):
            broken.append((i, "grid dimensions differ (model %s, implementation %s)" % (g_m[0], g_i[0]))); continue
        if g_i[1] != g_m[1]:
            k = [v for v in set(g_i[1]) | set(g_m[1]) if g_i[1].get(v) != g_m[1].get(v)][0]
            broken.append((i, "content of voxel %d differs (model %s, implementation %s)" % (k, g_m[1].get(k), g_i[1].get(k)))); continue
        d = cc.same_state(o_i, cc.parse_state(ms[1]))
        if d:
            broken.append((i, "result of the phase differs: " + d)); continue
        d = cc.same_state(cc.parse_state(ms[1]), cc.parse_state(ms[2]))
        if d:
            broken.append((i, "the model's grid phase differs from the model's all-pairs phase: " + d))
    ck.cov["evaluations"] = len(cases)
    ck.cov["distinct_nontrivial"] = nontriv
    ck.cov["traces_validated_against_impl"] = len(lines) - len(broken)
    ck.notes["input_distribution"] = dict(sorted(dist.items()))
    ck.sample(dict(kind=cases[5]["kind"], place=cases[5]["place"], classes=cases[5]["classes"], cut_adh=cases[5]["cut_adh"], lmin=cases[5]["lmin"]), limit=1)
    seen = set()
    for i, key, what in fails:
        if key in seen:
            continue
        seen.add(key)
        ck.report(dict(input=cc.case_line(cases[i]), kind=cases[i]["kind"], place=cases[i]["place"]), oracle=key, key="contact:" + key, what=what)
    if not ck.violations:
        if not ok:
            ck.report(dict(log=ck.proof_res["log"][-3000:]), unchecked="Properties_C06.vo", what="proof obligations of C06 no longer check")
        if broken:
            i, d = broken[0]
            ck.report(dict(input=cc.case_line(cases[i]), difference=d, n_disagreements=len(broken)), unchecked="correspondence Contact.v = contact_node_node_via_coupling::run",
                      what="model and implementation disagree on %d tissues (%s)" % (len(broken), d))
    ck.cov["trusted_base"] = vlib.TRUSTED_BASE_COMMON + ["cos(45 deg)/cos(90 deg) as the compiler folded them are read from the class and passed to the model", "node normals, curvatures, cached face normals and areas are inputs of the phase (computed by the implementation, dumped, fed to the model)"]
    ck.assumptions = ["default contact model (CONTACT_MODEL_INDEX == 1); models 0 and 2 share the broad phase (contact_model_abstract) but their narrow phases are not modelled", "single thread (force accumulation order)"]


def replay(ck, path):
    j = json.load(open(path))
    impl = vlib.build_driver("contact", contact=1, san=True)
    r = vlib.run([impl], input=j["case"]["input"] + "\n", timeout=600, env={"OMP_NUM_THREADS": "1"})
    print(r.stdout[:300]); print(r.stderr[-2000:])
    if r.returncode != 0:
        return 1
    sec = r.stdout.split(" # ")
    d = cc.same_state(cc.parse_state(sec[3]), cc.parse_state(sec[4]))
    print("grid vs all pairs:", d)
    return 1 if d else 0
