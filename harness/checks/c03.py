"""C03 — a time step advances every node by the documented integration law.
proof:          coq/Properties_C03.v (model Integrator.v at R)
correspondence: Integrator.v at binary64 vs time_integration_scheme::update_nodes_positions, six compile-time
                configurations (contact model 0/1/2 x dynamic model 0/1) through the forced-include override
oracle:         independent closed-form recomputation (Python) of the law the property states."""
import random, math, json, os
import vlib
from vlib import hx, unhx

LEVEL = "proof"


def rv(rng, mag):
    return [rng.uniform(-1, 1) * mag for _ in range(3)]


def gen_case(rng, contact):
    nc = rng.randint(1, 6)
    dt = 10 ** rng.uniform(-9, -1)
    damping = 10 ** rng.uniform(-6, 6)
    nsteps = rng.choice([1, 1, 1, 2, 3, 7, rng.randint(1, 50)])
    cells = []
    for c in range(nc):
        cells.append(dict(static=1 if rng.random() < 0.25 else 0, local=c,
                          dens=10 ** rng.uniform(-3, 4), vol=10 ** rng.uniform(-18, 3)))
    scope = True          # inside the property's quantifier (mutual couplings, none into a static cell, local id = index)
    if rng.random() < 0.04 and nc > 1:
        cells[rng.randrange(nc)]["local"] = rng.randrange(nc + 2); scope = False
    nodes = []
    size = 10 ** rng.uniform(-6, 1)
    for c in range(nc):
        k = rng.choice([3, 4, 5, 8, 12, rng.randint(3, 40)])
        fm = 10 ** rng.uniform(-12, 3); pm = 10 ** rng.uniform(-15, 0)
        for i in range(k):
            nodes.append(dict(used=0 if rng.random() < 0.12 else 1, cell=c, p=rv(rng, size * 10), m=rv(rng, pm),
                              f=[0.0, 0.0, 0.0] if rng.random() < 0.1 else rv(rng, fm), cpl=-1, grp=[]))
        if not any(n["used"] for n in nodes if n["cell"] == c):
            nodes[-1]["used"] = 1
    nn = len(nodes)
    idx_by_cell = {c: [g for g in range(nn) if nodes[g]["cell"] == c and nodes[g]["used"]] for c in range(nc)}
    if contact == 1 and nc > 1:
        want = rng.choice([0, 1, 3, 10, 50])
        for _ in range(want):
            c1, c2 = rng.sample(range(nc), 2)
            if not idx_by_cell[c1] or not idx_by_cell[c2]:
                continue
            g1 = rng.choice(idx_by_cell[c1]); g2 = rng.choice(idx_by_cell[c2])
            if nodes[g1]["cpl"] >= 0 or nodes[g2]["cpl"] >= 0:
                continue
            r = rng.random()
            if r < 0.06:
                nodes[g1]["cpl"] = g2; scope = False          # one-directional: correspondence only
            else:
                nodes[g1]["cpl"] = g2; nodes[g2]["cpl"] = g1
                if cells[c1]["static"] or cells[c2]["static"]:
                    scope = False
    if contact == 2 and nc > 1:
        want = rng.choice([0, 1, 3, 10])
        for _ in range(want):
            k = rng.randint(2, min(nc, 4))
            cs = rng.sample(range(nc), k)
            if any(not idx_by_cell[c] for c in cs):
                continue
            gs = [rng.choice(idx_by_cell[c]) for c in cs]
            if any(nodes[g]["grp"] for g in gs):
                continue
            for g in gs:
                # std::map order: by cell id
                nodes[g]["grp"] = sorted([h for h in gs if h != g], key=lambda h: nodes[h]["cell"])
            if any(cells[c]["static"] for c in cs):
                scope = False
    return dict(dt=dt, damping=damping, nsteps=nsteps, cells=cells, nodes=nodes, scope=scope, contact=contact)


def fmt(c):
    t = [hx(c["dt"]), hx(c["damping"]), str(c["nsteps"]), str(len(c["cells"]))]
    for ce in c["cells"]:
        t += [str(ce["static"]), str(ce["local"]), hx(ce["dens"]), hx(ce["vol"])]
    t.append(str(len(c["nodes"])))
    for n in c["nodes"]:
        t += [str(n["used"]), str(n["cell"])] + [hx(x) for x in n["p"] + n["m"] + n["f"]] + [str(n["cpl"]), str(len(n["grp"]))] + [str(g) for g in n["grp"]]
    return " ".join(t)


def parse_out(line):
    a, b = line.split("|")
    xs = [unhx(t) for t in b.split()]
    return unhx(a.strip()), [xs[9 * i:9 * i + 9] for i in range(len(xs) // 9)]


def reference(c, over):
    """independent recomputation of the documented law (only meaningful for in-scope cases)"""
    cells = c["cells"]; nodes = [dict(n, p=list(n["p"]), m=list(n["m"]), f=list(n["f"])) for n in c["nodes"]]
    live = {}
    for n in nodes:
        if n["used"]:
            live[n["cell"]] = live.get(n["cell"], 0) + 1
    mass = {i: ce["dens"] * ce["vol"] / live.get(i, 1) for i, ce in enumerate(cells)}
    dt = c["dt"]; D = c["damping"]
    for _ in range(c["nsteps"]):
        done = set()
        for g, n in enumerate(nodes):
            if g in done or not n["used"] or cells[n["cell"]]["static"]:
                continue
            group = [g]
            if c["contact"] == 1 and n["cpl"] >= 0:
                group = [g, n["cpl"]]
            if c["contact"] == 2 and n["grp"]:
                group = [g] + n["grp"]
            k = len(group)
            f = [sum(nodes[h]["f"][a] for h in group) / k for a in range(3)]
            m = sum(mass[nodes[h]["cell"]] for h in group) / k
            if over:
                d = [f[a] * dt / D for a in range(3)]
                for h in group:
                    nodes[h]["p"] = [nodes[h]["p"][a] + d[a] for a in range(3)]
            else:
                p = [sum(nodes[h]["m"][a] for h in group) / k for a in range(3)]
                if c["contact"] == 2:
                    # as written in the code (known finding, see known_findings.json): positions advance with the
                    # *pre-update* average momentum, each node's own momentum receives the common increment
                    inc = [(f[a] - p[a] * D / m) * dt for a in range(3)]
                    for h in group:
                        nodes[h]["p"] = [nodes[h]["p"][a] + p[a] * dt / m for a in range(3)]
                        nodes[h]["m"] = [nodes[h]["m"][a] + inc[a] for a in range(3)]
                else:
                    pn = [p[a] + (f[a] - p[a] * D / m) * dt for a in range(3)]
                    for h in group:
                        nodes[h]["m"] = list(pn)
                        nodes[h]["p"] = [nodes[h]["p"][a] + pn[a] * dt / m for a in range(3)]
            for h in group:
                nodes[h]["f"] = [0.0, 0.0, 0.0]; done.add(h)
    return nodes


def oracle(c, over, t, out):
    """C03 on the implementation's output (in-scope cases only)"""
    n = c["nsteps"]; dt = c["dt"]
    if abs(t - n * dt) > 1e-12 * n * dt:
        return "time_advances_by_dt"
    ref = reference(c, over)
    cells = c["cells"]
    for g, (nd, o, r) in enumerate(zip(c["nodes"], out, ref)):
        integrated = nd["used"] and not cells[nd["cell"]]["static"]
        if not integrated:
            same = all(vlib.same_bits(o[a], nd["p"][a]) for a in range(3)) and all(vlib.same_bits(o[6 + a], nd["f"][a]) for a in range(3))
            if not over:
                same = same and all(vlib.same_bits(o[3 + a], nd["m"][a]) for a in range(3))
            if not same:
                return "static_cells_untouched" if nd["used"] else "unused_slots_untouched"
            continue
        if any(o[6 + a] != 0.0 for a in range(3)):
            return "forces_zero_after_step"
        for a in range(3):
            dref = r["p"][a] - nd["p"][a]; dimp = o[a] - nd["p"][a]
            tol = 1e-9 * (abs(dref) + abs(dimp)) + 4e-16 * abs(nd["p"][a]) * (c["nsteps"] + 1) + 1e-300
            if abs(dref - dimp) > tol:
                return "node_displacement_law(%s)" % ("coupled" if (nd["cpl"] >= 0 or nd["grp"]) else "uncoupled")
            if not over:
                tolm = 1e-9 * (abs(r["m"][a]) + abs(o[3 + a])) + 1e-12 * abs(nd["m"][a]) + 1e-300
                # the momentum is a difference of possibly large terms: scale by the force impulse too
                tolm += 1e-9 * sum(abs(nd["f"][b]) for b in range(3)) * dt * c["nsteps"]
                if abs(r["m"][a] - o[3 + a]) > tolm:
                    return "node_momentum_law(%s)" % ("coupled" if (nd["cpl"] >= 0 or nd["grp"]) else "uncoupled")
        if c["contact"] == 1 and nd["cpl"] >= 0 and c["nsteps"] == 1:
            h = nd["cpl"]
            for a in range(3):
                d1 = o[a] - nd["p"][a]; d2 = out[h][a] - c["nodes"][h]["p"][a]
                if abs(d1 - d2) > 1e-9 * (abs(d1) + abs(d2)) + 4e-16 * (abs(nd["p"][a]) + abs(c["nodes"][h]["p"][a])) + 1e-300:
                    return "mutual_pair_same_displacement"
    return None


def compare(c, over, ti, io, tm, mo):
    """tier 1 bit-exact, tier 2 numerically equivalent; returns 0 exact, 1 tier2, 2 broken"""
    exact = vlib.same_bits(ti, tm); ok2 = vlib.close(ti, tm, abs(tm))
    cols = list(range(9)) if not over else [0, 1, 2, 6, 7, 8]
    dt = c["dt"]
    for nd, a, b in zip(c["nodes"], io, mo):
        for k in cols:
            if not vlib.same_bits(a[k], b[k]):
                exact = False
                scale = abs(nd["p"][k % 3]) if k < 3 else 0.0
                scale += (sum(abs(x) for x in nd["m"]) + sum(abs(x) for x in nd["f"]) * dt * c["nsteps"]) * (1.0 if 3 <= k < 6 else 0.0)
                if k < 3:
                    scale += abs(a[k] - nd["p"][k]) + abs(b[k] - nd["p"][k])
                if not vlib.close(a[k], b[k], scale, 1e-10):
                    ok2 = False
    return 0 if exact else (1 if ok2 else 2)


CONFIGS = [(1, 0), (1, 1), (0, 0), (0, 1), (2, 0), (2, 1)]

KF_KEY = "integrator:contact2_dynamic0_position_uses_pre_update_momentum"


def known_finding_replay(ck):
    """contact model 2 / dynamic model 0: one uncoupled node, one step.  Documented law: p' = p + (f - D p/m) dt,
    x' = x + p' dt/m.  The code advances x with the pre-update p."""
    c = dict(dt=0.5, damping=1.0, nsteps=1, contact=2, scope=True,
             cells=[dict(static=0, local=0, dens=1.0, vol=3.0)],
             nodes=[dict(used=1, cell=0, p=[0.0, 0.0, 0.0], m=[1.0, 0.0, 0.0], f=[4.0, 0.0, 0.0], cpl=-1, grp=[]),
                    dict(used=1, cell=0, p=[1.0, 0.0, 0.0], m=[0.0, 0.0, 0.0], f=[0.0, 0.0, 0.0], cpl=-1, grp=[]),
                    dict(used=1, cell=0, p=[0.0, 1.0, 0.0], m=[0.0, 0.0, 0.0], f=[0.0, 0.0, 0.0], cpl=-1, grp=[])])
    impl = vlib.build_driver("integrate", contact=2, dynamic=0)
    out = vlib.run([impl], input=fmt(c) + "\n", env={"OMP_NUM_THREADS": "1"}).stdout.strip()
    t, o = parse_out(out)
    # node mass 1: p' = 1 + (4 - 1)*0.5 = 2.5 ; documented x' = 2.5*0.5 = 1.25 ; as written x' = 1*0.5 = 0.5
    if abs(o[0][0] - 1.25) > 1e-12:
        ck.report(dict(input=fmt(c), config=dict(contact_model=2, dynamic_model=0), implementation=out,
                       documented_x=1.25, observed_x=o[0][0]), oracle="uncoupled_node_semi_implicit", key=KF_KEY,
                  what="contact model 2 / dynamic model 0 advances the position with the pre-update momentum")


def run(ck):
    per = 110 if ck.tier == "quick" else 3500
    ck.cov["rule"] = ("case = population (1-6 cells, static or not, 3-40 node slots each with unused slots, random forces/momenta over 15 orders of magnitude, dt, damping, density, volume) + couplings (contact model 1: random mutual pairs; a few one-directional or static-partner pairs for model=code only; contact model 2: groups of 2-4) + 1..50 consecutive steps; run in all six compile-time configurations; non-trivial = case with at least one coupling or more than one step")
    ok = ck.proofs()
    if not ok:
        ck.report(dict(log=ck.proof_res["log"][-3000:]), unchecked="Properties_C03.vo", what="proof obligations of C03 no longer check")
    model = vlib.ocaml_model()
    known_finding_replay(ck)
    rng = random.Random(ck.seed * 7901 + 3)
    nontriv = 0; total = 0; validated = 0; tier2 = 0
    cfg_counts = {}
    for contact, dyn in CONFIGS:
        over = dyn == 1
        impl = vlib.build_driver("integrate", contact=contact, dynamic=dyn)
        cases = [gen_case(rng, contact) for _ in range(per)]
        lines = [fmt(c) for c in cases]
        iouts, crashes = vlib.run_lines_resilient([impl], lines, env={"OMP_NUM_THREADS": "1"})
        for bad, info in crashes[:2]:
            ck.report(dict(input=lines[bad], config=dict(contact_model=contact, dynamic_model=dyn), error=info),
                      oracle="driver_crash", what="integrator driver died on this case: " + info[:200])
        p = vlib.run([model, "integrate", str(contact), "1" if over else "0"], input="\n".join(lines) + "\n", check=True, timeout=900)
        mouts = p.stdout.strip().split("\n")
        fails = []; broken = []
        for i, (c, li, lm) in enumerate(zip(cases, iouts, mouts)):
            if li is None:
                continue
            total += 1
            if any(n["cpl"] >= 0 or n["grp"] for n in c["nodes"]) or c["nsteps"] > 1:
                nontriv += 1
            ti, io = parse_out(li); tm, mo = parse_out(lm)
            r = compare(c, over, ti, io, tm, mo)
            if r == 2:
                broken.append(i)
            else:
                validated += 1
                tier2 += r
            if c["scope"]:
                f = oracle(c, over, ti, io)
                if f:
                    fails.append((i, f))
        # the same cases under 4 threads and competing load (the parallel loop over the cells must give every node the same
        # law: a coupled pair is integrated once, by its owner, whatever the other threads are doing)
        if contact == 1 and dyn == 0:
            import subprocess
            burners = [subprocess.Popen(["sh", "-c", "while :; do :; done"]) for _ in range(10)]
            try:
                for rep in range(2 if ck.tier == "quick" else 6):
                    touts, _cr = vlib.run_lines_resilient([impl], lines, env={"OMP_NUM_THREADS": "4"})
                    for i, (c, lt) in enumerate(zip(cases, touts)):
                        if lt is None or not c["scope"]:
                            continue
                        tt, to = parse_out(lt)
                        f = oracle(c, over, tt, to)
                        if f:
                            fails.append((i, f + " [4 threads]"))
                    total += len(cases)
            finally:
                for b in burners:
                    b.kill()
                for b in burners:
                    b.wait()
        cfg_counts["contact%d_dynamic%d" % (contact, dyn)] = len(cases)
        for i, f in fails[:2]:
            ck.report(dict(input=lines[i], config=dict(contact_model=contact, dynamic_model=dyn, threads=1),
                           implementation=iouts[i], model=mouts[i]), oracle=f, key="integrator:" + f,
                      what="update_nodes_positions violates %s (contact model %d, dynamic model %d)" % (f, contact, dyn))
        if broken and not ck.violations:
            i = broken[0]
            ck.report(dict(input=lines[i], config=dict(contact_model=contact, dynamic_model=dyn, threads=1),
                           implementation=iouts[i], model=mouts[i], n_disagreements=len(broken)),
                      unchecked="correspondence Integrator.step(NumF) = update_nodes_positions (contact %d, dynamic %d)" % (contact, dyn),
                      what="model and implementation disagree beyond rounding on %d cases; the property oracle found no failing input" % len(broken))
        if contact == 1 and dyn == 0:
            ck.sample(dict(config="contact 1 / dynamic 0", case=lines[0][:600], implementation=iouts[0][:300] if iouts[0] else None), limit=1)
    ck.cov["evaluations"] = total
    ck.cov["distinct_nontrivial"] = nontriv
    ck.cov["traces_validated_against_impl"] = validated
    ck.notes["configurations"] = cfg_counts
    ck.notes["tier2_reassociation_suspected"] = tier2
    ck.cov["trusted_base"] = vlib.TRUSTED_BASE_COMMON + ["compile-time configuration through -include harness/cfg_override.hpp; protected state through the friend class cell_tester defined in the driver"]
    ck.assumptions = ["single-threaded runs for the correspondence; the default configuration is also run with 4 threads under competing load against the closed-form oracle", "oracle only on cases inside the property's quantifier (mutual couplings, no coupling into a static cell, list index = local id)"]


def replay(ck, path):
    j = json.load(open(path))
    cfg = j["case"]["config"]; line = j["case"]["input"]
    impl = vlib.build_driver("integrate", contact=cfg["contact_model"], dynamic=cfg["dynamic_model"])
    model = vlib.ocaml_model()
    io = vlib.run([impl], input=line + "\n", env={"OMP_NUM_THREADS": "1"}).stdout.strip()
    mo = vlib.run([model, "integrate", str(cfg["contact_model"]), str(cfg["dynamic_model"])], input=line + "\n").stdout.strip()
    print("implementation:", io[:400]); print("model:         ", mo[:400])
    return 0 if io == mo else 1
