"""C16 — mesh files written by the simulator are read back as the same tissue.
proof:          coq/Properties_C16.v (model Vtk.v: writer and reader at token level)
correspondence: the token stream of the model's writer (numerals formatted by the shared C library) vs the file
                mesh_writer::write produced; the model's reader on those tokens vs what mesh_reader returned
oracle:         round trip on the implementation alone (same cells, types, triangles, coordinates within the
                written precision) and declared counts = contents, by an independent parse of the file."""
import re
import random, math, json, os, shutil
import vlib, tissue
from vlib import hx, unhx

LEVEL = "proof"


def gen_big_case(rng, tag):
    """a population whose total number of points exceeds 2^16 (global point ids in the connectivity beyond 16 bits) and whose
    cells carry more than 2^15 points in total before the last cell starts"""
    n0, f0 = tissue.icosphere(5)          # 10242 nodes, 20480 triangles
    cts = [tissue.cell_type(gid=g) for g in range(5)]
    cells = []
    for i in range(7):
        sc = 1e-5 * rng.uniform(0.5, 2.0)
        n = [[p[0] * sc + i * 3e-5, p[1] * sc, p[2] * sc] for p in n0]
        cells.append((rng.randrange(5), n, [tuple(t) for t in f0]))
    d = os.path.join(vlib.CACHE, "tmp", "io_" + tag)
    line = "RT " + tissue.fmt_tissue(tissue.params(), cts, cells) + " W %s %d %d %d" % (d, 0, rng.randrange(1 << 30), 0)
    return dict(line=line, dir=d, nc=7, pre=0, mag=1e-5, via=0, big=True)


def gen_case(rng, tag, rescale=None):
    nc = rng.randint(1, 12) if rng.random() < 0.8 else rng.randint(13, 30)
    cts = [tissue.cell_type(gid=g) for g in range(5)]
    cells = []
    mag = rng.choice([1e-9, 1e-6, 1e-5, 1.0, 1e3, 1e6, 1e100, 1e-100])
    for i in range(nc):
        kind, n, f = tissue.random_mesh(rng, kinds=("tetra", "octa", "icosa", "cube", "ico1", "ico2"), size=mag, aniso=True, noise=0.05,
                                        place=rng.choice([0, 1, 10]) * mag)
        if rng.random() < 0.5:
            n = [[-x for x in p] for p in n]; f = [(a, c, b) for a, b, c in f]      # mirrored: negative coordinates, still outward
        if rescale is not None:
            n = [[x * rescale for x in p] for p in n]
        cells.append((rng.randrange(5), n, f))
    pre = rng.choice([0, 0, 2, 6])
    d = os.path.join(vlib.CACHE, "tmp", "io_" + tag)
    via = rng.choice([0, 0, 1, 2])      # 0: mesh_writer::write (the simulation's path); 1, 2: write_cell_data_file called directly (path / stream overload)
    if rng.random() < 0.2:
        via += 10                       # written while the process has a digit-grouping global C++ locale installed (as a host application may)
    line = "RT " + tissue.fmt_tissue(tissue.params(), cts, cells) + " W %s %d %d %d" % (d, pre, rng.randrange(1 << 30), via)
    return dict(line=line, dir=d, nc=nc, pre=pre, mag=mag, via=via)


def parse_driver(out):
    if not out.startswith("OK") or "EXC" in out or "TIMEOUT" in out:
        return None             # the writer or (after "OK | ...") the reader threw
    s = out.split("|")
    t = s[1].split(); i = 0; written = []
    while i < len(t):
        ty = int(t[i]); nn = int(t[i + 1]); i += 2
        co = [unhx(x) for x in t[i:i + 3 * nn]]; i += 3 * nn
        nf = int(t[i]); i += 1
        fs = [tuple(int(x) for x in t[i + 3 * k:i + 3 * k + 3]) for k in range(nf)]; i += 3 * nf
        written.append((ty, co, fs))
    t = s[2].split(); i = 0; read = []
    while i < len(t):
        nn = int(t[i]); i += 1
        co = [unhx(x) for x in t[i:i + 3 * nn]]; i += 3 * nn
        nf = int(t[i]); i += 1; fs = []
        for _ in range(nf):
            k = int(t[i]); fs.append(tuple(int(x) for x in t[i + 1:i + 1 + k])); i += 1 + k
        read.append((co, fs))
    tys = [int(x) for x in s[3].split()]
    return written, read, tys


def _isnum(t):
    return not t[0].isalpha() or t.lower() in ("inf", "nan", "-inf", "-nan")


def file_sections(text):
    """independent structural parse of a cell-data file"""
    tk = text.split()
    def find(word):
        return tk.index(word) if word in tk else None
    sec = {}
    p = find("POINTS")
    if p is not None:
        n = int(tk[p + 1]); i = p + 3; nums = []
        while i < len(tk) and not tk[i][0].isalpha():
            nums.append(tk[i]); i += 1
        sec["points"] = (n, nums)
    p = find("CELLS")
    if p is not None:
        n = int(tk[p + 1]); m = int(tk[p + 2]); i = p + 3; ints = []
        while i < len(tk) and not tk[i][0].isalpha():
            ints.append(int(tk[i])); i += 1
        sec["cells"] = (n, m, ints)
    p = find("CELL_TYPES")
    if p is not None:
        n = int(tk[p + 1]); i = p + 2; ints = []
        while i < len(tk) and not tk[i][0].isalpha():
            ints.append(int(tk[i])); i += 1
        sec["types"] = (n, ints)
    p = find("CELL_DATA")
    if p is not None:
        sec["cell_data"] = int(tk[p + 1])
        q = tk.index("FieldData"); nfields = int(tk[q + 1]); i = q + 2; fields = []
        while i < len(tk) and len(fields) < nfields:
            name = tk[i]; comp = int(tk[i + 1]); ln = int(tk[i + 2]); i += 4
            vals = []
            while i < len(tk) and _isnum(tk[i]):
                vals.append(tk[i]); i += 1
            fields.append((name, comp, ln, vals))
        sec["fields"] = fields
    return sec


def model_sections(tokens):
    tk = tokens.split()
    sec = {}
    p = tk.index("POINTS"); n = int(tk[p + 1]); i = p + 2; nums = []
    while not tk[i][0].isalpha():
        nums.append(tk[i]); i += 1
    sec["points"] = (n, nums)
    p = tk.index("CELLS"); i = p + 3; ints = []
    while not tk[i][0].isalpha():
        ints.append(int(tk[i])); i += 1
    sec["cells"] = (int(tk[p + 1]), int(tk[p + 2]), ints)
    p = tk.index("CELL_TYPES"); i = p + 2; ints = []
    while not tk[i][0].isalpha():
        ints.append(int(tk[i])); i += 1
    sec["types"] = (int(tk[p + 1]), ints)
    p = tk.index("CELL_DATA"); sec["cell_data"] = int(tk[p + 1])
    p = tk.index("cell_type_id"); i = p + 3; vals = []
    while not tk[i][0].isalpha():
        vals.append(tk[i]); i += 1
    sec["type_array"] = (int(tk[p + 1]), int(tk[p + 2]), vals)
    return sec


def digits_ok(x, y):
    """y = x rounded to 5 significant digits (what %.4e keeps)"""
    if x == 0:
        return y == 0
    e = math.floor(math.log10(abs(x)))
    return abs(x - y) <= 0.5000001 * 10.0 ** (e - 4) + 1e-300


def oracle(c, written, read, tys, sec):
    if len(read) != len(written):
        return "same_number_of_cells (%d written, %d read)" % (len(written), len(read))
    if c["via"] % 10 == 0 and tys != [w[0] for w in written]:
        return "same_cell_types (%s vs %s)" % ([w[0] for w in written][:8], tys[:8])
    for k, ((ty, co, fs), (rco, rfs)) in enumerate(zip(written, read)):
        if [tuple(f) for f in rfs] != [tuple(f) for f in fs]:
            return "same_triangles_over_same_nodes (cell %d)" % k
        if len(rco) != len(co):
            return "same_nodes (cell %d: %d vs %d coordinates)" % (k, len(co), len(rco))
        for x, y in zip(co, rco):
            if not digits_ok(x, y):
                return "coordinates_equal_to_written_precision (cell %d: wrote %r read %r)" % (k, x, y)
    n, nums = sec["points"]
    if 3 * n != len(nums) or n != sum(len(w[1]) // 3 for w in written):
        return "declared_counts_match (POINTS %d, %d numbers)" % (n, len(nums))
    nce, m, ints = sec["cells"]
    if nce != len(written) or m != len(ints):
        return "declared_counts_match (CELLS %d %d, %d integers)" % (nce, m, len(ints))
    nt, tl = sec["types"]
    if nt != len(tl) or nt != len(written):
        return "declared_counts_match (CELL_TYPES)"
    if c["via"] % 10 != 0:
        return None             # write_cell_data_file alone writes the geometry sections only
    if sec.get("cell_data") != len(written):
        return "declared_counts_match (CELL_DATA)"
    for name, comp, ln, vals in sec.get("fields", []):
        if ln != len(vals) or ln != len(written):
            return "declared_counts_match (field %s: %d declared, %d values)" % (name, ln, len(vals))
    return None


def run(ck):
    ncase = 60 if ck.tier == "quick" else 1500
    ck.cov["rule"] = ("population of 1-30 real cells of all five classes (tetrahedron..icosphere level 2, mirrored copies for negative coordinates, coordinate magnitudes 1e-100..1e100, 0-6 random edge merges/splits per cell beforehand so that slots are unused before the writer's compaction) written by mesh_writer::write or directly by either public write_cell_data_file overload (which compact the cells themselves) and read back by mesh_reader; non-trivial = cases with unused slots or more than one cell")
    ok = ck.proofs()
    if not ok:
        ck.report(dict(log=ck.proof_res["log"][-3000:]), unchecked="Properties_C16.vo", what="proof obligations of C16 no longer check")
    impl = vlib.build_driver("io")
    model = vlib.ocaml_model()
    rng = random.Random(ck.seed * 7477 + 16)
    cases = [gen_big_case(rng, "c16_%d_big%d" % (os.getpid(), k)) for k in range(1 if ck.tier == "quick" else 3)]
    for i in range(ncase):
        if i % 6 == 5:
            # the same population again with other coordinates, right after it in the same process: same counts, same
            # connectivity, different geometry (a reader or writer that keeps state between files confuses the two)
            sd = rng.randrange(1 << 30)
            cases.append(gen_case(random.Random(sd), "c16_%d_%da" % (os.getpid(), i)))
            cases.append(gen_case(random.Random(sd), "c16_%d_%db" % (os.getpid(), i), rescale=rng.choice([1.37, -0.61, 3.0])))
        else:
            cases.append(gen_case(rng, "c16_%d_%d" % (os.getpid(), i)))
    # a third of the populations written through the simulation's path are written by a process in which nested OpenMP parallelism is
    # enabled with 8 threads (mesh_writer::write runs its two files in parallel sections; whatever they call in parallel then really is)
    rng_n = random.Random(ck.seed * 7477 + 17)
    ncases = [gen_case(rng_n, "c16_%d_n%d" % (os.getpid(), k)) for k in range(12 if ck.tier == "quick" else 150)]
    for c_ in ncases:
        c_["line"] = re.sub(r" (\d+)$", " 0", c_["line"]); c_["via"] = 0; c_["nested"] = True
    nouts, ncr = vlib.run_lines_resilient([impl], [c["line"] for c in ncases], timeout=1200, env={"OMP_NUM_THREADS": "8", "OMP_MAX_ACTIVE_LEVELS": "3", "OMP_NESTED": "true"})
    outs, crashes = vlib.run_lines_resilient([impl], [c["line"] for c in cases], timeout=1200)
    base_n = len(cases)
    cases += ncases; outs += nouts; crashes += [(base_n + i_, info_) for i_, info_ in ncr]
    for bad, info in crashes[:2]:
        ck.report(dict(input=cases[bad]["line"][:3000], nested_openmp=bool(cases[bad].get("nested")), error=info), oracle="driver_crash", what="i/o driver died: " + info[:200])
    fails = []; broken = []; nontriv = 0; q = []; qi = []
    parsed = {}
    for ci, (c, out) in enumerate(zip(cases, outs)):
        if out is None:
            continue
        pd = parse_driver(out)
        if pd is None:
            fails.append((ci, "write_or_read_failed (%s)" % (out[:60] + " ... " + out[-200:]))); continue
        written, read, tys = pd
        try:
            text = open(os.path.join(c["dir"], "cells.vtk")).read()
            sec = file_sections(text)
        except Exception as e:
            fails.append((ci, "file_not_parseable (%s)" % e)); continue
        parsed[ci] = (written, read, tys, sec)
        if c["pre"] or c["nc"] > 1:
            nontriv += 1
        f = oracle(c, written, read, tys, sec)
        if f:
            fails.append((ci, f))
        t = [str(len(written))]
        for ty, co, fs in written:
            t += [str(ty), str(len(co) // 3)] + [hx(x) for x in co] + [str(len(fs))] + ["%d %d %d" % f_ for f_ in fs]
        if not c.get("big"):          # the extracted (non tail-recursive) model is not run on 70000-point files; the oracle is
            q.append(" ".join(t)); qi.append(ci)
    if q:
        mo = vlib.run([model, "vtk"], input="\n".join(q) + "\n", check=True, timeout=1200).stdout.strip().split("\n")
        for ci, l in zip(qi, mo):
            written, read, tys, sec = parsed[ci]
            mt, mr = l.split("||")
            ms = model_sections(mt)
            d = None
            if ms["points"] != sec["points"]:
                d = "POINTS section differs"
                # numerals may differ textually only if the values differ
                if ms["points"][0] == sec["points"][0] and len(ms["points"][1]) == len(sec["points"][1]) and all(float(a) == float(b) for a, b in zip(ms["points"][1], sec["points"][1])):
                    d = None
            elif ms["cells"] != sec["cells"]:
                d = "CELLS section differs"
            elif ms["types"] != sec["types"]:
                d = "CELL_TYPES section differs"
            elif cases[ci]["via"] % 10 != 0:
                if "cell_data" in sec:
                    d = "geometry-only entry point wrote a CELL_DATA section"
            elif ms["cell_data"] != sec.get("cell_data"):
                d = "CELL_DATA count differs"
            else:
                ta = [f for f in sec.get("fields", []) if f[0] == "cell_type_id"]
                if not ta or (ta[0][1], ta[0][2], ta[0][3]) != ms["type_array"]:
                    d = "cell_type_id array differs"
            if d is None:
                # the model's reader against the implementation's reader
                want = " ".join([" ".join([str(len(co) // 3)] + [hx(x) for x in co] + [str(len(fs))] + [" ".join([str(len(f_))] + [str(x) for x in f_]) for f_ in fs]) for co, fs in read])
                got_m, got_t = mr.split("|") if "|" in mr else (mr, "")
                if " ".join(got_m.split()) != " ".join(want.split()):
                    # compare numerically (hex formatting of the two sides may differ in trailing zeros)
                    a = got_m.split(); b = want.split()
                    same = len(a) == len(b) and all((x == y) or (("p" in x or "x" in x) and unhx(x) == unhx(y)) for x, y in zip(a, b))
                    if not same:
                        d = "reader results differ"
                if d is None and cases[ci]["via"] % 10 == 0 and [int(x) for x in got_t.split()] != tys:
                    d = "cell types read differ"
            if d:
                broken.append((ci, d))
    for c in cases:
        shutil.rmtree(c["dir"], ignore_errors=True)
    ck.cov["evaluations"] = len(cases)
    ck.cov["distinct_nontrivial"] = nontriv
    ck.cov["traces_validated_against_impl"] = len(q) - len(broken)
    ck.sample(dict(cells=cases[0]["nc"], unused_slot_ops=cases[0]["pre"], coordinate_magnitude=cases[0]["mag"]), limit=1)
    ck.cov["entry_points"] = {k: sum(1 for c in cases if c["via"] == v) for k, v in (("write", 0), ("write_cell_data_file(path)", 1), ("write_cell_data_file(stream)", 2), ("write under a grouping locale", 10), ("write_cell_data_file(path) under a grouping locale", 11), ("write_cell_data_file(stream) under a grouping locale", 12))}
    seen = set()
    for ci, f in fails:
        key = f.split(" ")[0]
        if key in seen:
            continue
        seen.add(key)
        ck.report(dict(input=cases[ci]["line"][:200000], nested_openmp=bool(cases[ci].get("nested"))), oracle=key, key="vtk:" + key, what="write/read round trip violates " + f)
    if broken and not ck.violations:
        ci, d = broken[0]
        ck.report(dict(input=cases[ci]["line"][:200000], nested_openmp=bool(cases[ci].get("nested")), difference=d, n_disagreements=len(broken)), unchecked="correspondence Vtk.v = mesh_writer / mesh_reader",
                  what="model and implementation disagree on %d cases (%s); the property oracle found no failing input" % (len(broken), d))
    ck.cov["trusted_base"] = vlib.TRUSTED_BASE_COMMON + ["printf(\"%.4e\") and strtod of the C library enter the model as arguments (numeral type and its semantic function)", "character-level behaviour of std::regex is not modelled: the reader is modelled as the token scan it performs"]
    ck.assumptions = ["cells are valid closed meshes (every node slot is used after compaction)"]


def replay(ck, path):
    j = json.load(open(path))
    impl = vlib.build_driver("io")
    env = {"OMP_NUM_THREADS": "8", "OMP_MAX_ACTIVE_LEVELS": "3", "OMP_NESTED": "true"} if j["case"].get("nested_openmp") else None
    print(vlib.run([impl], input=j["case"]["input"] + "\n", timeout=300, env=env).stdout[:2000])
    return 0
