"""C04 — growth, pressure, division trigger and removal follow the cell-cycle law.
proof:          coq/Properties_C04.v (model CellCycle.v at R with ln/exp)
correspondence: CellCycle.v at binary64 (libm log/exp supplied by the driver, the same glibc) recomputes the
                recurrences from the implementation's own volume trajectory; real cells of all five classes
                (cell level) and the real solver (run_iteration) with imposed volume histories
oracle:         the law itself (Python) on the implementation's dumps."""
import random, math, json
import vlib, tissue
from vlib import hx, unhx

LEVEL = "proof"
INF = float("inf")


def gen_case(rng, mode, removal_pattern=None):
    R = 5e-6
    ncell = rng.randint(1, 3) if removal_pattern is None else len(removal_pattern)
    cts = []; cells = []
    for i in range(ncell):
        cls = rng.choice([0, 0, 0, 1, 2, 3, 4]) if mode == 0 else rng.choice([0, 0, 2, 3, 4])
        kind, n, f = tissue.random_mesh(rng, kinds=("octa", "icosa", "ico1") if mode == 0 else ("ico2",), size=R, aniso=(mode == 0), noise=0.03 if mode == 0 else 0.0)
        n = tissue.transform(n, None, (i * 12 * R, 0, 0))
        V = abs(tissue.signed_volume(n, f))
        gr_mode = rng.choice(["zero", "pos", "neg", "big"])
        avggr = dict(zero=0.0, pos=V * rng.uniform(1e2, 1e4), neg=-V * rng.uniform(1e2, 1e4), big=V * 1e5 * rng.choice([1, -1]))[gr_mode]
        stdgr = 0.0 if rng.random() < 0.4 else abs(avggr) * rng.uniform(0.01, 0.5) + (V * 10 if avggr == 0 else 0)
        avgdiv = rng.choice([INF, V * rng.uniform(0.7, 1.5), V * 1.02])
        stddiv = 0.0 if rng.random() < 0.4 else (V * rng.uniform(0.01, 0.2))
        minvol = rng.choice([0.0, V * 0.5, V * rng.uniform(0.8, 0.99), V * 1e-3])
        if removal_pattern is not None:
            # several cells fall below their minimum in the SAME iteration (one 0.9 scaling: 0.729 V), at chosen list positions
            minvol = V * 0.9 if removal_pattern[i] else V * 0.3
            avggr = 0.0; stdgr = 0.0; avgdiv = INF; cls = 0
        Pmax = rng.choice([INF, 2.5e3, 10.0, 1e-2])
        P0 = rng.choice([0.0, 0.0, 50.0, -50.0, 500.0])
        if mode == 1:
            P0 = rng.choice([0.0, 20.0]); avggr = avggr if abs(avggr) < V * 2e3 else V * 1e3
            stdgr = min(stdgr, abs(avggr) * 0.3)
        K = rng.choice([2.5e3, 1e2, 1e4])
        cts.append(tissue.cell_type(gid=cls, K=K, Pmax=Pmax, P0=P0, avgdiv=avgdiv, stddiv=stddiv, avggr=avggr, stdgr=stdgr,
                                    minvol=minvol, ka=1e-15 if mode == 1 else 0.0, isoratio=250.0))
        cells.append((i, n, f))
    niter = rng.randint(5, 40) if mode == 0 else rng.randint(10, 40)
    scales = []
    for k in range(niter):
        r = rng.random()
        if removal_pattern is not None:
            scales.append(0.9 if k == 3 else 1.0); continue
        if mode == 0:
            s = 1.0 if r < 0.3 else rng.uniform(0.93, 1.07)
            if r > 0.97:
                s = rng.choice([0.7, 1.3])
        else:
            s = 1.0
            if r > 0.93:
                s = rng.choice([0.99, 1.01, 0.9, 0.9])
        scales.append(s)
    p = tissue.params(dt=rng.choice([1e-7, 1e-7, 1e-6 if mode == 0 else 5e-8]), damping=5e-10, T=1.0, S=1.0, lmin=7.5e-7, cut_adh=5e-7, cut_rep=5e-7, swap=0)
    search = 1 if rng.random() < 0.5 else 0
    seed = rng.randrange(10 ** 6)
    line = tissue.fmt_tissue(p, cts, cells) + " H %d %d %d %d " % (mode, seed, search, niter) + " ".join(hx(s) for s in scales)
    return dict(line=line, p=p, cts=cts, ncell=ncell, mode=mode, scales=scales)


EMPTIED = {}        # id(cells dict of an iteration) -> cells emptied during that iteration


def parse_dump(line):
    secs = line.strip().split("|")
    init = []
    body = secs[0].split()
    assert body[0] == "INIT"
    toks = " ".join(body[1:]).split(";")
    for t in toks:
        t = t.split()
        if t:
            init.append([unhx(x) for x in t])      # rawg rawd g vdiv V
    its = []
    for s in secs[1:]:
        t = s.split()
        assert t[0] == "I"
        k = int(t[1]); cells = {}
        order = []; emptied = []
        for c in " ".join(t[2:]).split(";"):
            c = c.split()
            if not c:
                continue
            if c[0] == "X":
                emptied.append(dict(id=int(c[1]), V=unhx(c[2]), minvol=unhx(c[3]), vdiv=unhx(c[4]), in_divider=int(c[5])))
                continue
            cid = int(c[0])
            cells[cid] = dict(id=cid, cls=int(c[1]), V=unhx(c[2]), vt=unhx(c[3]), P=unhx(c[4]), g=unhx(c[5]), vdiv=unhx(c[6]),
                              ready=int(c[7]), below=int(c[8]), vmesh=(unhx(c[9]) if len(c) > 9 else None))
            order.append(cid)
        EMPTIED[id(cells)] = emptied
        its.append((k, cells, order))
    return init, its


CYCLE_WRAPS = ("_ZN4cell10clear_dataEv", "_ZN12cell_divider3runERSt6vectorISt10shared_ptrI4cellESaIS3_EEdRK18local_mesh_refinerRjb")


def eq(a, b, scale=None):
    if vlib.same_bits(a, b):
        return 0
    if vlib.close(a, b, scale if scale is not None else max(abs(a), abs(b)), 1e-11):
        return 1
    return 2


def run(ck):
    n0, n1 = (60, 14) if ck.tier == "quick" else (1500, 250)
    ck.cov["rule"] = ("case = 1-3 real cells (all five classes at cell level; epithelial/lumen/nucleus in the real solver) with generated cell-type parameters (zero/positive/negative/huge growth, sigma 0 and >0, finite and infinite division volume, pressure caps from 1e-2 to infinity, initial pressure of both signs, minimum volumes from 0 to 0.99 V) and an imposed history of volume changes (scaling between iterations, incl. drops below the minimum volume); clock-seeded draws are replayed from the wrapped clock, half of the cases search for a draw beyond 3 sigma; non-trivial = (cell, iteration) pairs checked against the recurrence")
    ok = ck.proofs()
    if not ok:
        ck.report(dict(log=ck.proof_res["log"][-3000:]), unchecked="Properties_C04.vo", what="proof obligations of C04 no longer check")
    impl = vlib.build_driver("cellcycle", wrap_clock=True, extra_srcs=("cycle_wrap.cpp",), wraps=CYCLE_WRAPS)
    model = vlib.ocaml_model()
    rng = random.Random(ck.seed * 4409 + 4)
    # several removals in one iteration, at the front, the back, next to each other, all at once
    patterns = [(1, 0, 1), (0, 1, 1), (1, 1, 0, 1), (1, 1, 1)]
    cases = [gen_case(rng, 1, removal_pattern=pt) for pt in patterns] + [gen_case(rng, 0) for _ in range(n0)] + [gen_case(rng, 1) for _ in range(n1)]
    outs, crashes = vlib.run_lines_resilient([impl], [c["line"] for c in cases], env={"OMP_NUM_THREADS": "1"}, timeout=1500)
    for bad, info in crashes[:2]:
        ck.report(dict(input=cases[bad]["line"][:3000], error=info), oracle="driver_crash", what="cell-cycle driver died: " + info[:200])
    queries = []; checks = []     # checks: (case index, description, expected-from-impl tuple, kind)
    fails = []; stats = dict(pairs=0, clamp_hits=0, removals=0, ready=0, capped=0, min_clamped=0, exc=0)
    for ci, (c, out) in enumerate(zip(cases, outs)):
        if out is None:
            continue
        if "EXC" in out:
            # the real solver gave up (unstable simulation exception): judge what was dumped before
            stats["exc"] += 1
            out = out[:out.index("EXC")]
            if "|" not in out:
                continue
            out = out[:out.rindex("|")]
        init, its = parse_dump(out)
        dt = c["p"]["dt"]
        # ---- draws
        for i, (rawg, rawd, g, vdiv, V) in enumerate(init):
            ct = c["cts"][i]
            lo, hi = ct["avggr"] - 3 * ct["stdgr"], ct["avggr"] + 3 * ct["stdgr"]
            if not (lo <= g <= hi):
                fails.append((ci, "growth_rate_within_3sigma", "cell %d growth rate %r outside [%r,%r]" % (i, g, lo, hi)))
            lo, hi = ct["avgdiv"] - 3 * ct["stddiv"], ct["avgdiv"] + 3 * ct["stddiv"]
            if not (lo <= vdiv <= hi) and not (math.isinf(ct["avgdiv"]) and math.isinf(vdiv)):
                fails.append((ci, "division_volume_within_3sigma", "cell %d division volume %r outside [%r,%r]" % (i, vdiv, lo, hi)))
            if rawg == rawg:
                if abs(rawg - ct["avggr"]) > 3 * ct["stdgr"]:
                    stats["clamp_hits"] += 1
                queries.append("GROWTH %s %s %s" % (hx(ct["avggr"]), hx(ct["stdgr"]), hx(rawg))); checks.append((ci, "growth_of", (g,), "draw"))
            else:
                queries.append("GROWTH %s %s %s" % (hx(ct["avggr"]), hx(ct["stdgr"]), hx(0.0))); checks.append((ci, "growth_of(sigma=0)", (g,), "exact"))
            if rawd == rawd:
                if abs(rawd - ct["avgdiv"]) > 3 * ct["stddiv"]:
                    stats["clamp_hits"] += 1
                queries.append("DIVVOL 0 %s %s %s" % (hx(ct["avgdiv"]), hx(ct["stddiv"]), hx(rawd))); checks.append((ci, "divvol_of", (vdiv,), "draw"))
        # ---- initial target volume / pressure
        k0, cells0, _ = its[0]
        for i, (rawg, rawd, g, vdiv, V) in enumerate(init):
            ct = c["cts"][i]
            if i in cells0:
                queries.append("INIT %s %s %s %s" % (hx(V), hx(ct["P0"]), hx(ct["K"]), hx(ct["Pmax"])))
                checks.append((ci, "initial_target/pressure", (cells0[i]["vt"], cells0[i]["P"]), "num"))
                want = min(ct["P0"], ct["Pmax"])
                if abs(cells0[i]["P"] - want) > 1e-9 * max(1.0, abs(ct["P0"])) + 1e-9 * ct["K"]:
                    fails.append((ci, "initial_pressure_consistent", "cell %d initial pressure %r, expected %r" % (i, cells0[i]["P"], want)))
        # ---- recurrences
        seen = set(cells0); gone = set()
        for (kp, prev, _), (k, cur, order), sc in zip(its[:-1], its[1:], c["scales"]):
            new_ids = [i for i in cur if i not in seen]
            for i in cur:
                if i in gone:
                    fails.append((ci, "removed_never_reappears", "cell id %d reappears at iteration %d" % (i, k)))
            emptied = EMPTIED.get(id(cur), [])
            if c["mode"] == 1:
                # exact: every cell emptied outside the divider carried a volume below its minimum; every cell emptied inside the
                # divider was eligible (volume at least its division volume) on an iteration where the divider runs
                for e in emptied:
                    if e["in_divider"]:
                        if not (e["V"] >= e["vdiv"]) or k % 5 != 0:
                            fails.append((ci, "divided_iff_eligible", "cell %d emptied by the divider at iteration %d with volume %r, division volume %r" % (e["id"], k, e["V"], e["vdiv"])))
                    else:
                        stats["removals"] += 1
                        if not (e["V"] < e["minvol"]):
                            fails.append((ci, "removed_iff_below_min", "cell %d removed at iteration %d with volume %r >= min volume %r" % (e["id"], k, e["V"], e["minvol"])))
            for i, pc in prev.items():
                if i not in cur:
                    gone.add(i)
                    if c["mode"] == 1 and not any(e["id"] == i for e in emptied):
                        fails.append((ci, "removed_iff_below_min", "cell %d left the population at iteration %d without having been emptied by the removal step or the divider" % (i, k)))
            seen |= set(cur)
            for i, cc in cur.items():
                if i not in prev or i >= len(c["cts"]):
                    continue
                ct = c["cts"][i]; pc = prev[i]
                stats["pairs"] += 1
                # a static cell does not move: the volume it reports after the iteration is the volume its mesh encloses (also after
                # the refiner or an imposed scaling changed that mesh)
                if c["mode"] == 1 and cc["cls"] == 4 and cc.get("vmesh") is not None and abs(cc["V"] - cc["vmesh"]) > 1e-9 * cc["vmesh"]:
                    fails.append((ci, "volume_is_the_enclosed_volume_of_the_current_mesh", "static cell %d iteration %d: reports V = %r, its mesh encloses %r" % (i, k, cc["V"], cc["vmesh"])))
                if c["mode"] == 1 and cc["below"]:
                    fails.append((ci, "removed_iff_below_min", "cell %d is below its minimum volume after iteration %d and still in the population" % (i, k)))
                forced = not (cc["cls"] == 1)      # ECM cells are static: no internal forces
                if forced:
                    queries.append("STEP %s %s %s %s %s %s %s" % (hx(dt), hx(cc["g"]), hx(ct["minvol"]), hx(ct["K"]), hx(ct["Pmax"]), hx(cc["V"]), hx(pc["vt"])))
                    checks.append((ci, "cycle_step(cell %d, iteration %d)" % (i, k), (cc["vt"], cc["P"]), "num"))
                    vt_want = max(pc["vt"] + dt * cc["g"], ct["minvol"])
                    if vt_want == ct["minvol"] and ct["minvol"] > 0:
                        stats["min_clamped"] += 1
                    if abs(cc["vt"] - vt_want) > 1e-12 * max(abs(vt_want), abs(pc["vt"])):
                        fails.append((ci, "target_volume_step", "cell %d iteration %d: target volume %r, law gives %r" % (i, k, cc["vt"], vt_want)))
                    if cc["vt"] < ct["minvol"]:
                        fails.append((ci, "target_ge_min", "cell %d iteration %d: target volume %r below minimum %r" % (i, k, cc["vt"], ct["minvol"])))
                    if cc["V"] > 0 and cc["vt"] > 0:
                        raw = -ct["K"] * math.log(cc["V"] / cc["vt"])
                        p_want = min(raw, ct["Pmax"])
                        if raw > ct["Pmax"]:
                            stats["capped"] += 1
                        if abs(cc["P"] - p_want) > 1e-9 * max(abs(p_want), 1e-6 * ct["K"]):
                            fails.append((ci, "pressure_law", "cell %d iteration %d: pressure %r, law gives %r" % (i, k, cc["P"], p_want)))
                else:
                    if not (vlib.same_bits(cc["vt"], pc["vt"]) and vlib.same_bits(cc["P"], pc["P"])):
                        fails.append((ci, "static_cell_cycle_untouched", "ECM cell %d changed target volume or pressure" % i))
                ready_want = 1 if (cc["cls"] == 0 and cc["V"] >= cc["vdiv"]) else 0
                stats["ready"] += ready_want
                if cc["ready"] != ready_want:
                    fails.append((ci, "ready_iff", "cell %d class %d V=%r Vdiv=%r eligible=%d" % (i, cc["cls"], cc["V"], cc["vdiv"], cc["ready"])))
                queries.append("READY %d %s %s" % (cc["cls"], hx(cc["V"]), hx(cc["vdiv"]))); checks.append((ci, "is_ready", (cc["ready"],), "int"))
                queries.append("BELOW %s %s" % (hx(cc["V"]), hx(ct["minvol"]))); checks.append((ci, "is_below", (cc["below"],), "int"))
    p = vlib.run([model, "cellcycle"], input="\n".join(queries) + "\n", check=True, timeout=900)
    mouts = p.stdout.strip().split("\n")
    assert len(mouts) == len(queries), (len(mouts), len(queries))
    broken = []; tier2 = 0
    for q, (ci, what, exp, kind), mo in zip(queries, checks, mouts):
        got = mo.split()
        for e, g in zip(exp, got):
            if kind == "int":
                if int(g) != e:
                    broken.append((ci, what, q, mo, exp))
            else:
                r = eq(e, unhx(g))
                if r == 2:
                    broken.append((ci, what, q, mo, exp))
                tier2 += (r == 1)
    ck.cov["evaluations"] = len(cases)
    ck.cov["distinct_nontrivial"] = stats["pairs"]
    ck.cov["traces_validated_against_impl"] = len(queries) - len(broken)
    ck.notes["stats"] = stats
    ck.notes["model_queries"] = len(queries)
    ck.notes["tier2_reassociation_suspected"] = tier2
    ck.sample(dict(case=cases[0]["line"][:500] + " ...", implementation=(outs[0] or "")[:400]), limit=1)
    seen_f = set()
    for ci, name, what in fails:
        if name in seen_f:
            continue
        seen_f.add(name)
        ck.report(dict(input=cases[ci]["line"], implementation=outs[ci][:4000]), oracle=name, key="cellcycle:" + name, what=what)
    if broken and not ck.violations:
        ci, what, q, mo, exp = broken[0]
        ck.report(dict(input=cases[ci]["line"], model_query=q, model=mo, implementation=[hx(e) if isinstance(e, float) else e for e in exp], n_disagreements=len(broken)),
                  unchecked="correspondence CellCycle.%s(NumF) = implementation" % what.split("(")[0],
                  what="model and implementation disagree on %d elementary steps (%s); the property oracle found no failing input" % (len(broken), what))
    ck.cov["trusted_base"] = vlib.TRUSTED_BASE_COMMON + ["std::chrono::system_clock::now wrapped at link time (deterministic seeds); the draws are replayed in the driver with the same std::minstd_rand / std::normal_distribution"]
    ck.assumptions = ["the recurrences are checked along the implementation's own volume trajectory; the first iteration of a daughter cell is not checked (its pre-update target volume is not observable)"]


def replay(ck, path):
    j = json.load(open(path))
    impl = vlib.build_driver("cellcycle", wrap_clock=True, extra_srcs=("cycle_wrap.cpp",), wraps=CYCLE_WRAPS)
    out = vlib.run([impl], input=j["case"]["input"] + "\n", env={"OMP_NUM_THREADS": "1"}).stdout
    print(out[:3000])
    return 0
