"""C12 — volume, area, centroid, bounding box and normals are exact and frame-independent.
proof:          coq/Properties_C12.v (models Geometry.v, Mesh.v at R)
correspondence: Geometry.v at binary64 (incl. the orientation repair) vs initialize_cell_properties + getters, bit-exact
oracle:         exact/independent recomputation (Python) + metamorphic family: rigid motions, scalings, node and
                triangle permutations, cyclic shifts, random winding flips, distance from the origin."""
import random, math, json, itertools
from fractions import Fraction as Fr
import vlib, tissue
from vlib import hx, unhx

LEVEL = "proof"


def fmt_mesh(n, f):
    return " ".join([str(len(n))] + [hx(x) for p in n for x in p] + [str(len(f))] + ["%d %d %d" % tuple(t) for t in f])


def parse_out(line):
    if not line.startswith("OK"):
        return None
    secs = line.split("|")
    h = secs[0].split()
    o = dict(V=unhx(h[1]), A=unhx(h[2]), c=[unhx(x) for x in h[3:6]], bb=[unhx(x) for x in h[6:12]],
             axis=None if h[12] == "?" else [unhx(x) for x in h[12:15]], nn=int(h[15]), nf=int(h[16]))
    t = secs[1].split()
    o["faces"] = [(int(t[i]), int(t[i + 1]), int(t[i + 2]), [unhx(x) for x in t[i + 3:i + 6]], unhx(t[i + 6])) for i in range(0, len(t), 7)]
    o["used"] = [int(x) for x in secs[2].split()]
    o["tokens"] = h[1:12] + h[15:17] + t + secs[2].split()
    return o


def exact_signed_volume6(n, faces):
    s = Fr(0)
    for a, b, c in faces:
        p, q, r = [[Fr(x) for x in n[i]] for i in (a, b, c)]
        s += p[0] * (q[1] * r[2] - q[2] * r[1]) - p[1] * (q[0] * r[2] - q[2] * r[0]) + p[2] * (q[0] * r[1] - q[1] * r[0])
    return s


def single_oracle(n, f, o):
    """properties that concern one cell"""
    used_ids = sorted(set(i for t in f for i in t))
    maxc = max(abs(x) for i in used_ids for x in n[i]) + 1e-300
    size = max(max(n[i][k] for i in used_ids) - min(n[i][k] for i in used_ids) for k in range(3)) + 1e-300
    # bounding box: tight box of the live nodes, exactly
    for k in range(3):
        if o["bb"][k] != min(n[i][k] for i in used_ids) or o["bb"][3 + k] != max(n[i][k] for i in used_ids):
            return "aabb_tight"
    faces = [(a, b, c) for a, b, c, _, _ in o["faces"]]
    sv6 = exact_signed_volume6(n, faces)
    tolV = 1e-12 * len(f) * maxc ** 3 * 6
    if sv6 < -Fr(tolV):
        return "normals_outward_after_init (signed volume of the final windings is negative)"
    if abs(float(abs(sv6)) / 6 - o["V"]) > tolV + 1e-12 * o["V"]:
        return "volume_is_enclosed_volume"
    # same triangles as the input, up to winding
    if sorted(tuple(sorted(t)) for t in faces) != sorted(tuple(sorted(t)) for t in f):
        return "triangles_preserved"
    asum = 0.0; cw = [0.0, 0.0, 0.0]
    for a, b, c, nrm, ar in o["faces"]:
        p, q, r = n[a], n[b], n[c]
        u = [q[i] - p[i] for i in range(3)]; v = [r[i] - p[i] for i in range(3)]
        cr = [u[1] * v[2] - u[2] * v[1], u[2] * v[0] - u[0] * v[2], u[0] * v[1] - u[1] * v[0]]
        l = math.sqrt(sum(x * x for x in cr))
        tolA = 1e-11 * (l + maxc * size)
        if abs(0.5 * l - ar) > tolA:
            return "face_area"
        if l > 1e-6 * size * size:
            if sum(cr[i] / l * nrm[i] for i in range(3)) < 1 - 1e-6 * (1 + maxc / size):
                return "cached_normal_follows_winding"
        asum += ar
        for i in range(3):
            cw[i] += (p[i] + q[i] + r[i]) / 3 * ar
    if abs(asum - o["A"]) > 1e-11 * asum:
        return "area_is_sum_of_triangle_areas"
    for i in range(3):
        if abs(cw[i] / asum - o["c"][i]) > 1e-10 * (maxc + size):
            return "centroid_is_area_weighted_mean"
    if o["nn"] != len(used_ids) or o["nf"] != len(f):
        return "counts"
    return None


def variants(rng, n, f):
    """(tag, nodes, faces, relation) ; relation = (M, t, s) with x' = s*M*x + t for the nodes that correspond"""
    I = [[1, 0, 0], [0, 1, 0], [0, 0, 1]]
    size = tissue.mean_edge(n, f)
    out = []
    M = tissue.rnd_rot(rng); t = [rng.uniform(-3, 3) * size for _ in range(3)]
    out.append(("rigid", tissue.transform(n, M, t), f, (M, t, 1.0)))
    d = rng.choice([1e3, 1e6]) * size
    t = [rng.choice([-1, 1]) * d for _ in range(3)]
    out.append(("far", tissue.transform(n, None, t), f, (I, t, 1.0)))
    s = rng.choice([2.0 ** rng.randint(-20, 20), rng.uniform(0.1, 10), 1e-6])
    out.append(("scaled", [[x * s for x in p] for p in n], f, (I, [0, 0, 0], s)))
    perm = list(range(len(n))); rng.shuffle(perm)          # new id of old node i = perm[i]
    n2 = [None] * len(n)
    for i, p in enumerate(n):
        n2[perm[i]] = p
    out.append(("node-permutation", n2, [tuple(perm[i] for i in t) for t in f], (I, [0, 0, 0], 1.0)))
    f2 = list(f); rng.shuffle(f2)
    out.append(("face-permutation", n, f2, (I, [0, 0, 0], 1.0)))
    out.append(("cyclic-shift", n, [(t[1], t[2], t[0]) if rng.random() < 0.5 else (t[2], t[0], t[1]) for t in f], (I, [0, 0, 0], 1.0)))
    out.append(("winding-flips", n, [(t[0], t[2], t[1]) if rng.random() < 0.5 else t for t in f], (I, [0, 0, 0], 1.0)))
    out.append(("all-inside-out", n, [(t[0], t[2], t[1]) for t in f], (I, [0, 0, 0], 1.0)))
    extra = [[rng.uniform(-50, 50) * size for _ in range(3)] for _ in range(rng.randint(1, 3))]
    out.append(("unused-nodes", n + extra, f, (I, [0, 0, 0], 1.0)))
    return out


def family_oracle(base, bo, tag, vn, vf, rel, vo, elong):
    M, t, s = rel
    maxc = max(abs(x) for p in vn for x in p) + max(abs(x) for p in base[0] for x in p) + 1e-300
    tolV = 1e-11 * len(vf) * (maxc ** 3 + (maxc * abs(s)) ** 3)
    if abs(vo["V"] - abs(s) ** 3 * bo["V"]) > tolV + 1e-11 * vo["V"]:
        return "volume_invariant(%s)" % tag
    size = math.sqrt(vo["A"]) + 1e-300
    if abs(vo["A"] - s * s * bo["A"]) > 1e-10 * vo["A"] * (1 + maxc / size):
        return "area_invariant(%s)" % tag
    ce = [s * sum(M[i][k] * bo["c"][k] for k in range(3)) + t[i] for i in range(3)]
    for i in range(3):
        if abs(ce[i] - vo["c"][i]) > 1e-9 * (maxc + size) * (1 + maxc / size):
            return "centroid_equivariant(%s)" % tag
    if elong and bo["axis"] and vo["axis"] and maxc < 1e3 * size:
        ra = [sum(M[i][k] * bo["axis"][k] for k in range(3)) for i in range(3)]
        if abs(sum(ra[i] * vo["axis"][i] for i in range(3))) < 1 - 1e-6:
            return "longest_axis_equivariant(%s)" % tag
    return None


def run(ck):
    nbase = 45 if ck.tier == "quick" else 900
    ck.cov["rule"] = ("base mesh = closed genus-0 triangulation (tetrahedron, octahedron, icosahedron, cube, icosphere levels 1-2; anisotropic scalings, vertex noise, random rotation, 0..1e3 sizes from the origin) + 9 variants each (rigid motion, translation by 1e3/1e6 sizes, uniform scaling, node permutation, triangle permutation, cyclic shifts, random winding flips, all inside out, unused extra nodes); every case goes through initialize_cell_properties and all getters; non-trivial = variant cases (each related to its base by the metamorphic oracle)")
    ok = ck.proofs()
    if not ok:
        ck.report(dict(log=ck.proof_res["log"][-3000:]), unchecked="Properties_C12.vo", what="proof obligations of C12 no longer check")
    impl = vlib.build_driver("geometry")
    model = vlib.ocaml_model()
    rng = random.Random(ck.seed * 3571 + 12)
    cases = []      # (family, tag, nodes, faces, rel, elong)
    for b in range(nbase):
        elong = rng.random() < 0.5
        kind, n, f = tissue.random_mesh(rng, size=10 ** rng.uniform(-6, 1), aniso=False, noise=rng.choice([0, 0.03, 0.1]),
                                        place=0.0)
        if elong:
            sc = [1.0, 1.0, 1.0]; sc[rng.randrange(3)] = rng.uniform(1.5, 3.0)
            n = [[p[k] * sc[k] for k in range(3)] for p in n]
        M = tissue.rnd_rot(rng)
        size = tissue.mean_edge(n, f)
        tr = [rng.choice([0, 0, 1, 10, 1e3]) * size * rng.choice([-1, 1]) for _ in range(3)]
        n = tissue.transform(n, M, tr)
        cases.append((b, "base", n, f, None, elong))
        for tag, vn, vf, rel in variants(rng, n, f):
            cases.append((b, tag, vn, vf, rel, elong))
    lines = [fmt_mesh(c[2], c[3]) for c in cases]
    iout, crashes = vlib.run_lines_resilient([impl], lines)
    for bad, info in crashes[:2]:
        ck.report(dict(input=lines[bad], error=info), oracle="driver_crash", what="geometry driver died: " + info[:200])
    mo = vlib.run([model, "geometry"], input="\n".join(lines) + "\n", check=True, timeout=900).stdout.strip().split("\n")
    parsed = [parse_out(l) if l else None for l in iout]
    fails = []; broken = []; tags = {}
    base_of = {}
    for i, (c, o, lm) in enumerate(zip(cases, parsed, mo)):
        fam, tag, n, f, rel, elong = c
        tags[tag] = tags.get(tag, 0) + 1
        if iout[i] is None:
            continue
        if o is None:
            fails.append((i, "valid closed mesh rejected (%s): %s" % (tag, iout[i][:80])))
            continue
        if tag == "base":
            base_of[fam] = i
        pm = parse_out(lm)
        if pm is None or pm["tokens"] != o["tokens"]:
            # tolerance tier: numbers close, discrete parts equal
            okd = pm is not None and [x[:3] for x in pm["faces"]] == [x[:3] for x in o["faces"]] and pm["used"] == o["used"]
            if okd:
                num_i = [o["V"], o["A"]] + o["c"] + o["bb"]; num_m = [pm["V"], pm["A"]] + pm["c"] + pm["bb"]
                maxc = max(abs(x) for p in n for x in p) + 1e-300
                okd = all(vlib.close(a, b, maxc ** 3 if k == 0 else (maxc ** 2 if k == 1 else maxc), 1e-10) for k, (a, b) in enumerate(zip(num_i, num_m)))
            if not okd:
                broken.append(i)
        so = single_oracle(n, f, o)
        if so:
            fails.append((i, so + " [%s]" % tag))
        if tag != "base" and fam in base_of and parsed[base_of[fam]] is not None:
            bi = base_of[fam]
            fo = family_oracle((cases[bi][2], cases[bi][3]), parsed[bi], tag, n, f, rel, o, elong)
            if fo:
                fails.append((i, fo))
    # ---- without the orientation repair (initialize_cell_properties(false)): volume, area and box are still those of the surface,
    # whatever the (consistent) winding it was given with
    nr_cases = []
    for c in cases:
        if c[1] in ("base", "all-inside-out") and len(nr_cases) < (40 if ck.tier == "quick" else 1200):
            nr_cases.append(c)
    nr_out, _cr = vlib.run_lines_resilient([impl], ["R0 " + fmt_mesh(c[2], c[3]) for c in nr_cases])
    for c, l in zip(nr_cases, nr_out):
        o = parse_out(l) if l else None
        if o is None:
            continue
        fam, tag, n, f, rel, elong = c
        used_ids = sorted(set(i for t in f for i in t))
        maxc = max(abs(x) for i in used_ids for x in n[i]) + 1e-300
        sv6 = exact_signed_volume6(n, [tuple(t) for t in f])
        tolV = 1e-12 * len(f) * maxc ** 3 * 6
        if abs(float(abs(sv6)) / 6 - o["V"]) > tolV + 1e-12 * abs(o["V"]):
            fails.append((cases.index(c), "volume_is_enclosed_volume (initialised without orientation repair, %s windings: reported %r, enclosed %r)" % ("inward" if tag == "all-inside-out" else "outward", o["V"], float(abs(sv6)) / 6)))
            break
    ck.cov["evaluations"] = len(cases) + len(nr_cases)
    ck.cov["distinct_nontrivial"] = len(cases) - nbase
    ck.cov["traces_validated_against_impl"] = len(cases) - len(broken)
    ck.notes["variants"] = tags
    ck.sample(dict(tag=cases[1][1], input=lines[1][:400], implementation=(iout[1] or "")[:300]), limit=1)
    seen = set()
    for i, fmsg in fails:
        key = fmsg.split(" ")[0].split("(")[0]
        if key in seen:
            continue
        seen.add(key)
        ck.report(dict(input=lines[i], variant=cases[i][1], implementation=iout[i][:3000], model=mo[i][:3000]), oracle=key, key="geometry:" + key,
                  what="cell geometry violates " + fmsg)
    if broken and not ck.violations:
        i = broken[0]
        ck.report(dict(input=lines[i], variant=cases[i][1], implementation=iout[i][:3000], model=mo[i][:3000], n_disagreements=len(broken)),
                  unchecked="correspondence Geometry.v(NumF) = initialize_cell_properties + getters",
                  what="model and implementation disagree beyond rounding on %d cases; the property oracle found no failing input" % len(broken))
    ck.cov["trusted_base"] = vlib.TRUSTED_BASE_COMMON + ["exact rational signed volume (Python fractions) in the oracle", "gte::SymmetricEigensolver3x3 is not modelled: the longest axis is judged by the metamorphic oracle only"]
    ck.assumptions = ["closed genus-0 input meshes (ValidSurface); longest-axis covariance judged only on elongated cells (largest extent >= 1.5x the others) and within 1e3 sizes from the origin"]


def replay(ck, path):
    j = json.load(open(path))
    line = j["case"]["input"]
    impl = vlib.build_driver("geometry"); model = vlib.ocaml_model()
    print("implementation:", vlib.run([impl], input=line + "\n").stdout[:1500])
    print("model:         ", vlib.run([model, "geometry"], input=line + "\n").stdout[:1500])
    return 0
