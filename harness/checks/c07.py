"""C07 — contact forces are reciprocal, short-ranged and push overlapping cells apart.
proof:          coq/Properties_C07.v (model Contact.v: the narrow phase of the default contact model)
correspondence: the model at binary64 vs contact_model::run on generated tissues and single-pair probes (forces,
                couplings, positions bit for bit)
oracle:         implementation only: sum of all node forces zero; a single cell (any shape, any id) feels nothing;
                tissues whose cells are farther apart than the cut-offs feel nothing; every coupling joins nodes of two
                different epithelial cells closer than the adhesion cut-off; probes (a tiny tetrahedron placed at a
                signed distance from a face of a large cell, all class pairs): zero beyond the cut-off and on the
                permitted side, toward the surface on the forbidden side, reaction on the face toward the node."""
import random, json, math
import vlib, tissue, contact_common as cc
from contact_common import R
from vlib import hx

LEVEL = "proof"


def vsub(a, b): return (a[0] - b[0], a[1] - b[1], a[2] - b[2])
def vdot(a, b): return a[0] * b[0] + a[1] * b[1] + a[2] * b[2]
def vnorm(a): return math.sqrt(vdot(a, a))


def gen_probe(rng, asymmetric=None):
    big_n, big_f = tissue.icosphere(1)
    M = tissue.rnd_rot(rng)
    shift = rng.choice([(0, 0, 0), (3 * R, -2 * R, R), (1e3 * R, -1e3 * R, 5e2 * R)])
    big_n = tissue.transform(big_n, M, shift, (R, R, R))
    a, b, c = big_f[rng.randrange(len(big_f))]
    pa, pb, pc = big_n[a], big_n[b], big_n[c]
    cen = [(pa[k] + pb[k] + pc[k]) / 3 for k in range(3)]
    u = vsub(pb, pa); v = vsub(pc, pa)
    nrm = (u[1] * v[2] - u[2] * v[1], u[2] * v[0] - u[0] * v[2], u[0] * v[1] - u[1] * v[0]); l = vnorm(nrm); nrm = tuple(x / l for x in nrm)
    edge = vnorm(u)
    cut = edge * rng.choice([0.1, 0.2, 0.3])
    e = cut * 0.02
    delta = cut * rng.choice([-3.0, -1.2, -0.9, -0.5, -0.1, 0.1, 0.5, 0.9, 1.2, 3.0])
    p = [cen[k] + nrm[k] * delta for k in range(3)]
    tn, tf = tissue.tetrahedron()
    tn = tissue.transform(tn, tissue.rnd_rot(rng), p, (e, e, e))
    ca, cb = rng.choice([(0, 0), (2, 0), (0, 2), (0, 1), (3, 0), (4, 0), (0, 4), (3, 2), (1, 0), (2, 2)])
    ids = [rng.randrange(50), 60 + rng.randrange(50)]
    # the two cut-offs differ in a third of the probes (the range of the interaction is the larger one)
    asym = rng.choice(["equal", "equal", "adhesion_smaller", "repulsion_smaller"]) if asymmetric is None else asymmetric
    cut_adh = cut * (0.4 if asym == "adhesion_smaller" else 1.0); cut_rep = cut * (0.4 if asym == "repulsion_smaller" else 1.0)
    return dict(kind="probe", place="probe", classes=[cb, ca], cells=[(big_n, big_f), (tn, tf)], lmin=edge * 0.5, cut_adh=cut_adh, cut_rep=cut_rep, ids=ids, level=1, maxcurv=float("inf"),
                probe=dict(delta=delta, cut=cut, e=e, normal=nrm, face=(a, b, c), ca=ca, cb=cb))


def gen_single(rng):
    n, f = tissue.icosphere(rng.choice([1, 2]))
    n = [[x * R for x in p] for p in n]
    # dent: push a cap of nodes through the cell so that two parts of the same surface come within the cut-offs
    d = rng.choice([0.0, 1.2, 1.7, 1.95])
    n = [[p[0], p[1], p[2] - d * R * max(0.0, p[2] / R - 0.5) * 2] for p in n]
    edge = 0.55 * R
    return dict(kind="single", place="origin", classes=[rng.choice([0, 2, 4])], cells=[(n, f)], lmin=edge * 0.5, cut_adh=edge * 0.5, cut_rep=edge * 0.5, ids=[rng.randrange(1, 90)], level=1)


def oracle(c, inp, out):
    """inp: parse_in (before the phase), out: parse_state (after)"""
    tot = [0.0, 0.0, 0.0]; mag = 0.0; nforce = 0; ncpl = 0
    for cell in out:
        for pos, frc, cpl, sqd in cell:
            for k in range(3):
                tot[k] += frc[k]
            mag += vnorm(frc)
            nforce += 1 if any(frc) else 0
            ncpl += 1 if cpl else 0
    if mag > 0 and vnorm(tot) > 1e-10 * mag:
        return "contact_adds_no_net_force (|sum f| = %.3e, sum |f| = %.3e)" % (vnorm(tot), mag)
    cutmax = max(c["cut_adh"], c["cut_rep"])
    if c["kind"] == "single" and (nforce or ncpl):
        return "no_interaction_within_one_cell (%d nodes with a force, %d couplings on a single cell with id %d)" % (nforce, ncpl, c["ids"][0])
    if c["kind"] == "apart" and (nforce or ncpl):
        return "no_force_or_coupling_beyond_cutoff (cells %.2f cut-offs apart: %d forces, %d couplings)" % (1.01, nforce, ncpl)
    # couplings
    for ci, cell in enumerate(out):
        for ni, (pos, frc, cpl, sqd) in enumerate(cell):
            if cpl is None:
                continue
            c2, n2 = cpl
            if c2 == ci:
                return "coupling_joins_two_cells (node %d of cell %d coupled to its own cell)" % (ni, ci)
            if c2 >= len(inp) or n2 >= len(inp[c2]["nodes"]):
                return "coupling_designates_existing_node (node %d of cell %d -> %s)" % (ni, ci, cpl)
            if inp[ci]["type"] != 0 or inp[c2]["type"] != 0:
                return "coupling_only_between_epithelial_cells (classes %d and %d)" % (inp[ci]["type"], inp[c2]["type"])
            d = vnorm(vsub(inp[ci]["nodes"][ni][1], inp[c2]["nodes"][n2][1]))
            if d >= c["cut_adh"] * (1 + 1e-9):
                return "no_coupling_beyond_adhesion_cutoff (distance %.3e, cut-off %.3e)" % (d, c["cut_adh"])
    if c["kind"] == "probe":
        pr = c["probe"]; nrm = pr["normal"]; delta = pr["delta"]; cut = pr["cut"]; e = pr["e"] * 1.8
        flip = (pr["ca"], pr["cb"]) in ((0, 1), (3, 0))
        fa, fb, fc = pr["face"]
        fnormal = None
        for f in inp[0]["faces"]:
            if (f[0], f[1], f[2]) == (fa, fb, fc) or sorted((f[0], f[1], f[2])) == sorted((fa, fb, fc)):
                fnormal = f[3]
        for ni, (pos, frc, cpl, sqd) in enumerate(out[1]):
            nnormal = inp[1]["nodes"][ni][2]
            p0 = inp[1]["nodes"][ni][1]
            # signed distance of this node from the plane of the face
            a0 = inp[0]["nodes"][fa][1]
            sd = vdot(vsub(p0, a0), nrm)
            behind = sd < 0
            forbidden = (not behind) if flip else behind
            facing = fnormal is not None and vdot(nnormal, fnormal) < 0
            if abs(sd) > cut * (1 + 1e-6) + 0 and any(frc):
                return "no_force_beyond_cutoff (probe node at %.3f cut-offs from the face received a force; classes %d/%d)" % (abs(sd) / cut, pr["ca"], pr["cb"])
            # (a node on the permitted side of the nearest face may still be behind the PLANE of an adjacent face whose
            #  edge is within the cut-off: the rules then apply a force toward that edge; the property does not exclude it)
            if forbidden and facing and abs(sd) < cut * (1 - 1e-6) and cpl is None and pr["ca"] + pr["cb"] > 0:
                toward = tuple(-x for x in nrm) if sd > 0 else nrm       # direction from the node to the surface
                if not any(frc):
                    return "overlap_is_pushed_apart (classes %d/%d: node %.3f cut-offs on the forbidden side received no force)" % (pr["ca"], pr["cb"], sd / cut)
                if vdot(frc, toward) <= 0:
                    return "force_on_the_node_points_toward_the_surface (classes %d/%d, signed distance %.3f cut-offs)" % (pr["ca"], pr["cb"], sd / cut)
        # reaction on the face nodes pushes the surface toward the node
        for fid in (fa, fb, fc):
            frc = out[0][fid][1]
            if any(frc):
                toward_node = nrm if delta > 0 else tuple(-x for x in nrm)
                if vdot(frc, toward_node) < 0:
                    return "reaction_pushes_the_surface_toward_the_node (classes %d/%d)" % (pr["ca"], pr["cb"])
    return None


def gen_pile(rng):
    """many mutually interpenetrating epithelial cells: every cell has nodes against faces of every other one, so that the
    threads of the contact phase keep adding to the same force accumulators"""
    nc = 16
    lvl = 2
    cells = []
    for i in range(nc):
        # a stack along z, every cell pressed into its neighbours by a fifth of a radius
        c = (rng.uniform(-0.05, 0.05) * cc.R, rng.uniform(-0.05, 0.05) * cc.R, i * 1.6 * cc.R)
        cells.append(cc.sphere(lvl, cc.R, c, rng))
    edge = 2 * cc.R * math.sin(math.radians(31.7)) / (2 ** lvl)
    # adhesion range tiny (no coupling short-circuits the repulsion), repulsion range about two edges
    return dict(kind="pile", cells=cells, classes=[0] * nc, ids=list(range(nc)), lmin=edge * 0.8, cut_adh=edge * 1e-3, cut_rep=edge * 2.0, place="origin")


def threads_stage(ck, rng, fails):
    """the contact phase under 16 threads, repeated: every run must satisfy the same rules (no net force, ranges, signs).  The
    forces themselves may differ from the single-threaded run: which node couples to which depends on the order in which the
    cells are processed, and the property does not fix that order"""
    impl = vlib.build_driver("contact", contact=1)
    nrep = 6 if ck.tier == "quick" else 40
    piles = [gen_pile(rng) for _ in range(3 if ck.tier == "quick" else 12)]
    nrun = 0
    # on an idle machine the 16 threads run undisturbed and a lost update between a plain read-modify-write and an atomic add
    # of another thread needs a window of nanoseconds; competing processes make the scheduler preempt the threads in the
    # middle of their work (measured: 0 of 80 runs expose a seeded lost update without load, 6 of 8 with 8 spinning processes)
    import subprocess
    burners = [subprocess.Popen(["sh", "-c", "while :; do :; done"]) for _ in range(10)]
    try:
        nrun = _threads_runs(ck, impl, piles, nrep, fails)
    finally:
        for b in burners:
            b.kill()
        for b in burners:
            b.wait()
    return nrun


def _threads_runs(ck, impl, piles, nrep, fails):
    nrun = 0
    for c in piles:
        ref = vlib.run([impl], input=cc.case_line(c) + "\n", timeout=1800, env={"OMP_NUM_THREADS": "1"}).stdout.strip()
        if not ref or ref.startswith("FATAL"):
            continue
        rsec = ref.split(" # "); rout = cc.parse_state(rsec[3]); rin = cc.parse_in(rsec[1])
        fmax = max([abs(x) for cell in rout for n in cell for x in n[1]] + [0.0])
        c16 = dict(c, threads=16)
        for rep in range(nrep):
            o = vlib.run([impl], input=cc.case_line(c16) + "\n", timeout=1800, env={"OMP_NUM_THREADS": "16", "OMP_DYNAMIC": "false"}).stdout.strip()
            nrun += 1
            if not o or o.startswith("FATAL"):
                fails.append((None, "contact_phase_completes", "the contact phase with 16 threads died on a pile of %d cells" % len(c["cells"]), c16)); break
            out = cc.parse_state(o.split(" # ")[3])
            f = oracle(c16, rin, out)
            if f:
                fails.append((None, f.split(" ")[0], "pile of %d cells, 16 threads, run %d: %s" % (len(c["cells"]), rep, f), c16)); break
    return nrun


def history_stage(ck, rng, fails):
    """a SECOND contact phase on the same contact-model object: after the first phase coupled the facing nodes, cells are moved
    (out of range, or a little) and the curvature of a random half of the nodes is raised above the coupling threshold; whatever
    the first phase recorded, the couplings and forces that exist after the second one obey the ranges on the CURRENT geometry"""
    n = 10 if ck.tier == "quick" else 120
    cases = []
    for _ in range(n):
        lvl = rng.choice([1, 1, 2]); edge = 2 * cc.R * math.sin(math.radians(31.7)) / (2 ** lvl)
        cut = edge * rng.choice([0.5, 1.0]); nc = rng.choice([2, 2, 3]); gap = rng.choice([0.2, 0.5]) * cut
        cells = [cc.sphere(lvl, cc.R, (i * (2 * cc.R + gap), 0.0, 0.0), rng) for i in range(nc)]
        c = dict(kind="history", place="origin", classes=[0] * nc, cells=cells, lmin=edge * 0.8, cut_adh=cut, cut_rep=cut * rng.choice([1.0, 0.7]), ids=list(range(nc)), level=lvl)
        far = rng.random() < 0.7
        moves = [(i, 0.0, (25 * cc.R if far else 0.4 * cut) * (1 if i % 2 else 0), 0.0) for i in range(nc) if i % 2]
        curv = [(i, k, 2.5e7 * rng.choice([4.0, 1e3])) for i in range(nc) for k in range(len(cells[i][0])) if rng.random() < 0.5]
        base = cc.case_line(c)
        head = base[:base.rindex(" CT ")]
        c["line2"] = head + " CT2 1 %d %s %d %s %d %s" % (nc, " ".join(str(i) for i in c["ids"]), len(moves), " ".join("%d %s %s %s" % (m[0], hx(m[1]), hx(m[2]), hx(m[3])) for m in moves),
                                                          len(curv), " ".join("%d %d %s" % (a, b, hx(v)) for a, b, v in curv))
        cases.append(c)
    impl = vlib.build_driver("contact", contact=1)
    outs, crashes = vlib.run_lines_resilient([impl], [c["line2"] for c in cases], timeout=1800, env={"OMP_NUM_THREADS": "1"})
    ncpl1 = 0; ncpl2 = 0
    for c, o in zip(cases, outs):
        if o is None or o.startswith("FATAL") or " # IN2 " not in o:
            fails.append((None, "contact_phase_completes", "the second contact phase on the same model object died (%s)" % (o or "")[:200], c)); continue
        sec = o.split(" # ")
        out1 = cc.parse_state(sec[3]); ncpl1 += sum(1 for cell in out1 for nd in cell if nd[2])
        i2 = [k for k, x in enumerate(sec) if x.startswith("IN2 ")][0]
        inp2 = cc.parse_in(sec[i2]); out2 = cc.parse_state(sec[i2 + 1]); ncpl2 += sum(1 for cell in out2 for nd in cell if nd[2])
        f = oracle(c, inp2, out2)
        if f:
            fails.append((None, f.split(" ")[0], f + " [second phase on the same model object; the first phase had coupled %d nodes]" % sum(1 for cell in out1 for nd in cell if nd[2]), c))
    ck.notes["second_phase_histories"] = dict(cases=len(cases), couplings_after_first_phase=ncpl1, couplings_after_second_phase=ncpl2)
    return len(cases)


def run(ck):
    ntis, nprobe, nsingle = (24, 60, 10) if ck.tier == "quick" else (300, 1500, 100)
    ck.cov["rule"] = ("generated tissues (as C06) plus probes: a tiny tetrahedron at signed distances -3..3 cut-offs from a face centre of a large icosphere, class pairs epithelial/lumen/ECM/nucleus/static in both roles, three placements; single cells of arbitrary id, spherical and dented through themselves; default contact model, single thread, plus piles of 8-16 mutually interpenetrating cells run repeatedly with 16 threads (same oracle: no net force, ranges, signs); non-trivial = cases with a force or a coupling")
    ok = ck.proofs()
    rng = random.Random(ck.seed * 7331 + 7)
    cases = [cc.gen_tissue(rng) for _ in range(ntis)] + [gen_probe(rng) for _ in range(nprobe)] + [gen_single(rng) for _ in range(nsingle)]
    # facing epithelial cubes on a dyadic lattice: a node is bit for bit equidistant from two (or three) nodes of the opposite triangle,
    # with the remaining one beyond the adhesion cut-off for some of the cut-offs; every rotation of the triangles (own stream)
    rng_l = random.Random(ck.seed * 7331 + 9)
    cases += [cc.gen_lattice_pair(rng_l, tie_two=(k % 2 == 0)) for k in range(40 if ck.tier == "quick" else 400)]
    outs, crashes = cc.run_cases(cases, contact=1, san=False)
    cinfo = dict(crashes)
    fails = []; broken = []; nontriv = 0; dist = {}; lines = []; idx = []; parsed = {}
    for i, (c, o) in enumerate(zip(cases, outs)):
        dist[c["kind"]] = dist.get(c["kind"], 0) + 1
        if o is not None and o.startswith("FATAL PREMERGE"):
            continue          # the preparation of the tissue (edge merges before the phase) failed: not a case
        if o is None or o.startswith("FATAL"):
            fails.append((i, "contact_phase_completes", "the contact phase died (%s)" % (cinfo.get(i, o or "")[-300:].replace("\n", " ")))); continue
        sec = o.split(" # ")
        inp = cc.parse_in(sec[1]); out = cc.parse_state(sec[3])
        parsed[i] = (inp, out)
        if any(n[2] or any(n[1]) for cell in out for n in cell):
            nontriv += 1
        f = oracle(c, inp, out)
        if f:
            fails.append((i, f.split(" ")[0], f))
        lines.append(cc.model_line(c, sec[0], sec[1])); idx.append(i)
    nthr = threads_stage(ck, rng, tfails := [])
    nhist = history_stage(ck, random.Random(ck.seed * 7331 + 8), hfails := [])
    mo = cc.run_model(lines) if lines else []
    for i, l in zip(idx, mo):
        ms = l.split(" # ")
        if ms[0].startswith("GRID OOB"):
            broken.append((i, "the model indexes a voxel that does not exist")); continue
        d = cc.same_state(parsed[i][1], cc.parse_state(ms[1]))
        if d:
            broken.append((i, d))
    ck.cov["evaluations"] = len(cases) + nthr + nhist
    ck.notes["runs_with_16_threads"] = nthr
    ck.cov["distinct_nontrivial"] = nontriv
    ck.cov["traces_validated_against_impl"] = len(lines) - len(broken)
    ck.notes["input_distribution"] = dist
    pc = [c for c in cases if c["kind"] == "probe"][0]
    ck.sample(dict(kind="probe", classes=(pc["probe"]["ca"], pc["probe"]["cb"]), signed_distance_in_cutoffs=pc["probe"]["delta"] / pc["probe"]["cut"]), limit=1)
    seen = set()
    for i, key, what in fails:
        if key in seen:
            continue
        seen.add(key)
        ck.report(dict(input=cc.case_line(cases[i]), kind=cases[i]["kind"], probe=cases[i].get("probe")), oracle=key, key="contact:" + key, what=what)
    for _, key, what, ch in hfails:
        if key in seen:
            continue
        seen.add(key)
        ck.report(dict(input=ch["line2"], kind="history"), oracle=key, key="contact:" + key, what=what)
    for _, key, what, c16 in tfails:
        if key in seen:
            continue
        seen.add(key)
        ck.report(dict(input=cc.case_line(c16), kind="pile", threads=16), oracle=key, key="contact:" + key, what=what)
    if not ck.violations:
        if not ok:
            ck.report(dict(log=ck.proof_res["log"][-3000:]), unchecked="Properties_C07.vo", what="proof obligations of C07 no longer check")
        if broken:
            i, d = broken[0]
            ck.report(dict(input=cc.case_line(cases[i]), difference=d, n_disagreements=len(broken)), unchecked="correspondence Contact.v = contact_node_node_via_coupling::run",
                      what="model and implementation disagree on %d cases (%s)" % (len(broken), d))
    ck.cov["trusted_base"] = vlib.TRUSTED_BASE_COMMON + ["cos(45 deg)/cos(90 deg) as the compiler folded them are read from the class and passed to the model"]
    ck.assumptions = ["default contact model (CONTACT_MODEL_INDEX == 1): repulsion forces and node couplings; the spring model (0) and the face-face coupling model (2) are not modelled",
                      "the narrow-phase pre-filters (node curvature below the type's threshold, node normal facing the face) are part of the rules: a node they exclude receives no force"]


def replay(ck, path):
    j = json.load(open(path))
    impl = vlib.build_driver("contact", contact=1)
    r = vlib.run([impl], input=j["case"]["input"] + "\n", timeout=600, env={"OMP_NUM_THREADS": "1"})
    sec = r.stdout.split(" # ")
    out = cc.parse_state(sec[3])
    tot = [sum(n[1][k] for cell in out for n in cell) for k in range(3)]
    print("sum of forces", tot, "couplings", sum(1 for cell in out for n in cell if n[2]))
    return 0
