"""C20 — spatial grids index every in-range point and never miss a neighbour.
proof:          coq/Properties_C20.v (model Grid.v)
correspondence: Grid.v at binary64 (extracted, exact floor via Prim2SF) vs uspg_4d<int>/uspg_3d<int> from /repo
oracle:         index range, retrievability, neighbourhood completeness, content = placed, on implementation output."""
import random, math, json, os, glob
import vlib
from vlib import hx, unhx

LEVEL = "proof"


def gen_case(rng):
    kind = "G4" if rng.random() < 0.65 else "G3"
    mode = rng.random()
    lattice = False
    if mode < 0.08:
        # integer lattice: voxel sizes whose reciprocal is not a binary fraction (49, 103, 161, 7 ...), box and points on exact
        # multiples, unit scale (the epsilon shift of the origin is absorbed).  Here floor((k s - lo)/s) = k - k0 EXACTLY, so the
        # closed statement "at most one voxel size apart" can be demanded bit for bit
        lattice = True
        s = float(rng.choice([49, 103, 161, 7, 11, 3 * 49])) * 2.0 ** rng.choice([0, 0, -6, 3])
        k = [rng.choice([0, 1, 2, 5]) for _ in range(3)]
        n = [rng.randint(2, 9) for _ in range(3)]
        lo = [s * ki for ki in k]
        hi = [lo[i] + s * n[i] for i in range(3)]
    elif mode < 0.55:
        # exact multiples: s = m*2^e, lo = s*k, hi = lo + s*n  (all exactly representable)
        e = rng.randint(-20, 8); m = rng.choice([1, 1, 3, 5])
        s = m * 2.0 ** e
        n = [rng.randint(1, 12) for _ in range(3)]
        k = [rng.choice([0, 0, 1, -1, 2, 8, -8, 17, -40, 1000, rng.randint(-5000, 5000)]) for _ in range(3)]
        lo = [s * ki for ki in k]
        hi = [lo[i] + s * n[i] for i in range(3)]
    else:
        s = 10 ** rng.uniform(-6, 3)
        off = rng.choice([0, 1, 10, 1e3, 1e5]) * s
        lo = [rng.uniform(-1, 1) * off + rng.uniform(-1, 1) * s for _ in range(3)]
        hi = [lo[i] + s * rng.uniform(0.05, 12) for i in range(3)]
    pts = []
    def clampp(p):
        return tuple(min(max(p[i], lo[i]), hi[i]) for i in range(3))
    # corners
    corners = [(x, y, z) for x in (lo[0], hi[0]) for y in (lo[1], hi[1]) for z in (lo[2], hi[2])]
    rng.shuffle(corners)
    pts += corners[:rng.randint(2, 8)]
    # face centres / edge midpoints
    mid = [(lo[i] + hi[i]) / 2 for i in range(3)]
    for _ in range(rng.randint(0, 4)):
        p = [rng.choice([lo[i], hi[i], mid[i]]) for i in range(3)]
        pts.append(clampp(p))
    # points exactly on voxel boundaries
    for _ in range(rng.randint(0, 5) if not lattice else 12):
        p = [lo[i] + s * rng.randint(0, max(0, int((hi[i] - lo[i]) / s))) for i in range(3)]
        pts.append(clampp(p))
    # random interior points, some clustered
    for _ in range(rng.randint(2, 10)):
        p = [rng.uniform(lo[i], hi[i]) for i in range(3)]
        pts.append(clampp(p))
        if rng.random() < 0.5:
            q = [p[i] + rng.uniform(-1, 1) * s for i in range(3)]
            pts.append(clampp(q))
    qs = []
    if lattice:
        # queries exactly one voxel size away from a stored lattice point, along one axis
        for b in pts[-12:]:
            ax = rng.randrange(3); q = list(b); q[ax] = b[ax] + s * rng.choice([-1, 1])
            if lo[ax] <= q[ax] <= hi[ax]:
                qs.append(tuple(q))
    for _ in range(rng.randint(2, 8)):
        if rng.random() < 0.5:
            b = pts[rng.randrange(len(pts))]
            q = [b[i] + rng.uniform(-1.2, 1.2) * s * rng.choice([1, 1, 0.5, 0]) for i in range(3)]
        else:
            q = [rng.uniform(lo[i], hi[i]) for i in range(3)]
        qs.append(clampp(q))
    prev = None
    if rng.random() < 0.3:
        # the grid object is re-used: built for another box first (different cross-section), then re-dimensioned
        plo = [lo[i] + s * rng.uniform(-3, 3) for i in range(3)]
        prev = (plo, [plo[i] + s * rng.uniform(0.5, 9) for i in range(3)])
    return dict(kind=kind, s=s, lo=lo, hi=hi, pts=pts, qs=qs, prev=prev, lattice=lattice)


def fmt_impl(c):
    """the line for the implementation: a re-used grid gets the previous box after the box of the case"""
    if not c.get("prev"):
        return fmt(c)
    t = fmt(c).split()
    return " ".join([t[0] + "R"] + t[1:8] + [hx(x) for x in c["prev"][0]] + [hx(x) for x in c["prev"][1]] + t[8:])


def fmt(c):
    t = [c["kind"], hx(c["s"])] + [hx(x) for x in c["lo"]] + [hx(x) for x in c["hi"]]
    t.append(str(len(c["pts"])))
    for p in c["pts"]:
        t += [hx(x) for x in p]
    t.append(str(len(c["qs"])))
    for p in c["qs"]:
        t += [hx(x) for x in p]
    return " ".join(t)


def parse_case(line):
    t = line.split()
    f = lambda i: unhx(t[i])
    c = dict(kind=t[0], s=f(1), lo=[f(2), f(3), f(4)], hi=[f(5), f(6), f(7)])
    n = int(t[8]); pos = 9
    c["pts"] = [tuple(f(pos + 3 * i + k) for k in range(3)) for i in range(n)]
    pos += 3 * n
    m = int(t[pos]); pos += 1
    c["qs"] = [tuple(f(pos + 3 * i + k) for k in range(3)) for i in range(m)]
    return c


def parse_out(line):
    """-> dict(D=[...], P=[(idx, oob, r)], N=[(idx, status, [objs])], C=[objs])"""
    secs = line.strip().split("|")
    if len(secs) != 4:
        return None
    D = secs[0].split()[1:]
    P = []
    t = secs[1].split(); i = 0
    while i < len(t):
        assert t[i] == "P"
        idx = (int(t[i + 1]), int(t[i + 2]), int(t[i + 3])); i += 4
        if i < len(t) and t[i] == "OOB":
            P.append((idx, True, None)); i += 1
        else:
            assert t[i] == "R"; P.append((idx, False, int(t[i + 1]))); i += 2
    N = []
    for q in secs[2].split(";"):
        t = q.split()
        if not t:
            continue
        idx = (int(t[1]), int(t[2]), int(t[3]))
        rest = t[4:]
        status = "ok"
        if rest and rest[0] in ("OOB", "RAWOOB"):
            status = rest[0]; rest = rest[1:]
        N.append((idx, status, [int(x) for x in rest]))
    C = [int(x) for x in secs[3].split()[1:]]
    return dict(D=D, P=P, N=N, C=C)


def canon(o):
    return (tuple(o["D"]), tuple((p[0], p[1], p[2]) for p in o["P"]),
            tuple((n[0], n[1] == "OOB", tuple(sorted(n[2]))) for n in o["N"]), tuple(sorted(o["C"])))


def oracle(c, o):
    nb = [int(x) for x in o["D"][:3]]
    s = c["s"]
    placed = []
    for i, (idx, oob, r) in enumerate(o["P"]):
        if oob or any(idx[k] < 0 or idx[k] >= nb[k] for k in range(3)):
            return "index_in_range (point %d of the declared box maps to voxel %s of %s)" % (i, idx, nb)
        if r != 1:
            return "place_then_retrieve (object %d)" % i
        placed.append(i)
    is4 = c["kind"] == "G4"
    if is4:
        if sorted(o["C"]) != sorted(placed):
            return "content_is_permutation_of_placed"
        present = set(placed)
    else:
        last = {}
        for i, (idx, oob, r) in enumerate(o["P"]):
            last[idx] = i
        if sorted(o["C"]) != sorted(last.values()):
            return "content3_is_last_placed_per_voxel"
        present = set(last.values())
    for qi, (idx, status, objs) in enumerate(o["N"]):
        if status == "OOB" or any(idx[k] < 0 or idx[k] >= nb[k] for k in range(3)):
            return "index_in_range (query point %d)" % qi
        q = c["qs"][qi]
        for i in present:
            p = c["pts"][i]
            d = math.sqrt(sum((p[k] - q[k]) ** 2 for k in range(3)))
            exact_lattice = c.get("lattice") and all(float(p[k] / s).is_integer() and float(q[k] / s).is_integer() for k in range(3))
            if (d <= s * (1 - 1e-9) or (exact_lattice and d <= s)) and i not in objs:
                return "neighbourhood_complete (object %d at distance %.3g voxel sizes missed by query %d)" % (i, d / s, qi)
        if len(set(objs)) != len(objs):
            return "neighbourhood returns an object twice"
        if not set(objs) <= present:
            return "neighbourhood returns an object that is not stored"
    return None


def run_lines(cmd, lines, what):
    p = vlib.run(cmd, input="\n".join(lines) + "\n", timeout=900)
    if p.returncode != 0:
        return None, "%s exited with %d: %s" % (what, p.returncode, p.stderr[-1500:])
    out = p.stdout.strip().split("\n")
    if len(out) != len(lines):
        return None, "%s returned %d lines for %d cases" % (what, len(out), len(lines))
    return out, None


def load_corpus():
    return [json.load(open(f))["case"] for f in sorted(glob.glob(os.path.join(vlib.VERIF, "corpus", "C20", "*.json")))]


def run(ck):
    n = 2500 if ck.tier == "quick" else 60000
    ck.cov["rule"] = ("case = grid (4d list-per-voxel or 3d one-per-voxel; voxel size 1e-6..1e3; box at 0..1e5 voxel sizes from the origin; extents exact multiples of the voxel size in 55% of the cases) + objects placed at corners, face/edge centres, voxel boundaries and interior points + neighbourhood queries; non-trivial = distinct case with at least one object on the upper boundary of the box or on a voxel boundary")
    ok = ck.proofs()
    if not ok:
        ck.report(dict(log=ck.proof_res["log"][-3000:]), unchecked="Properties_C20.vo", what="proof obligations of C20 no longer check")
    impl = vlib.build_driver("grid", san=True)
    model = vlib.ocaml_model()
    rng = random.Random(ck.seed * 104729 + 20)
    lines = load_corpus()
    ncorp = len(lines)
    cases = [parse_case(l) for l in lines]
    while len(cases) < n + ncorp:
        c = gen_case(rng); cases.append(c); lines.append(fmt(c))
    ilines = [fmt_impl(c) if isinstance(c, dict) and c.get("prev") else l for c, l in zip(cases, lines)]
    iout, crashes = vlib.run_lines_resilient([impl], ilines)
    for bad, info in crashes[:3]:
        ck.report(dict(input=lines[bad], sanitizer=info), oracle="memory_safety", key="grid:memory_safety",
                  what="the implementation aborted (sanitizer/signal) on this grid case: " + info[:300])
    mout, err = run_lines([model, "grid"], lines, "model")
    if err:
        raise RuntimeError(err)
    nontriv = 0; broken = []; fails = []
    for i, (c, li, lm) in enumerate(zip(cases, iout, mout)):
        if li is None:
            continue
        oi = parse_out(li); om = parse_out(lm)
        if oi is None:
            broken.append(i); continue
        if any(any(p[k] == c["hi"][k] for k in range(3)) for p in c["pts"]):
            nontriv += 1
        f = oracle(c, oi)
        if f:
            fails.append((i, f))
        if canon(oi) != canon(om):
            broken.append(i)
    # ---- histories on ONE grid: insertions and neighbourhood queries interleaved (a query, an insertion into the block it looked
    # at, the same query again ...): every query returns every object stored SO FAR within one voxel size, nothing else, nothing twice
    rng_h = random.Random(ck.seed * 104729 + 21); hcases = []
    for _ in range(150 if ck.tier == "quick" else 3000):
        s_ = 10 ** rng_h.uniform(-6, 2); nv = [rng_h.randint(1, 4) for _ in range(3)]
        lo = [rng_h.choice([0.0, -3.0, 50.0]) * s_ for _ in range(3)]; hi = [lo[k] + nv[k] * s_ * rng_h.choice([1.0, 0.93]) for k in range(3)]
        kind = rng_h.choice(["G4H", "G4H", "G3H"])
        ops = []; anchor = [rng_h.uniform(lo[k], hi[k]) for k in range(3)]
        for _k in range(rng_h.randint(4, 14)):
            r_ = rng_h.random()
            if r_ < 0.25:
                anchor = [rng_h.uniform(lo[k], hi[k]) for k in range(3)]
            near = [min(hi[k], max(lo[k], anchor[k] + rng_h.uniform(-0.9, 0.9) * s_)) for k in range(3)]
            ops.append(("Q", tuple(anchor)) if r_ < 0.5 or r_ > 0.9 else ("P", tuple(near)))
        ops.append(("Q", tuple(anchor)))
        hcases.append(dict(kind=kind, s=s_, lo=lo, hi=hi, ops=ops,
                           line="%s %s %s %s %d %s" % (kind, hx(s_), " ".join(hx(x) for x in lo), " ".join(hx(x) for x in hi), len(ops), " ".join("%s %s %s %s" % (o, hx(p[0]), hx(p[1]), hx(p[2])) for o, p in ops))))
    hout, hcr = vlib.run_lines_resilient([impl], [c["line"] for c in hcases])
    nh = 0; hfails = []
    for c, o in zip(hcases, hout):
        if o is None or not o.startswith("H"):
            hfails.append(("memory_safety (a history of insertions and queries on one grid died)", c)); continue
        nh += 1
        toks = o.split(); i = 1; placed = {}; voxel_of = {}; f = None
        for op, pos in c["ops"]:
            if op == "P":
                oid = int(toks[i + 1]); i += 2
                if i < len(toks) and toks[i] == "OOB":
                    i += 1; f = f or "index_in_range (history)"
                else:
                    if c["kind"] == "G3H":       # one object per voxel: the newcomer replaces the object stored in its voxel
                        v = tuple(min(int((pos[k] - c["lo"][k]) // c["s"]), 10 ** 9) for k in range(3))
                        for q_, vq in list(voxel_of.items()):
                            if vq == v:
                                placed.pop(q_, None); voxel_of.pop(q_, None)
                        voxel_of[oid] = v
                    placed[oid] = pos
            else:
                i += 1; got = []
                while toks[i] != ";":
                    got.append(toks[i]); i += 1
                i += 1
                if got == ["OOB"]:
                    f = f or "index_in_range (history query)"; continue
                got = [int(x) for x in got]
                if len(set(got)) != len(got):
                    f = f or "neighbourhood returns an object twice (history)"
                if c["kind"] == "G4H" and not set(got) <= set(placed):
                    f = f or "neighbourhood returns an object that is not stored (history)"
                if c["kind"] == "G4H":
                    for oid, p in placed.items():
                        d = math.sqrt(sum((p[k] - pos[k]) ** 2 for k in range(3)))
                        if d <= c["s"] * (1 - 1e-9) and oid not in got:
                            f = f or "neighbourhood_complete (history: object %d placed before the query, at %.3g voxel sizes, is missed)" % (oid, d / c["s"])
        if f:
            hfails.append((f, c))
    ck.notes["histories_of_interleaved_insertions_and_queries"] = nh
    ck.cov["evaluations"] = len(cases) + nh
    ck.cov["distinct_nontrivial"] = nontriv
    ck.cov["traces_validated_against_impl"] = len(cases) - len(broken)
    ck.notes["kinds"] = dict(G4=sum(1 for c in cases if c["kind"] == "G4"), G3=sum(1 for c in cases if c["kind"] == "G3"))
    ck.sample(dict(case=lines[ncorp], implementation=iout[ncorp], model=mout[ncorp]), limit=2)
    for i, f in fails[:3]:
        ck.report(dict(input=lines[i], implementation=iout[i], model=mout[i]), oracle=f.split(" (")[0],
                  what="grid violates " + f, key="grid:" + f.split(" (")[0])
    for f, c in hfails[:2]:
        ck.report(dict(input=c["line"], kind=c["kind"]), oracle=f.split(" (")[0], what="grid violates " + f, key="grid:history:" + f.split(" (")[0])
    if broken and not ck.violations:
        i = broken[0]
        ck.report(dict(input=lines[i], implementation=iout[i], model=mout[i], n_disagreements=len(broken)),
                  unchecked="correspondence Grid.v(NumF) = uspg_4d/uspg_3d",
                  what="model and implementation disagree on %d cases; the property oracle found no failing input" % len(broken))
    ck.cov["trusted_base"] = vlib.TRUSTED_BASE_COMMON + ["ExtrOCamlInt63 (Prim2SF needs Uint63 primitives)"]
    ck.assumptions = ["points of the declared box only (the property's quantifier); neighbourhood judged for Euclidean distance <= (1-1e-9) voxel size (exactly one voxel size is a rounding boundary, no float-level claim)"]


def replay(ck, path):
    j = json.load(open(path))
    line = j["case"]["input"]
    impl = vlib.build_driver("grid", san=True); model = vlib.ocaml_model()
    io, _ = run_lines([impl], [line], "impl"); mo, _ = run_lines([model, "grid"], [line], "model")
    print("implementation:", io[0]); print("model:         ", mo[0])
    f = oracle(parse_case(line), parse_out(io[0]))
    print("oracle:", f)
    return 1 if f else 0
