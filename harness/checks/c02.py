"""C02 — internal cell forces conserve momentum and derive from the stated energies.
proof:          coq/Properties_C02.v (model Forces.v at R)
correspondence: Forces.v at binary64 (libm from the shared glibc) vs the real force routines of cell.cpp, one term
                at a time through the friend class cell_tester and all together through apply_internal_forces
oracle:         net force / net torque, exact volume derivative (rational arithmetic), finite-difference area
                derivative, rigid-motion equivariance, on the implementation's per-node forces."""
import random, math, json
from fractions import Fraction as Fr
import vlib, tissue
from vlib import hx, unhx

LEVEL = "proof"
TERMS = ["pressure", "tension_elasticity", "bending", "angle_regularisation", "all"]


def dent(rng, n, f):
    """push a few nodes towards the centre: non-convex but still embedded for small amounts"""
    c = [sum(p[k] for p in n) / len(n) for k in range(3)]
    out = [list(p) for p in n]
    for i in rng.sample(range(len(n)), max(1, len(n) // 6)):
        a = rng.uniform(0.1, 0.45)
        out[i] = [c[k] + (n[i][k] - c[k]) * (1 - a) for k in range(3)]
    return out


def gen_base(rng):
    size = 10 ** rng.uniform(-6, 0) if rng.random() < 0.85 else 10 ** rng.uniform(-10, -6)      # also far below any mesh resolution: no absolute scale in the force terms
    kind, n, f = tissue.random_mesh(rng, kinds=("tetra", "octa", "icosa", "cube", "ico1", "ico2"), size=size, aniso=True,
                                    noise=rng.choice([0.0, 0.05, 0.12]), place=0.0)
    if rng.random() < 0.3:
        n = dent(rng, n, f)
    term = rng.randrange(5)
    if rng.random() < (0.5 if term in (2, 3, 4) else 0.15):
        # needle triangles: one to three nodes moved to within 1-6 % of an edge length of a neighbour (corner angles of
        # a few degrees: the cotangent weights of the bending term and the 10/170 degree window of the angle term)
        n = [list(q) for q in n]
        for _ in range(rng.choice([1, 2, 3])):
            a, b, _c = f[rng.randrange(len(f))]
            t = rng.choice([0.01, 0.03, 0.06])
            n[a] = [n[b][k] + (n[a][k] - n[b][k]) * t for k in range(3)]
    # the absolute-coordinate signed-volume formula (orientation repair, volume) loses (distance/size)^3 * eps in
    # relative accuracy: at 1e6 sizes from the origin even its sign is rounding noise; cells are placed within 1e3 sizes
    place = rng.choice([0, 0, 1, 10, 1e3]) * size
    d = [rng.gauss(0, 1) for _ in range(3)]; l = math.sqrt(sum(x * x for x in d))
    n = tissue.transform(n, None, [place * x / l for x in d])
    gam = [rng.choice([0.0, 1e-3, 8e-4, 5e-4 * rng.uniform(0.1, 3)]) for _ in range(3)]
    bend = [rng.choice([0.0, 0.0, 1e-18, 2e-18 * rng.uniform(0.1, 5)]) for _ in range(3)]
    if term == 2 and all(b == 0 for b in bend):
        bend[rng.randrange(3)] = 1e-18
    if term == 1 and all(g == 0 for g in gam):
        gam[0] = 1e-3
    ka = rng.choice([0.0, 1e-15, 1e-13 * rng.uniform(0.1, 10)])
    iso = rng.choice([250.0, 150.0, 36 * math.pi * rng.uniform(1, 3)])
    kreg = rng.choice([0.0, 1e-15, 1e-13]) if term != 3 else rng.choice([1e-15, 1e-13])
    P = rng.choice([0.0, 100.0, -50.0, rng.uniform(-2e3, 2e3)]) if term != 0 else rng.choice([100.0, -50.0, rng.uniform(-2e3, 2e3)])
    gid = rng.choice([0, 2, 3])
    ct = tissue.cell_type(gid=gid, K=2.5e3, Pmax=tissue.INF, ka=ka, isoratio=iso, angreg=kreg,
                          fts=[tissue.face_type(i, tension=gam[i], bend=bend[i]) for i in range(3)])
    types = [rng.randrange(3) if rng.random() < 0.7 else 0 for _ in f]
    # a few random edge merges/splits before the force computation: the cell then has unused node and face slots
    pre = rng.choice([0, 0, 1, 3, 8]) if len(f) >= 20 else 0
    return dict(n=n, f=f, ct=ct, types=types, term=term, P=P, size=size, pre=pre, preseed=rng.randrange(1 << 30))


def fmt(c, nodes=None):
    p = tissue.params()
    n = nodes if nodes is not None else c["n"]
    return tissue.fmt_tissue(p, [c["ct"]], [(0, n, c["f"])]) + " F %d %s %d " % (c["term"], hx(c["P"]), len(c["f"])) + " ".join(str(t) for t in c["types"]) + " PRE %d %d" % (c["pre"], c["preseed"])


def parse_out(line):
    if not line or not line.startswith("OK"):
        return None
    s = line.split("|")
    h = s[0].split()
    o = dict(P=unhx(h[1]), V=unhx(h[2]), A=unhx(h[3]))
    t = s[1].split(); o["nodes"] = [(int(t[i]), [unhx(x) for x in t[i + 1:i + 4]]) for i in range(0, len(t), 4)]
    t = s[2].split(); o["faces"] = [tuple(int(x) for x in t[i:i + 4]) for i in range(0, len(t), 4)]
    t = s[3].split(); o["edges"] = [tuple(int(x) for x in t[i:i + 4]) for i in range(0, len(t), 4)]
    t = s[4].split(); o["forces"] = [[unhx(x) for x in t[i:i + 3]] for i in range(0, len(t), 3)]
    if len(s) > 5:
        t = s[5].split(); o["forces_turned"] = [[unhx(x) for x in t[i:i + 3]] for i in range(0, len(t), 3)]
    return o


def model_query(c, o):
    ct = c["ct"]
    t = [str(c["term"]), hx(o["P"]), hx(ct["ka"]), hx(ct["isoratio"]), hx(ct["angreg"]), str(len(ct["fts"]))]
    for f in ct["fts"]:
        t += [hx(f["tension"]), hx(f["bend"])]
    t.append(str(len(o["nodes"])))
    for u, p in o["nodes"]:
        t += [hx(x) for x in p]
    t.append(str(len(o["faces"])))
    for a, b, cc, ty in o["faces"]:
        t += [str(a), str(b), str(cc), str(ty)]
    t.append(str(len(o["edges"])))
    for e in o["edges"]:
        t += [str(x) for x in e]
    return " ".join(t)


def cross(u, v):
    return [u[1] * v[2] - u[2] * v[1], u[2] * v[0] - u[0] * v[2], u[0] * v[1] - u[1] * v[0]]


def norm(u):
    return math.sqrt(sum(x * x for x in u))


def tri_area(p, q, r):
    return 0.5 * norm(cross([q[i] - p[i] for i in range(3)], [r[i] - p[i] for i in range(3)]))


def conditioning(o):
    """1/sin^2 of the smallest corner angle of the live faces, minus its value for a well-shaped mesh: the hinge-angle
    and corner-angle terms go through acos and cotangents, whose rounding error grows like this on needle triangles"""
    nodes = [p for u, p in o["nodes"]]
    smin = 1.0
    for a, b, cc, ty in o["faces"]:
        if ty < 0:
            continue
        P = [nodes[a], nodes[b], nodes[cc]]
        for k in range(3):
            u = [P[(k + 1) % 3][m] - P[k][m] for m in range(3)]; v = [P[(k + 2) % 3][m] - P[k][m] for m in range(3)]
            lu, lv = norm(u), norm(v)
            if lu > 0 and lv > 0:
                smin = min(smin, norm(cross(u, v)) / (lu * lv))
    if smin <= 0:
        return 1e12
    return max(0.0, 1.0 / (smin * smin) - 16.0)      # zero for corner angles above ~14.5 degrees


def oracle(c, o, rng):
    nodes = [p for u, p in o["nodes"]]; used = [u for u, p in o["nodes"]]
    F = o["forces"]
    live = [i for i, u in enumerate(used) if u]
    sumabs = sum(norm(F[i]) for i in live)
    if not all(math.isfinite(x) for i in live for x in F[i]):
        return "forces_finite"
    for i, u in enumerate(used):
        if not u and any(x != 0 for x in F[i]):
            return "unused_slot_gets_force"
    if sumabs == 0:
        return None
    ct = c["ct"]
    sz = c["size"]
    natural = abs(o["P"]) * o["A"] + (max(f["tension"] for f in ct["fts"]) * sz + (max(f["bend"] for f in ct["fts"]) + ct["angreg"] + ct["ka"]) / sz) * len(live)
    if sumabs < 1e-9 * natural:
        return None      # the force field is rounding noise of a configuration at rest (e.g. all angles exactly 60 degrees)
    cen = [sum(nodes[i][k] for i in live) / len(live) for k in range(3)]
    size = max(norm([nodes[i][k] - cen[k] for k in range(3)]) for i in live)
    maxc = max(abs(x) for i in live for x in nodes[i])
    tol = 1e-9 + 2e-14 * maxc / size + 3e-7 * conditioning(o)
    term = TERMS[c["term"]]
    net = [sum(F[i][k] for i in live) for k in range(3)]
    if norm(net) > tol * sumabs:
        return "net_force_zero(%s): |sum f| / sum|f| = %.3g" % (term, norm(net) / sumabs)
    tq = [0.0, 0.0, 0.0]; tqabs = 0.0
    for i in live:
        r = [nodes[i][k] - cen[k] for k in range(3)]
        x = cross(r, F[i]); tq = [tq[k] + x[k] for k in range(3)]; tqabs += norm(r) * norm(F[i])
    if norm(tq) > tol * tqabs * 10:
        return "net_torque_zero(%s): |sum r x f| / sum|r||f| = %.3g" % (term, norm(tq) / tqabs)
    if "forces_turned" in o:
        # the same cell object evaluated again after a quarter turn of its nodes about z (exact): F(Rx) = R F(x)
        for i in live:
            fx, fy, fz = F[i]; g = o["forces_turned"][i]
            if norm([g[0] + fy, g[1] - fx, g[2] - fz]) > (1e-7 + 1e-12 * maxc / size + 3e-7 * conditioning(o)) * sumabs + 1e-300:
                return "internal_forces_follow_the_cell_when_it_is_turned_in_place(%s): node %d gets %s after the quarter turn, R F(x) = %s" % (term, i, g, [-fy, fx, fz])
    faces = [(a, b, cc) for a, b, cc, ty in o["faces"] if ty >= 0]
    if c["term"] == 0 and o["P"] != 0:
        # pressure force on node i = P * dV/dx_i ; V is affine in each node: exact difference quotient
        for i in rng.sample(live, min(6, len(live))):
            d = [rng.uniform(-1, 1) * size for _ in range(3)]
            dv6 = Fr(0)
            for a, b, cc in faces:
                if i in (a, b, cc):
                    P0 = [[Fr(x) for x in nodes[j]] for j in (a, b, cc)]
                    P1 = [[Fr(x) + (Fr(d[k]) if j == i else 0) for k, x in enumerate(nodes[j])] for j in (a, b, cc)]
                    det = lambda p: p[0][0] * (p[1][1] * p[2][2] - p[1][2] * p[2][1]) - p[0][1] * (p[1][0] * p[2][2] - p[1][2] * p[2][0]) + p[0][2] * (p[1][0] * p[2][1] - p[1][1] * p[2][0])
                    dv6 += det(P1) - det(P0)
            want = o["P"] * float(dv6) / 6
            got = sum(F[i][k] * d[k] for k in range(3))
            if abs(want - got) > (1e-8 + 1e-13 * maxc / size) * (norm(F[i]) * norm(d) + abs(want)):
                return "pressure_force_is_P_gradV (node %d: P*dV=%.6g, f.d=%.6g)" % (i, want, got)
    if c["term"] == 1:
        ct = c["ct"]
        A0 = (ct["isoratio"] * o["V"] * o["V"]) ** (1.0 / 3.0)
        mef = (ct["ka"] / A0) * (o["A"] / A0 - 1.0)
        for i in rng.sample(live, min(6, len(live))):
            d = [rng.gauss(0, 1) for _ in range(3)]; l = norm(d); d = [x / l for x in d]
            want = 0.0
            # analytic gradient of the triangle area with respect to one corner: dA/dp_i = 1/2 n x (p_k - p_j) with n the unit
            # normal and (i, j, k) the cyclic order of the triangle (a difference quotient is useless on needle triangles, whose
            # area is linear only over a fraction of their height)
            for (a, b, cc, ty) in o["faces"]:
                if ty >= 0 and i in (a, b, cc):
                    tri = (a, b, cc); k0 = tri.index(i); j_, k_ = tri[(k0 + 1) % 3], tri[(k0 + 2) % 3]
                    e1 = [nodes[j_][m] - nodes[i][m] for m in range(3)]; e2 = [nodes[k_][m] - nodes[i][m] for m in range(3)]
                    nrm = cross(e1, e2); ln = norm(nrm)
                    if ln == 0:
                        continue
                    g = cross([x / ln for x in nrm], [nodes[k_][m] - nodes[j_][m] for m in range(3)])
                    dA = 0.5 * sum(g[m] * d[m] for m in range(3))
                    want += -(ct["fts"][ty]["tension"] + mef) * dA
            got = sum(F[i][k] * d[k] for k in range(3))
            if abs(want - got) > (2e-5 + 1e-9 * maxc / size) * (norm(F[i]) + abs(want)) + 1e-7 * sumabs / len(live):
                return "tension_force_is_minus_gamma_gradA (node %d: law %.6g, f.d=%.6g)" % (i, want, got)
    return None


def run(ck):
    nbase = 130 if ck.tier == "quick" else 3000
    ck.cov["rule"] = ("case = one real cell (tetrahedron..icosphere level 2, anisotropic, vertex noise, dents, 0-8 random edge merges/splits beforehand so that node and face slots are unused; 1e-6..1 in size; 0..1e3 sizes from the origin) with generated parameters (per-face-type tensions and bending moduli zero and non-zero, area elasticity, isoperimetric ratio, angle regularisation, pressure of both signs) x one force term (pressure / tension+elasticity / bending / angle regularisation / apply_internal_forces) + a rigidly moved twin; non-trivial = cases whose force field is not identically zero")
    ok = ck.proofs()
    if not ok:
        ck.report(dict(log=ck.proof_res["log"][-3000:]), unchecked="Properties_C02.vo", what="proof obligations of C02 no longer check")
    impl = vlib.build_driver("forces")
    model = vlib.ocaml_model()
    rng = random.Random(ck.seed * 6007 + 2)
    cases = []; lines = []
    for b in range(nbase):
        c = gen_base(rng)
        cases.append((c, None)); lines.append(fmt(c))
        M = tissue.rnd_rot(rng); t = [rng.uniform(-2, 2) * c["size"] for _ in range(3)]
        cases.append((c, (M, t))); lines.append(fmt(c, tissue.transform(c["n"], M, t)))
    iout, crashes = vlib.run_lines_resilient([impl], lines)
    for bad, info in crashes[:2]:
        ck.report(dict(input=lines[bad], error=info), oracle="driver_crash", what="forces driver died: " + info[:200])
    parsed = [parse_out(l) for l in iout]
    q = []; qi = []
    for i, o in enumerate(parsed):
        if o:
            q.append(model_query(cases[i][0], o)); qi.append(i)
    mo = vlib.run([model, "forces"], input="\n".join(q) + "\n", check=True, timeout=1800).stdout.strip().split("\n")
    fails = []; broken = []; tier2 = 0; nontriv = 0; hist = {}
    for i, lm in zip(qi, mo):
        c, tw = cases[i]; o = parsed[i]
        hist[TERMS[c["term"]]] = hist.get(TERMS[c["term"]], 0) + 1
        mf = [unhx(x) for x in lm.split("|")[1].split()]
        mf = [mf[k:k + 3] for k in range(0, len(mf), 3)]
        fmax = max([abs(x) for f in o["forces"] for x in f] + [0.0])
        if fmax > 0:
            nontriv += 1
        exact = all(vlib.same_bits(a, b) for fa, fb in zip(o["forces"], mf) for a, b in zip(fa, fb))
        if not exact:
            close = all(abs(a - b) <= 1e-9 * fmax + 1e-300 for fa, fb in zip(o["forces"], mf) for a, b in zip(fa, fb))
            if close:
                tier2 += 1
            else:
                broken.append(i)
        f = oracle(c, o, rng)
        if f:
            fails.append((i, f))
        if tw is not None and parsed[i - 1]:
            M, t = tw; bo = parsed[i - 1]
            sab = sum(norm(x) for x in bo["forces"]) + 1e-300
            ctt = c["ct"]; nl = sum(1 for u, p in o["nodes"] if u)
            natural = abs(bo["P"]) * bo["A"] + (max(f["tension"] for f in ctt["fts"]) * c["size"] + (max(f["bend"] for f in ctt["fts"]) + ctt["angreg"] + ctt["ka"]) / c["size"]) * nl
            sab = max(sab, 1e-9 * natural)
            maxc = max(abs(x) for u, p in o["nodes"] if u for x in p); cond_i = conditioning(o)
            for fa, fb in zip(bo["forces"], o["forces"]):
                rf = [sum(M[a][k] * fa[k] for k in range(3)) for a in range(3)]
                # rounding floor: every term is a sum of contributions of its natural size evaluated at absolute coordinates; the
                # pressure of apply_internal_forces is -K ln(V/V_t) with V from the absolute-coordinate determinant formula, whose
                # relative error grows with the cube of the distance from the origin in cell sizes
                floor_ = 1e-14 * (maxc / c["size"]) * natural + (1e-14 * ctt["K"] * (maxc / c["size"]) ** 3 * bo["A"] if c["term"] == 4 else 0.0)
                # the membrane elasticity reads the reference area from the volume (isoperimetric ratio): same conditioning
                if c["term"] in (1, 4) and bo["A"] > 0:
                    floor_ += 1e-15 * (maxc / c["size"]) ** 3 * (ctt["ka"] / bo["A"]) * c["size"] * nl
                if norm([rf[k] - fb[k] for k in range(3)]) > (1e-7 + 1e-12 * maxc / c["size"] + 3e-7 * cond_i) * sab + floor_:
                    fails.append((i, "internal_forces_equivariant(%s)" % TERMS[c["term"]])); break
    ck.cov["evaluations"] = len(cases)
    ck.cov["distinct_nontrivial"] = nontriv
    ck.cov["traces_validated_against_impl"] = len(qi) - len(broken)
    ck.notes["terms"] = hist
    ck.notes["tier2_reassociation_suspected"] = tier2
    ck.sample(dict(term=TERMS[cases[0][0]["term"]], input=lines[0][:400] + " ...", implementation=(iout[0] or "")[:300]), limit=1)
    seen = set()
    for i, fmsg in fails:
        key = fmsg.split(":")[0].split(" ")[0]
        if key in seen:
            continue
        seen.add(key)
        ck.report(dict(input=lines[i], term=TERMS[cases[i][0]["term"]], implementation=(iout[i] or "")[:6000]), oracle=key, key="forces:" + key,
                  what="internal forces violate " + fmsg)
    if broken and not ck.violations:
        i = broken[0]
        ck.report(dict(input=lines[i], term=TERMS[cases[i][0]["term"]], implementation=(iout[i] or "")[:6000], n_disagreements=len(broken)),
                  unchecked="correspondence Forces.v(NumF) = cell force routines (%s)" % TERMS[cases[i][0]["term"]],
                  what="model and implementation disagree beyond rounding on %d cases; the property oracle found no failing input" % len(broken))
    ck.cov["trusted_base"] = vlib.TRUSTED_BASE_COMMON + ["protected force routines reached through the friend class cell_tester defined in the driver"]
    ck.assumptions = ["cached normals/areas fresh (as apply_internal_forces guarantees); torque judged with a 10x looser tolerance than force"]


def replay(ck, path):
    j = json.load(open(path))
    impl = vlib.build_driver("forces")
    print(vlib.run([impl], input=j["case"]["input"] + "\n").stdout[:3000])
    return 0
