"""C15 — results independent of thread count/schedule; parallel errors become exceptions.  (partial: see level_note)
proof:          coq/Properties_C15.v (Schedule.v: interleavings of per-cell tasks; the exception handler; the vector-event
                machine of the division protocol; Population.v: order of the critical sections)
correspondence: the model's prediction "every interleaving equals the sequential loop" against the real solver on
                non-interacting tissues with 1, 2, 4, 8, 16 threads (bit-identical positions, momenta-dependent state,
                connectivity, scalars after every iteration) and against repeated runs; the handler model against
                parallel_exception_handler under real threads with throwing tasks at every position
oracle:         simultaneous divisions with 8 threads vs 1: same number of cells, ids unique, two fresh ids per mother,
                list indices = positions, every cell a valid surface; the caller of the handler receives one of the
                thrown exceptions after all tasks finished; ThreadSanitizer as observer of the division protocol: a
                reallocation of the population list inside the parallel region racing with a read of it."""
import random, json, os, re
import vlib, tissue
from vlib import hx, unhx
from checks.c08 import std_types, parse_out, R

LEVEL = "proof"


def gen_tissue(rng, tag, niter):
    lvl = rng.choice([1, 2])
    n0, f = tissue.icosphere(lvl)
    n0 = tissue.perturb(rng, n0, 0.05 * tissue.mean_edge(n0, f))
    V = abs(tissue.signed_volume([[x * R for x in p] for p in n0], f))
    nc = rng.choice([2, 3, 5, 8])
    roles = [rng.choice(["normal", "normal", "lumen"]) for _ in range(nc)]
    cts = std_types(V, roles, [3] * nc)
    for ct in cts:
        ct["avggr"] = rng.choice([0.0, V * 5e3])
    cells = []
    for i in range(nc):
        # far apart: no contact, no coupling: the cells do not interact
        pos = ((i % 3) * 6.0 * R, ((i // 3) % 3) * 6.0 * R, (i // 9) * 6.0 * R)
        s = rng.uniform(0.8, 1.3)
        cells.append((i, tissue.transform(n0, tissue.rnd_rot(rng), pos, (R * s, R * s, R * s * rng.uniform(0.8, 1.2))), f))
    lmin = (7.5e-7 if lvl == 2 else 1.5e-6) * rng.choice([1.0, 1.4])
    p = tissue.params(dt=1e-7, damping=5e-10, T=1.0, S=1.0, lmin=lmin, cut_adh=5e-7, cut_rep=5e-7, swap=rng.choice([0, 1]))
    seed = rng.randrange(10 ** 6)
    base = tissue.fmt_tissue(p, cts, cells)
    return dict(base=base, seed=seed, niter=niter, nc=nc, tag=tag)


def solver_line(c, threads):
    return c["base"] + " RUN %d %d %d 1 %s_%d 0" % (c["niter"], threads, c["seed"], c["tag"], threads)


def strip_run(out):
    """the dump of a run with everything that must not depend on the thread count"""
    return out.strip()


def gen_division(rng, k):
    n0, f = tissue.icosphere(1)
    n0 = tissue.perturb(rng, n0, 0.04 * tissue.mean_edge(n0, f))
    V = abs(tissue.signed_volume([[x * R for x in p] for p in n0], f))
    cts = std_types(V, ["divide0"] * k, [3] * k)
    cells = [(i, tissue.transform(n0, tissue.rnd_rot(rng), (i * 3.5 * R, 0, 0), (R, R, R)), f) for i in range(k)]
    p = tissue.params(dt=1e-7, damping=5e-10, T=1.0, S=1.0, lmin=1.5e-6, cut_adh=5e-7, cut_rep=5e-7, swap=0)
    return tissue.fmt_tissue(p, cts, cells) + " DIV %d 0 0x0p+0 0x0p+0 0x0p+0" % rng.randrange(10 ** 6)


def parse_runpop(out):
    s = out.split(" | ")[-1].split()
    ib = s.index("before"); ia = s.index("after"); ic = s.index("counter")
    before = [int(x) for x in s[ib + 1:ia]]
    aft = [tuple(int(y) for y in x.split(":")) for x in s[ia + 1:ic]]
    return before, aft, int(s[ic + 1])


def run(ck):
    quick = ck.tier == "quick"
    ntis = 5 if quick else 60
    ck.cov["rule"] = ("non-interacting tissues of 2-8 perturbed icosphere cells (growth, refinement with and without swaps, 6 cell sizes apart) run by the real solver for 12-30 iterations with 1, 2, 4, 8 and 16 threads and twice with 8; 3-12 cells dividing in the same iteration with 1 and 8 threads; parallel_exception_handler on 1-64 tasks with 0-5 throwing tasks at every position, 1-16 threads, with and without delays; ThreadSanitizer build of the division driver on 8 cells / 8 threads; non-trivial = multi-threaded runs compared")
    ok = ck.proofs()
    rng = random.Random(ck.seed * 1931 + 15)
    fails = []; broken = []; nmt = 0
    # ---- 1. thread-count independence on non-interacting tissues (the model: every interleaving = sequential)
    impl = vlib.build_driver("solver", wrap_clock=True)
    cases = [gen_tissue(rng, "c15_%d" % i, rng.choice([12, 20, 30])) for i in range(ntis)]
    jobs = [(ci, th, rep) for ci in range(len(cases)) for th, rep in ((1, 0), (2, 0), (4, 0), (8, 0), (8, 1), (16, 0))]
    from concurrent.futures import ThreadPoolExecutor
    def one(j):
        ci, th, rep = j
        try:
            p = vlib.run([impl], input=solver_line(cases[ci], th) + "\n", timeout=1800, env={"OMP_NUM_THREADS": str(th)})
            return p.returncode, p.stdout, p.stderr[-300:]
        except Exception as e:
            return -999, "", str(e)
    with ThreadPoolExecutor(4) as ex:
        res = list(ex.map(one, jobs))
    byc = {}
    for j, r in zip(jobs, res):
        byc.setdefault(j[0], {})[(j[1], j[2])] = r
    for ci, c in enumerate(cases):
        ref = byc[ci][(1, 0)]
        if ref[0] != 0:
            continue
        for key in ((2, 0), (4, 0), (8, 0), (8, 1), (16, 0)):
            r = byc[ci][key]
            nmt += 1
            if r[0] != 0:
                fails.append(("run_completes_with_any_thread_count", dict(input=solver_line(c, key[0]), threads=key[0]), "the run with %d threads died (exit %s) while the single-threaded run completed: %s" % (key[0], r[0], r[2][-200:])))
            elif strip_run(r[1]) != strip_run(ref[1]):
                a = parse_out(ref[1]); b = parse_out(r[1])
                k = next((i for i, (x, y) in enumerate(zip(a, b)) if x != y), min(len(a), len(b)))
                # the model predicts the sequential result: a different one is both a broken correspondence and a failing input
                fails.append(("same_result_for_every_thread_count", dict(input=solver_line(c, key[0]), reference=solver_line(c, 1), threads=key[0]),
                              "%d cells far apart: the run with %d threads%s differs from the single-threaded run from iteration %d on" % (c["nc"], key[0], " (repeated)" if key[1] else "", k)))
    # ---- 2. simultaneous divisions
    dimpl = vlib.build_driver("divide", wrap_clock=True)
    for k in ([3, 6] if quick else [3, 5, 8, 12, 12, 12]):
        line = gen_division(rng, k)
        for th in (1, 8):
            r = vlib.run([dimpl], input=line + "\n", timeout=1800, env={"OMP_NUM_THREADS": str(th)})
            nmt += 1 if th > 1 else 0
            if r.returncode != 0 or "RUNPOP" not in r.stdout:
                fails.append(("simultaneous_divisions_complete", dict(input=line, threads=th), "cell_divider::run on %d dividing cells with %d threads died (exit %s): %s" % (k, th, r.returncode, r.stderr[-300:].replace("\n", " ")))); continue
            before, aft, counter = parse_runpop(r.stdout)
            ids = [x[0] for x in aft]
            new = [i for i in ids if i not in before]; gone = [i for i in before if i not in ids]
            c0 = 10 + len(before)
            bad = None
            if len(set(ids)) != len(ids):
                bad = "duplicate ids %s" % ids
            elif len(new) != 2 * len(gone) or sorted(new) != list(range(c0, c0 + len(new))) or counter != c0 + len(new):
                bad = "mothers %s replaced by %s (counter %d)" % (gone, new, counter)
            elif len(aft) != len(before) + len(gone):
                bad = "a cell was lost or duplicated (%d before, %d after, %d divided)" % (len(before), len(aft), len(gone))
            elif [x[1] for x in aft] != list(range(len(aft))):
                bad = "list indices %s are not the positions" % [x[1] for x in aft]
            elif any(x[2] != 1 for x in aft):
                bad = "a cell of the resulting population is not a valid closed surface"
            if bad:
                fails.append(("simultaneous_divisions_keep_population_consistent", dict(input=line, threads=th), "%d cells dividing with %d threads: %s" % (k, th, bad)))
    # ---- 3. the exception handler under real threads vs the handler model
    pimpl = vlib.build_driver("par")
    lines = []; meta = []
    for n in ([1, 2, 7, 16] if quick else [1, 2, 3, 7, 16, 33, 64]):
        for th in (1, 2, 8, 16):
            for delay in (0, 300):
                sets = [[]] + [[i] for i in range(n)] + [rng.sample(range(n), min(n, q)) for q in (2, 3, 5) if n >= 2]
                for sset in sets:
                    lines.append("EH %d %d %d %d %s" % (n, th, delay, len(sset), " ".join(str(x) for x in sset))); meta.append((n, th, sset))
    outs, crashes = vlib.run_lines_resilient([pimpl], lines, timeout=1800)
    for i, info in crashes[:1]:
        fails.append(("exception_reaches_the_caller", dict(input=lines[i]), "the process died instead of delivering the exception: " + info[-200:]))
    neh = 0
    for l, (n, th, sset), o in zip(lines, meta, outs):
        if o is None:
            continue
        neh += 1
        got, vis, after = [x.strip() for x in o.split(";")]
        thrown = {"task%d" % i for i in sset}
        # model: handler = None iff nobody threw; otherwise one of the thrown exceptions; all tasks ran
        if (got == "NONE") != (not sset):
            fails.append(("exception_raised_iff_a_task_threw", dict(input=l), "handler with throwing tasks %s on %d threads returned %s" % (sset, th, got)))
        elif sset and (not got.startswith("RAISED ") or got.split(" ", 1)[1] not in thrown):
            fails.append(("caller_receives_a_thrown_exception", dict(input=l), "handler delivered %s, thrown were %s" % (got, sorted(thrown))))
        elif vis != "visited=%d" % n or after != "after_all=1":
            fails.append(("exception_delivered_after_all_tasks_finished", dict(input=l), "%s %s with %d tasks" % (vis, after, n)))
    # ---- 3b. refine_meshes on a list with failing cells at every position, fewer threads than cells: every healthy cell ends
    # bit-identical to the same cell refined alone, and the caller receives the exception of a cell that fails alone
    import contact_common as cc_
    rimpl = vlib.build_driver("refine")
    Rr = 5e-6; edge_ = 2 * Rr * 0.5255 / 4; rlines = []; rmeta = []
    rng_r = random.Random(ck.seed * 1511 + 3)
    def rm_line(kinds, th, swap):
        cells_ = []
        for i_, k_ in enumerate(kinds):
            n0_, f_ = tissue.icosphere(2 if k_ != "small" else rng_r.choice([1, 2]))
            sc_ = {"healthy": (Rr, Rr, Rr), "work": (Rr, Rr * rng_r.choice([1.8, 2.0, 2.5]), Rr), "small": (Rr * 0.15,) * 3, "flat": (Rr, Rr, Rr * 0.02)}[k_]
            cells_.append((i_, tissue.transform(n0_, tissue.rnd_rot(rng_r), (i_ * 40 * Rr, 0, 0), sc_), f_))
        p_ = tissue.params(dt=1e-7, damping=5e-10, T=1.0, S=1.0, lmin=edge_ * 0.6, cut_adh=1e-7, cut_rep=1e-7, swap=swap)
        return tissue.fmt_tissue(p_, cc_.types_for([0] * len(kinds)), cells_) + " RM %s %s %d %d" % (vlib.hx(edge_ * 0.6), vlib.hx(edge_ * 1.8), swap, th)
    for nc_ in ([4, 6] if quick else [3, 4, 5, 6, 8]):
        for pos_ in range(nc_):
            kinds = [rng_r.choice(["healthy", "work", "work", "flat"]) for _ in range(nc_)]; kinds[pos_] = "small"
            if rng_r.random() < 0.3:
                kinds[rng_r.randrange(nc_)] = "small"
            for th in sorted({1, 2, 3, nc_}):
                rlines.append(rm_line(kinds, th, rng_r.choice([0, 1]))); rmeta.append((kinds, th))
    routs, rcr = vlib.run_lines_resilient([rimpl], rlines, timeout=1800)
    nrm = 0
    for l, (kinds, th), o in zip(rlines, rmeta, routs):
        if o is None or not o.startswith("RM "):
            fails.append(("exception_reaches_the_caller", dict(input=l, threads=th), "refine_meshes on %s with %d threads: the process died or timed out (%s)" % (kinds, th, (o or "")[:120]))); continue
        nrm += 1
        parts = [x.strip() for x in o.split("|")]
        caller = parts[-1].split("=", 1)[1]
        alone_exc = set(); bad = None
        for i_, pc in enumerate(parts[1:-1]):
            a_, b_ = pc.split(" together=")
            ast = a_.split()[0].split("=", 1)[1]; adig = " ".join(a_.split()[1:])
            if ast != "ok":
                alone_exc.add(ast)
            elif adig != b_.strip() and bad is None:
                bad = "cell %d (%s), which refines without error alone (nodes faces digest %s), ends as %s when the list %s is refined with %d threads" % (i_, kinds[i_], adig, b_.strip(), kinds, th)
        if bad:
            fails.append(("per_cell_loops_touch_only_their_own_cell", dict(input=l, threads=th), bad))
        elif (caller == "NONE") != (not alone_exc):
            fails.append(("exception_raised_iff_a_task_threw", dict(input=l, threads=th), "refine_meshes on %s with %d threads: caller received %s, failing alone: %s" % (kinds, th, caller[:80], sorted(alone_exc))))
        elif alone_exc and caller not in alone_exc:
            fails.append(("caller_receives_a_thrown_exception", dict(input=l, threads=th), "refine_meshes on %s with %d threads delivered %s; the cells that fail alone throw %s" % (kinds, th, caller[:160], sorted(x[:80] for x in alone_exc))))
    ck.notes["refine_meshes_lists_with_failing_cells"] = nrm
    # ---- 3c. the two parallel sections of mesh_writer::write: an unwritable cell file, an unwritable face file, or both, with 1, 2 and
    # 4 threads: the caller receives an exception exactly when a section failed
    try:
        ioimpl = vlib.build_driver("io")
        wd = os.path.join(vlib.CACHE, "tmp", "c15_wx_%d" % os.getpid())
        n0_, f_ = tissue.icosphere(1)
        cells_ = [(i_, tissue.transform(n0_, None, (i_ * 3.0, 0, 0), (1.0, 1.0, 1.0)), f_) for i_ in range(2)]
        import contact_common as cc2_
        base_ = tissue.fmt_tissue(tissue.params(), cc2_.types_for([0, 0]), cells_)
        wl = []; wm = []
        for th in (1, 2, 4):
            for which in (0, 1, 2, 3):
                wl.append("WX %s W %s %d %d" % (base_, wd, th, which)); wm.append((th, which))
        wouts, _wcr = vlib.run_lines_resilient([ioimpl], wl, timeout=600)
        import shutil as _sh; _sh.rmtree(wd, ignore_errors=True)
        nwx = 0
        for l, (th, which), o in zip(wl, wm, wouts):
            if o is None:
                fails.append(("exception_reaches_the_caller", dict(input=l, threads=th), "mesh_writer::write with unwritable %s file(s), %d threads: the process died" % ({1: "cell", 2: "face", 3: "cell and face"}.get(which, "no"), th))); continue
            nwx += 1
            if (which == 0) != o.startswith("NONE"):
                fails.append(("exception_raised_iff_a_task_threw", dict(input=l, threads=th, which=which),
                              "mesh_writer::write with %s, %d threads: the caller received %s" % ({0: "both files writable", 1: "an unwritable cell file", 2: "an unwritable face file", 3: "both files unwritable"}[which], th, o[:100])))
        ck.notes["mesh_writer_sections_with_unwritable_files"] = nwx
    except vlib.BuildError as e:
        ck.notes["mesh_writer_sections_with_unwritable_files"] = "driver build failed: " + str(e)[-200:]
    # ---- 4. ThreadSanitizer as observer of the division protocol
    tsan_note = "not run"
    try:
        timpl = vlib.build_driver("divide", wrap_clock=True, san="tsan")
        line = gen_division(random.Random(ck.seed + 77), 8)
        r = vlib.run([timpl], input=line + "\n", timeout=1800, env={"OMP_NUM_THREADS": "8", "TSAN_OPTIONS": "halt_on_error=0 report_signal_unsafe=0 history_size=7 exitcode=0"})
        blocks = r.stderr.split("==================")
        hits = []
        grow = ("operator delete", "_M_realloc_insert", "push_back", "emplace_back", "_M_range_insert", "insert")
        for b in blocks:
            if "data race" not in b:
                continue
            # the two accesses of the report: "<Write|Read> of size N ... by ..." and "Previous <write|read> of size N ... by ..."
            m = re.search(r"\n\s*((?:Write|Read) of size.*?)\n\s*\n\s*(Previous (?:write|read) of size.*?)(?:\n\s*\n|$)", b, re.S)
            if not m:
                continue
            acc = [m.group(1), m.group(2)]
            in_region = [bool(re.search(r"cell_divider::run\(.*\) \[clone \._omp_fn", a)) for a in acc]
            resizes = [any(g in a for g in grow) for a in acc]
            reads_elem = [(a.lstrip().startswith("Read") or a.lstrip().startswith("Previous read")) and not any(g in a for g in grow) for a in acc]
            # one access resizes the list inside the parallel region, the other READS an element of it (not another resize:
            # two critical-section writers are serialised by the critical section, which ThreadSanitizer cannot see)
            for x, y in ((0, 1), (1, 0)):
                if in_region[x] and resizes[x] and reads_elem[y] and "cell_divider::run" in acc[y]:
                    hits.append(b); break
        tsan_note = "%d race reports, %d of them a resize of the population list inside the parallel region against a read of it" % (sum(1 for b in blocks if "data race" in b), len(hits))
        if hits:
            fails.append(("population_list_never_read_while_resized", dict(input=line, threads=8, report=hits[0][:6000]), "ThreadSanitizer: cell_divider::run resizes the population list (push_back -> reallocation) inside the parallel region while another thread reads an element of it"))
    except vlib.BuildError as e:
        tsan_note = "build failed: " + str(e)[-200:]
    ck.cov["evaluations"] = len(jobs) + neh + nrm + (4 if quick else 12) + 1
    ck.cov["distinct_nontrivial"] = nmt
    ck.cov["traces_validated_against_impl"] = nmt + neh
    ck.notes["thread_sanitizer"] = tsan_note
    ck.sample(dict(cells=cases[0]["nc"], iterations=cases[0]["niter"], threads=[1, 2, 4, 8, 16]), limit=1)
    seen = set()
    for key, case, what in fails:
        if key in seen:
            continue
        seen.add(key)
        ck.report(case, oracle=key, key="threads:" + key, what=what)
    if not ck.violations and not ok:
        ck.report(dict(log=ck.proof_res["log"][-3000:]), unchecked="Properties_C15.vo", what="proof obligations of C15 no longer check")
    ck.cov["trusted_base"] = vlib.TRUSTED_BASE_COMMON + ["ThreadSanitizer (g++ 12) as observer; libgomp is not instrumented, so only reports whose two accesses are both inside cell_divider::run, one of them a resize of the list in the parallel region, are used",
                                                        "the OpenMP runtime picks the interleavings: the explored schedules are the ones that occurred"]
    ck.assumptions = ["the footprint of each per-cell loop body (its own cell) is read off the code, validated by the bit-exact runs, not proved",
                      "interacting cells are outside the property (atomic force accumulation is order dependent by design)"]


def replay(ck, path):
    j = json.load(open(path))
    c = j["case"]
    if "reference" in c:
        impl = vlib.build_driver("solver", wrap_clock=True)
        a = vlib.run([impl], input=c["reference"] + "\n", timeout=1800, env={"OMP_NUM_THREADS": "1"}).stdout
        b = vlib.run([impl], input=c["input"] + "\n", timeout=1800, env={"OMP_NUM_THREADS": str(c["threads"])}).stdout
        print("identical" if a.strip() == b.strip() else "DIFFERENT")
        return 0 if a.strip() == b.strip() else 1
    print(json.dumps(c)[:2000])
    return 0
