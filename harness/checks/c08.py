"""C08 — cell identities and cross-references stay valid as the population changes.
proof:          coq/Properties_C08.v (model Population.v: the bookkeeping state machine of run_iteration / cell_divider::run)
correspondence: the real solver on 2-6 cell tissues with divisions and removals forced at chosen iterations and
                list positions; the observed event sequence (which ids divided / disappeared) is fed to the model,
                whose ids, list indices and id counter are compared with the dump after every iteration
oracle:         bounds-checked dereference (in the driver) of every stored reference: partner cell and node of each
                coupling (existing, live, other cell, mutual), owner cell and face-type index of each face;
                list index = position; ids unique and never reused."""
import random, json, math
import vlib, tissue
from vlib import hx, unhx

LEVEL = "proof"
R = 5e-6


def std_types(V, roles, nft):
    cts = []
    for role, k in zip(roles, nft):
        fts = [tissue.face_type(0, 1e-3, 1e9, 1e9), tissue.face_type(1, 8e-4, 1e9, 1e9), tissue.face_type(2, 1e-3, 0.0, 5e8)][:k]
        kw = dict(gid=0, K=2.5e3, Pmax=2.5e3, ka=1e-15, isoratio=250.0, maxcurv=2.5e6, fts=fts)
        if role == "divide0":
            kw["avgdiv"] = V * 0.6
        elif role == "divide_later":
            kw["avgdiv"] = V * 1.5
        elif role == "remove0":
            kw["minvol"] = V * 1.3
        elif role == "remove_later":
            kw["minvol"] = V * 0.7
        elif role in ("pair0", "pair1"):
            kw["avgdiv"] = V * 0.6; kw["minvol"] = V * 0.3      # divides at iteration 0; a daughter (V/2) survives until it is shrunk
        elif role == "lumen":
            kw["gid"] = 2
        elif role == "nucleus":
            kw["gid"] = 3
        cts.append(tissue.cell_type(**kw))
    return cts


def gen_case(rng, tag, forced_roles=None):
    n0, f = tissue.icosphere(2)
    junction = forced_roles is not None and forced_roles[0] == "JUNCTION"     # three cells around a common junction, one face type each
    if junction:
        forced_roles = forced_roles[1:]
    nc = rng.randint(2, 6) if forced_roles is None else len(forced_roles)
    V = abs(tissue.signed_volume([[x * R for x in p] for p in n0], f))
    roles = [rng.choice(["normal", "normal", "divide0", "divide_later", "remove0", "remove_later", "lumen"]) for _ in range(nc)] if forced_roles is None else list(forced_roles)
    if forced_roles is not None:
        pass
    elif not any(r.startswith("remove") for r in roles) and rng.random() < 0.7:
        roles[rng.randrange(nc)] = rng.choice(["remove0", "remove_later"])
    if forced_roles is None and not any(r.startswith("divide") for r in roles) and rng.random() < 0.7:
        roles[rng.randrange(nc)] = rng.choice(["divide0", "divide_later"])
    nft = [rng.choice([3, 3, 3, 2, 1]) for _ in range(nc)] if not junction else [1] * nc
    cts = std_types(V, roles, nft)
    gap = rng.choice([2.05, 2.2, 3.0]) if forced_roles is None else 2.05      # touching / near / apart (in radii between centres)
    cells = []
    for i in range(nc):
        M = tissue.rnd_rot(rng)
        pos = (i * gap * R, (i % 2) * 0.3 * R, 0.0) if (rng.random() < 0.7 or forced_roles is not None) else ((i % 3) * gap * R, (i // 3) * gap * R, 0.0)
        if junction:
            pos = (gap * R * math.cos(2 * math.pi * i / 3) / math.sqrt(3), gap * R * math.sin(2 * math.pi * i / 3) / math.sqrt(3), 0.0)
        cells.append((i, tissue.transform(n0, M, pos, (R, R, R)), f))
    niter = rng.choice([12, 16, 22])
    evs = []
    for i, r in enumerate(roles):
        if r == "divide_later":
            evs.append((rng.choice([3, 6, 8]), i, 1.18))      # 1.18^3 = 1.64 V > 1.5 V: divides at the next multiple of 5
        if r == "remove_later":
            evs.append((rng.choice([2, 4, 7, 9]), i, 0.85))   # 0.85^3 = 0.61 V < 0.7 V: removed at the end of that iteration
        if r in ("pair0", "pair1"):
            # the two daughters adhere along the division interface; the one at list position 0 / 1 is shrunk below the minimum
            # volume (0.5 V * 0.8^3 = 0.26 V < 0.3 V) while still within the adhesion range of its sister
            evs.append((rng.choice([3, 6, 7]), 0 if r == "pair0" else 1, 0.8))
    p = tissue.params(dt=1e-7, damping=5e-10, T=1.0, S=1.0, lmin=7.5e-7, cut_adh=5e-7 if not junction else 3e-6, cut_rep=5e-7, swap=0)
    line = tissue.fmt_tissue(p, cts, cells) + " RUN %d 1 %d 0 %s %d %s" % (niter, rng.randrange(10 ** 6), tag, len(evs), " ".join("%d %d %s" % (a, b, hx(c)) for a, b, c in evs))
    return dict(line=line, roles=roles, nft=nft, evs=evs, niter=niter, incoming_ids=rng.random() < 0.5)


def parse_out(out):
    its = []
    for sec in out.strip().rstrip("#").strip().split(" # "):      # (the driver ends every section with " # ", the last one too)
        sec = sec.strip()
        if not sec:
            continue
        if sec.startswith("EXC") or sec.startswith("FATAL"):
            its.append(dict(exc=sec)); continue
        parts = sec.split("|")
        if len(parts) < 3 or "ncpl=" not in parts[2]:
            its.append(dict(exc="TRUNCATED (the driver died while writing this section)")); continue
        h = parts[0].split()
        t = parts[1].split()
        cells = [dict(id=int(t[i]), local=int(t[i + 1]), cls=int(t[i + 2]), nslots=int(t[i + 3]), nlive=int(t[i + 4]), nfaces=int(t[i + 5]), nft=int(t[i + 6]),
                      V=unhx(t[i + 7]), Vt=unhx(t[i + 8]), P=unhx(t[i + 9])) for i in range(0, len(t), 10)]
        ref = parts[2].split()[1:]
        its.append(dict(it=int(h[1]), counter=int(h[2]), time=unhx(h[3]), filenb=int(h[4]), cells=cells, ref=[x for x in ref if not x.startswith("ncpl=")],
                        ncpl=int([x for x in ref if x.startswith("ncpl=")][0][5:]), geo=parts[3] if len(parts) > 3 else None))
    return its


def events_between(prev, cur):
    """observed bookkeeping events of one iteration: (divided mother ids in list order, removed ids)"""
    pid = [c["id"] for c in prev["cells"]]; cid = [c["id"] for c in cur["cells"]]
    new = [i for i in cid if i not in pid]
    gone = [i for i in pid if i not in cid]
    ndiv = len(new) // 2
    return new, gone, ndiv


def run(ck):
    ncase = 14 if ck.tier == "quick" else 300
    ck.cov["rule"] = ("tissue of 2-6 icosphere cells (touching, near, apart; rows and grids) with per-cell roles: normal, divides at iteration 0, divides later (scaled above its division volume), removed at iteration 0, removed later (scaled below its minimum volume), lumen; 1-3 face types per cell type; 12-22 real solver iterations, single thread; dump of ids, list indices, id counter and of every stored reference after every iteration; non-trivial = iterations in which a division or a removal happened")
    ok = ck.proofs()
    if not ok:
        ck.report(dict(log=ck.proof_res["log"][-3000:]), unchecked="Properties_C08.vo", what="proof obligations of C08 no longer check")
    impl = vlib.build_driver("solver", wrap_clock=True)
    model = vlib.ocaml_model()
    rng = random.Random(ck.seed * 8111 + 8)
    # first: populations that shrink to a single, still coupled survivor (at list position 0 and at position 1), and to a pair
    # ... and iterations in which as many cells divide as are removed (the list keeps its length while every position changes)
    forced = [("pair0",), ("pair1",), ("normal", "remove_later"), ("remove_later", "normal", "remove_later"),
              ("divide0", "remove0", "normal"), ("remove0", "normal", "divide0", "normal"), ("divide0", "divide0", "remove0", "normal", "remove0"),
              # several divisions in one iteration with undivided cells between and after the mothers
              ("divide0", "normal", "divide0", "normal"), ("normal", "divide0", "normal", "normal", "divide0"), ("divide0", "normal", "normal", "divide0"),
              # three cells of one face type each around a junction, within adhesion range of both neighbours (faces coupled to two partners)
              ("JUNCTION", "normal", "normal", "normal"), ("JUNCTION", "normal", "remove_later", "normal")]
    rng_f = random.Random(ck.seed * 8111 + 9)       # its own stream: adding a forced case does not change the random ones
    cases = [gen_case(rng_f, "c08_f%d" % i, forced_roles=fr) for i, fr in enumerate(forced)] + [gen_case(rng, "c08_%d" % i) for i in range(ncase)]
    # run in parallel processes (each history is independent)
    from concurrent.futures import ThreadPoolExecutor
    def one(c):
        try:
            # every other history: the cells arrive at the solver with ids that are not their list positions (as the survivors
            # of an earlier run do); the constructor renumbers them
            env = {"OMP_NUM_THREADS": "1"}
            if c.get("incoming_ids"):
                env["VERIF_INCOMING_IDS"] = "1"
            p = vlib.run([impl], input=c["line"] + "\n", timeout=300, env=env)
            return p.returncode, p.stdout, p.stderr[-800:]
        except Exception as e:
            return -999, "", str(e)
    with ThreadPoolExecutor(vlib.NJOBS) as ex:
        res = list(ex.map(one, cases))
    fails = []; nit = 0; nevents = 0; ndivs = 0; nrem = 0; ncpl = 0; queries = []; qmeta = []; nonmutual = 0
    for ci, (c, (rc_, out, err)) in enumerate(zip(cases, res)):
        its = parse_out(out) if out else []
        if rc_ != 0:
            last = its[-1]["it"] if its and "it" in its[-1] else -1
            fails.append((ci, last, "crash (the solver died with exit status %s after iteration %s: %s)" % (rc_, last, err[-200:].replace("\n", " "))))
        seen_ids = set(); gone_ids = set()
        evlog = []
        for k, it in enumerate(its):
            if "exc" in it:
                break
            nit += 1
            ncpl += it["ncpl"]
            ids = [x["id"] for x in it["cells"]]
            if len(set(ids)) != len(ids):
                fails.append((ci, it["it"], "ids_unique (%s)" % ids)); break
            if any(i in gone_ids for i in ids):
                fails.append((ci, it["it"], "ids_never_reused (%s reappeared)" % [i for i in ids if i in gone_ids])); break
            if any(i >= it["counter"] for i in ids):
                fails.append((ci, it["it"], "ids_below_counter")); break
            loc = [x["local"] for x in it["cells"]]
            if loc != list(range(len(loc))):
                fails.append((ci, it["it"], "local_id_is_list_position (positions 0..%d carry list indices %s)" % (len(loc) - 1, loc))); break
            # a node that finds a closer partner re-couples without un-coupling its previous partner: couplings are
            # mutual when created, not forever; a one-directional coupling is not an invalid reference
            refs = [r for r in it["ref"] if not r.startswith("cplnotmutual")]
            nonmutual += len(it["ref"]) - len(refs)
            if k > 0:
                new_, gone_, ndiv_ = events_between(its[k - 1], it)
                if len(gone_) > ndiv_:
                    # cells were erased at the very end of this iteration: the couplings stored by its contact phase refer to
                    # the list as it was when they were used (before the erase) and are reset before their next use
                    refs = [r for r in refs if not r.startswith("cpl")]
            if refs:
                fails.append((ci, it["it"], "reference_valid (%s)" % " ".join(refs[:4]))); break
            if k > 0:
                new, gone, ndiv = events_between(its[k - 1], it)
                gone_ids |= set(gone)
                if new or gone:
                    nevents += 1
                ndivs += ndiv; nrem += len(gone) - ndiv
                if len(new) % 2 != 0 or len(gone) < ndiv:
                    fails.append((ci, it["it"], "division_bookkeeping (new ids %s, vanished ids %s)" % (new, gone))); break
                evlog.append((new, gone))
        # model query: initial ids + observed events -> predicted (ids, counter) after every iteration
        if its and "cells" in its[0]:
            q = ["%d %d" % (len(its[0]["cells"]), its[0]["counter"])] + [str(x["id"]) for x in its[0]["cells"]]
            okq = True
            for k in range(1, len(its)):
                if "exc" in its[k]:
                    break
                prev, cur = its[k - 1], its[k]
                new, gone, ndiv = events_between(prev, cur)
                pid = [x["id"] for x in prev["cells"]]
                # mothers: vanished ids whose disappearance coincides with new ids; which vanished ids are mothers is
                # decided by the iteration: divisions happen before removals, daughters are appended in mother order
                mothers_pos = []; removed_after = []
                if ndiv:
                    # candidates: the ndiv vanished ids that were ready to divide = those not below min vol; we cannot see
                    # that, so use the order: the model is told positions; choose the vanished ids with largest volume
                    cand = sorted(gone, key=lambda i: -[x["V"] for x in prev["cells"] if x["id"] == i][0])[:ndiv]
                    mothers_pos = sorted(pid.index(i) for i in cand)
                    removed_after = [i for i in gone if i not in cand]
                else:
                    removed_after = list(gone)
                q.append("D %d %s R %d %s" % (len(mothers_pos), " ".join(map(str, mothers_pos)), len(removed_after), " ".join(map(str, removed_after))))
            queries.append(" ".join(q)); qmeta.append(ci)
    broken = []
    if queries:
        mo = vlib.run([model, "population"], input="\n".join(queries) + "\n", check=True, timeout=600).stdout.strip().split("\n")
        for ci, l in zip(qmeta, mo):
            its = [x for x in parse_out(res[ci][1]) if "cells" in x]
            pred = [sec.split() for sec in l.split("|")]
            for k, (it, pr) in enumerate(zip(its, pred)):
                want = [str(it["counter"])] + [str(x["id"]) for x in it["cells"]]
                if pr[0] == "INVBROKEN":
                    fails.append((ci, it["it"], "PopInv_violated_in_model (%s)" % " ".join(pr[1:]))); break
                if pr != want:
                    broken.append((ci, it["it"], "model predicts counter/ids %s, implementation has %s" % (pr, want))); break
    ck.cov["evaluations"] = nit
    ck.cov["distinct_nontrivial"] = nevents
    ck.cov["traces_validated_against_impl"] = len(queries) - len(set(b[0] for b in broken))
    ck.notes["divisions"] = ndivs; ck.notes["removals"] = nrem; ck.notes["couplings_dereferenced"] = ncpl; ck.notes["one_directional_couplings_seen"] = nonmutual; ck.notes["histories"] = len(cases)
    ck.sample(dict(roles=cases[0]["roles"], face_types=cases[0]["nft"], scaling_events=cases[0]["evs"], iterations=cases[0]["niter"]), limit=1)
    seen = set()
    for ci, itn, f in fails:
        key = f.split(" ")[0]
        if key in seen:
            continue
        seen.add(key)
        ck.report(dict(input=cases[ci]["line"], roles=cases[ci]["roles"], iteration=itn, config=dict(threads=1)), oracle=key, key="population:" + key,
                  what="after iteration %s: %s" % (itn, f))
    if broken and not ck.violations:
        ci, itn, d = broken[0]
        ck.report(dict(input=cases[ci]["line"], iteration=itn, difference=d), unchecked="correspondence Population.v = ids/counter of the real solver",
                  what="model and implementation disagree (%s); the property oracle found no failing input" % d)
    ck.cov["trusted_base"] = vlib.TRUSTED_BASE_COMMON + ["bounds-checked dereferences performed by the driver through the friend class cell_tester"]
    ck.assumptions = ["single thread (the critical-section order of simultaneous divisions is C15)", "which vanished cells were mothers is inferred from the dump (new ids come in pairs, mothers are the largest vanished cells)"]


def replay(ck, path):
    j = json.load(open(path))
    impl = vlib.build_driver("solver", wrap_clock=True)
    p = vlib.run([impl], input=j["case"]["input"] + "\n", timeout=900, env={"OMP_NUM_THREADS": "1"})
    for it in parse_out(p.stdout):
        print(it.get("it"), it.get("counter"), [(c["id"], c["local"]) for c in it.get("cells", [])], it.get("ref", [])[:4], it.get("exc"))
    return 0
