"""C17 — malformed input files are rejected with an exception, never a crash.  (partial: see level_note)
proof:          coq/Properties_C17.v: whatever the reader model accepts is index-safe and consistent; the named
                malformations (dangling point ids, inconsistent counts, empty / non-numeric texts, truncation at every
                token position, missing tags and sections) are Err in the models of mesh_reader (Vtk.v) and
                parameter_reader (Params.v over the tables regenerated from the source)
correspondence: token-level faults on writer-style files: outcome class of the model's reader vs the real mesh_reader;
                (the parameter reader's correspondence on malformed texts is C18's)
exploration:    systematic single-token faults, section removal/reordering, truncation at every token and every 64th
                byte, random byte strings, on mesh files and parameter files, through mesh_reader, parameter_reader and
                the complete start-up (simulation_initializer), built plain (outcome class, time and memory budget) and
                with AddressSanitizer/UBSan (memory errors).  This part is validation, not proof."""
import re, random, json, os, shutil, subprocess, sys, math
import vlib, tissue
from vlib import hx, unhx

LEVEL = "proof"

HEADER = "# vtk DataFile Version 4.2\nvtk output\nASCII\nDATASET UNSTRUCTURED_GRID\n"


def mesh_file_lines(cells, types):
    """a cell-data file in the layout of data/input_meshes: list of lines, each a list of tokens"""
    pts = [p for n, f in cells for p in n]
    L = [["POINTS", str(len(pts)), "double"]]
    for i in range(0, len(pts), 3):
        L.append([repr(x) for p in pts[i:i + 3] for x in p])
    recs = []; off = 0
    for n, f in cells:
        r = [str(len(f))]
        for a, b, c in f:
            r += ["3", str(a + off), str(b + off), str(c + off)]
        recs.append([str(len(r))] + r); off += len(n)
    L.append([])
    L.append(["CELLS", str(len(cells)), str(sum(len(r) for r in recs))])
    L += recs
    L.append([])
    L.append(["CELL_TYPES", str(len(cells))])
    L += [["42"] for _ in cells]
    L.append([])
    L.append(["CELL_DATA", str(len(cells))])
    L.append(["FIELD", "FieldData", "1"])
    L.append(["cell_type_id", "1", str(len(cells)), "int"])
    L.append([str(t) for t in types])
    return L


def render_lines(L):
    return HEADER + "\n".join(" ".join(l) for l in L) + "\n"


BAD_TOKENS = [("out_of_range", "999999999"), ("beyond_points", "5000"), ("negative", "-5"), ("huge", "99999999999999999999"), ("overflow", "1e999"), ("non_numeric", "abc"), ("zero", "0"), ("float_for_int", "2.5")]


WRAP_VALUES = [2 ** 7, 2 ** 8 - 1, 2 ** 8, 2 ** 15 - 1, 2 ** 15, 40000, 2 ** 16 - 2, 2 ** 16 - 1, 2 ** 16, 2 ** 16 + 2 ** 15, 2 ** 17 - 1, 2 ** 31 - 1, 2 ** 31, 2 ** 32 - 1, 2 ** 32, 2 ** 32 + 1, 2 ** 30, 2 ** 30 + 1, (2 ** 32) // 3, (2 ** 32) // 3 + 1, (2 ** 32) // 3 + 2, (2 ** 32) // 3 + 5,
               2 * (2 ** 32) // 3 + 1, 2 * (2 ** 32) // 3 + 2, (2 ** 31) // 3 + 1, 2 ** 63 - 1, 2 ** 63, 2 ** 64 - 1, 2 ** 64]


def mesh_faults(rng, L, limit):
    """(kind, text) single-token faults at every token position, structural faults, truncations"""
    pos = [(i, j) for i, l in enumerate(L) for j in range(len(l))]
    out = []
    import copy
    for (i, j) in pos:
        for kind in ("delete", "duplicate", "plus_one", "minus_one") + tuple(k for k, _ in BAD_TOKENS):
            M = copy.deepcopy(L)
            if kind == "delete":
                del M[i][j]
            elif kind == "duplicate":
                M[i].insert(j, M[i][j])
            elif kind in ("plus_one", "minus_one"):
                if not L[i][j].isdigit():
                    continue
                M[i][j] = str(max(0, int(L[i][j]) + (1 if kind == "plus_one" else -1)))
            else:
                M[i][j] = dict(BAD_TOKENS)[kind]
            numeric = L[i][j].replace(".", "").replace("e-", "").replace("-", "").isdigit() and not (L[i][0] in ("POINTS", "CELLS", "CELL_TYPES", "CELL_DATA", "FIELD", "cell_type_id") and j == 0)
            out.append(("token_" + kind, render_lines(M), (i, j, numeric)))
    # integers at which 32/64-bit index arithmetic (k*id + c, k = 1..4) wraps: a guard computed in a narrower type than the
    # access it protects lets exactly these through
    rng2 = random.Random(len(L) * 7919 + len(pos))
    # integer positions grouped by the section they belong to (the last header line above them), a few from every section:
    # point counts, cell records, VTK cell types, the cell_type_id array and the header counts themselves
    bysec = {}; cur = "HEAD"
    for i, l in enumerate(L):
        if l and l[0][:1].isalpha():
            cur = l[0]
            for j in range(1, len(l)):
                if l[j].isdigit():
                    bysec.setdefault("header:" + cur, []).append((i, j))
        else:
            for j in range(len(l)):
                if l[j].isdigit():
                    bysec.setdefault(cur, []).append((i, j))
    ints = []
    for sec in sorted(bysec):
        ints += rng2.sample(bysec[sec], min(3, len(bysec[sec])))
    for (i, j) in ints:
        for v in WRAP_VALUES:
            M = copy.deepcopy(L); M[i][j] = str(v)
            out.append(("wrap_value", render_lines(M), (i, j, True)))
    # sections removed / reordered
    heads = [i for i, l in enumerate(L) if l and l[0] in ("POINTS", "CELLS", "CELL_TYPES", "CELL_DATA", "cell_type_id")]
    bounds = heads + [len(L)]
    secs = [L[bounds[k]:bounds[k + 1]] for k in range(len(heads))]
    for k in range(len(secs)):
        out.append(("section_removed", render_lines([l for q, s in enumerate(secs) if q != k for l in s]), None))
        out.append(("section_header_removed", render_lines([l for q, s in enumerate(secs) for l in (s[1:] if q == k else s)]), None))
    for _ in range(6):
        perm = secs[:]; rng.shuffle(perm)
        out.append(("sections_reordered", render_lines([l for s in perm for l in s]), None))
    for i, l in enumerate(L):
        if i > 0 and L[i - 1] and L[i - 1][0] == "CELLS" or (len(l) > 6 and l[0].isdigit() and int(l[0]) == len(l) - 1 and all(x.isdigit() for x in l)):
            if len(l) > 6 and l[0].isdigit() and int(l[0]) == len(l) - 1:
                M = copy.deepcopy(L); M[i] = [str(int(l[0]) - 1)] + l[1:-1]
                out.append(("record_one_short_count_adjusted", render_lines(M), None))
    # a whole triangle removed from / listed twice in a cell record, with the record size and the CELLS total adjusted: a file
    # that is well-formed for the reader and describes an open or doubly covered surface
    cstart = next((i for i, l in enumerate(L) if l and l[0] == "CELLS"), None)
    if cstart is not None:
        for i in range(cstart + 1, len(L)):
            l = L[i]
            if not l or not l[0].isdigit() or len(l) < 10:
                break
            nf = int(l[1])
            for kind in ("face_removed_counts_adjusted", "face_duplicated_counts_adjusted"):
                M = copy.deepcopy(L)
                k = rng2.randrange(nf); tri = l[2 + 4 * k:6 + 4 * k]
                body = l[2:2 + 4 * k] + l[6 + 4 * k:] if kind.startswith("face_removed") else l[2:] + tri
                nf2 = nf - 1 if kind.startswith("face_removed") else nf + 1
                M[i] = [str(len(body) + 1), str(nf2)] + body
                M[cstart] = ["CELLS", L[cstart][1], str(int(L[cstart][2]) + (len(M[i]) - len(l)))]
                out.append((kind, render_lines(M), None))
    out.append(("empty_cell_record", render_lines([(["0", " ", " "] if (l and i > 0 and L[i - 1] and L[i - 1][0] == "CELLS") else l) for i, l in enumerate(L)]), None))
    text = render_lines(L)
    # truncation at every token boundary and every 64th byte
    cut = set(range(0, len(text), 64))
    k = 0
    for ch_i, ch in enumerate(text):
        if ch in " \n":
            cut.add(ch_i)
    for cpos in sorted(cut):
        out.append(("truncated", text[:cpos], None))
    out.append(("no_header", text[len(HEADER):], None))
    out.append(("empty_file", "", None))
    if limit and len(out) > limit:
        keep = [o for o in out if not o[0].startswith("token_") and o[0] != "truncated"]
        rest = [o for o in out if o[0].startswith("token_") or o[0] == "truncated"]
        rng.shuffle(rest)
        out = keep + rest[:max(0, limit - len(keep))]
    return out


def random_bytes_cases(rng, base_text, n):
    out = []
    for _ in range(n):
        r = rng.random()
        if r < 0.3:
            b = bytes(rng.randrange(256) for _ in range(rng.choice([0, 1, 7, 64, 500, 3000])))
        elif r < 0.7:
            b = bytearray(base_text.encode())
            for _ in range(rng.choice([1, 2, 5, 20])):
                if b:
                    b[rng.randrange(len(b))] = rng.randrange(256)
            b = bytes(b)
        else:
            toks = base_text.split()
            rng.shuffle(toks)
            b = " ".join(toks[:rng.randrange(1, len(toks) + 1)]).encode()
        out.append(("random_bytes", b, None))
    # long runs that stress the regular expressions (bounded size)
    out.append(("long_number", (HEADER + "POINTS 1 double\n" + "1" * 20000 + " 0 0\n").encode(), None))
    out.append(("long_word", (HEADER + "POINTS 1 double\n0 0 0\n" + "A" * 20000 + "\n").encode(), None))
    out.append(("many_points", (HEADER + "POINTS 2000000000 double\n0 0 0\n").encode(), None))
    return out


def base_xml(mesh_path, out_path, tri=0, ncts=2):
    def ct(i):
        return ("<cell_type><cell_type_name>t%d</cell_type_name><global_cell_id>%d</global_cell_id><cell_mass_density>1e3</cell_mass_density>"
                "<cell_bulk_modulus>2500</cell_bulk_modulus><max_inner_pressure>INF</max_inner_pressure><area_elasticity_modulus>0</area_elasticity_modulus>"
                "<avg_division_volume>INF</avg_division_volume><std_division_volume>0</std_division_volume><avg_growth_rate>0</avg_growth_rate><std_growth_rate>0</std_growth_rate>"
                "<target_isoperimetric_ratio>150</target_isoperimetric_ratio><angle_regularization_factor>0</angle_regularization_factor><min_vol>0</min_vol>"
                "<surface_coupling_max_curvature>1e7</surface_coupling_max_curvature><face_types><face_type><global_face_id>0</global_face_id><face_type_name>a</face_type_name>"
                "<adherence_strength>0</adherence_strength><repulsion_strength>1e9</repulsion_strength><surface_tension>1e-3</surface_tension><bending_modulus>0</bending_modulus></face_type>"
                "<face_type><global_face_id>1</global_face_id><face_type_name>b</face_type_name><adherence_strength>0</adherence_strength><repulsion_strength>1e9</repulsion_strength>"
                "<surface_tension>1e-3</surface_tension><bending_modulus>0</bending_modulus></face_type><face_type><global_face_id>2</global_face_id><face_type_name>c</face_type_name>"
                "<adherence_strength>0</adherence_strength><repulsion_strength>1e9</repulsion_strength><surface_tension>1e-3</surface_tension><bending_modulus>0</bending_modulus></face_type>"
                "</face_types></cell_type>") % (i, i)
    return ("<numerical_parameters><input_mesh_file_path>%s</input_mesh_file_path><output_mesh_folder_path>%s</output_mesh_folder_path>"
            "<damping_coefficient>1e-9</damping_coefficient><perform_initial_triangulation>%d</perform_initial_triangulation><simulation_duration>1e-6</simulation_duration>"
            "<time_step>1e-7</time_step><sampling_period>1e-7</sampling_period><min_edge_length>1.5e-6</min_edge_length><contact_cutoff_adhesion>5e-7</contact_cutoff_adhesion>"
            "<contact_cutoff_repulsion>5e-7</contact_cutoff_repulsion><enable_edge_swap_operation>0</enable_edge_swap_operation></numerical_parameters>"
            "<cell_types>%s</cell_types>\n") % (mesh_path, out_path, tri, "".join(ct(i) for i in range(ncts)))


def xml_faults(rng, text, limit):
    import re
    out = []
    elems = list(re.finditer(r"<(\w+)>([^<>]*)</\1>", text))
    for m in elems:
        for kind, val in (("empty_element", ""), ("non_numeric", "abc"), ("overflow", "1e999"), ("negative", "-1"), ("huge", "99999999999999999999"), ("comment_before_text", "<!-- c -->" + m.group(2)),
                          ("whitespace_only", "  \n "),
                          # well-formed structure where plain text is expected: a child element instead of / before / after the text,
                          # a CDATA section, a processing instruction, an entity, an attribute-only child
                          ("value_in_child_element", "<value>" + m.group(2) + "</value>"), ("child_element_before_text", "<unit>m</unit>" + m.group(2)),
                          ("empty_child_before_text", "<id/>" + m.group(2)), ("child_element_after_text", m.group(2) + "<unit>m</unit>"),
                          ("comment_only", "<!-- " + m.group(2) + " -->"), ("cdata", "<![CDATA[" + m.group(2) + "]]>"), ("processing_instruction", "<?pi x?>" + m.group(2)),
                          ("entity", "&amp;" + m.group(2)), ("nested_same_tag", "<%s>%s</%s>" % (m.group(1), m.group(2), m.group(1)))):
            out.append(("xml_" + kind, text[:m.start(2)] + val + text[m.end(2):], m.group(1)))
        out.append(("xml_element_removed", text[:m.start()] + text[m.end():], m.group(1)))
        out.append(("xml_self_closing", text[:m.start()] + "<%s/>" % m.group(1) + text[m.end():], m.group(1)))
        out.append(("xml_unclosed", text[:m.start()] + "<%s>%s" % (m.group(1), m.group(2)) + text[m.end():], m.group(1)))
    for sec in ("numerical_parameters", "cell_types", "cell_type", "face_types", "face_type"):
        mm = re.search(r"<%s>.*?</%s>" % (sec, sec), text, re.S)
        if mm:
            out.append(("xml_section_removed", text[:mm.start()] + text[mm.end():], sec))
            out.append(("xml_section_emptied", text[:mm.start()] + "<%s></%s>" % (sec, sec) + text[mm.end():], sec))
    for cpos in range(0, len(text), 64):
        out.append(("xml_truncated", text[:cpos], None))
    out.append(("xml_empty_file", "", None))
    out.append(("xml_not_xml", "POINTS 8 double\n", None))
    for _ in range(20):
        b = bytearray(text.encode())
        for _k in range(rng.choice([1, 3, 10])):
            b[rng.randrange(len(b))] = rng.randrange(256)
        out.append(("xml_random_bytes", bytes(b), None))
    if limit and len(out) > limit:
        rng.shuffle(out); out = out[:limit]
    return out


def tokens_for_model(text):
    """token view of a file for the model's reader, valid for files whose lexical classes and line structure are
    those of a written file (the in-domain faults: an integer or coordinate token replaced by another one);
    None: outside that domain"""
    toks = []
    words = text.split()
    if "POINTS" not in words:
        return None
    i = words.index("POINTS"); in_points = False
    while i < len(words):
        w = words[i]
        if w == "POINTS":
            toks.append("KP")
            if i + 2 < len(words) and words[i + 2] in ("double", "float") and words[i + 1].isdigit():
                toks.append("I " + words[i + 1]); i += 3; in_points = True; continue
            return None
        if in_points:
            try:
                float(w)
                if not all(ch in "0123456789.+-eE" for ch in w):
                    return None
                toks.append("X " + w); i += 1; continue
            except ValueError:
                in_points = False
        if w == "CELLS":
            toks.append("KC")
        elif w == "CELL_TYPES":
            toks.append("KT")
        elif w == "CELL_DATA":
            toks.append("KD")
        elif w == "cell_type_id":
            toks.append("KI")
            if i + 3 < len(words) and words[i + 3].isalpha() and words[i + 1].isdigit() and words[i + 2].isdigit():
                toks += ["I " + words[i + 1], "I " + words[i + 2]]; i += 4; continue
            return None
        elif w.isdigit():
            toks.append("I " + w)
        elif w in ("FIELD", "FieldData"):
            toks.append("O")
        else:
            return None
        i += 1
    return toks


def classify(out):
    if out is None:
        return "CRASH"
    if out.startswith("OK"):
        return "OK"
    if out.startswith("EXCOTHER"):
        return "EXCOTHER"
    if out.startswith("EXC"):
        return "EXC"
    if out.endswith("TIMEOUT"):
        return "TIMEOUT"
    return "OTHER"


def run(ck):
    quick = ck.tier == "quick"
    ck.cov["rule"] = ("mesh files (1-2 small closed cells, layout of data/input_meshes) and parameter files with systematic single-token faults at every token position (deleted, duplicated, incremented, decremented, out-of-range, negative, huge, overflowing, non-numeric, zero, fractional), cell records one integer short with the count adjusted, sections removed / header removed / reordered, empty cell record, truncation at every token boundary and every 64th byte, random byte strings and byte flips, long runs; XML: every element emptied / non-numeric / overflowing / negative / huge / comment before text / removed / self-closing / unclosed, sections removed or emptied, truncation every 64 bytes, byte flips; each through mesh_reader or parameter_reader and a sample through the complete start-up; plain build for the outcome class (60 s, 6 GB), ASan+UBSan build for memory errors; non-trivial = files that were rejected")
    ok = ck.proofs()
    rng = random.Random(ck.seed * 5471 + 17)
    plain = vlib.build_driver("io")
    asan = vlib.build_driver("io", san=True)
    d = os.path.join(vlib.CACHE, "tmp", "c17_%d" % os.getpid())
    os.makedirs(d, exist_ok=True)
    # ---- base inputs
    n1, f1 = tissue.tetrahedron(); n2, f2 = tissue.octahedron()
    s = 5e-6
    cellsA = [([[x * s for x in p] for p in n1], f1)]
    cellsB = [([[x * s for x in p] for p in n2], f2), ([[x * s + (4 * s if k == 0 else 0) for k, x in enumerate(p)] for p in n1], f1)]
    cases = []       # (mode, kind, bytes, where)
    for cells, types in ((cellsA, [0]), (cellsB, [1, 0])):
        L = mesh_file_lines(cells, types)
        for kind, text, where in mesh_faults(rng, L, 420 if quick else None):
            cases.append(("RD", kind, text.encode() if isinstance(text, str) else text, where, bool(where and len(where) > 2 and where[2])))
        for kind, b, where in random_bytes_cases(rng, render_lines(L), 40 if quick else 600):
            cases.append(("RD", kind, b, where, False))
    base_mesh = os.path.join(d, "base.vtk")
    open(base_mesh, "w").write(render_lines(mesh_file_lines(cellsB, [1, 0])))
    xml = base_xml(base_mesh, os.path.join(d, "out"), 0)
    for kind, t, where in xml_faults(rng, xml, 260 if quick else None):
        cases.append(("PR", kind, t.encode() if isinstance(t, str) else t, where, False))
    # complete start-up: valid pair, mesh faults and xml faults (a sample)
    st_cases = [("ST", "valid", None, None)]
    Lb = mesh_file_lines(cellsB, [1, 0])
    mf = mesh_faults(rng, Lb, None); rng.shuffle(mf)
    # always through the complete start-up: the structural face faults and the integer boundary values in the cell_type_id array
    # (that array is interpreted by simulation_initializer, not by the reader)
    always = [x for x in mf if x[0].startswith("face_")] + [x for x in mf if x[0] == "wrap_value" and x[2] and x[2][0] > 0 and Lb[x[2][0] - 1][:1] == ["cell_type_id"]]
    for kind, text, where in always + mf[:(60 if quick else 700)]:
        st_cases.append(("STM", kind, text.encode(), where))
    # well-formed files that describe NO cell (every count is zero and consistent), with and without points: the start-up either
    # refuses them with an exception or completes with an empty population
    st_cases.append(("STM", "zero_cells_no_points", render_lines(mesh_file_lines([], [])).encode(), None))
    Lz = []
    skip_recs = False
    for row in mesh_file_lines(cellsB, [1, 0]):
        if row[:1] == ["CELLS"]:
            Lz.append(["CELLS", "0", "0"]); skip_recs = True; continue
        if row[:1] == ["CELL_TYPES"]:
            Lz.append(["CELL_TYPES", "0"]); skip_recs = True; continue
        if row[:1] == ["CELL_DATA"]:
            Lz.append(["CELL_DATA", "0"]); skip_recs = False; continue
        if row[:1] == ["cell_type_id"]:
            Lz.append(["cell_type_id", "1", "0", "int"]); Lz.append([]); break
        if skip_recs and row:
            continue
        Lz.append(row)
    st_cases.append(("STM", "zero_cells_with_points", render_lines(Lz).encode(), None))
    xf = xml_faults(rng, xml, None); rng.shuffle(xf)
    for kind, t, where in xf[:(40 if quick else 400)]:
        st_cases.append(("ST", kind, t.encode() if isinstance(t, str) else t, where))
    lines = []
    for i, (mode, kind, b, where, _num) in enumerate(cases):
        p = os.path.join(d, "f%d.%s" % (i, "xml" if mode == "PR" else "vtk"))
        open(p, "wb").write(b)
        lines.append("%s %s" % (mode, p))
    for i, (mode, kind, b, where) in enumerate(st_cases):
        px = os.path.join(d, "s%d.xml" % i)
        if mode == "STM":
            pm = os.path.join(d, "s%d.vtk" % i); open(pm, "wb").write(b)
            open(px, "w").write(base_xml(pm, os.path.join(d, "out"), 0))
        else:
            open(px, "wb").write(b if b is not None else xml.encode())
        lines.append("ST " + px)
    allcases = cases + st_cases
    env = {"OMP_NUM_THREADS": "1"}
    def limited(exe):
        return ["bash", "-c", "ulimit -v 6291456; exec %s" % exe]
    outs, crashes = vlib.run_lines_resilient(limited(plain), lines, timeout=3000, env=env, max_crashes=60)
    # ASan/UBSan as observer of memory errors (its own out-of-memory reports are not memory errors: throwing new aborts under ASan)
    aenv = dict(env); aenv["ASAN_OPTIONS"] = "detect_leaks=0:abort_on_error=0:allocator_may_return_null=1:max_allocation_size_mb=2048:detect_stack_use_after_return=0"
    aouts, acrashes = vlib.run_lines_resilient([asan], lines, timeout=3000, env=aenv, max_crashes=60)
    shutil.rmtree(d, ignore_errors=True)
    cinfo = dict(crashes); ainfo = dict(acrashes)
    dist = {}; fails = []; rejected = 0
    for i, (c, o) in enumerate(zip(allcases, outs)):
        cls = classify(o)
        dist[c[1] + ":" + cls] = dist.get(c[1] + ":" + cls, 0) + 1
        if cls == "EXC":
            rejected += 1
        if cls in ("CRASH", "EXCOTHER", "TIMEOUT", "OTHER"):
            info = cinfo.get(i, "")
            what = "terminate" if "terminate" in info else ("signal" if cls == "CRASH" else cls.lower())
            fails.append((i, "startup_completes_or_throws_std_exception", "%s on %s fault %s (%s: %s)" % (cls, c[0], c[1], what, info[-300:].replace("\n", " "))))
        elif cls == "OK" and c[0] in ("ST", "STM") and o and "INVALIDCELL" in o:
            fails.append((i, "startup_that_completes_hands_on_usable_cells", "the start-up completed on a %s fault (%s) and handed on a cell that is not a closed oriented surface (the first solver iteration then aborts): %s" % (c[0], c[1], o[:120])))
        elif cls == "OK" and c[0] == "RD" and o and "DANGLING" in o:
            fails.append((i, "accepted_mesh_is_index_safe", "mesh_reader accepted a file (%s) whose faces reference points that do not exist: %s" % (c[1], o[:120])))
    for i, info in acrashes:
        if "allocation-size-too-big" in info or "out-of-memory" in info or "exceeds maximum supported size" in info or "failed to allocate" in info:
            continue
        c = allcases[i]
        import re as _re
        m = _re.search(r"SUMMARY: (\w+): ([\w-]+)(?: (\S+?):(\d+))?", info) or _re.search(r"(runtime error): ([^\n]*)", info)
        desc = (m.group(2) if m else info[-200:].replace("\n", " "))
        frames = _re.findall(r"#\d+ 0x[0-9a-f]+ in (\S+) (/\S+?):(\d+)", info)
        own = [f for f in frames if "/src/" in f[1] or "/include/" in f[1]]
        loc = own[0] if own else (frames[0] if frames else None)
        locs = (os.path.basename(loc[1]) + ":" + loc[2]) if loc else "?"
        fails.append((i, "no_memory_error", "sanitizer report on %s fault %s: %s at %s" % (c[0], c[1], desc, locs)))
    # ---- model vs implementation on in-domain token faults (outcome class of the reader)
    model = vlib.ocaml_model()
    q = []; qi = []
    for i, c in enumerate(cases):
        if c[0] != "RD" or c[1] not in ("token_zero", "token_beyond_points", "token_out_of_range") or c[3] is None:
            continue
        if len(c) < 5 or not c[4]:
            continue          # the faulted token was not an integer or a coordinate
        try:
            t = tokens_for_model(c[2].decode())
        except Exception:
            t = None
        if t is None or classify(outs[i]) not in ("OK", "EXC"):
            continue
        if any(x.startswith("I ") and len(x) > 8 for x in t):
            continue          # the model's counters are unary (nat): very large integers are explored on the implementation only
        q.append(" ".join(t)); qi.append(i)
    broken = []
    if q and hasattr(vlib, "run"):
        p = vlib.run([model, "vtkread"], input="\n".join(q) + "\n", timeout=600)
        if p.returncode == 0:
            mo = p.stdout.strip().split("\n")
            for i, l in zip(qi, mo):
                mcls = "OK" if l.startswith("OK") else "EXC"
                icls = classify(outs[i])
                # the model is stricter only where the property demands it (dangling ids, numerals); agreement is
                # required whenever the model accepts
                if mcls == "OK" and icls != "OK":
                    broken.append((i, "model accepts, implementation rejects (%s)" % (outs[i] or "")[:80]))
                elif mcls == "EXC" and icls == "OK" and "DANGLING" not in (outs[i] or "") and l.split()[1:2] not in (["EDangling"],):
                    broken.append((i, "model rejects (%s), implementation accepts (%s)" % (l[:40], (outs[i] or "")[:80])))
            ck.notes["model_reader_cases"] = len(q)
        else:
            vlib.log("model vtkread failed: rc=%s %s" % (p.returncode, p.stderr[-500:]))
            broken.append((qi[0], "the extracted reader could not be run on the token streams (%s)" % p.stderr[-200:]))
    ck.cov["evaluations"] = len(allcases) * 2
    ck.cov["distinct_nontrivial"] = rejected
    ck.cov["traces_validated_against_impl"] = len(q) - len(broken)
    ck.notes["outcome_distribution"] = dict(sorted(dist.items()))
    ck.sample(dict(mode=allcases[5][0], fault=allcases[5][1], file=allcases[5][2][:300].decode(errors="replace")), limit=1)
    seen = set()
    unknown = 0
    for i, key, what in fails:
        c = allcases[i]
        if c[1] in ("long_word", "long_number") and ("stack-overflow" in what or "CRASH" in what):
            # recursion depth of std::regex (libstdc++) on one very long token: a recorded finding, keyed by the input class
            sig = "regex_recursion_depth:" + c[0] + ":" + c[1]
        else:
            sig = key + ":" + c[0] + ":" + c[1] + (":" + what.split(" at ")[-1] if key == "no_memory_error" else "")
        kf = "startup:" + sig
        if sig in seen or len(seen) >= 10:
            continue
        seen.add(sig)
        if ck.is_known(kf) is None:
            unknown += 1
        ck.report(dict(mode=c[0], fault=c[1], file=(c[2] if c[2] is not None else b"").decode(errors="replace")[:20000], file_hex=(c[2] or b"")[:4000].hex() if c[1] in ("random_bytes", "xml_random_bytes") else None, where=str(c[3])),
                  oracle=key, key=kf, what=what)
    # ---- memory in proportion to the input: files of a few hundred bytes that DECLARE tens of millions of points, cells or values are
    # refused (or read) without the process touching memory for the declared amount (peak resident set measured by /usr/bin/time)
    try:
        plain = vlib.build_driver("io")
        dm = os.path.join(vlib.CACHE, "tmp", "c17_mem_%d" % os.getpid()); os.makedirs(dm, exist_ok=True)
        Lm = mesh_file_lines(cellsA, [0])
        variants = []
        for name_, key_, col_ in (("points", "POINTS", 1), ("cells", "CELLS", 1), ("cell_types", "CELL_TYPES", 1)):
            L2 = [list(r_) for r_ in Lm]
            for r_ in L2:
                if r_[:1] == [key_]:
                    r_[col_] = "40000000"
            variants.append((name_, render_lines(L2)))
        rss = {}
        for name_, text_ in variants:
            fp_ = os.path.join(dm, name_ + ".vtk"); open(fp_, "w").write(text_)
            px_ = os.path.join(dm, name_ + ".xml"); open(px_, "w").write(base_xml(fp_, os.path.join(dm, "out"), 0))
            for mode_, arg_ in (("RD", fp_), ("ST", px_)):
                r_ = vlib.run(["/usr/bin/time", "-f", "MAXRSS %M", plain], input="%s %s\n" % (mode_, arg_), timeout=600, env={"OMP_NUM_THREADS": "1"})
                mm_ = re.search(r"MAXRSS (\d+)", r_.stderr)
                if mm_:
                    rss["%s/%s" % (mode_, name_)] = int(mm_.group(1)) // 1024
                    if int(mm_.group(1)) > 256 * 1024:
                        ck.report(dict(mode=mode_, fault="declared_count_40000000_" + name_, file=text_[:3000]), oracle="memory_in_proportion_to_the_input", key="startup:memory:" + mode_ + ":" + name_,
                                  what="a %d-byte file declaring 40000000 %s made the process use %d MB of resident memory (budget 256 MB)" % (len(text_), name_, int(mm_.group(1)) // 1024))
        ck.notes["peak_resident_MB_on_files_declaring_40000000_items"] = rss
        shutil.rmtree(dm, ignore_errors=True)
    except vlib.BuildError as e:
        ck.notes["peak_resident_MB_on_files_declaring_40000000_items"] = "driver build failed: " + str(e)[-200:]
    if not ck.violations:
        if not ok:
            ck.report(dict(log=ck.proof_res["log"][-3000:]), unchecked="Properties_C17.vo", what="proof obligations of C17 no longer check")
        if broken:
            i, dd = broken[0]
            ck.report(dict(file=cases[i][2].decode(errors="replace")[:20000], difference=dd, n_disagreements=len(broken)), unchecked="correspondence Vtk.read_file = mesh_reader on faulted files (outcome class)",
                      what="model and implementation disagree on %d faulted files (%s)" % (len(broken), dd))
    ck.cov["trusted_base"] = vlib.TRUSTED_BASE_COMMON + ["AddressSanitizer/UBSan (g++ 12) as observers; a 60 s alarm and a 6 GB address-space limit as the time and memory budget",
                                                        "std::regex, tinyxml2 and iostreams are not modelled: their crash-freedom on arbitrary bytes is explored, not proved"]
    ck.assumptions = ["exploration-as-validation for everything below the token level: the verdict for unmodelled code rests on the generated faults only"]


def replay(ck, path):
    j = json.load(open(path))
    c = j["case"]
    asan = vlib.build_driver("io", san=True)
    d = os.path.join(vlib.CACHE, "tmp", "c17_replay_%d" % os.getpid()); os.makedirs(d, exist_ok=True)
    data = bytes.fromhex(c["file_hex"]) if c.get("file_hex") else c["file"].encode()
    mode = c["mode"]
    p = os.path.join(d, "f." + ("vtk" if mode in ("RD", "STM") else "xml")); open(p, "wb").write(data)
    if mode == "STM":
        px = os.path.join(d, "s.xml"); open(px, "w").write(base_xml(p, os.path.join(d, "out"), 0)); line = "ST " + px
    else:
        line = ("ST " if mode == "ST" else mode + " ") + p
    r = vlib.run([asan], input=line + "\n", timeout=300)
    print(r.stdout[:2000]); print(r.stderr[-3000:])
    shutil.rmtree(d, ignore_errors=True)
    return 0 if r.returncode == 0 and not r.stdout.startswith("EXCOTHER") else 1
