"""C09 — cell division yields two valid daughters or leaves the mother untouched.  (partial: see level_note)
proof:          coq/Properties_C09.v (Population.v: bookkeeping of cell_divider::run; Divider.v: intersection points,
                subdivision of cut faces, rotation to the xy plane and back, volume additivity of the daughters)
correspondence: the public static stages of cell_divider against the model at binary64, bit for bit:
                find_edge_plane_intersection, divide_faces on one cut face, map_points_to_xy_plane /
                map_points_to_division_plane
oracle:         end to end on the implementation: divide_cell on generated cells x division axes (natural, random,
                +-x +-y +-z, planes through nodes) with the wrapped clock: success -> two cells of the mother's class,
                closed, consistently oriented, Euler characteristic 2, outward, each on its own side of the plane
                through the mother's centroid, volumes adding up to the mother's within the remeshing tolerance, half
                the target volume each; failure -> no exception, mother's surface unchanged; cell_divider::run on
                1-3 cells: mothers replaced by two fresh unique ids, list indices = positions, counter advanced."""
import random, json, math
import vlib, tissue
from vlib import hx, unhx
from checks.c08 import std_types, R

LEVEL = "proof"


def rnd_unit(rng):
    v = [rng.gauss(0, 1) for _ in range(3)]; l = math.sqrt(sum(x * x for x in v))
    return [x / l for x in v]


def gen_ep(rng):
    s = rng.choice([1.0, 1e-6, 1e3])
    p = [rng.uniform(-1, 1) * s for _ in range(3)]; n = rnd_unit(rng)
    kind = rng.choice(["cross", "cross", "same_side", "end_on_plane", "parallel", "random"])
    def at(d, lateral):
        t1 = rnd_unit(rng)
        return [p[k] + n[k] * d * s + t1[k] * lateral * s for k in range(3)]
    if kind == "cross":
        e1 = at(rng.uniform(0.01, 1), 0.5); e2 = at(-rng.uniform(0.01, 1), 0.5)
    elif kind == "same_side":
        e1 = at(rng.uniform(0.01, 1), 0.5); e2 = at(rng.uniform(0.01, 1), 0.5)
    elif kind == "end_on_plane":
        e1 = [p[k] for k in range(3)]; e2 = at(rng.uniform(-1, 1), 0.5)
        n = [rng.choice([1.0, 0.0, -1.0]) for _ in range(3)] if rng.random() < 0.5 else n
    elif kind == "parallel":
        n = [0.0, 0.0, 1.0]; e1 = [rng.uniform(-1, 1), rng.uniform(-1, 1), 0.25]; e2 = [rng.uniform(-1, 1), rng.uniform(-1, 1), 0.25]
    else:
        e1 = [rng.uniform(-1, 1) * s for _ in range(3)]; e2 = [rng.uniform(-1, 1) * s for _ in range(3)]
    if rng.random() < 0.3:
        e1, e2 = e2, e1
    return "EP " + " ".join(hx(x) for x in e1 + e2 + p + n), kind


def gen_rot(rng):
    kind = rng.choice(["random", "random", "x", "-x", "y", "-y", "z", "near_-z", "-z"])
    n = {"x": [1.0, 0, 0], "-x": [-1.0, 0, 0], "y": [0, 1.0, 0], "-y": [0, -1.0, 0], "z": [0, 0, 1.0], "-z": [0, 0, -1.0]}.get(kind)
    if n is None:
        n = rnd_unit(rng)
        if kind == "near_-z":
            e = rng.choice([1e-3, 1e-8]); n = [e, 0.0, -math.sqrt(1 - e * e)]
    k = rng.randint(3, 8)
    c = [rng.uniform(-1, 1) * rng.choice([1e-5, 1.0]) for _ in range(3)]
    # points on the plane through c with normal n
    a = rnd_unit(rng); u = [a[1] * n[2] - a[2] * n[1], a[2] * n[0] - a[0] * n[2], a[0] * n[1] - a[1] * n[0]]
    lu = math.sqrt(sum(x * x for x in u)) or 1.0; u = [x / lu for x in u]
    v = [n[1] * u[2] - n[2] * u[1], n[2] * u[0] - n[0] * u[2], n[0] * u[1] - n[1] * u[0]]
    pts = []
    for _ in range(k):
        s, t = rng.uniform(-1, 1) * 1e-5, rng.uniform(-1, 1) * 1e-5
        pts += [c[i] + s * u[i] + t * v[i] for i in range(3)]
    return "ROT " + " ".join(hx(float(x)) for x in n) + " %d " % k + " ".join(hx(x) for x in pts), kind, n, k, pts


def gen_div(rng, tag, coarse_band=False):
    lvl = rng.choice([1, 1, 2]) if not coarse_band else 2
    n0, f = tissue.icosphere(lvl)
    shape = rng.choice(["sphere", "ellipsoid", "ellipsoid", "elongated", "symmetric_unperturbed"])
    ax = {"sphere": (1, 1, 1), "ellipsoid": (1.0, 0.82, 0.68), "elongated": (1.6, 1.0, 0.9), "symmetric_unperturbed": (1.0, 0.82, 0.68)}[shape]
    n0 = [[p[0] * ax[0], p[1] * ax[1], p[2] * ax[2]] for p in n0]
    if shape != "symmetric_unperturbed":
        n0 = tissue.perturb(rng, n0, 0.04 * tissue.mean_edge(n0, f))
    V = abs(tissue.signed_volume([[x * R for x in p] for p in n0], f))
    nc = rng.choice([1, 1, 2, 3])
    cts = std_types(V, ["divide0"] * nc, [3] * nc)
    shift = rng.choice([(0, 0, 0), (0, 0, 0), (30 * R, -20 * R, 10 * R)])
    cells = []
    for i in range(nc):
        M = tissue.rnd_rot(rng) if shape != "symmetric_unperturbed" else None
        cells.append((i, tissue.transform(n0, M, (shift[0] + i * 3.5 * R, shift[1], shift[2]), (R, R, R)), f))
    lmin = 7.5e-7 if lvl == 2 else 1.5e-6
    mult = rng.choice([1.0, 0.7, 1.3, 1.0, 2.5]) if not coarse_band else rng.choice([2.5, 4.0, 6.0])
    p = tissue.params(dt=1e-7, damping=5e-10, T=1.0, S=1.0, lmin=lmin * mult, cut_adh=5e-7, cut_rep=5e-7, swap=rng.choice([0, 1]))
    axk = rng.choice(["natural", "natural", "random", "x", "-x", "y", "-y", "z", "-z"])
    axis = {"natural": [0, 0, 0], "x": [1.0, 0, 0], "-x": [-1.0, 0, 0], "y": [0, 1.0, 0], "-y": [0, -1.0, 0], "z": [0, 0, 1.0], "-z": [0, 0, -1.0]}.get(axk) or rnd_unit(rng)
    line = tissue.fmt_tissue(p, cts, cells) + " DIV %d %d %s" % (rng.randrange(10 ** 6), 0 if axk == "natural" else 1, " ".join(hx(float(x)) for x in axis))
    # with l_min above the mother's edge length the refinement of the daughters collapses them to a handful of nodes: no
    # "remeshing tolerance" is left, only the topological clauses and the bookkeeping are judged
    return dict(line=line, shape=shape, axis=axk, nc=nc, level=lvl, coarse=mult >= 2.0)


def gen_multi(rng):
    """several cells of different sizes, some dividing (natural readiness), some not: simultaneous divisions under threads"""
    cells = []; roles = []
    layout = rng.choice([["normal", "big", "small", "normal"], ["big", "normal", "small"], ["normal", "big", "normal", "small", "small"], ["small", "big"], ["big", "small", "normal"]])
    Vs = []
    for i, role in enumerate(layout):
        lvl = 3 if role == "big" else 1
        n0, f = tissue.icosphere(lvl)
        n0 = [[p[0] * 1.0, p[1] * 0.82, p[2] * 0.68] for p in n0]
        n0 = tissue.perturb(rng, n0, 0.04 * tissue.mean_edge(n0, f))
        s = 2.0 if role == "big" else 1.0
        nodes = tissue.transform(n0, tissue.rnd_rot(rng), (i * 6.0 * R, 0, 0), (R * s, R * s, R * s))
        Vs.append(abs(tissue.signed_volume(nodes, f)))
        cells.append((i, nodes, f)); roles.append("normal" if role == "normal" else "divide0")
    cts = []
    for V, r in zip(Vs, roles):
        cts += std_types(V, [r], [3])
    p = tissue.params(dt=1e-7, damping=5e-10, T=1.0, S=1.0, lmin=1.5e-6, cut_adh=5e-7, cut_rep=5e-7, swap=0)
    line = tissue.fmt_tissue(p, cts, cells) + " DIV %d 2 0x0p+0 0x0p+0 0x0p+0" % rng.randrange(10 ** 6)
    return dict(line=line, layout=layout, roles=roles)


def oracle_multi(c, pop):
    before = pop["before"]; aft = pop["after"]; ids = [x[0] for x in aft]
    dividing = [before[i] for i, r in enumerate(c["roles"]) if r == "divide0"]
    quiet = [before[i] for i, r in enumerate(c["roles"]) if r != "divide0"]
    if any(q not in ids for q in quiet):
        return "no_cell_lost (a cell that did not divide vanished from the population: before %s roles %s, after %s)" % (before, c["roles"], ids)
    if len(set(ids)) != len(ids):
        return "ids_unique_after_run (%s)" % ids
    if any(x[2] != 1 for x in aft):
        return "every_cell_after_run_is_a_valid_surface (an emptied or broken cell stays in the population: %s)" % aft
    if [x[1] for x in aft] != list(range(len(aft))):
        return "list_indices_are_positions_after_run (%s)" % [x[1] for x in aft]
    gone = [i for i in before if i not in ids]; new = [i for i in ids if i not in before]
    c0 = 10 + len(before)
    if any(g not in dividing for g in gone) or len(new) != 2 * len(gone) or sorted(new) != list(range(c0, c0 + len(new))) or pop["counter"] != c0 + len(new):
        return "mothers_replaced_by_two_fresh_ids_each (before %s, after %s, counter %d)" % (before, ids, pop["counter"])
    return None


def parse_div(out):
    s = [x.strip() for x in out.split(" | ")]
    m = s[0].split(); mother = dict(id=int(m[1]), nn=int(m[2]), nf=int(m[3]), vol=unhx(m[4]), area=unhx(m[5]), tvol=unhx(m[6]))
    stages = s[1]
    res = None
    r = s[3].split()
    if r[1] != "none":
        res = []
        i = 1
        while i < len(r):
            assert r[i] == "D"
            res.append(dict(type=int(r[i + 1]), nn=int(r[i + 2]), nf=int(r[i + 3]), vol=unhx(r[i + 4]), svol=unhx(r[i + 5]), area=unhx(r[i + 6]), tvol=unhx(r[i + 7]), valid=int(r[i + 8]), lo=unhx(r[i + 9]), hi=unhx(r[i + 10])))
            i += 11
    a = s[4].split(); after = dict(nn=int(a[1]), nf=int(a[2]), vol=unhx(a[3]), same=int(a[4]), valid=int(a[5]))
    rp = s[5].split()
    ib = rp.index("before"); ia = rp.index("after"); ic = rp.index("counter")
    before = [int(x) for x in rp[ib + 1:ia]]
    aft = [tuple(int(y) for y in x.split(":")) for x in rp[ia + 1:ic]]
    return mother, stages, res, after, dict(before=before, after=aft, counter=int(rp[ic + 1]))


def oracle(c, mother, stages, res, after, pop, devs):
    if after["same"] != 1 or after["valid"] != 1:
        return "mother_surface_unchanged (the mother's surface changed during %s division)" % ("a successful" if res else "a failed")
    if res is not None:
        if len(res) != 2:
            return "exactly_two_daughters"
        for d in res:
            if d["type"] != 0:
                return "daughters_have_mothers_type"
            if d["valid"] != 1:
                return "daughter_is_closed_oriented_manifold"
            if not d["svol"] > 0 and not c.get("coarse"):
                return "daughter_oriented_outward (signed volume %r)" % d["svol"]
            if d["tvol"] != mother["tvol"] / 2:
                return "daughter_inherits_half_target_volume (%r vs %r)" % (d["tvol"], mother["tvol"] / 2)
        tol = 1e-7 * R
        a, b = res
        if not ((a["lo"] >= -tol and b["hi"] <= tol) or (b["lo"] >= -tol and a["hi"] <= tol)):
            return "each_daughter_on_its_own_side_of_the_plane (ranges along the axis: [%.3e, %.3e] and [%.3e, %.3e] cell sizes)" % (a["lo"] / R, a["hi"] / R, b["lo"] / R, b["hi"] / R)
        dev = abs(a["vol"] + b["vol"] - mother["vol"]) / mother["vol"]
        if not c.get("coarse"):
            devs.append(dev)
        if dev > 0.12 and not c.get("coarse"):
            return "daughter_volumes_add_up_to_mothers (relative deviation %.3f)" % dev
    # population bookkeeping of cell_divider::run
    before = pop["before"]; aft = pop["after"]
    ids = [x[0] for x in aft]
    if len(set(ids)) != len(ids):
        return "ids_unique_after_run (%s)" % ids
    if [x[1] for x in aft] != list(range(len(aft))):
        return "list_indices_are_positions_after_run (%s)" % [x[1] for x in aft]
    if any(x[2] != 1 for x in aft):
        return "every_cell_after_run_is_a_valid_surface"
    new = [i for i in ids if i not in before]; gone = [i for i in before if i not in ids]
    c0 = 10 + len(before)
    if len(new) != 2 * len(gone) or sorted(new) != list(range(c0, c0 + len(new))) or pop["counter"] != c0 + len(new):
        return "mothers_replaced_by_two_fresh_ids_each (before %s, after %s, counter %d)" % (before, ids, pop["counter"])
    return None


def run(ck):
    nep, nrot, ndiv = (300, 80, 40) if ck.tier == "quick" else (20000, 3000, 1200)
    ck.cov["rule"] = ("stages: edge/plane pairs (crossing, same side, end point on the plane, parallel, random; three scales), all 60 corner orders of a cut face, rotations to the xy plane for random unit normals, the six coordinate axes and normals within 1e-3/1e-8 of -z with 3-8 coplanar points; end to end: spheres, ellipsoids and elongated cells (icosphere level 1-2, perturbed; unperturbed symmetric meshes whose division plane passes through nodes), 1-3 cells, near and 30 cell sizes from the origin; 2-5 cells of very different mesh sizes of which some divide simultaneously, run with 1 and 4 threads; natural axis, random axes, +-x +-y +-z, three minimum edge lengths, swaps on/off; non-trivial = divisions that succeeded")
    ok = ck.proofs()
    impl = vlib.build_driver("divide", wrap_clock=True)
    model = vlib.ocaml_model()
    rng = random.Random(ck.seed * 2749 + 9)
    fails = []; broken = []; dist = {}
    # ---- stages
    eps = [gen_ep(rng) for _ in range(nep)]
    dfs = []
    import itertools
    for thr_first in (3,):
        for rot in range(5):
            for perm in itertools.permutations([0, 1, 2]):
                a, b, c = perm
                poly = [a, 3, b, 4, c]
                poly = poly[rot:] + poly[:rot]
                dfs.append("DF 3 " + " ".join(str(x) for x in poly))
    rots = [gen_rot(rng) for _ in range(nrot)]
    lines = [e[0] for e in eps] + dfs + [r[0] for r in rots]
    outs, crashes = vlib.run_lines_resilient([impl], lines, timeout=900, env={"OMP_NUM_THREADS": "1"})
    for i, info in crashes[:2]:
        fails.append(("stage_completes", dict(input=lines[i][:2000]), "a divider stage died: " + info[-200:]))
    mlines = []
    for l, o in zip(lines, outs):
        if l.startswith("ROT") and o:
            tr = o.split()[1:4]
            mlines.append(l + " " + " ".join(tr))
        else:
            mlines.append(l)
    mo = vlib.run([model, "divider"], input="\n".join(mlines) + "\n", check=True, timeout=900).stdout.strip().split("\n")
    nstage = 0
    for l, o, m in zip(lines, outs, mo):
        if o is None:
            continue
        nstage += 1
        k = l.split()[0]
        d = None
        if k == "EP":
            a = o.split(); b = m.split()
            if a[0] != b[0] or (a[0] == "SOME" and any(not vlib.same_bits(unhx(x), unhx(y)) for x, y in zip(a[1:], b[1:]))):
                d = "find_edge_plane_intersection: implementation %s, model %s" % (o[:80], m[:80])
        elif k == "DF":
            fa = [tuple(int(x) for x in g.split()) for g in o.split("|")[1:]]
            fm = [tuple(int(x) for x in g.split()) for g in m.split("|")[1:]]
            if fa != fm:
                d = "divide_faces on %s: implementation %s, model %s" % (l, fa, fm)
        else:
            ta = o.split(); tm = m.split()
            Ma = [unhx(x) for x in ta[ta.index("M") + 1:ta.index("XY")]]; Mm = [unhx(x) for x in tm[1:10]]
            xa = [unhx(x) for x in ta[ta.index("XY") + 1:ta.index("BACK")]]; xm = [unhx(x) for x in tm[tm.index("XY") + 1:tm.index("BACK")]]
            ba = [unhx(x) for x in ta[ta.index("BACK") + 1:]]; bm = [unhx(x) for x in tm[tm.index("BACK") + 1:]]
            if any(not vlib.same_bits(x, y) for x, y in zip(Ma + xa + ba, Mm + xm + bm)) or len(xa) != len(xm):
                d = "map_points_to_xy_plane / back: implementation and model differ (%s)" % l[:120]
        if d:
            broken.append((l, d))
    # ---- end to end
    # mother meshes much finer than the edge-length band: the cut succeeds and the refinement of the daughters gives up (a failure
    # raised in the last stage of the pipeline)
    cases = [gen_div(rng, "c09_cb%d" % i, coarse_band=True) for i in range(4 if ck.tier == "quick" else 60)] + [gen_div(rng, "c09_%d" % i) for i in range(ndiv)]
    from concurrent.futures import ThreadPoolExecutor
    def one(c):
        try:
            p = vlib.run([impl], input=c["line"] + "\n", timeout=900, env={"OMP_NUM_THREADS": "1"})
            return p.returncode, p.stdout, p.stderr[-600:]
        except Exception as e:
            return -999, "", str(e)
    with ThreadPoolExecutor(vlib.NJOBS) as ex:
        res = list(ex.map(one, cases))
    nsucc = 0; devs = []; stagefail = {}
    for c, (rc, out, err) in zip(cases, res):
        dist[c["shape"] + "/" + c["axis"]] = dist.get(c["shape"] + "/" + c["axis"], 0) + 1
        if rc != 0 or not out.startswith("MOTHER"):
            fails.append(("no_exception_or_crash_escapes_division", dict(input=c["line"], shape=c["shape"], axis=c["axis"]), "division driver died or reported a fatal error (exit %s): %s %s" % (rc, out[:200], err[-300:].replace("\n", " "))))
            continue
        try:
            mother, stages, r, after, pop = parse_div(out)
        except Exception as e:
            broken.append((c["line"], "driver output not understood (%s)" % e)); continue
        if r is not None:
            nsucc += 1
        else:
            st = stages.split()[-1]
            stagefail[st[:60]] = stagefail.get(st[:60], 0) + 1
        f = oracle(c, mother, stages, r, after, pop, devs)
        if f:
            fails.append((f.split(" ")[0], dict(input=c["line"], shape=c["shape"], axis=c["axis"]), "%s cell, %s axis: %s" % (c["shape"], c["axis"], f)))
    # ---- several cells, some dividing simultaneously, 1 and 4 threads (the order in which the mothers finish varies)
    multi = [gen_multi(rng) for _ in range(6 if ck.tier == "quick" else 80)]
    nmulti = 0
    for c in multi:
        for th in (1, 4, 4):
            r = vlib.run([impl], input=c["line"] + "\n", timeout=1800, env={"OMP_NUM_THREADS": str(th)})
            nmulti += 1
            if r.returncode != 0 or "RUNPOP" not in r.stdout:
                fails.append(("no_exception_or_crash_escapes_division", dict(input=c["line"], threads=th, layout=c["layout"]), "cell_divider::run on %s with %d threads died (exit %s): %s" % (c["layout"], th, r.returncode, r.stderr[-300:].replace("\n", " ")))); break
            try:
                pop = parse_div(r.stdout)[4]
            except Exception as e:
                broken.append((c["line"], "driver output not understood (%s)" % e)); break
            f = oracle_multi(c, pop)
            if f:
                fails.append((f.split(" ")[0], dict(input=c["line"], threads=th, layout=c["layout"]), "cells %s, %d threads: %s" % (c["layout"], th, f))); break
    ck.cov["evaluations"] = nstage + len(cases) + nmulti
    ck.cov["distinct_nontrivial"] = nsucc
    ck.cov["traces_validated_against_impl"] = nstage - len(broken)
    ck.notes["input_distribution"] = dict(sorted(dist.items()))
    ck.notes["clean_failures_by_stage"] = stagefail
    ck.notes["max_relative_volume_deviation_after_refinement"] = max(devs) if devs else None
    ck.sample(dict(shape=cases[0]["shape"], axis=cases[0]["axis"], cells=cases[0]["nc"]), limit=1)
    seen = set()
    for key, case, what in fails:
        if key in seen:
            continue
        seen.add(key)
        ck.report(case, oracle=key, key="division:" + key, what=what)
    if not ck.violations:
        if not ok:
            ck.report(dict(log=ck.proof_res["log"][-3000:]), unchecked="Properties_C09.vo", what="proof obligations of C09 no longer check")
        if broken:
            l, d = broken[0]
            ck.report(dict(input=l[:5000], difference=d, n_disagreements=len(broken)), unchecked="correspondence Divider.v = cell_divider stages", what="model and implementation disagree on %d stage cases (%s)" % (len(broken), d))
    ck.cov["trusted_base"] = vlib.TRUSTED_BASE_COMMON + ["the sampling RNG is seeded through the wrapped clock (replayable); Poisson sampling, Delaunator and the refinement of the daughters are not modelled"]
    ck.assumptions = ["'within remeshing tolerance' is taken as 12 % of the mother's volume (the observed maximum is recorded in the evidence)", "division axis is the virtual get_cell_division_axis of a test subclass of epithelial_cell"]


def replay(ck, path):
    j = json.load(open(path))
    impl = vlib.build_driver("divide", wrap_clock=True)
    r = vlib.run([impl], input=j["case"]["input"] + "\n", timeout=900, env={"OMP_NUM_THREADS": "1"})
    print(r.stdout[:1500]); print(r.stderr[-1500:])
    if r.returncode != 0 or not r.stdout.startswith("MOTHER"):
        return 1
    mother, stages, res, after, pop = parse_div(r.stdout)
    f = oracle(dict(), mother, stages, res, after, pop, [])
    print("oracle:", f)
    return 1 if f else 0
