"""C18 — every XML parameter reaches the simulation with its value and meaning intact.
proof:          coq/Properties_C18.v: generic theorems about the interpreter Params.decode + computed facts about the
                wiring tables REGENERATED from src/io/parameter_reader.cpp by harness/translate_params.py on this run
correspondence: the regenerated tables run by the extracted interpreter vs the real parameter_reader on generated
                XML files (valid ones in every tag order, every single omission, every single rule violation,
                unconvertible texts); texts converted by the C library's strtod/strtol on both sides
oracle:         an independent Python statement of the documented wiring: a valid file must come back field by field,
                an omission or a sign violation must be an exception."""
import math, random, math, json, os, shutil, ctypes, subprocess, sys
import vlib, tissue
from vlib import hx, unhx

LEVEL = "proof"

_libc = ctypes.CDLL("libc.so.6", use_errno=True)
_libc.strtod.restype = ctypes.c_double
_libc.strtod.argtypes = [ctypes.c_char_p, ctypes.POINTER(ctypes.c_char_p)]
_libc.strtol.restype = ctypes.c_long
_libc.strtol.argtypes = [ctypes.c_char_p, ctypes.POINTER(ctypes.c_char_p), ctypes.c_int]


def c_stod(text):
    """std::stod: None when it throws (no conversion: invalid_argument; ERANGE: out_of_range)"""
    b = text.encode()
    buf = ctypes.create_string_buffer(b)
    end = ctypes.c_char_p()
    ctypes.set_errno(0)
    v = _libc.strtod(buf, ctypes.byref(end))
    consumed = ctypes.cast(end, ctypes.c_void_p).value - ctypes.addressof(buf)
    if consumed == 0 or ctypes.get_errno() == 34:
        return None
    return v


def c_stoi(text):
    b = text.encode()
    buf = ctypes.create_string_buffer(b)
    end = ctypes.c_char_p()
    ctypes.set_errno(0)
    v = _libc.strtol(buf, ctypes.byref(end), 10)
    consumed = ctypes.cast(end, ctypes.c_void_p).value - ctypes.addressof(buf)
    if consumed == 0 or ctypes.get_errno() == 34 or v < -2 ** 31 or v > 2 ** 31 - 1:
        return None
    return v


# ------------------------------------------------------------------------------------------------ documented wiring
# (tag, field, kind, rule): kind s/d/D(inf allowed)/h(short)/b ; rule: None, "neg" (throws if < 0), "notpos" (throws if <= 0)
NUM = [("input_mesh_file_path", "input_mesh_path_", "s", None), ("output_mesh_folder_path", "output_folder_path_", "s", None),
       ("damping_coefficient", "damping_coefficient_", "d", "neg"), ("perform_initial_triangulation", "perform_initial_triangulation_", "b", None),
       ("simulation_duration", "simulation_duration_", "d", "notpos"), ("time_step", "time_step_", "d", "notpos"),
       ("sampling_period", "sampling_period_", "d", "notpos"), ("min_edge_length", "min_edge_len_", "d", "notpos"),
       ("contact_cutoff_adhesion", "contact_cutoff_adhesion_", "d", "notpos"), ("contact_cutoff_repulsion", "contact_cutoff_repulsion_", "d", "notpos"),
       ("enable_edge_swap_operation", "enable_edge_swap_operation_", "b", None)]
CELL = [("cell_type_name", "name_", "s", None), ("global_cell_id", "global_type_id_", "h", None), ("cell_mass_density", "mass_density_", "d", None),
        ("cell_bulk_modulus", "bulk_modulus_", "d", None), ("max_inner_pressure", "max_pressure_", "D", None),
        ("area_elasticity_modulus", "area_elasticity_modulus_", "d", None), ("avg_division_volume", "avg_division_vol_", "D", None),
        ("std_division_volume", "std_division_vol_", "d", None), ("avg_growth_rate", "avg_growth_rate_", "d", None),
        ("std_growth_rate", "std_growth_rate_", "d", None), ("target_isoperimetric_ratio", "target_isoperimetric_ratio_", "d", "notpos"),
        ("angle_regularization_factor", "angle_regularization_factor_", "d", None), ("min_vol", "min_vol_", "d", None),
        ("surface_coupling_max_curvature", "surface_coupling_max_curvature_", "d", "neg")]
FACE = [("face_type_name", "name_", "s", None), ("global_face_id", "face_type_global_id_", "h", "neg"), ("surface_tension", "surface_tension_", "d", "neg"),
        ("adherence_strength", "adherence_strength_", "d", "neg"), ("repulsion_strength", "repulsion_strength_", "d", "neg"),
        ("bending_modulus", "bending_modulus_", "d", "neg")]
# order in which drv_io prints the fields
IMPL_G = ["input_mesh_path_", "output_folder_path_", "perform_initial_triangulation_", "enable_edge_swap_operation_", "damping_coefficient_", "simulation_duration_",
          "sampling_period_", "time_step_", "min_edge_len_", "contact_cutoff_adhesion_", "contact_cutoff_repulsion_"]
IMPL_CT = ["name_", "global_type_id_", "mass_density_", "bulk_modulus_", "max_pressure_", "initial_pressure_", "area_elasticity_modulus_", "avg_division_vol_",
           "std_division_vol_", "avg_growth_rate_", "std_growth_rate_", "min_vol_", "angle_regularization_factor_", "target_isoperimetric_ratio_", "surface_coupling_max_curvature_"]
IMPL_FT = ["name_", "face_type_global_id_", "surface_tension_", "adherence_strength_", "repulsion_strength_", "bending_modulus_"]


def num_text(rng, positive=None, allow_zero=True):
    """a numeral and nothing else; sign per `positive` (True: > 0, False: < 0, None: any)"""
    e = rng.choice([0, 0, 1, -1, 3, -7, 9, -12, 17, -18, 30, -30, 100, -100, 300, -300])
    m = rng.choice([1.0, 2.5, rng.random() * 9 + 1, rng.random()])
    v = m * 10.0 ** e
    if positive is None:
        if rng.random() < 0.3:
            v = -v
        if allow_zero and rng.random() < 0.05:
            v = 0.0
    elif positive is False:
        v = -v
    style = rng.randrange(6)
    if style == 0:
        s = repr(v)
    elif style == 1:
        s = "%.3e" % v
    elif style == 2:
        s = "%.17g" % v
    elif style == 3:
        s = ("%E" % v)
    elif style == 4:
        s = "%g" % v
    else:
        s = ("+" if v >= 0 else "") + "%.6e" % v
    return s


def gen_value(rng, kind, rule):
    if kind == "s":
        return rng.choice(["epithelial", "ecm", "lumen", "nucleus", "static_cell", "apical", "basal", "lateral", "/tmp/x/mesh.vtk", "./out", "a-b.c"]) + str(rng.randrange(1000))
    if kind == "b":
        return rng.choice(["0", "1", "1", "2", "-1", "0", "00", " 1"])
    if kind == "h":
        return str(rng.randrange(0, 300) if rule else rng.randrange(-50, 300))
    if kind == "D" and rng.random() < 0.4:
        return rng.choice(["INF", "inf", "Inf", "iNf", "InF"])
    if rule == "notpos":
        return num_text(rng, True)
    if rule == "neg":
        return num_text(rng, True) if rng.random() < 0.9 else rng.choice(["0", "0.0", "0e0"])
    return num_text(rng, None)


def gen_struct(rng):
    st = dict(num={t: gen_value(rng, k, r) for t, f, k, r in NUM}, cells=[])
    # sampling period >= time step
    dt = c_stod(st["num"]["time_step"]); sp = c_stod(st["num"]["sampling_period"])
    if dt is None or sp is None or sp < dt:
        st["num"]["sampling_period"] = st["num"]["time_step"] if rng.random() < 0.5 else repr((dt or 1.0) * (1 + rng.random() * 100))
    for _ in range(rng.choice([1, 1, 2, 3, 5, 6])):
        ct = {t: gen_value(rng, k, r) for t, f, k, r in CELL}
        fts = [{t: gen_value(rng, k, r) for t, f, k, r in FACE} for _ in range(rng.choice([1, 2, 3, 3, 5]))]
        st["cells"].append((ct, fts))
    return st


class X:
    def __init__(self, tag, text=None, children=None):
        self.tag = tag; self.text = text; self.children = children or []


def build_tree(rng, st, shuffle=True, extras=True):
    def leafs(d):
        l = [X(t, v) for t, v in d.items()]
        if extras and rng.random() < 0.3:
            l.append(X(rng.choice(["comment_tag", "unused", "note"]), "42"))
        if shuffle:
            rng.shuffle(l)
        return l
    num = X("numerical_parameters", None, leafs(st["num"]))
    cts = []
    for ct, fts in st["cells"]:
        ch = leafs(ct)
        ftn = X("face_types", None, [X("face_type", None, leafs(ft)) for ft in fts])
        ch.insert(rng.randrange(len(ch) + 1) if shuffle else len(ch), ftn)
        cts.append(X("cell_type", None, ch))
    root = [num, X("cell_types", None, cts)]
    if shuffle and rng.random() < 0.5:
        root.reverse()
    return root


def render(rng, doc):
    out = ['<?xml version="1.0"?>']
    def rec(x, ind):
        pad = "  " * ind
        if rng.random() < 0.15:
            out.append(pad + "<!-- %s -->" % rng.choice(["a comment", "The damping coefficients [M / T]", "<tag>not a tag</tag>"]))
        if x.children:
            out.append(pad + "<%s>" % x.tag)
            for c in x.children:
                rec(c, ind + 1)
            out.append(pad + "</%s>" % x.tag)
        elif x.text is None:
            out.append(pad + ("<%s/>" % x.tag if rng.random() < 0.5 else "<%s></%s>" % (x.tag, x.tag)))
        else:
            out.append(pad + "<%s>%s</%s>" % (x.tag, x.text, x.tag))
    for x in doc:
        rec(x, 0)
    return "\n".join(out) + "\n"


def clean(s):
    return "".join("_" if ch in " |\n" else ch for ch in s)[:200]


def model_line(doc):
    """serialise the tree with the C library's conversions of every text"""
    texts = []; idx = {}
    def tid(s):
        if s not in idx:
            idx[s] = len(texts); texts.append(s)
            tid(s.lower())
        return idx[s]
    def ser(x):
        t = "-" if x.text is None else str(tid(x.text))
        return "E %s %s %d %s" % (x.tag, t, len(x.children), " ".join(ser(c) for c in x.children))
    body = "%d %s" % (len(doc), " ".join(ser(x) for x in doc))
    e = tid("")
    tt = []
    for s in texts:
        sd = c_stod(s); si = c_stoi(s)
        tt.append("%s %s %s %d %d" % (clean(s) if s != "" else "<empty>", "N" if sd is None else hx(sd), "N" if si is None else str(si), 1 if s == "inf" else 0, idx[s.lower()]))
    return "%d %s %s %d" % (len(texts), " ".join(tt), body, e)


def parse_impl(out):
    if out is None:
        return ("CRASH", None)
    if out.startswith("EXC") or out.startswith("EXCOTHER"):
        return ("EXC", out[:200])
    if not out.startswith("OK G "):
        return ("OTHER", out[:200])
    a, b = out[5:].split(" | ", 1)
    g = dict(zip(IMPL_G, a.split()))
    t = b.split(); n = int(t[0]); i = 1; cts = []
    for _ in range(n):
        assert t[i] == "CT"; i += 1
        ct = dict(zip(IMPL_CT, t[i:i + len(IMPL_CT)])); i += len(IMPL_CT)
        nft = int(t[i]); i += 1; fts = []
        for _ in range(nft):
            assert t[i] == "FT"; i += 1
            fts.append(dict(zip(IMPL_FT, t[i:i + len(IMPL_FT)]))); i += len(IMPL_FT)
        cts.append((ct, fts))
    return ("OK", (g, cts))


def parse_model(out):
    a, b = out.split(" || ")[:2]
    def rec(tokens):
        d = {}
        for kv in tokens:
            k, v = kv.split("=", 1); d[k] = v
        return d
    if a.startswith("NUM ERR") or b.startswith("BIO ERR"):
        return ("EXC", (a if a.startswith("NUM ERR") else b)[:200])
    g = rec(a.split()[2:])
    t = b.split(); n = int(t[2]); i = 3; cts = []
    for _ in range(n):
        assert t[i] == "CT"; i += 1; j = i
        while t[j] != "NFT":
            j += 1
        ct = rec(t[i:j]); nft = int(t[j + 1]); i = j + 2; fts = []
        for _ in range(nft):
            assert t[i] == "FT"; i += 1; j = i
            while j < len(t) and t[j] not in ("FT", "CT"):
                j += 1
            fts.append(rec(t[i:j])); i = j
        cts.append((ct, fts))
    return ("OK", (g, cts))


def same_value(mv, iv):
    """model value 'k:...' against the implementation's printed token"""
    k, v = mv.split(":", 1)
    if k == "s":
        return v == iv or (v == "<empty>" and iv == "")
    if k == "d":
        return vlib.same_bits(unhx(v), unhx(iv))
    if k == "i":
        return int(v) == int(iv)
    if k == "b":
        return int(v) == int(iv)
    return False


def diff_model_impl(m, im):
    if m[0] != im[0]:
        return "outcome differs (model %s, implementation %s)" % (m[0], im[0])
    if m[0] != "OK":
        return None
    (mg, mc), (ig, ic) = m[1], im[1]
    for f, v in mg.items():
        if f not in ig or not same_value(v, ig[f]):
            return "numerical field %s differs (model %s, implementation %s)" % (f, v, ig.get(f))
    if len(mc) != len(ic):
        return "number of cell types differs"
    for k, ((mct, mft), (ict, ift)) in enumerate(zip(mc, ic)):
        for f, v in mct.items():
            if f not in ict or not same_value(v, ict[f]):
                return "cell type %d field %s differs (model %s, implementation %s)" % (k, f, v, ict.get(f))
        if len(mft) != len(ift):
            return "number of face types of cell type %d differs" % k
        for q, (a, b) in enumerate(zip(mft, ift)):
            for f, v in a.items():
                if f not in b or not same_value(v, b[f]):
                    return "face type %d/%d field %s differs (model %s, implementation %s)" % (k, q, f, v, b.get(f))
    return None


def expected_field(kind, text):
    if kind == "s":
        return ("s", clean(text))
    if kind == "b":
        z = c_stoi(text); return ("b", None if z is None else int(z != 0))
    if kind == "h":
        z = c_stoi(text); return ("i", None if z is None else ((z + 32768) % 65536) - 32768)
    if kind == "D" and text.lower() == "inf":
        return ("d", float("inf"))
    if kind == "D":
        return ("d", c_stod(text.lower()))
    return ("d", c_stod(text))


def oracle_valid(st, im):
    """documented wiring on the implementation's output for a valid structure"""
    if im[0] != "OK":
        return "valid_file_accepted (%s)" % (im[1],)
    g, cts = im[1]
    def cmp(table, src, got, where):
        for tag, fld, kind, rule in table:
            k, v = expected_field(kind, src[tag])
            if v is None:
                continue
            tok = got.get(fld)
            ok = (tok == v) if k == "s" else (vlib.same_bits(unhx(tok), v) if k == "d" else int(tok) == v)
            if not ok:
                return "value_reaches_field_of_that_name (%s: <%s>%s</%s> arrived as %s = %s)" % (where, tag, src[tag], tag, fld, tok)
        return None
    r = cmp(NUM, st["num"], g, "numerical")
    if r:
        return r
    if len(cts) != len(st["cells"]):
        return "order_and_number_of_cell_types (%d written, %d read)" % (len(st["cells"]), len(cts))
    for i, ((ct, fts), (ict, ifts)) in enumerate(zip(st["cells"], cts)):
        r = cmp(CELL, ct, ict, "cell type %d" % i)
        if r:
            return r
        if len(fts) != len(ifts):
            return "order_and_number_of_face_types (cell type %d)" % i
        for q, (ft, ift) in enumerate(zip(fts, ifts)):
            r = cmp(FACE, ft, ift, "cell type %d face type %d" % (i, q))
            if r:
                return r
    return None


def mutations(rng, st):
    """(description, kind, mutated structure/tree builder): every single omission and every single rule violation"""
    muts = []
    import copy
    for tag, fld, kind, rule in NUM:
        s = copy.deepcopy(st); del s["num"][tag]; muts.append(("omit " + tag, "omit", s))
    ci = rng.randrange(len(st["cells"]))
    for tag, fld, kind, rule in CELL:
        s = copy.deepcopy(st); del s["cells"][ci][0][tag]; muts.append(("omit %s of cell type %d" % (tag, ci), "omit", s))
    fi = rng.randrange(len(st["cells"][ci][1]))
    for tag, fld, kind, rule in FACE:
        s = copy.deepcopy(st); del s["cells"][ci][1][fi][tag]; muts.append(("omit %s of face type %d/%d" % (tag, ci, fi), "omit", s))
    def viol(table, getd, where):
        for tag, fld, kind, rule in table:
            if rule is None:
                continue
            bad = [num_text(rng, False)] if kind != "h" else [str(-rng.randrange(1, 200))]
            if rule == "notpos":
                bad.append(rng.choice(["0", "0.0", "0e5"]))
            for b in bad:
                s = copy.deepcopy(st); getd(s)[tag] = b
                muts.append(("%s %s = %s" % (where, tag, b), "sign", s))
    viol(NUM, lambda s: s["num"], "numerical")
    viol(CELL, lambda s: s["cells"][ci][0], "cell type %d" % ci)
    viol(FACE, lambda s: s["cells"][ci][1][fi], "face type %d/%d" % (ci, fi))
    s = copy.deepcopy(st); dt = c_stod(s["num"]["time_step"]); s["num"]["sampling_period"] = repr(dt * 0.5)
    muts.append(("sampling_period below time_step", "sign", s))
    # texts that do not convert
    for tag, fld, kind, rule in rng.sample(NUM + CELL + FACE, 6):
        if kind == "s":
            continue
        s = copy.deepcopy(st)
        bad = rng.choice(["abc", "1e999", "--5", "e5", ".", "1e-400"]) if kind in "dD" else rng.choice(["abc", "99999999999", "x1"])
        d = s["num"] if (tag, fld, kind, rule) in NUM else (s["cells"][ci][0] if (tag, fld, kind, rule) in CELL else s["cells"][ci][1][fi])
        d[tag] = bad
        muts.append(("%s = %s" % (tag, bad), "conv", s))
    return muts


def run(ck):
    nvalid = 40 if ck.tier == "quick" else 600
    nmutbase = 3 if ck.tier == "quick" else 40
    ck.cov["rule"] = ("parameter structures (1-6 cell types x 1-5 face types, values over 600 orders of magnitude in six numeral styles, INF in any case, ids, flags) rendered as XML with the tags of every section shuffled, comments and unknown tags interleaved; for %d base structures every single omitted tag (31), every single violated sign rule and unconvertible texts; non-trivial = files exercising an omission, a rule or a shuffled order" % nmutbase)
    # 1. regenerate the tables from the current source, then the proofs and the extracted interpreter
    tr = vlib.run([sys.executable, os.path.join(vlib.HARNESS, "translate_params.py"), vlib.REPO, os.path.join(vlib.COQ, "Params_gen.v")])
    ck.notes["translator"] = tr.stdout.strip()[-600:]
    translation_ok = tr.returncode == 0
    ok = ck.proofs()
    impl = vlib.build_driver("io")
    model = vlib.ocaml_model()
    rng = random.Random(ck.seed * 9176 + 18)
    cases = []
    for i in range(nvalid):
        st = gen_struct(rng)
        cases.append(dict(kind="valid", st=st, doc=build_tree(rng, st, shuffle=(i % 4 != 0)), what="valid"))
    for i in range(nmutbase):
        st = gen_struct(rng)
        for what, kind, s in mutations(rng, st):
            cases.append(dict(kind=kind, st=s, doc=build_tree(rng, s), what=what))
    # duplicated tags: the first one wins (outside the property's quantifier; model = code only)
    for i in range(nvalid // 4):
        st = gen_struct(rng); doc = build_tree(rng, st)
        sec = [x for x in doc if x.tag == "numerical_parameters"][0]
        sec.children.insert(rng.randrange(len(sec.children) + 1), X("time_step", num_text(rng, True)))
        cases.append(dict(kind="dup", st=st, doc=doc, what="duplicated tag"))
    d = os.path.join(vlib.CACHE, "tmp", "c18_%d" % os.getpid())
    os.makedirs(d, exist_ok=True)
    lines = []
    for i, c in enumerate(cases):
        c["xml"] = render(rng, c["doc"])
        p = os.path.join(d, "p%d.xml" % i)
        open(p, "w").write(c["xml"])
        lines.append("PR " + p)
    outs, crashes = vlib.run_lines_resilient([impl], lines, timeout=600)
    mo = vlib.run([model, "params"], input="\n".join(model_line(c["doc"]) for c in cases) + "\n", check=True, timeout=600).stdout.strip().split("\n")
    shutil.rmtree(d, ignore_errors=True)
    fails = []; broken = []; nontriv = 0; dist = {}
    for i, (c, out, mline) in enumerate(zip(cases, outs, mo)):
        dist[c["kind"]] = dist.get(c["kind"], 0) + 1
        im = parse_impl(out)
        if im[0] == "CRASH":
            fails.append((i, "reader_terminates_normally (the process died on this file)")); continue
        try:
            m = parse_model(mline)
        except Exception as e:
            broken.append((i, "model output not understood: %s" % mline[:200])); continue
        if "TRANSLATION-FAILED" not in mline:
            dd = diff_model_impl(m, im)
            if dd:
                broken.append((i, dd))
        nontriv += 1
        if c["kind"] == "valid":
            f = oracle_valid(c["st"], im)
            if f:
                fails.append((i, f))
        elif c["kind"] == "omit" and im[0] != "EXC":
            fails.append((i, "missing_tag_rejected (%s was accepted)" % c["what"]))
        elif c["kind"] == "sign" and im[0] != "EXC":
            fails.append((i, "sign_violation_rejected (%s was accepted)" % c["what"]))
        elif c["kind"] == "conv" and im[0] != "EXC":
            fails.append((i, "unconvertible_text_rejected (%s was accepted)" % c["what"]))
    # ---- "the values then govern the run they are named after": time step, duration and sampling period as the real solver
    # consumes them (solver::run on small tissues; step not dividing the period, period a few ulps above the step, duration off
    # the grid of steps); the oracle is the one of C19 (one step per iteration until T, file k at the first iteration whose time
    # reaches (k-1) S, K within one of T/S + 1)
    gov_fails = []; ngov = 0
    try:
        import importlib
        c19 = importlib.import_module("checks.c19")
        rimpl = vlib.build_driver("run", wrap_clock=True)
        grng = random.Random(ck.seed * 977 + 18)
        gcases = [c19.gen_case(grng, "c18g%d" % i, forced=f) for i, f in enumerate((["noncomm", "noncomm", "S~dt", "steady", "noncomm"] * (1 if ck.tier == "quick" else 8)))]
        for gc in gcases:
            try:
                r = vlib.run([rimpl], input=gc["line"] + "\n", timeout=c19.RUN_TIMEOUT, env={"OMP_NUM_THREADS": "1"})
            except Exception:
                continue
            if r.returncode != 0 or not r.stdout.startswith("ITS") or " # END " not in r.stdout:
                continue
            try:
                its_, end_, cf_, ff_, rows_ = c19.parse_out(r.stdout)
            except Exception:
                continue
            if end_["exc"] != "-":
                continue
            ngov += 1
            f = c19.oracle(gc, its_, end_, cf_, ff_, rows_, None)
            if f is None:
                # cadence: file k must be written by the first iteration that starts at a time >= (k-1) S
                counters = [it["file"] for it in its_] + [end_["file"]]
                for j, it in enumerate(its_):
                    want = int(math.floor(it["t"] / gc["S"] * (1 + 1e-12) + 1e-12)) + 1
                    if abs(counters[j + 1] - want) > 1:
                        f = "sampling_period_governs_the_files (after the iteration starting at t = %r the file counter is %d, floor(t/S)+1 = %d; S = %r, dt = %r)" % (it["t"], counters[j + 1], want, gc["S"], gc["dt"]); break
            if f:
                gov_fails.append((gc, f))
    except vlib.BuildError as e:
        ck.notes["governs_the_run"] = "driver build failed: " + str(e)[-200:]
    ck.notes["runs_checking_that_dt_S_T_govern_the_run"] = ngov
    # ---- perform_initial_triangulation governs the start-up FROM A FILE: with 0 an already triangulated input mesh is taken as it is
    # (same number of nodes), with 1 it is re-meshed at the minimum edge length
    try:
        c17 = importlib.import_module("checks.c17")
        d_ = os.path.join(vlib.CACHE, "tmp", "c18_st_%d" % os.getpid()); os.makedirs(d_, exist_ok=True)
        cn, cf = tissue.cube()
        cells_ = [([[x * 1e-5 for x in p] for p in cn], [tuple(t) for t in cf]), ([[x * 1e-5 + (4e-5 if k == 0 else 0.0) for k, x in enumerate(p)] for p in cn], [tuple(t) for t in cf])]
        mp = os.path.join(d_, "m.vtk"); open(mp, "w").write(c17.render_lines(c17.mesh_file_lines(cells_, [0, 0])))
        st_lines = []
        for tri in (0, 1):
            px = os.path.join(d_, "p%d.xml" % tri); open(px, "w").write(c17.base_xml(mp, os.path.join(d_, "out"), tri))
            st_lines.append("ST " + px)
        souts, _cr = vlib.run_lines_resilient([impl], st_lines, timeout=600)
        shutil.rmtree(d_, ignore_errors=True)
        if souts[0] and souts[0].startswith("OK") and " NN " in souts[0]:
            nn0 = [int(x) for x in souts[0].split(" NN ")[1].split()]
            if nn0 != [8, 8]:
                gov_fails.append((dict(line=st_lines[0], dt=None, S=None, T=None), "perform_initial_triangulation_governs_the_start_up (flag 0 in the file, the two 8-node input cubes arrive with %s nodes)" % nn0))
        if souts[1] and souts[1].startswith("OK") and " NN " in souts[1]:
            nn1 = [int(x) for x in souts[1].split(" NN ")[1].split()]
            if any(x <= 8 for x in nn1):
                gov_fails.append((dict(line=st_lines[1], dt=None, S=None, T=None), "perform_initial_triangulation_governs_the_start_up (flag 1 in the file, the cubes were not re-meshed: %s nodes)" % nn1))
        ck.notes["start_ups_from_a_file_with_the_triangulation_flag"] = [s_[:60] if s_ else None for s_ in souts]
    except Exception as e:
        ck.notes["start_ups_from_a_file_with_the_triangulation_flag"] = "not run: " + str(e)[-160:]
    ck.cov["evaluations"] = len(cases) + ngov
    ck.cov["distinct_nontrivial"] = nontriv
    ck.cov["traces_validated_against_impl"] = len(cases) - len(broken)
    ck.notes["input_distribution"] = dist
    ck.sample(dict(kind=cases[0]["kind"], xml=cases[0]["xml"][:600]), limit=1)
    seen = set()
    for i, f in fails:
        key = f.split(" ")[0]
        k2 = key + ":" + cases[i]["what"].split(" = ")[0]
        if k2 in seen or len(seen) > 6:
            continue
        seen.add(k2)
        ck.report(dict(xml=cases[i]["xml"], what=cases[i]["what"], implementation=(outs[i] or "")[:1500]), oracle=key, key="params:" + k2, what="parameter file: " + f)
    for gc, f in gov_fails[:1]:
        ck.report(dict(input=gc["line"][:100000], dt=gc["dt"], S=gc["S"], T=gc["T"]), oracle="value_governs_the_run", key="params:governs:" + f.split(" ")[0], what="time_step / sampling_period / simulation_duration do not govern the run as named: " + f)
    if not ck.violations:
        if not ok:
            ck.report(dict(log=ck.proof_res["log"][-3000:], translator=tr.stdout[-1000:]), unchecked="Properties_C18.vo (theorems over the tables regenerated from parameter_reader.cpp)", what="proof obligations of C18 no longer check")
        elif not translation_ok:
            ck.report(dict(translator=tr.stdout[-1000:]), unchecked="translation of parameter_reader.cpp into the wiring tables", what="the source is no longer in the shape the translator understands")
        if broken:
            i, dd = broken[0]
            ck.report(dict(xml=cases[i]["xml"], difference=dd, n_disagreements=len(broken), model=mo[i][:1500], implementation=(outs[i] or "")[:1500]),
                      unchecked="correspondence Params.decode over Params_gen.v = parameter_reader", what="model and implementation disagree on %d files (%s)" % (len(broken), dd))
    ck.cov["trusted_base"] = vlib.TRUSTED_BASE_COMMON + [
        "harness/translate_params.py (regenerates the wiring tables from parameter_reader.cpp; validated on every run by the differential run of the tables against the real reader)",
        "std::stod/std::stoi enter the model as arguments computed with the C library's strtod/strtol (ERANGE and no-conversion = exception)",
        "tinyxml2 is not modelled: the model starts at the element tree; read_biomechanical_parameters (two loops) is transcribed by hand"]
    ck.assumptions = ["tags are unique inside a section for the order-independence statement (with duplicates the first one wins, checked by the correspondence)",
                      "the documented sign constraints are the reader's own messages; strictness as coded (damping and strengths: negative rejected, zero accepted)"]


def replay(ck, path):
    j = json.load(open(path))
    impl = vlib.build_driver("io")
    d = os.path.join(vlib.CACHE, "tmp", "c18_replay_%d" % os.getpid()); os.makedirs(d, exist_ok=True)
    p = os.path.join(d, "p.xml"); open(p, "w").write(j["case"]["xml"])
    out = vlib.run([impl], input="PR " + p + "\n", timeout=300).stdout
    print(out[:3000])
    shutil.rmtree(d, ignore_errors=True)
    return 0
