"""C11 — remeshing is physically neutral, selective and always terminates.
proof:          coq/Properties_C11.v (model MeshOps.v at R)
correspondence: replay of the traced operations of every pass on MeshOps.v (extracted): node positions (midpoints),
                momenta (2/3-2/3-1/3 split, sum on merge), labels, triangles, and the guard of every operation
                (length predicate evaluated bit-exactly at the moment it fired, link condition)
oracle:         total momentum, unmoved survivors, volume/area change only through collapses and swaps, fixpoint on
                conforming meshes, return-or-throw within a time budget."""
import random, json, math
import vlib, tissue, refine_common as rc

LEVEL = "proof"
DYN = True


def run(ck):
    nh, nconf = (70, 25) if ck.tier == "quick" else (2000, 600)
    ck.cov["rule"] = ("histories as in C01 (meshes, bands, displacements, scalings, refine passes, single operations, compaction) with random node momenta and face labels, plus lattice boxes whose squared edge lengths equal l_min^2 or l_max^2 exactly (ties: the comparisons are strict) and conforming cases (band chosen around the existing edge lengths, regular triangles: a pass must change nothing); non-trivial = passes whose trace is not empty")
    ok = ck.proofs()
    if not ok:
        ck.report(dict(log=ck.proof_res["log"][-3000:]), unchecked="Properties_C11.vo", what="proof obligations of C11 no longer check")
    impl = vlib.build_driver("refine")
    model = vlib.ocaml_model()
    rng = random.Random(ck.seed * 5231 + 11)
    rng_t = random.Random(ck.seed * 5231 + 12)       # histories with rigid half turns between the caching of the normals and a pass (own stream)
    cases = [rc.tie_case(rng) for _ in range(8 if ck.tier == "quick" else 120)] + [rc.gen_history(rng, DYN) for _ in range(nh)] + [rc.gen_history(rng_t, DYN, half_turn=True) for _ in range(20 if ck.tier == "quick" else 300)] + [rc.conforming_case(rng) for _ in range(nconf)]
    outs, crashes = vlib.run_lines_resilient([impl], [c["line"] for c in cases], timeout=900)
    for bad, info in crashes[:2]:
        ck.report(dict(input=cases[bad]["line"], error=info), oracle="refine_terminates", key="refine:crash",
                  what="a refinement history did not return within the time budget or died: " + info[:200])
    lqueries = []; lmeta = []
    fails = []; queries = []; qmeta = []; npass = 0; nnontriv = 0; opcount = dict(split=0, merge=0, swap=0); nexc = 0
    for ci, (c, out) in enumerate(zip(cases, outs)):
        states = rc.parse_states(out)
        if not states:
            continue
        for k in range(1, len(states)):
            pre, st = states[k - 1], states[k]
            if st["name"] == "REFINE" and len(rc.live_faces(pre)) * max(1, len(st["ctl"])) <= 400000:
                lq, ls = rc.loop_query(pre, st["ctl"], c["lmin"], c["lmax"], DYN)
                if lq is not None:
                    lqueries.append(lq); lmeta.append((ci, k, ls))
            if st["exc"]:
                nexc += 1
                break
            if st["name"] not in ("REFINE", "OP0", "OP1", "OP2", "OPL0", "OPL1", "OPL2"):
                continue
            npass += 1
            tr = st["trace"]
            for o in tr:
                opcount[o[0]] += 1
            if tr:
                nnontriv += 1
            live0 = {n["id"]: n for n in pre["nodes"] if n["used"]}; live1 = {n["id"]: n for n in st["nodes"] if n["used"]}
            # total momentum
            p0 = [sum(n["m"][a] for n in live0.values()) for a in range(3)]; p1 = [sum(n["m"][a] for n in live1.values()) for a in range(3)]
            pabs = sum(abs(x) for n in live0.values() for x in n["m"]) + 1e-300
            if max(abs(p0[a] - p1[a]) for a in range(3)) > 1e-11 * pabs:
                fails.append((ci, k, "refine_conserves_momentum (total momentum %s -> %s)" % (p0, p1))); break
            # survivors unmoved
            new_ids = {o[5] for o in tr if o[0] in ("split", "merge")}
            for i, n in live0.items():
                if i in live1 and i not in new_ids and not all(vlib.same_bits(x, y) for x, y in zip(n["p"], live1[i]["p"])):
                    fails.append((ci, k, "survivors_unmoved (node %d moved from %s to %s)" % (i, n["p"], live1[i]["p"]))); break
            # volume / area only change through collapses and swaps
            if tr and all(o[0] == "split" for o in tr):
                v0, v1 = rc.signed_volume6(pre), rc.signed_volume6(st)
                a0, a1 = rc.total_area(pre), rc.total_area(st)
                maxc = max(abs(x) for n in live1.values() for x in n["p"])
                if abs(v0 - v1) > 1e-11 * len(live1) * maxc ** 3 or abs(a0 - a1) > 1e-9 * a0:
                    fails.append((ci, k, "split_keeps_volume_and_area (6V %.6g -> %.6g, A %.6g -> %.6g with only splits)" % (v0, v1, a0, a1))); break
                # a split hands the label of a triangle to its two halves: the area carried by every label is unchanged
                def by_label(s_):
                    d_ = {}
                    for f_ in rc.live_faces(s_):
                        d_[f_["ty"]] = d_.get(f_["ty"], 0.0) + tissue.area([n_["p"] for n_ in s_["nodes"]], [f_["tri"]])
                    return d_
                l0, l1 = by_label(pre), by_label(st)
                if any(abs(l0.get(t_, 0.0) - l1.get(t_, 0.0)) > 1e-9 * a0 for t_ in set(l0) | set(l1)):
                    fails.append((ci, k, "split_inherits_face_type (area per label %s -> %s with only splits)" % ({t_: "%.6g" % v_ for t_, v_ in sorted(l0.items())}, {t_: "%.6g" % v_ for t_, v_ in sorted(l1.items())}))); break
            # fixpoint
            if c.get("conforming") and st["name"] == "REFINE":
                same = (not tr and [(n["used"], n["p"], n["m"]) for n in pre["nodes"]] == [(n["used"], n["p"], n["m"]) for n in st["nodes"]]
                        and [(f["used"], f["tri"], f["ty"]) for f in pre["faces"]] == [(f["used"], f["tri"], f["ty"]) for f in st["faces"]]
                        and pre["edges"] == st["edges"])
                if not same:
                    fails.append((ci, k, "conforming_mesh_fixpoint (a mesh inside the band with regular triangles was modified: %s)" % tr[:3])); break
            if len(rc.live_faces(pre)) * max(1, len(tr)) <= 400000:
                queries.append(rc.replay_query(pre, tr, c["lmin"], c["lmax"], DYN)); qmeta.append((ci, k, st["name"]))
    broken = []
    if queries:
        mo = vlib.run([model, "replay"], input="\n".join(queries) + "\n", check=True, timeout=1800).stdout.strip().split("\n")
        cache = {}
        for (ci, k, name), l in zip(qmeta, mo):
            if ci not in cache:
                cache = {ci: rc.parse_states(outs[ci])}
            states = cache[ci]
            rep = rc.parse_replay(l)
            if rep is None:
                broken.append((ci, k, "the traced operations are not applicable to the model state")); continue
            d = rc.compare_replay(states[k], rep, DYN)
            if d:
                broken.append((ci, k, d))
            elif name == "REFINE" and rep[0] != 1:
                fails.append((ci, k, "split_only_long/merge_only_short (an operation of the pass fired although its length predicate or the link condition did not hold in the model state)"))
    # ---- the control of the loop: which popped edge is operated on and how, the counter, the guard, the exception
    nloop = 0; lstats = dict(pops=0, threw=0, left_with_work=0)
    if lqueries:
        mo = vlib.run([model, "loop"], input="\n".join(lqueries) + "\n", check=True, timeout=1800).stdout.strip().split("\n")
        cache = {}
        for (ci, k, ls), l in zip(lmeta, mo):
            if ci not in cache:
                cache = {ci: rc.parse_states(outs[ci])}
            post = cache[ci][k]
            ml = rc.parse_loop(l)
            lstats["pops"] += len(ls[1]); lstats["threw"] += ml["kind"] == "THREW"; lstats["left_with_work"] += (ml["kind"] == "RETURNED" and ml["left"] > 0)
            d = rc.compare_loop(post, ls, ml, DYN)
            if d:
                broken.append((ci, k, "refine_mesh loop: " + d))
            else:
                nloop += 1
    ck.notes["loop_runs_reproduced_by_the_model"] = nloop
    ck.notes["loop"] = lstats
    ck.cov["evaluations"] = npass
    ck.cov["distinct_nontrivial"] = nnontriv
    ck.cov["traces_validated_against_impl"] = len(queries) + len(lqueries) - len(broken)
    ck.notes["operations"] = opcount
    ck.notes["histories"] = len(cases)
    ck.notes["passes_reporting_failure_by_exception"] = nexc
    ck.sample(dict(history=cases[0]["events"], band=[cases[0]["lmin"], cases[0]["lmax"]]), limit=1)
    seen = set()
    for ci, k, f in fails:
        key = f.split(" ")[0]
        if key in seen:
            continue
        seen.add(key)
        ck.report(dict(input=cases[ci]["line"], events=cases[ci]["events"][:k], failing_state_index=k), oracle=key, key="refine:" + key,
                  what="pass/operation number %d of the history: %s" % (k, f))
    if broken and not ck.violations:
        ci, k, d = broken[0]
        ck.report(dict(input=cases[ci]["line"], failing_state_index=k, difference=d, n_disagreements=len(broken)),
                  unchecked="correspondence MeshOps.replay(trace) = implementation store after the pass",
                  what="model and implementation disagree on %d passes (%s); the property oracle found no failing input" % (len(broken), d[:200]))
    ck.cov["trusted_base"] = vlib.TRUSTED_BASE_COMMON + ["guarded trace hook SIMUCELL3D_VERIF_TRACE in local_mesh_refiner.cpp (add-only, weak callback)"]
    ck.assumptions = ["termination is observed (time budget, exception path), not proved: the loop guard grows with every split"]


def replay(ck, path):
    import checks.c01 as c01
    return c01.replay(ck, path)
