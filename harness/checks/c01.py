"""C01 — cell surfaces stay closed, consistently oriented 2-manifolds under remeshing.
proof:          coq/Properties_C01.v (models Mesh.v, MeshOps.v)
correspondence: the operation trace of every refinement pass / single operation (guarded hook) is replayed on the
                abstract operations of MeshOps.v (extracted); resulting triangle set, labels and node states are
                compared with the implementation's store dump
oracle:         the extracted, proved decision procedure valid_dump_b / connected_b (Mesh.v) on every dump, plus an
                independent Python recomputation of validity and of the whole bookkeeping (edge-face adjacency,
                counts, free slots, ids), cached normals vs winding, orientation."""
import random, json
import vlib, refine_common as rc

LEVEL = "proof"
DYN = True


def run(ck, prop="C01"):
    nh, nbig = (90, 4) if ck.tier == "quick" else (2500, 150)
    ck.cov["rule"] = ("history = closed genus-0 mesh (tetrahedron .. icosphere level 3, one icosphere level 6 with 40962 nodes, anisotropic, noisy, 0..100 sizes from the origin) with an edge-length band chosen around / inside / above / below its edge lengths, swap on or off, then 4-18 events: Gaussian displacement of all nodes (0.02-0.4 mean edge lengths), uniform and anisotropic scaling, normal refresh, refine_mesh passes, single split/merge/swap calls on a chosen edge, compaction; the full cell store is dumped after every event; non-trivial = dumps that follow an event which changed the connectivity")
    ok = ck.proofs()
    if not ok:
        ck.report(dict(log=ck.proof_res["log"][-3000:]), unchecked="Properties_%s.vo" % prop, what="proof obligations of %s no longer check" % prop)
    impl = vlib.build_driver("refine")
    model = vlib.ocaml_model()
    rng = random.Random(ck.seed * 9176 + 1)
    cases = [rc.pinched_case(rng) for _ in range(48 if ck.tier == "quick" else 600)] + [rc.gen_history(rng, DYN) for _ in range(nh)] + [rc.gen_history(rng, DYN, big=True) for _ in range(nbig)] + [rc.huge_case(rng) for _ in range(1 if ck.tier == "quick" else 6)]
    outs, crashes = vlib.run_lines_resilient([impl], [c["line"] for c in cases], timeout=1500)
    for bad, info in crashes[:2]:
        ck.report(dict(input=cases[bad]["line"], error=info), oracle="remeshing_returns_or_throws", key="refine:crash",
                  what="the refinement driver died (signal) or did not return within the per-history time budget (exit 3) on this history: " + info[:200])
    fails = []; queries = []; qmeta = []; vq = []; vmeta = []
    nstates = 0; nchanged = 0; evhist = {}; nexc = 0
    for ci, (c, out) in enumerate(zip(cases, outs)):
        states = rc.parse_states(out)
        if not states:
            if out is not None:
                fails.append((ci, 0, "closed_genus0_starting_mesh_rejected (%s)" % out[:160]))
            continue
        fresh = False
        for k, st in enumerate(states):
            nstates += 1
            evhist[st["name"]] = evhist.get(st["name"], 0) + 1
            if st["exc"]:
                nexc += 1
                # a pass may report failure by exception (the loop's instability report is raised after the loop, on a consistent
                # store); an operation that throws half-way and leaves an open or doubly covered surface behind has broken it
                f = rc.fast_valid(st)
                if f:
                    fails.append((ci, k, "surface_broken_by_an_operation_that_threw (%s; exception %s)" % (f, str(st["exc"])[:80])))
                break
            f = rc.fast_valid(st)
            if f:
                fails.append((ci, k, f)); break
            lf = rc.live_faces(st)
            if len(lf) <= 260:
                vq.append("%d %s %d %s" % (sum(1 for n in st["nodes"] if n["used"]), " ".join(str(n["id"]) for n in st["nodes"] if n["used"]),
                                          len(lf), " ".join("%d %d %d" % f["tri"] for f in lf)))
                vmeta.append((ci, k))
            if k > 0:
                pre = states[k - 1]
                if st["name"] in ("REFINE", "OP0", "OP1", "OP2", "OPL0", "OPL1", "OPL2") and not pre["exc"]:
                    if st["trace"]:
                        nchanged += 1
                    if len(rc.live_faces(pre)) * max(1, len(st["trace"])) <= 400000:
                        queries.append(rc.replay_query(pre, st["trace"], c["lmin"], c["lmax"], DYN)); qmeta.append((ci, k))
                    if fresh:
                        g = rc.normals_follow_winding(st)
                        if g:
                            fails.append((ci, k, g))
                    v0 = rc.signed_volume6(pre); v1 = rc.signed_volume6(st)
                    # only when the displacement history itself left a fat, clearly outward-oriented cell
                    # (sphere: V = 0.094 A^1.5): a crumpled, nearly inverted cell cannot be repaired by remeshing
                    # ... and only when the result is itself a fat, clearly inverted cell, or the pass consisted of splits only
                    # (which keep the volume): a collapse on a mesh of a handful of nodes can flatten the cell to a sliver
                    # whose volume is rounding-sized and of either sign without the windings being wrong
                    only_splits = all(op[0] == "split" for op in st["trace"])
                    # (second false alarm, thorough tier: six collapses took a crumpled 13-node mesh to a 7-node polyhedron of
                    # 4 % of the volume and negative sign: still geometry, not windings.)  The sign test is therefore kept for
                    # passes of splits only, where the volume is preserved exactly; a wrong winding produced by a collapse or
                    # a swap is a local defect that the half-edge test above (every edge traversed once in each direction)
                    # sees, and a global flip by the compaction is caught by compaction_changes_geometry
                    if v0 > 0 and v1 <= 0 and v0 / 6 > 0.02 * rc.total_area(pre) ** 1.5 and only_splits and st["trace"]:
                        fails.append((ci, k, "orientation_lost (signed volume %.3g -> %.3g over one %s)" % (v0 / 6, v1 / 6, st["name"])))
                elif st["name"] == "REBASE":
                    if sorted(rc.canon(f["tri"]) for f in rc.live_faces(st)).__len__() != len(rc.live_faces(pre)) or st["freeN"] or st["freeF"]:
                        fails.append((ci, k, "compaction_changes_surface_or_leaves_free_slots"))
                    if abs(rc.signed_volume6(st) - rc.signed_volume6(pre)) > 1e-9 * abs(rc.signed_volume6(pre)) + 1e-300:
                        fails.append((ci, k, "compaction_changes_geometry"))
            if st["name"] == "FRESH":
                fresh = True
            elif st["name"] in ("G", "S", "A"):
                fresh = False
            # after a pass started with fresh normals everything is fresh again only if the pass refreshes what it touches
    # ---- extracted Coq oracle on the dumps
    if vq:
        vo = vlib.run([model, "valid"], input="\n".join(vq) + "\n", check=True, timeout=1800).stdout.strip().split("\n")
        for (ci, k), l in zip(vmeta, vo):
            if l.split() != ["1", "1", "1"]:
                fails.append((ci, k, "valid_dump_b/connected_b (extracted Coq oracle) = %s" % l))
    # ---- replay of the traces on the abstract operations
    broken = []
    if queries:
        mo = vlib.run([model, "replay"], input="\n".join(queries) + "\n", check=True, timeout=1800).stdout.strip().split("\n")
        for (ci, k), l in zip(qmeta, mo):
            states = rc.parse_states(outs[ci])
            rep = rc.parse_replay(l)
            if rep is None:
                broken.append((ci, k, "the traced operations are not applicable to the model state")); continue
            d = rc.compare_replay(states[k], rep, DYN)
            if d:
                broken.append((ci, k, d))
    ck.cov["evaluations"] = nstates
    ck.cov["distinct_nontrivial"] = nchanged
    ck.cov["traces_validated_against_impl"] = len(queries) - len(broken)
    ck.notes["events"] = evhist
    ck.notes["histories"] = len(cases)
    ck.notes["operations_reporting_failure_by_exception"] = nexc
    ck.notes["dumps_checked_by_extracted_coq_oracle"] = len(vq)
    ck.sample(dict(history=cases[0]["events"], band=[cases[0]["lmin"], cases[0]["lmax"]], mesh=cases[0]["kind"]), limit=1)
    seen = set()
    for ci, k, f in fails:
        key = f.split(" ")[0]
        if key in seen:
            continue
        seen.add(key)
        sts_ = rc.parse_states(outs[ci])
        ck.report(dict(input=cases[ci]["line"] if len(cases[ci]["line"]) < 400000 else "icosphere level 6 (40962 nodes), events " + " ".join(cases[ci]["events"]),
                       events=cases[ci]["events"][:k], failing_state_index=k), oracle=key, key="refine:" + key,
                  what="after event %d (%s) of the history: %s" % (k, sts_[k]["name"] if sts_ else "INIT", f))
    if broken and not ck.violations:
        ci, k, d = broken[0]
        ck.report(dict(input=cases[ci]["line"], failing_state_index=k, difference=d, n_disagreements=len(broken)),
                  unchecked="correspondence MeshOps.replay(trace) = implementation store after the pass",
                  what="model and implementation disagree on %d passes (%s); the property oracle found no failing input" % (len(broken), d[:200]))
    ck.cov["trusted_base"] = vlib.TRUSTED_BASE_COMMON + ["guarded trace hook SIMUCELL3D_VERIF_TRACE in local_mesh_refiner.cpp (add-only, weak callback)", "independent Python recomputation of validity/bookkeeping"]
    ck.assumptions = ["'genus 0' is the operational definition (closed, oriented, connected, V-E+F=2); positivity of the enclosed volume is required only when the displacement history itself did not invert the cell"]


def replay(ck, path):
    j = json.load(open(path))
    impl = vlib.build_driver("refine")
    out = vlib.run([impl], input=j["case"]["input"] + "\n", timeout=600).stdout
    for k, st in enumerate(rc.parse_states(out) or []):
        print(k, st["name"], st["exc"], rc.fast_valid(st), st["trace"][:6])
    return 0
