"""C13 — initial surface reconstruction returns a faithful closed mesh or fails cleanly.  (partial: see level_note)
proof:          coq/Properties_C13.v (Init.v: acceptance gate, retry machine, Poisson disk sampling)
correspondence: the gate (model gate_b + orientation repair) vs cell::initialize_cell_properties(true) on valid and
                mutated meshes: accept/reject and the resulting windings; the model's Poisson disk sampling vs
                poisson_sampling::poisson_disk_sampling on generated candidate clouds: the same points, in the same order
oracle:         the real start-up (simulation_initializer over a written mesh file) on generated polyhedra (cubes,
                boxes, prisms, ellipsoids, L-shapes; triangulated or polygonal; every mix of windings; l_min/size
                0.05-0.5; triangulation on/off; several clock seeds): every returned cell is a closed, consistently
                oriented surface with Euler characteristic 2 and positive signed volume, or the start-up throws
                intialization_exception; Poisson clouds pairwise >= l_min apart; fidelity (volume, bounding box) is
                measured and recorded, with a generous verdict threshold."""
import random, json, math, os
import vlib, tissue
from vlib import hx, unhx

LEVEL = "proof"


# ------------------------------------------------------------------ polyhedra (nodes, polygonal faces outward)
def box(sx, sy, sz):
    n = [[x * sx, y * sy, z * sz] for x in (0.0, 1.0) for y in (0.0, 1.0) for z in (0.0, 1.0)]
    f = [[0, 1, 3, 2], [4, 6, 7, 5], [0, 4, 5, 1], [2, 3, 7, 6], [0, 2, 6, 4], [1, 5, 7, 3]]
    return n, f


def prism(k, r, h):
    n = [[r * math.cos(2 * math.pi * i / k), r * math.sin(2 * math.pi * i / k), 0.0] for i in range(k)] + \
        [[r * math.cos(2 * math.pi * i / k), r * math.sin(2 * math.pi * i / k), h] for i in range(k)]
    f = [list(range(k - 1, -1, -1)), list(range(k, 2 * k))] + [[i, (i + 1) % k, k + (i + 1) % k, k + i] for i in range(k)]
    return n, f


def lshape(a):
    # an L-shaped prism (non-convex hexagonal cross-section)
    xy = [(0, 0), (2 * a, 0), (2 * a, a), (a, a), (a, 2 * a), (0, 2 * a)]
    k = len(xy)
    n = [[x, y, 0.0] for x, y in xy] + [[x, y, a] for x, y in xy]
    f = [list(range(k - 1, -1, -1)), list(range(k, 2 * k))] + [[i, (i + 1) % k, k + (i + 1) % k, k + i] for i in range(k)]
    return n, f


def poly_volume(n, f):
    v = 0.0
    for face in f:
        for i in range(1, len(face) - 1):
            p, q, r = n[face[0]], n[face[i]], n[face[i + 1]]
            v += p[0] * (q[1] * r[2] - q[2] * r[1]) - p[1] * (q[0] * r[2] - q[2] * r[0]) + p[2] * (q[0] * r[1] - q[1] * r[0])
    return v / 6


def mesh_tokens(n, f):
    t = [str(len(n))] + [hx(x) for p in n for x in p] + [str(len(f))]
    for face in f:
        t += [str(len(face))] + [str(x) for x in face]
    return " ".join(t)


def gen_gate(rng):
    kind0, n, f = tissue.random_mesh(rng, kinds=("tetra", "octa", "icosa", "cube", "ico1"), size=1.0, noise=0.03)
    f = [list(t) for t in f]
    mut = rng.choice(["valid", "valid", "mixed_windings", "inside_out", "face_removed", "face_duplicated", "third_face_on_edge", "two_components", "torus", "reordered", "unused_node"])
    if mut == "mixed_windings":
        f = [[a, c, b] if rng.random() < 0.5 else [a, b, c] for a, b, c in f]
    elif mut == "inside_out":
        f = [[a, c, b] for a, b, c in f]
    elif mut == "face_removed":
        del f[rng.randrange(len(f))]
    elif mut == "face_duplicated":
        f.append(list(f[rng.randrange(len(f))]))
    elif mut == "third_face_on_edge":
        a, b, c = f[rng.randrange(len(f))]
        n = n + [[sum(p[k] for p in n) / len(n) for k in range(3)]]
        f.append([a, b, len(n) - 1])
    elif mut == "two_components":
        m = len(n)
        n = n + [[p[0] + 5.0, p[1], p[2]] for p in n]
        f = f + [[a + m, b + m, c + m] for a, b, c in f]
    elif mut == "torus":
        R1, r1, A, B = 2.0, 0.7, 6, 4
        n = [[(R1 + r1 * math.cos(2 * math.pi * j / B)) * math.cos(2 * math.pi * i / A), (R1 + r1 * math.cos(2 * math.pi * j / B)) * math.sin(2 * math.pi * i / A), r1 * math.sin(2 * math.pi * j / B)] for i in range(A) for j in range(B)]
        f = []
        for i in range(A):
            for j in range(B):
                a = i * B + j; b = ((i + 1) % A) * B + j; c = ((i + 1) % A) * B + (j + 1) % B; d = i * B + (j + 1) % B
                f += [[a, b, c], [a, c, d]]
    elif mut == "reordered":
        rng.shuffle(f); f = [t[k:] + t[:k] for t in f for k in [rng.randrange(3)]]
    elif mut == "unused_node":
        n = n + [[9.0, 9.0, 9.0]]
    return "GATE " + mesh_tokens(n, f), mut


def gen_pds(rng):
    lmin = rng.choice([0.1, 0.25, 1e-6 * 0.7])
    ext = [lmin * rng.uniform(1.5, 6) for _ in range(3)]
    lo = [rng.choice([0.0, -3.0 * lmin, 1e3 * lmin]) for _ in range(3)]
    hi = [lo[k] + ext[k] for k in range(3)]
    n = rng.choice([5, 40, 200, 600])
    pts = []
    for _ in range(n):
        if rng.random() < 0.1 and pts:
            q = rng.choice(pts); pts.append([min(hi[k], max(lo[k], q[k] + rng.gauss(0, 0.3 * lmin))) for k in range(3)])
        else:
            pts.append([rng.uniform(lo[k], hi[k]) for k in range(3)])
    if rng.random() < 0.3:
        pts.append(list(hi)); pts.append(list(lo))
    return "PDS %s %s %s %d %s" % (hx(lmin), " ".join(hx(x) for x in lo), " ".join(hx(x) for x in hi), len(pts), " ".join(hx(x) for p in pts for x in p)), lmin, pts


def gen_ini(rng, force=None, nc=None):
    shape = force or rng.choice(["cube", "box", "prism", "lshape", "tetra", "tetra", "ellipsoid", "ellipsoid", "ellipsoid", "two_tetra_one_vertex", "torus", "open_box", "fin_on_edge"])
    size = 5e-6
    rejected = shape in ("two_tetra_one_vertex", "torus", "open_box", "fin_on_edge")    # closed-looking or open inputs the acceptance gate must refuse
    if shape == "cube":
        n, f = box(1, 1, 1)
    elif shape == "box":
        n, f = box(1, rng.uniform(0.5, 2), rng.uniform(0.5, 2))
    elif shape == "prism":
        n, f = prism(rng.choice([3, 5, 6, 8]), 0.6, rng.uniform(0.6, 1.5))
    elif shape == "lshape":
        n, f = lshape(0.5)
    elif shape == "tetra":
        # sharp dihedral edges: ball pivoting regularly leaves several holes that the hole filler has to close
        n = [[1.0, 1.0, 1.0], [1.0, -1.0, -1.0], [-1.0, 1.0, -1.0], [-1.0, -1.0, 1.0]]
        n = [[x * 0.6 for x in p] for p in n]; f = [[0, 1, 2], [0, 3, 1], [0, 2, 3], [1, 3, 2]]
    elif shape == "two_tetra_one_vertex":
        # every edge has two faces, V - E + F = 3
        n = [[0, 0, 0], [1, 0, 0], [0, 1, 0], [0, 0, 1], [-1, 0, 0], [0, -1, 0], [0, 0, -1]]
        f = [[0, 2, 1], [0, 1, 3], [0, 3, 2], [1, 2, 3], [0, 4, 5], [0, 6, 4], [0, 5, 6], [4, 6, 5]]
    elif shape == "torus":
        R1, r1, A, B = 0.7, 0.25, rng.choice([5, 6, 8]), rng.choice([4, 5])
        n = [[(R1 + r1 * math.cos(2 * math.pi * j / B)) * math.cos(2 * math.pi * i / A), (R1 + r1 * math.cos(2 * math.pi * j / B)) * math.sin(2 * math.pi * i / A), r1 * math.sin(2 * math.pi * j / B)] for i in range(A) for j in range(B)]
        f = []
        for i in range(A):
            for j in range(B):
                a = i * B + j; b = ((i + 1) % A) * B + j; c = ((i + 1) % A) * B + (j + 1) % B; d = i * B + (j + 1) % B
                f += [[a, b, c], [a, c, d]]
    elif shape == "open_box":
        n, f = box(1, 1, 1); f = [list(t) for t in f]; del f[rng.randrange(len(f))]
    elif shape == "fin_on_edge":
        n, f = box(1, 1, 1); f = [list(t) for t in f]; a, b = f[0][0], f[0][1]
        n = list(n) + [[2.0, 2.0, 2.0]]; f.append([a, b, len(n) - 1])
    else:
        n0, f0 = tissue.icosphere(rng.choice([1, 2]))
        ax = (rng.uniform(0.7, 1.3), rng.uniform(0.7, 1.3), rng.uniform(0.7, 1.3))
        n = [[p[0] * ax[0] * 0.6, p[1] * ax[1] * 0.6, p[2] * ax[2] * 0.6] for p in n0]; f = [list(t) for t in f0]
    M = tissue.rnd_rot(rng); shift = rng.choice([(0, 0, 0), (3.0, -2.0, 1.0)]) if shape != "tetra" else rng.choice([(3.0, -2.0, 1.0), (30.0, -20.0, 10.0)])
    n = tissue.transform(n, M, shift, (1, 1, 1))
    n = [[x * size for x in p] for p in n]
    wind = rng.choice(["outward", "outward", "inward", "mixed"])
    if wind == "inward":
        f = [list(reversed(face)) for face in f]
    elif wind == "mixed":
        f = [list(reversed(face)) if rng.random() < 0.5 else face for face in f]
    tri = rng.choice([1, 1, 1, 0]) if not rejected else (0 if force else rng.choice([0, 0, 1]))
    if force == "tetra":
        tri = 1
    if tri == 0:
        f2 = []
        for face in f:
            for i in range(1, len(face) - 1):
                f2.append([face[0], face[i], face[i + 1]])
        f = f2
    ratio = rng.choice([0.06, 0.1, 0.2, 0.35, 0.5]) if shape != "tetra" else rng.choice([0.06, 0.1, 0.1, 0.2])
    lmin = ratio * size
    nc = nc or rng.choice([1, 1, 2])
    ms = [mesh_tokens(n, f)]
    if nc == 2:
        ms.append(mesh_tokens([[p[0] + 4 * size, p[1], p[2]] for p in n], f))
    vol = abs(poly_volume(n, f)) if wind != "mixed" else abs(poly_volume(n, [face for face in f]))
    lo = [min(p[k] for p in n) for k in range(3)]; hi = [max(p[k] for p in n) for k in range(3)]
    line = "INI %d %d %s %d %d %s" % (rng.randrange(10 ** 6), tri, hx(lmin), rng.choice([0, 0, 2]), nc, " ".join(ms))
    return dict(line=line, shape=shape, wind=wind, tri=tri, ratio=ratio, lmin=lmin, vol=vol if not rejected else 0.0, lo=lo, hi=hi, size=size, nc=nc, rejected=rejected)


def run(ck):
    ngate, npds, nini = (120, 40, 36) if ck.tier == "quick" else (3000, 600, 500)
    ck.cov["rule"] = ("gate: tetrahedron..icosphere meshes, valid / mixed windings / inside out / face removed / face duplicated / third face on an edge / two components / torus / reordered / unused node; Poisson: 5-600 candidate points (clusters, box corners) in boxes of 1.5-6 voxels per axis at three placements and two scales; start-up: cubes, boxes, prisms, L-shaped prisms, ellipsoids, polygonal or triangulated, outward / inward / mixed windings, l_min/size 0.06-0.5, triangulation on/off, 1-2 cells, wrapped clock seeds; non-trivial = start-ups that returned cells")
    ok = ck.proofs()
    impl = vlib.build_driver("init", wrap_clock=True)
    model = vlib.ocaml_model()
    rng = random.Random(ck.seed * 6007 + 13)
    fails = []; broken = []; dist = {}
    gates = [gen_gate(rng) for _ in range(ngate)]
    pdss = [gen_pds(rng) for _ in range(npds)]
    lines = [g[0] for g in gates] + [p[0] for p in pdss]
    outs, crashes = vlib.run_lines_resilient([impl], lines, timeout=1800, env={"OMP_NUM_THREADS": "1"})
    for i, info in crashes[:2]:
        fails.append(("stage_completes", dict(input=lines[i][:20000]), "the gate / sampling driver died: " + info[-300:]))
    mo = vlib.run([model, "init"], input="\n".join(lines) + "\n", check=True, timeout=1800).stdout.strip().split("\n")
    nst = 0
    for k, (l, o, m) in enumerate(zip(lines, outs, mo)):
        if o is None:
            continue
        nst += 1
        if l.startswith("GATE"):
            mut = gates[k][1]
            dist["gate/" + mut] = dist.get("gate/" + mut, 0) + 1
            acc_i = o.startswith("ACCEPT"); acc_m = m.startswith("ACCEPT")
            if acc_i:
                body, tail = o.split(" | ")
                valid, sv = tail.split()[0] == "1", unhx(tail.split()[1])
                if not valid or not sv > 0:
                    fails.append(("gate_never_accepts_an_invalid_or_inside_out_cell", dict(input=l[:20000], mutation=mut), "initialize_cell_properties accepted a %s mesh whose surface is %s (signed volume %r)" % (mut, "valid" if valid else "NOT a closed oriented manifold", sv)))
            if mut in ("valid", "mixed_windings", "inside_out", "reordered", "unused_node") and not acc_i:
                fails.append(("gate_accepts_closed_meshes_whatever_the_windings", dict(input=l[:20000], mutation=mut), "a closed genus-0 mesh (%s) was rejected: %s" % (mut, o[:120])))
            if acc_i != acc_m:
                broken.append((l, "gate verdict differs on a %s mesh: implementation %s, model %s" % (mut, o[:60], m[:60])))
            elif acc_i and o.split(" | ")[0].split()[1:] != m.split()[1:]:
                broken.append((l, "windings after the orientation repair differ on a %s mesh" % mut))
        else:
            _, lmin, pts = pdss[k - len(gates)]
            ids_i = [int(x) for x in o.split()[2:]] if o.startswith("CLOUD") else None
            ids_m = [int(x) for x in m.split()[2:]] if m.startswith("CLOUD") else None
            if ids_i is None:
                fails.append(("sampling_completes", dict(input=l[:20000]), "poisson_disk_sampling failed: " + o[:100])); continue
            # oracle: pairwise spacing
            bad = None
            for a in range(len(ids_i)):
                for b in range(a + 1, len(ids_i)):
                    if math.dist(pts[ids_i[a]], pts[ids_i[b]]) < lmin * (1 - 1e-12):
                        bad = (ids_i[a], ids_i[b], math.dist(pts[ids_i[a]], pts[ids_i[b]]) / lmin); break
                if bad:
                    break
            if bad:
                fails.append(("sampled_points_pairwise_lmin_apart", dict(input=l[:20000]), "points %d and %d of the Poisson cloud are %.4f l_min apart" % bad))
            # the model's points carry no id (the driver names a point by the first input point at that position): compare positions
            first = {}
            for j_, q_ in enumerate(pts):
                first.setdefault(tuple(q_), j_)
            if [first[tuple(pts[a])] for a in ids_i] != ids_m:
                broken.append((l, "Poisson cloud differs: implementation %s..., model %s..." % (ids_i[:12], (ids_m or [])[:12])))
    # ---- the real start-up
    # every surface the gate must refuse is presented once without reconstruction (all retries then fail in the acceptance step)
    import glob
    corpus = [json.load(open(f))["case"] for f in sorted(glob.glob(os.path.join(vlib.VERIF, "corpus", "C13", "*.json")))]   # earlier failures run first
    cases = corpus + [gen_ini(rng, force=sh) for sh in ("two_tetra_one_vertex", "torus", "open_box", "fin_on_edge")] + [gen_ini(rng, force="tetra") for _ in range(8 if ck.tier == "quick" else 60)] + [gen_ini(rng) for _ in range(nini)]
    from concurrent.futures import ThreadPoolExecutor
    def one(c):
        try:
            p = vlib.run([impl], input=c["line"] + "\n", timeout=1500, env={"OMP_NUM_THREADS": "1"})
            return p.returncode, p.stdout, p.stderr[-500:]
        except Exception as e:
            return -999, "", str(e)
    with ThreadPoolExecutor(vlib.NJOBS) as ex:
        res = list(ex.map(one, cases))
    # ---- two start-ups in ONE process (as a session that builds several simulations does): a single cell of one shape, then a single
    # cell of another shape under the same cell id; the second reconstruction is judged like any other (own stream)
    rng_s = random.Random(ck.seed * 6007 + 14)
    def fine(shape):
        while True:
            c_ = gen_ini(rng_s, force=shape, nc=1)
            if c_["tri"] == 1 and c_["ratio"] <= 0.2 and c_["wind"] != "mixed":
                return c_
    pairs = [(fine(a_), fine(b_)) for a_, b_ in ([("cube", "ellipsoid"), ("ellipsoid", "box"), ("prism", "cube"), ("box", "prism")] * (1 if ck.tier == "quick" else 6))]
    def two(pr):
        try:
            p = vlib.run([impl], input=pr[0]["line"] + "\n" + pr[1]["line"] + "\n", timeout=1500, env={"OMP_NUM_THREADS": "1"})
            ls_ = p.stdout.strip().split("\n")
            return p.returncode, (ls_[1] if len(ls_) >= 2 else ""), p.stderr[-500:]
        except Exception as e:
            return -999, "", str(e)
    with ThreadPoolExecutor(vlib.NJOBS) as ex:
        res2 = list(ex.map(two, pairs))
    for (a_, b_), r_ in zip(pairs, res2):
        cases.append(dict(b_, line=a_["line"] + "\n" + b_["line"], shape=b_["shape"] + " (second start-up of the process, after a " + a_["shape"] + ")")); res.append(r_)
    nret = 0; voldev = []; bbdev = []; outcomes = {}
    for c, (rc, out, err) in zip(cases, res):
        key = "%s/%s/%s" % (c["shape"], c["wind"], "tri" if c["tri"] else "notri")
        dist["startup/" + key] = dist.get("startup/" + key, 0) + 1
        if rc != 0 or not (out.startswith("CELLS") or out.startswith("EXC")):
            fails.append(("startup_returns_cells_or_throws_initialization_exception", dict(input=c["line"][:50000], shape=c["shape"], windings=c["wind"]), "start-up on a %s (%s windings, l_min/size %.2f) died or timed out (exit %s): %s %s" % (c["shape"], c["wind"], c["ratio"], rc, out[:100], err[-200:].replace("\n", " "))))
            continue
        if out.startswith("EXC"):
            outcomes[out.split()[1]] = outcomes.get(out.split()[1], 0) + 1
            if out.split()[1] != "initialization":
                fails.append(("failure_is_reported_by_initialization_exception", dict(input=c["line"][:50000]), "start-up failed with another exception: " + out[:200]))
            continue
        outcomes["cells"] = outcomes.get("cells", 0) + 1
        nret += 1
        t = out.split(); i = 2
        for _ in range(int(t[1])):
            assert t[i] == "C"
            valid = t[i + 1] == "1"; sv = unhx(t[i + 2]); vol = unhx(t[i + 3]); nn = int(t[i + 4]); nf = int(t[i + 5]); bb = [unhx(x) for x in t[i + 6:i + 12]]; mn = unhx(t[i + 12]); i += 13
            if not valid:
                fails.append(("returned_cell_is_closed_oriented_manifold", dict(input=c["line"][:50000]), "a %s (%s windings, triangulation %s) was handed on as a surface that is not a closed consistently oriented manifold with Euler characteristic 2" % (c["shape"], c["wind"], "on" if c["tri"] else "off"))); break
            scale = c["size"] ** 3
            if abs(sv) < 1e-9 * scale:
                # a closed surface with (numerically) zero enclosed volume: two coincident sheets
                coarse = c["ratio"] >= 0.35
                fails.append(("returned_cell_has_zero_volume_at_coarse_resolution" if coarse else "returned_cell_has_zero_volume", dict(input=c["line"][:50000], lmin_over_size=c["ratio"]),
                              "a %s (%s windings, l_min/size %.2f) was reconstructed as a closed surface of %d nodes with zero enclosed volume (%.1e of the cell size cubed)" % (c["shape"], c["wind"], c["ratio"], nn, abs(sv) / scale))); break
            if not sv > 0:
                fails.append(("returned_cell_is_oriented_outward", dict(input=c["line"][:50000]), "a %s (%s windings) was handed on inside out (signed volume %r)" % (c["shape"], c["wind"], sv))); break
            # bounding box: every node of the reconstruction lies on (or, after the hole filling, within a couple of l_min of) the
            # input surface, so its box cannot stick out of the input's box by more than that
            if c["ratio"] <= 0.2 and not c.get("rejected"):
                off = [c["lo"][k] + (0.0) for k in range(3)]
                # the driver writes the cells of a case side by side along x (4 sizes apart): compare y and z, and x for single cells
                axes = (0, 1, 2) if c["nc"] == 1 else (1, 2)
                over = max([c["lo"][k] - bb[k] for k in axes] + [bb[3 + k] - c["hi"][k] for k in axes])
                bbdev.append(over / c["lmin"])
                if over > 3.0 * c["lmin"]:
                    fails.append(("returned_cell_approximates_the_input", dict(input=c["line"][:50000], lmin_over_size=c["ratio"]), "the bounding box of the reconstructed %s sticks out of the input's by %.1f l_min (l_min/size %.2f)" % (c["shape"], over / c["lmin"], c["ratio"]))); break
            if c["wind"] != "mixed" and c["vol"] > 0:
                dv = abs(vol - c["vol"]) / c["vol"]; voldev.append((c["ratio"], dv))
                if dv > 0.5 and c["ratio"] <= 0.2:
                    fails.append(("returned_cell_approximates_the_input", dict(input=c["line"][:50000]), "volume of the reconstructed %s differs by %.0f %% from the input (l_min/size %.2f)" % (c["shape"], dv * 100, c["ratio"]))); break
    ck.cov["evaluations"] = nst + len(cases)
    ck.cov["distinct_nontrivial"] = nret
    ck.cov["traces_validated_against_impl"] = nst - len(broken)
    ck.notes["input_distribution"] = dict(sorted(dist.items()))
    ck.notes["startup_outcomes"] = outcomes
    ck.notes["bounding_box_overshoot_in_lmin (max)"] = max(bbdev) if bbdev else None
    by = {}
    for r, d in voldev:
        by.setdefault(r, []).append(d)
    ck.notes["relative_volume_deviation_by_lmin_over_size (max)"] = {str(r): max(v) for r, v in sorted(by.items())}
    ck.sample(dict(shape=cases[0]["shape"], windings=cases[0]["wind"], lmin_over_size=cases[0]["ratio"]), limit=1)
    seen = set()
    for key, case, what in fails:
        if key in seen:
            continue
        seen.add(key)
        ck.report(case, oracle=key, key="init:" + key, what=what)
    if not ck.violations:
        if not ok:
            ck.report(dict(log=ck.proof_res["log"][-3000:]), unchecked="Properties_C13.vo", what="proof obligations of C13 no longer check")
        if broken:
            l, d = broken[0]
            ck.report(dict(input=l[:20000], difference=d, n_disagreements=len(broken)), unchecked="correspondence Init.v = initialize_cell_properties / poisson_disk_sampling", what="model and implementation disagree on %d cases (%s)" % (len(broken), d))
    ck.cov["trusted_base"] = vlib.TRUSTED_BASE_COMMON + ["the sampling RNG is seeded through the wrapped clock; uniform sampling, ball pivoting and hole filling are not modelled"]
    ck.assumptions = ["fidelity is measured (volume deviation per l_min/size in the evidence); the verdict only fires above 50 % volume deviation at l_min/size <= 0.2, since no code enforces fidelity"]


def replay(ck, path):
    j = json.load(open(path))
    impl = vlib.build_driver("init", wrap_clock=True)
    r = vlib.run([impl], input=j["case"]["input"] + "\n", timeout=1500, env={"OMP_NUM_THREADS": "1"})
    print(r.stdout[:1500]); print(r.stderr[-1000:])
    return 0 if r.returncode == 0 else 1
