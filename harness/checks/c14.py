"""C14 — simulation results do not depend on where the tissue is placed in space.  (partial: see level_note)
proof:          coq/Properties_C14.v: one translation-equivariance theorem per phase model (time integration, contact
                phase incl. the grid, remeshing trace and its guards, point-triangle kernel, internal forces, volume,
                area) and the composition principle; the phases are not composed into one transcribed iteration
correspondence: each phase model is tied to the code by the check of its own property (C02, C03, C05, C06/C07, C11,
                C12: all include placements far from the origin); nothing further is run against a model here
oracle:         twin runs of the real solver: the same tissue, seeds and parameters at the origin and translated
                (small, large, across the origin, across voxel boundaries, exactly representable and arbitrary vectors),
                10-40 iterations incl. refinement, contacts, couplings, growth and division: identical population,
                ids and mesh connectivity, positions equal to the translated reference positions, volumes, target
                volumes and pressures equal, within a tolerance scaled by the conditioning of the absolute-coordinate
                volume formula."""
import random, json, math
import vlib, tissue
from vlib import hx, unhx
from checks.c08 import std_types, parse_out, R

LEVEL = "proof"


SCENARIOS = ["divide", "adhering", "divide", "overlap", "mixed", "single", "divide", "adhering", "overlap", "divide"]


def gen_case(rng, tag, scen=None, origin_node=False):
    lvl = rng.choice([1, 2, 2])
    n0, f = tissue.icosphere(lvl)
    # ellipsoids with three distinct semi-axes: the division axis (longest axis of the node cloud) is then unique and
    # well conditioned; on a sphere it is decided by rounding noise and the twin runs would differ legitimately
    ax = (1.0, 0.82, 0.68)
    n0 = [[p[0] * ax[0], p[1] * ax[1], p[2] * ax[2]] for p in n0]
    # generic position: the icosphere has nodes exactly on its symmetry planes, and a division plane that passes through
    # nodes makes the division fail (cleanly); a small perturbation removes the coincidence
    n0 = tissue.perturb(rng, n0, 0.04 * tissue.mean_edge(n0, f))
    V = abs(tissue.signed_volume([[x * R for x in p] for p in n0], f))
    scen = scen or rng.choice(["single", "adhering", "adhering", "overlap", "divide", "divide", "mixed"])
    nc = 1 if scen == "single" else rng.choice([2, 2, 3, 4])
    roles = ["normal"] * nc
    if scen == "divide":
        roles[rng.randrange(nc)] = "divide0"
    if scen == "mixed":
        roles = [rng.choice(["normal", "lumen", "divide0"]) for _ in range(nc)]
    cts = std_types(V, roles, [3] * nc)
    for ct in cts:
        ct["avggr"] = rng.choice([0.0, V * 2e3, V * 1e4])            # growth over the horizon
        # every force term switched on in some twins (the shipped parameter files leave angle regularisation and bending at 0)
        ct["angreg"] = rng.choice([0.0, 2e-15, 1e-14])
        if rng.random() < 0.4:
            for ft in ct["fts"]:
                ft["bend"] = rng.choice([1e-18, 4e-18])
    gap = {"single": 3.0, "adhering": rng.choice([2.02, 2.08]), "overlap": rng.choice([1.8, 1.95]), "divide": rng.choice([2.05, 2.6]), "mixed": rng.choice([1.95, 2.05, 2.3])}[scen]
    cells = []
    for i in range(nc):
        M = tissue.rnd_rot(rng) if scen in ("single", "divide") and gap > 2.3 else None
        pos = ((i % 2) * gap * R, ((i // 2) % 2) * gap * R * 0.82, 0.0)
        cells.append((i, tissue.transform(n0, M, pos, (R, R, R)), f))
    niter = rng.choice([10, 16, 26, 40])
    lmin = 7.5e-7 if lvl == 2 else 1.5e-6
    p = tissue.params(dt=1e-7, damping=5e-10, T=1.0, S=1.0, lmin=lmin, cut_adh=5e-7, cut_rep=5e-7, swap=rng.choice([0, 1]))
    seed = rng.randrange(10 ** 6)
    vox = lmin * 3 + 2 * 5e-7
    ts = [(0.0, 0.0, 0.0)]
    kinds = ["reference"]
    choices = [("tiny", tuple(rng.uniform(-1, 1) * 1e-3 * R for _ in range(3))),
               ("dyadic", tuple(rng.choice([-1, 1]) * 2.0 ** rng.choice([-20, -18, -16]) for _ in range(3))),
               ("voxel_fraction", tuple(rng.uniform(0.1, 0.9) * vox for _ in range(3))),
               ("across_origin", (-gap * R * 0.5 - 0.3 * R, -0.4 * R, 0.25 * R)),
               ("cells_10", tuple(rng.uniform(-10, 10) * R for _ in range(3))),
               ("cells_100", tuple(rng.choice([-1, 1]) * rng.uniform(30, 100) * R for _ in range(3)))]
    picked = rng.sample(choices, 3)
    if scen in ("divide", "mixed") and not any(k.startswith("cells_") for k, _ in picked):
        picked[0] = choices[rng.choice([4, 5])]          # a dividing tissue is always also run several cell sizes away
    if scen in ("overlap", "mixed") and nc >= 2 and (origin_node or rng.random() < 0.75):
        # a node of the contact zone placed exactly on the origin (and the twin far away): whatever enters a contact decision as an
        # absolute coordinate instead of a difference is invisible when both placements are far from the origin
        c1c = [sum(q[k] for q in cells[1][1]) / len(cells[1][1]) for k in range(3)]; c0c = [sum(q[k] for q in cells[0][1]) / len(cells[0][1]) for k in range(3)]
        near0 = sorted(cells[0][1], key=lambda q: sum((q[k] - c1c[k]) ** 2 for k in range(3)))[:6]
        near1 = sorted(cells[1][1], key=lambda q: sum((q[k] - c0c[k]) ** 2 for k in range(3)))[:6]
        q0 = rng.choice(near0 + near1)
        ts[0] = tuple(-x for x in q0); kinds[0] = "reference(contact node on the origin)"
        picked = [("cells_10_from_origin_node", tuple(-q0[k] + rng.uniform(-10, 10) * R for k in range(3))), ("dyadic_from_origin_node", tuple(-q0[k] + rng.choice([-1, 1]) * 2.0 ** -16 for k in range(3))),
                  ("cells_100_from_origin_node", tuple(-q0[k] + rng.choice([-1, 1]) * rng.uniform(30, 100) * R for k in range(3)))]
    if origin_node:
        picked = picked[:1]
    for k, t in picked:
        ts.append(t); kinds.append(k)
    lines = []
    for t in ts:
        cs = [(i, [[q[k] + t[k] for k in range(3)] for q in n], f_) for i, n, f_ in cells]
        lines.append(tissue.fmt_tissue(p, cts, cs) + " RUN %d 1 %d 1 %s 0" % (niter, seed, tag))
    ts = [tuple(t[k] - ts[0][k] for k in range(3)) for t in ts]        # relative to the reference placement
    return dict(lines=lines, ts=ts, kinds=kinds, scen=scen, niter=niter, nc=nc, level=lvl)


def parse_geo(geo):
    t = [x for x in geo.split() if x != "#"]
    i = 1; cells = {}
    while i < len(t):
        if t[i] != "C":
            raise ValueError("geometry dump not understood at token %d: %s" % (i, t[max(0, i - 3):i + 4]))
        cid = int(t[i + 1]); nn = int(t[i + 2]); i += 3
        nodes = []
        for _ in range(nn):
            nodes.append((int(t[i]), unhx(t[i + 1]), unhx(t[i + 2]), unhx(t[i + 3]))); i += 4
        nf = int(t[i]); i += 1
        faces = [tuple(int(x) for x in t[i + 3 * k:i + 3 * k + 3]) for k in range(nf)]; i += 3 * nf
        cells[cid] = (nodes, faces)
    return cells


def compare(ref, run, t, kind):
    """ref, run: parsed iteration lists; returns None or (key, description)"""
    dist = math.sqrt(sum(x * x for x in t)) / R
    # relative accuracy the absolute-coordinate formulas can keep at this distance (cancellation), plus accumulated rounding
    rel = max(1e-9, 50 * (1 + dist) ** 3 * 2.2e-16)
    if len(ref) != len(run):
        return ("same_number_of_iterations", "%d vs %d iterations completed" % (len(ref), len(run)))
    # the daughters of a division touch along their common interface with exactly coincident nodes: which of them couple
    # is a tie that rounding noise decides, and the stiff transient that follows amplifies it.  Continuous quantities are
    # therefore compared up to and including the iteration of the first division (the daughters themselves included);
    # afterwards only the population (ids, classes) is compared.
    n0 = len(ref[0]["cells"]) if ref and "cells" in ref[0] else 0
    kdiv = None
    for k, a in enumerate(ref):
        if "cells" in a and len(a["cells"]) != n0:
            kdiv = k; break
    for k, (a, b) in enumerate(zip(ref, run)):
        if ("exc" in a) != ("exc" in b):
            return ("same_outcome", "iteration %d: reference %s, translated %s" % (k, a.get("exc", "ok")[:80], b.get("exc", "ok")[:80]))
        if "exc" in a:
            break
        ia = [(c["id"], c["cls"]) for c in a["cells"]]; ib = [(c["id"], c["cls"]) for c in b["cells"]]
        if ia != ib:
            return ("same_population", "iteration %d: cells %s vs %s" % (a["it"], ia, ib))
        if kdiv is not None and k > kdiv:
            continue
        at_div = kdiv is not None and k == kdiv
        for ca, cb in zip(a["cells"], b["cells"]):
            if (ca["nlive"], ca["nfaces"]) != (cb["nlive"], cb["nfaces"]):
                return ("same_connectivity", "iteration %d cell %d: %d nodes %d faces vs %d nodes %d faces" % (a["it"], ca["id"], ca["nlive"], ca["nfaces"], cb["nlive"], cb["nfaces"]))
            for q in ("V", "Vt", "P"):
                x, y = ca[q], cb[q]
                scale = abs(x) if q != "P" else max(abs(x), 2.5e3 * rel * 10)
                if at_div and q == "P":
                    continue
                if abs(x - y) > max(rel * 1e3 * scale, 1e-300) and not (q == "P" and abs(x - y) <= 2.5e3 * rel * 1e3):
                    return ("same_" + {"V": "volumes", "Vt": "target_volumes", "P": "pressures"}[q], "iteration %d cell %d: %s = %r vs %r" % (a["it"], ca["id"], q, x, y))
        if a.get("geo") and b.get("geo") and not at_div:
            ga = parse_geo(a["geo"]); gb = parse_geo(b["geo"])
            for cid in ga:
                na, fa = ga[cid]; nb, fb = gb[cid]
                if fa != fb or [u[0] for u in na] != [u[0] for u in nb]:
                    return ("same_connectivity", "iteration %d cell %d: the triangle lists differ" % (a["it"], cid))
                tol = 1e-5 * R + rel * 1e2 * R
                for (u, x, y, z), (u2, x2, y2, z2) in zip(na, nb):
                    if u and (abs(x2 - (x + t[0])) > tol or abs(y2 - (y + t[1])) > tol or abs(z2 - (z + t[2])) > tol):
                        return ("positions_translate", "iteration %d cell %d: a node sits %.3e cell sizes away from the translated reference position (translation %s)" % (
                            a["it"], cid, max(abs(x2 - x - t[0]), abs(y2 - y - t[1]), abs(z2 - z - t[2])) / R, kind))
    return None


def run(ck):
    ncase = 10 if ck.tier == "quick" else 150
    ck.cov["rule"] = ("tissues of 1-4 icosphere cells (single, adhering, overlapping, dividing at iteration 0/5, mixed classes, growing) run by the real solver for 10-40 iterations (refinement with and without edge swaps, contacts and couplings, growth, division) at the reference placement and at three translated placements drawn from: 1e-3 cell sizes, dyadic vectors, fractions of a voxel, across the origin, 10 and 30-100 cell sizes; single thread, wrapped clock; non-trivial = twin pairs in which a division or a coupling happened")
    ok = ck.proofs()
    impl = vlib.build_driver("solver", wrap_clock=True)
    rng = random.Random(ck.seed * 3571 + 14)
    cases = [gen_case(rng, "c14_%d" % i, SCENARIOS[i % len(SCENARIOS)]) for i in range(ncase)]
    # interpenetrating cells with a node of the contact zone exactly on the origin, each against one twin some cell sizes away (own stream)
    rng_o = random.Random(ck.seed * 3571 + 15)
    cases += [gen_case(rng_o, "c14_o%d" % i, "overlap", origin_node=True) for i in range(10 if ck.tier == "quick" else 60)]
    jobs = [(ci, k, l) for ci, c in enumerate(cases) for k, l in enumerate(c["lines"])]
    from concurrent.futures import ThreadPoolExecutor
    def one(j):
        try:
            p = vlib.run([impl], input=j[2] + "\n", timeout=1200, env={"OMP_NUM_THREADS": "1"})
            return p.returncode, p.stdout, p.stderr[-500:]
        except Exception as e:
            return -999, "", str(e)
    with ThreadPoolExecutor(vlib.NJOBS) as ex:
        res = list(ex.map(one, jobs))
    # ---- one contact phase on adhering tissues placed 1e6 and 1e7 cell sizes from the origin (5 m and 50 m for 5 um cells; no volume
    # formula is involved in a single phase): the couplings and forces obey the ranges judged on the dumped positions themselves.
    # A contact decision computed from absolute coordinates instead of differences loses every digit there.
    far_fails = []; nfar = 0
    try:
        import importlib, contact_common as cc_
        c07_ = importlib.import_module("checks.c07")
        rng_f = random.Random(ck.seed * 3571 + 16); fcases = []
        for k_ in range(8 if ck.tier == "quick" else 80):
            lvl_ = rng_f.choice([1, 2]); edge_ = 2 * cc_.R * math.sin(math.radians(31.7)) / (2 ** lvl_); cut_ = edge_ * rng_f.choice([0.5, 1.0])
            nc_ = rng_f.choice([2, 3]); gap_ = rng_f.choice([0.2, 0.5, 0.9]) * cut_
            far_ = rng_f.choice([1e6, 1e7]) * cc_.R
            sh_ = (far_ * rng_f.choice([-1, 1]), far_ * rng_f.choice([-2, 1.5]), far_ * rng_f.choice([-1, 0.5]))
            cells0_ = [cc_.sphere(lvl_, cc_.R, (i_ * (2 * cc_.R + gap_), 0.0, 0.0), rng_f) for i_ in range(nc_)]
            cells_ = [([[q_[k] + sh_[k] for k in range(3)] for q_ in n_], f_) for n_, f_ in cells0_]
            base_ = dict(kind="far", place="far", classes=[0] * nc_, lmin=edge_ * 0.8, cut_adh=cut_, cut_rep=cut_, ids=list(range(nc_)), level=lvl_, shift=sh_)
            fcases.append(dict(base_, cells=cells0_, shift=(0.0, 0.0, 0.0))); fcases.append(dict(base_, cells=cells_))
        # (a short time limit: a range of voxels computed from an absolute coordinate makes the phase walk kilometres of grid)
        fimpl_ = vlib.build_driver("contact", contact=1)
        fouts, _fcr = vlib.run_lines_resilient([fimpl_], [cc_.case_line(c_) for c_ in fcases], timeout=90, env={"OMP_NUM_THREADS": "1"}, max_crashes=2)
        for bad_, info_ in _fcr[:1]:
            far_fails.append((fcases[bad_], "contact_phase_completes_wherever_the_tissue_is_placed (%s)" % info_[-160:].replace("\n", " ")))
        ncpl_ref = None
        for k_, (c_, o_) in enumerate(zip(fcases, fouts)):
            if o_ is None or o_.startswith("FATAL"):
                ncpl_ref = None; continue
            sec_ = o_.split(" # "); st_ = cc_.parse_state(sec_[3])
            ncpl_ = sum(1 for cell_ in st_ for nd_ in cell_ if nd_[2]); nfrc_ = sum(1 for cell_ in st_ for nd_ in cell_ if any(nd_[1]))
            if k_ % 2 == 0:
                ncpl_ref = (ncpl_, nfrc_); continue
            nfar += 1
            f_ = c07_.oracle(c_, cc_.parse_in(sec_[1]), st_)
            if f_:
                far_fails.append((c_, f_))
        # ---- facing cubes on a dyadic lattice (exact ties between candidate partners) at the origin and translated by dyadic vectors:
        # every coordinate and every difference is exact in both placements, so the phase must take the SAME decisions (and produce the same
        # forces up to the rounding of the closest point, which is rebuilt in absolute coordinates); a decision computed from absolute coordinates rounds differently in the two placements and breaks ties
        # differently
        rng_l = random.Random(ck.seed * 3571 + 17); lcases = []
        for k_ in range(12 if ck.tier == "quick" else 150):
            c0_ = cc_.gen_lattice_pair(rng_l, tie_two=(k_ % 2 == 0))
            sh_ = tuple(rng_l.choice([-1, 1]) * rng_l.choice([512.0, 1024.0, 4096.0]) for _ in range(3))       # 13 + 4 fractional bits: cubes of coordinates (the volume formula) are still exact
            c1_ = dict(c0_, cells=[([[q_[k] + sh_[k] for k in range(3)] for q_ in n_], f_) for n_, f_ in c0_["cells"]], shift=sh_)
            lcases += [dict(c0_, shift=(0.0, 0.0, 0.0)), c1_]
        louts, _lcr = cc_.run_cases(lcases, contact=1, san=False)
        for k_ in range(0, len(lcases), 2):
            o0_, o1_ = louts[k_], louts[k_ + 1]
            if not o0_ or not o1_ or o0_.startswith("FATAL") or o1_.startswith("FATAL"):
                continue
            nfar += 1
            s0_ = cc_.parse_state(o0_.split(" # ")[3]); s1_ = cc_.parse_state(o1_.split(" # ")[3]); sh_ = lcases[k_ + 1]["shift"]
            d_ = None
            for ci_, (ca_, cb_) in enumerate(zip(s0_, s1_)):
                for ni_, (na_, nb_) in enumerate(zip(ca_, cb_)):
                    if na_[2] != nb_[2]:
                        d_ = "node %d of cell %d is coupled to %s at the origin and to %s after the translation" % (ni_, ci_, na_[2], nb_[2]); break
                    # (the closest point is rebuilt from barycentric coordinates in absolute coordinates: forces agree up to rounding)
                    fm_ = max(max(abs(x) for x in na_[1]), max(abs(x) for x in nb_[1]))
                    if max(abs(x) for x in sh_) <= 2.0 ** 20 and any(abs(x - y) > 1e-7 * fm_ for x, y in zip(na_[1], nb_[1])):
                        d_ = "node %d of cell %d receives the force %s at the origin and %s after the translation" % (ni_, ci_, na_[1], nb_[1]); break
                if d_:
                    break
            if d_:
                far_fails.append((lcases[k_ + 1], "contact_decisions_follow_the_geometry (dyadic lattice translated by %s: %s)" % (list(sh_), d_)))
    except vlib.BuildError as e:
        ck.notes["contact_phases_far_from_the_origin"] = "driver build failed: " + str(e)[-200:]
    ck.notes["contact_phases_far_from_the_origin"] = nfar
    byc = {}
    for (ci, k, l), r in zip(jobs, res):
        byc.setdefault(ci, {})[k] = r
    fails = []; nontriv = 0; npairs = 0; dist = {}; ndivided = 0
    for ci, c in enumerate(cases):
        rc0, out0, err0 = byc[ci][0]
        ref = parse_out(out0) if out0 else []
        if rc0 != 0 or not ref:
            continue          # the reference run itself died: other properties judge that
        divided = any(len(it.get("cells", [])) != c["nc"] for it in ref if "cells" in it)
        happened = divided or any(it.get("ncpl", 0) > 0 for it in ref if "cells" in it)
        ndivided += 1 if divided else 0
        for k in range(1, len(c["lines"])):
            rc, out, err = byc[ci][k]
            npairs += 1
            dist[c["kinds"][k]] = dist.get(c["kinds"][k], 0) + 1
            if happened:
                nontriv += 1
            if rc != 0:
                fails.append((ci, k, "same_outcome", "the translated run (%s) died with exit status %s while the reference run completed: %s" % (c["kinds"][k], rc, err[-200:].replace("\n", " "))))
                continue
            d = compare(ref, parse_out(out), c["ts"][k], c["kinds"][k])
            if d:
                fails.append((ci, k, d[0], "%s tissue, translation %s: %s" % (c["scen"], c["kinds"][k], d[1])))
    ck.cov["evaluations"] = npairs
    ck.cov["distinct_nontrivial"] = nontriv
    ck.cov["traces_validated_against_impl"] = 0
    ck.notes["translations"] = dist
    ck.notes["tissues_in_which_a_division_happened"] = ndivided
    ck.notes["phase_models_tied_by"] = "C02 (forces), C03 (integrator), C05 (kernel), C06/C07 (contact), C11 (remeshing trace), C12 (volume, area)"
    ck.sample(dict(scenario=cases[0]["scen"], iterations=cases[0]["niter"], translations=cases[0]["kinds"]), limit=1)
    seen = set()
    for ci, k, key, what in fails:
        if key in seen:
            continue
        seen.add(key)
        ck.report(dict(reference=cases[ci]["lines"][0], translated=cases[ci]["lines"][k], translation=cases[ci]["ts"][k], kind=cases[ci]["kinds"][k]), oracle=key, key="placement:" + key, what=what)
    for c_, f_ in far_fails[:1]:
        ck.report(dict(input=cc_.case_line(c_), placement=list(c_["shift"]), kind="contact phase far from the origin"), oracle="contact_decisions_follow_the_geometry_wherever_it_is_placed",
                  key="placement:far:" + f_.split(" ")[0], what="a tissue placed %.0e cell sizes from the origin: %s" % (max(abs(x) for x in c_["shift"]) / cc_.R, f_))
    if not ck.violations and not ok:
        ck.report(dict(log=ck.proof_res["log"][-3000:]), unchecked="Properties_C14.vo", what="proof obligations of C14 no longer check")
    ck.cov["trusted_base"] = vlib.TRUSTED_BASE_COMMON
    ck.assumptions = ["translations up to 100 cell sizes: beyond that the absolute-coordinate signed-volume formula loses (distance/size)^3*eps and the comparison tolerance would hide real differences",
                      "tolerance: positions 1e-5 cell sizes + conditioning term; volumes/pressures relative 1e-6 at the origin, scaled by (1+distance/size)^3"]


def replay(ck, path):
    j = json.load(open(path))
    if "input" in j["case"]:
        import importlib; c07_ = importlib.import_module("checks.c07")
        return c07_.replay(ck, path)
    impl = vlib.build_driver("solver", wrap_clock=True)
    a = vlib.run([impl], input=j["case"]["reference"] + "\n", timeout=1200, env={"OMP_NUM_THREADS": "1"}).stdout
    b = vlib.run([impl], input=j["case"]["translated"] + "\n", timeout=1200, env={"OMP_NUM_THREADS": "1"}).stdout
    d = compare(parse_out(a), parse_out(b), j["case"]["translation"], j["case"]["kind"])
    print("twin runs:", d)
    return 1 if d else 0
