"""C05 — point-to-triangle kernel returns the true closest point.
proof:          coq/Properties_C05.v (model Kernel.v at R)
correspondence: Kernel.v at binary64 (extracted) vs contact_model_abstract::compute_node_triangle_distance, bit-exact
oracle/search:  exact rational closest-point computation + barycentric checks + equivariance twins, on the
                implementation's outputs."""
import re
import random, math, json, itertools
from fractions import Fraction as Fr
import vlib
from vlib import hx, unhx

LEVEL = "proof"


# ---------------------------------------------------------------- exact oracle (independent algorithm)
def fdot(a, b):
    return a[0] * b[0] + a[1] * b[1] + a[2] * b[2]


def fsub(a, b):
    return (a[0] - b[0], a[1] - b[1], a[2] - b[2])


def seg_dist2(p, a, b):
    ab = fsub(b, a); ap = fsub(p, a)
    den = fdot(ab, ab)
    if den == 0:
        return fdot(ap, ap)
    t = fdot(ab, ap) / den
    t = max(Fr(0), min(Fr(1), t))
    q = (a[0] + ab[0] * t, a[1] + ab[1] * t, a[2] + ab[2] * t)
    d = fsub(p, q)
    return fdot(d, d)


def exact_dist2(p, a, b, c):
    """exact squared distance from p to triangle abc (rational arithmetic; projection + 3 segments)"""
    p, a, b, c = [tuple(Fr(x) for x in v) for v in (p, a, b, c)]
    best = min(seg_dist2(p, a, b), seg_dist2(p, b, c), seg_dist2(p, c, a))
    B = fsub(b, a); C = fsub(c, a); P = fsub(p, a)
    g11 = fdot(B, B); g12 = fdot(B, C); g22 = fdot(C, C); d1 = fdot(B, P); d2 = fdot(C, P)
    D = g11 * g22 - g12 * g12
    if D > 0:
        s = (g22 * d1 - g12 * d2) / D
        t = (g11 * d2 - g12 * d1) / D
        if s >= 0 and t >= 0 and s + t <= 1:
            q = tuple(a[i] + B[i] * s + C[i] * t for i in range(3))
            d = fsub(p, q)
            best = min(best, fdot(d, d))
    return best, D


def mag2(*vs):
    return sum(x * x for v in vs for x in v)


def oracle(case, out):
    """property C05 on the implementation's output for one case; returns None or a failure name"""
    p, a, b, c = case
    dist, u, v, w = out
    ex, D = exact_dist2(p, a, b, c)
    scale = mag2(p, a, b, c)
    # conditioning: the triangle must be non-degenerate enough for a float kernel to be judged
    g = mag2(fsub(b, a)) * mag2(fsub(c, a))
    if not (float(D) > 1e-6 * g):
        return None
    if not all(math.isfinite(x) for x in (dist, u, v, w)):
        return "non-finite result"
    tol = 1e-9 * scale + 1e-300
    if min(u, v, w) < -1e-9:
        return "bary_nonneg"
    if abs(u + v + w - 1.0) > 1e-9:
        return "bary_sum_one"
    q = tuple(Fr(u) * Fr(a[i]) + Fr(v) * Fr(b[i]) + Fr(w) * Fr(c[i]) for i in range(3))
    dq = fsub(tuple(Fr(x) for x in p), q)
    dq2 = float(fdot(dq, dq))
    if abs(dq2 - dist) > tol + 1e-7 * abs(dist):
        return "dist_is_dist_to_bary_point"
    if abs(float(ex) - dist) > tol + 1e-7 * abs(dist):
        return "kernel_closest"
    return None


# ---------------------------------------------------------------- generator
SIGNED_PERMS = []
for perm in itertools.permutations(range(3)):
    for sg in itertools.product((1, -1), repeat=3):
        # determinant +1 only (proper rotations)
        m = [[0] * 3 for _ in range(3)]
        for i in range(3):
            m[i][perm[i]] = sg[i]
        det = (m[0][0] * (m[1][1] * m[2][2] - m[1][2] * m[2][1]) - m[0][1] * (m[1][0] * m[2][2] - m[1][2] * m[2][0]) + m[0][2] * (m[1][0] * m[2][1] - m[1][1] * m[2][0]))
        if det == 1:
            SIGNED_PERMS.append(m)


def rnd_unit(rng):
    while True:
        v = [rng.gauss(0, 1) for _ in range(3)]
        n = math.sqrt(sum(x * x for x in v))
        if n > 1e-3:
            return [x / n for x in v]


def rnd_rot(rng):
    q = [rng.gauss(0, 1) for _ in range(4)]
    n = math.sqrt(sum(x * x for x in q)); w, x, y, z = [t / n for t in q]
    return [[1 - 2 * (y * y + z * z), 2 * (x * y - z * w), 2 * (x * z + y * w)],
            [2 * (x * y + z * w), 1 - 2 * (x * x + z * z), 2 * (y * z - x * w)],
            [2 * (x * z - y * w), 2 * (y * z + x * w), 1 - 2 * (x * x + y * y)]]


def apply(m, v, t=(0, 0, 0)):
    return tuple(m[i][0] * v[0] + m[i][1] * v[1] + m[i][2] * v[2] + t[i] for i in range(3))


def gen_cases(rng, n):
    """returns list of (case, tag, twin_of) ; case = (p,a,b,c) tuples of floats"""
    cases = []
    n_main = n * 6 // 10
    for i in range(n_main):
        kind = rng.random()
        if kind < 0.25:
            # dyadic lattice: many exact ties on region boundaries (d1=0, vc=0, ...)
            k = rng.choice([1, 2, 4])
            pts = [tuple(rng.randint(-3, 3) / k for _ in range(3)) for _ in range(4)]
            off = rng.choice([0, 0, 1, 8, 1024]) * rng.choice([1, -1])
            pts = [tuple(x + off for x in v) for v in pts]
            cases.append((tuple(pts), "lattice", None))
            continue
        size = 10 ** rng.uniform(-6, 2) if rng.random() < 0.8 else 10 ** rng.uniform(-11, -6)     # also far below any mesh resolution: the kernel has no absolute scale
        aspect = 10 ** rng.uniform(0, 3) if rng.random() < 0.3 else 1.0
        a0 = (0.0, 0.0, 0.0)
        b0 = (size * aspect, 0.0, 0.0)
        ang = rng.uniform(0.05, math.pi - 0.05)
        l2 = size * rng.uniform(0.3, 1.5)
        c0 = (l2 * math.cos(ang), l2 * math.sin(ang), 0.0)
        # target region through plane coordinates (s,t) of the foot point and a height
        region = rng.choice(["A", "B", "C", "AB", "AC", "BC", "IN", "ANY"])
        def st():
            if region == "IN":
                s = rng.uniform(0.02, 0.9); t = rng.uniform(0.02, 0.98 - s) if s < 0.96 else 0.01
                return s, t
            if region == "ANY":
                return rng.uniform(-1.5, 2.5), rng.uniform(-1.5, 2.5)
            if region == "A":
                return -rng.uniform(0, 1.5), -rng.uniform(0, 1.5)
            if region == "B":
                return 1 + rng.uniform(0, 1.5), -rng.uniform(0, 1.0)
            if region == "C":
                return -rng.uniform(0, 1.0), 1 + rng.uniform(0, 1.5)
            if region == "AB":
                return rng.uniform(0.05, 0.95), -rng.uniform(0, 1.5)
            if region == "AC":
                return -rng.uniform(0, 1.5), rng.uniform(0.05, 0.95)
            s = rng.uniform(0.05, 0.95)
            k = rng.uniform(0, 1.5)
            return s + k, (1 - s) + k
        s, t = st()
        h = rng.choice([0.0, 1.0, -1.0, rng.uniform(-3, 3), 1e-3]) * size
        p0 = (s * b0[0] + t * c0[0], s * b0[1] + t * c0[1], h)
        m = rnd_rot(rng) if rng.random() < 0.8 else SIGNED_PERMS[rng.randrange(24)]
        dist_from_origin = rng.choice([0, 0, 1, 1e3, 1e6]) * size * aspect
        d = rnd_unit(rng)
        tr = tuple(dist_from_origin * x for x in d)
        pts = tuple(apply(m, v, tr) for v in (p0, a0, b0, c0))
        cases.append((pts, region, None))
    # equivariance twins: exact transformations (signed permutations, dyadic translations) and float rotations
    nbase = len(cases)
    while len(cases) < n:
        j = rng.randrange(nbase)
        pts = cases[j][0]
        r = rng.random()
        if r < 0.4:
            m = SIGNED_PERMS[rng.randrange(24)]
            sc = max(1e-300, max(abs(x) for v in pts for x in v))
            e = math.floor(math.log2(sc)) if sc > 0 else 0
            tr = tuple(rng.randint(-8, 8) * 2.0 ** (e + rng.choice([-1, 0, 1, 3])) for _ in range(3))
            tw = tuple(apply(m, v, tr) for v in pts)
            cases.append((tw, "twin-exact", j))
        elif r < 0.7:
            tr = tuple(rng.uniform(-1, 1) * 10 ** rng.uniform(-3, 3) * max(abs(x) for v in pts for x in v) for _ in range(3))
            m = [[1, 0, 0], [0, 1, 0], [0, 0, 1]]
            cases.append((tuple(apply(m, v, tr) for v in pts), "twin-translate", j))
        else:
            m = rnd_rot(rng)
            cases.append((tuple(apply(m, v) for v in pts), "twin-rotate", j))
    return cases


def fmt(case):
    return " ".join(hx(x) for v in case for x in v)


def parse_case(line):
    xs = [unhx(t) for t in line.split()]
    return tuple(tuple(xs[3 * i:3 * i + 3]) for i in range(4))


def run_impl(exe, cases):
    p = vlib.run([exe], input="\n".join(fmt(c) for c in cases) + "\n", timeout=600)
    if p.returncode != 0:
        return None, "implementation driver exited with %d: %s" % (p.returncode, p.stderr[-2000:])
    outs = [tuple(unhx(t) for t in l.split()) for l in p.stdout.strip().split("\n")]
    if len(outs) != len(cases):
        return None, "implementation driver returned %d results for %d cases" % (len(outs), len(cases))
    return outs, None


def run_model(exe, cases):
    p = vlib.run([exe, "kernel"], input="\n".join(fmt(c) for c in cases) + "\n", timeout=600, check=True)
    outs = []
    for l in p.stdout.strip().split("\n"):
        t = l.split()
        outs.append((tuple(unhx(x) for x in t[:4]), int(t[4])))
    return outs


def load_corpus():
    import os, glob
    cs = []
    for f in sorted(glob.glob(os.path.join(vlib.VERIF, "corpus", "C05", "*.json"))):
        j = json.load(open(f))
        cs.append((parse_case(j["case"]), "corpus:" + os.path.basename(f), None))
    return cs


def evaluate(ck, cases, impl_exe, model_exe):
    plain = [c for c, _, _ in cases]
    iouts, err = run_impl(impl_exe, plain)
    if err:
        ck.report(dict(error=err), unchecked="correspondence kernel_f vs compute_node_triangle_distance (driver failed)", what=err)
        return
    mouts = run_model(model_exe, plain)
    hist = {}
    tier2 = 0
    broken = []
    failures = []
    seen = set()
    for idx, ((case, tag, twin), io, (mo, region)) in enumerate(zip(cases, iouts, mouts)):
        hist[region] = hist.get(region, 0) + 1
        seen.add(fmt(case))
        if not all(vlib.same_bits(x, y) for x, y in zip(io, mo)):
            scale = mag2(*case)
            ok2 = vlib.close(io[0], mo[0], scale, 1e-11)
            if ok2:
                # closest points must agree too (bary may legitimately differ only through the point)
                qi = [io[1] * case[1][k] + io[2] * case[2][k] + io[3] * case[3][k] for k in range(3)]
                qm = [mo[1] * case[1][k] + mo[2] * case[2][k] + mo[3] * case[3][k] for k in range(3)]
                ok2 = all(abs(x - y) <= 1e-5 * math.sqrt(scale) + 1e-300 for x, y in zip(qi, qm))
            if ok2:
                tier2 += 1
            else:
                broken.append(idx)
        o = oracle(case, io)
        if o:
            failures.append((idx, o))
        if twin is not None:
            bo = iouts[twin]
            sc = mag2(*case) + mag2(*cases[twin][0])
            if all(math.isfinite(x) for x in (bo[0], io[0])) and abs(bo[0] - io[0]) > 1e-9 * sc + 1e-7 * abs(bo[0]):
                ex, D = exact_dist2(*cases[twin][0])
                if float(D) > 1e-6 * mag2(fsub(cases[twin][0][2], cases[twin][0][1])) * mag2(fsub(cases[twin][0][3], cases[twin][0][1])):
                    failures.append((idx, "kernel_equivariant(" + tag + ")"))
    ck.cov["evaluations"] += len(cases)
    ck.cov["traces_validated_against_impl"] += len(cases) - len(broken)
    ck.cov["distinct_nontrivial"] += len(seen)
    ck.notes.setdefault("region_histogram", {})
    for k, v in hist.items():
        ck.notes["region_histogram"][str(k)] = ck.notes["region_histogram"].get(str(k), 0) + v
    ck.notes["tier2_reassociation_suspected"] = ck.notes.get("tier2_reassociation_suspected", 0) + tier2
    for idx, o in failures[:3]:
        case = cases[idx][0]
        ck.report(dict(input=fmt(case), input_decimal=[list(v) for v in case], tag=cases[idx][1],
                       implementation=[hx(x) for x in iouts[idx]], model=[hx(x) for x in mouts[idx][0]],
                       exact_sq_dist=float(exact_dist2(*case)[0])),
                  oracle=o, what="kernel output violates %s" % o, key="kernel:" + o)
    if broken and not failures:
        idx = broken[0]
        case = cases[idx][0]
        ck.report(dict(input=fmt(case), input_decimal=[list(v) for v in case], implementation=[hx(x) for x in iouts[idx]],
                       model=[hx(x) for x in mouts[idx][0]], n_disagreements=len(broken)),
                  unchecked="correspondence Kernel.kernel(NumF) = compute_node_triangle_distance",
                  what="model and implementation disagree beyond rounding on %d cases; the property oracle found no failing input" % len(broken))
    return failures, broken


def run(ck):
    n = 6000 if ck.tier == "quick" else 200000
    ck.cov["rule"] = ("cases = (query point, triangle): region-targeted constructions (foot point in a chosen Voronoi region x height x placement up to 1e6 sizes from origin x rotation x aspect up to 1e3), dyadic lattice points (exact ties on region boundaries), and equivariance twins (24 exact signed permutations + dyadic translations; float translations and rotations); a case is non-trivial if distinct as a bit pattern; region_histogram counts the branch the model took")
    ok = ck.proofs()
    if not ok:
        ck.report(dict(log=ck.proof_res["log"][-3000:], bad_axioms=ck.proof_res["bad_axioms"], forbidden=ck.proof_res["forbidden"]),
                  unchecked="Properties_C05.vo", what="proof obligations of C05 no longer check")
    impl = vlib.build_driver("kernel")
    model = vlib.ocaml_model()
    rng = random.Random(ck.seed * 7919 + 5)
    corpus = load_corpus()
    off = len(corpus)
    cases = corpus + [(c, tag, (tw + off) if tw is not None else None) for c, tag, tw in gen_cases(rng, n)]
    for c, tag, _ in cases[len(corpus):len(corpus) + 3]:
        ck.sample(dict(tag=tag, p_a_b_c=[list(v) for v in c]))
    evaluate(ck, cases, impl, model)
    # ---- how the result is consumed: the squared distance gates every repulsion decision of the default contact model.  Probes
    # (a tiny tetrahedron at a chosen signed distance from a face of a large cell; all class pairs; the two cut-offs equal or
    # different) must get a force exactly when the distance the kernel returns is inside the larger cut-off, and none beyond
    try:
        import importlib
        c07 = importlib.import_module("checks.c07"); cc = importlib.import_module("contact_common")
        prng = random.Random(ck.seed * 131 + 5)
        probes = [c07.gen_probe(prng, asymmetric=a) for a in (["adhesion_smaller", "repulsion_smaller", "equal"] * (8 if ck.tier == "quick" else 120))]
        pouts, _cr = cc.run_cases(probes, contact=1, san=False)
        nprobe = 0
        for pc, o in zip(probes, pouts):
            if o is None or o.startswith("FATAL"):
                continue
            sec = o.split(" # ")
            f = c07.oracle(pc, cc.parse_in(sec[1]), cc.parse_state(sec[3]))
            nprobe += 1
            if f and f.split(" ")[0] in ("no_force_beyond_cutoff", "overlap_is_pushed_apart", "force_on_the_node_points_toward_the_surface"):
                ck.report(dict(input=cc.case_line(pc), probe=pc["probe"], cut_adh=pc["cut_adh"], cut_rep=pc["cut_rep"]), oracle="kernel_distance_gates_the_contact_decision", key="kernel:gates:" + f.split(" ")[0],
                          what="the contact model does not act on the kernel's distance as the rules say: " + f)
                break
        ck.cov["evaluations"] += nprobe
        ck.notes["contact_probes_consuming_the_kernel"] = nprobe
    except vlib.BuildError as e:
        ck.notes["contact_probes_consuming_the_kernel"] = "driver build failed: " + str(e)[-200:]
    # ---- the kernel is a pure function of its four arguments: called from 16 threads at once (as the contact models do from their
    # parallel loops) every case returns, bit for bit, what it returns when called alone; a result held by reference across the next
    # call keeps its value
    sub = [c for c, _, _ in cases[off:off + 4000]]
    pm = vlib.run([impl, "mt", "16", "8" if ck.tier == "quick" else "200"], input="\n".join(fmt(c) for c in sub) + "\n", timeout=1800)
    mm = re.search(r"MT mismatches=(\d+) first=(-?\d+)(?: got=(\S+) sequential=(\S+))?", pm.stdout); hm = re.search(r"HELD mismatches=(\d+) first=(-?\d+)", pm.stdout)
    if pm.returncode != 0 or not mm or not hm:
        ck.report(dict(error=pm.stderr[-2000:]), unchecked="the kernel called from 16 threads (driver failed)", what="driver kernel mt failed")
    else:
        ck.notes["kernel_calls_from_16_threads"] = len(sub) * (8 if ck.tier == "quick" else 200)
        ck.cov["evaluations"] += len(sub)
        if int(mm.group(1)) > 0:
            i_ = int(mm.group(2))
            ck.report(dict(input=fmt(sub[i_]), threads=16, got=mm.group(3), sequential=mm.group(4), mismatches=int(mm.group(1))), oracle="kernel_result_is_a_function_of_its_arguments", key="kernel:threads",
                      what="called from 16 threads at once, %s evaluations returned something else than the same call alone (first: case %d, got %s, alone %s)" % (mm.group(1), i_, mm.group(3), mm.group(4)))
        elif int(hm.group(1)) > 0:
            i_ = int(hm.group(2))
            ck.report(dict(input=fmt(sub[i_]), next_input=fmt(sub[i_ + 1])), oracle="kernel_result_is_a_function_of_its_arguments", key="kernel:held",
                      what="a result held by reference changed when the kernel was called again (%s of %d consecutive pairs)" % (hm.group(1), len(sub) - 1))
    ck.cov["trusted_base"] = vlib.TRUSTED_BASE_COMMON + ["exact rational oracle in Python (fractions)"]
    ck.assumptions = ["triangle non-degenerate (Gram determinant > 0); real arithmetic in the theorems, binary64 in the correspondence",
                      "oracle judges only triangles with Gram determinant > 1e-6 |ab|^2|ac|^2 (conditioning)"]


def replay(ck, path):
    j = json.load(open(path))
    case = parse_case(j["case"]["input"])
    impl = vlib.build_driver("kernel"); model = vlib.ocaml_model()
    io, err = run_impl(impl, [case]); mo = run_model(model, [case])
    print("implementation:", io, "model:", mo, "exact:", float(exact_dist2(*case)[0]), "oracle:", oracle(case, io[0]) if io else err)
    return 1 if (err or oracle(case, io[0])) else 0
