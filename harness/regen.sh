#!/bin/bash
# regen.sh [repo]: rewrite every coq/*_gen.v from the given tree (default /repo) — what every check does first; for compiling by hand
R=${1:-/repo}; cd /verif && python3 -c "
import sys; sys.path.insert(0,'harness'); import os
os.environ.setdefault('VERIF_REPO','$R')
import vlib; vlib.regenerate_models()"
