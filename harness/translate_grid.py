#!/usr/bin/env python3
"""translate_grid.py — regenerates coq/Grid_gen.v from /repo's include/uspg/*.hpp on every run: the arithmetic of the
spatial grids,
    uspg_4d::update_dimensions and uspg_3d::update_dimensions  (voxel counts and shifted origin),
    uspg_abstract::get_3d_voxel_index                          (floor((pos - min_)/size), clamped to the last voxel),
    uspg_abstract::get_voxel_index(x, y, z)                    (flattened id),
is read statement by statement and re-emitted over an abstract number type with floor/ceil to Z.  Properties_C20.v proves
the generated functions equal to the hand-written Grid.v (on which C06, C13 and C20 rest) by reflexivity.  Fails closed."""
import re, sys, os
sys.path.insert(0, os.path.dirname(os.path.abspath(__file__)))
from translate_columns import strip_comments
from translate_iteration import function_body
from translate_kernel import Tr

TOK = re.compile(r"\s*(?:(\d+\.\d*(?:[eE][-+]?\d+)?|\d+)|(static_cast\s*<\s*unsigned\s*>|std::\w+|[A-Za-z_]\w*)|([-+*/(),]))")


def tokenize(s):
    out = []; i = 0
    while i < len(s):
        if s[i:].strip() == "":
            break
        m = TOK.match(s, i)
        if not m:
            raise Tr("cannot tokenize at: " + s[i:i + 40])
        out.append(re.sub(r"\s+", "", m.group(1) or m.group(2) or m.group(3))); i = m.end()
    return out


class E:
    """expressions typed 'd' (double, through N) or 'z' (integer, Z)"""
    def __init__(self, toks, env):
        self.t = toks; self.i = 0; self.env = env

    def peek(self):
        return self.t[self.i] if self.i < len(self.t) else None

    def eat(self, x=None):
        tok = self.peek()
        if x is not None and tok != x:
            raise Tr("expected %r, found %r" % (x, tok))
        self.i += 1
        return tok

    def sum(self):
        l, tl = self.prod()
        while self.peek() in ("+", "-"):
            op = self.eat(); r, tr_ = self.prod()
            if tl != tr_:
                raise Tr("mixed integer/double sum")
            if tl == "d":
                l = "(%s N %s %s)" % ("nadd" if op == "+" else "nsub", l, r)
            else:
                l = "(%s %s %s)" % (l, op, r)
        return l, tl

    def prod(self):
        l, tl = self.atom()
        while self.peek() in ("*", "/"):
            op = self.eat(); r, tr_ = self.atom()
            if tl != tr_:
                raise Tr("mixed integer/double product")
            if tl == "d":
                l = "(%s N %s %s)" % ("nmul" if op == "*" else "ndiv", l, r)
            elif op == "*":
                l = "(%s * %s)" % (l, r)
            else:
                raise Tr("integer division")
        return l, tl

    def atom(self):
        tok = self.eat()
        if tok == "(":
            e, te = self.sum(); self.eat(")")
            return e, te
        if tok == "static_cast<unsigned>":
            self.eat("("); f = self.eat()
            if f not in ("std::floor", "std::ceil"):
                raise Tr("cast of something that is neither floor nor ceil")
            self.eat("("); e, te = self.sum(); self.eat(")"); self.eat(")")
            if te != "d":
                raise Tr("floor/ceil of an integer")
            return "(%s %s)" % ("floorZ" if f == "std::floor" else "ceilZ", e), "z"
        if tok == "std::min":
            self.eat("("); a, ta = self.sum(); self.eat(","); b, tb = self.sum(); self.eat(")")
            if ta != "z" or tb != "z":
                raise Tr("std::min of non-integers")
            return "(Z.min %s %s)" % (a, b), "z"
        if re.fullmatch(r"\d+", tok):
            return tok, "z"
        if tok in self.env:
            return tok, self.env[tok]
        raise Tr("unknown token %r" % tok)


def assignments(body):
    """name -> expression text of the plain assignments / const declarations of a body"""
    out = {}
    for st in [x.strip() for x in body.split(";") if x.strip()]:
        m = re.fullmatch(r"(?:constexpr\s+|const\s+)?(?:double|unsigned|size_t)?\s*(\w+)\s*=\s*(.*)", st, re.S)
        if m:
            out[m.group(1)] = re.sub(r"\s+", " ", m.group(2))
    return out


def gen_update_dimensions(text, cls):
    body = function_body(text, r"void\s+update_dimensions\s*\(\s*const\s+size_t\s+nb_objects[^)]*\)[^{]*\{")
    a = assignments(body)
    if re.sub(r"\s+", "", a.get("delta", "")) != "std::numeric_limits<double>::epsilon()":
        raise Tr("%s: delta is not DBL_EPSILON" % cls)
    env = {k: "d" for k in ("min_x", "min_y", "min_z", "max_x", "max_y", "max_z", "delta", "voxel_size_")}
    ex = {}
    for ax in "xyz":
        for name, ty in (("nb_voxels_%s_" % ax, "z"), ("min_%s_" % ax, "d")):
            if name not in a:
                raise Tr("%s: no assignment to %s" % (cls, name))
            e, te = E(tokenize(a[name]), env).sum()
            if te != ty:
                raise Tr("%s: type of %s" % (cls, name))
            ex[name] = e
    return ("Definition update_dimensions_%s_gen {T : Type} (N : Num T) (floorZ ceilZ : T -> Z) (delta : T) (voxel_size_ : T) (lo hi : T * T * T) : dims (T:=T) :=\n"
            "  let '(min_x, min_y, min_z) := lo in let '(max_x, max_y, max_z) := hi in\n"
            "  mkdims (%s, %s, %s)\n         (%s, %s, %s) voxel_size_." % (cls, ex["min_x_"], ex["min_y_"], ex["min_z_"], ex["nb_voxels_x_"], ex["nb_voxels_y_"], ex["nb_voxels_z_"]))


def generate(repo):
    err = None; defs = []
    try:
        d = os.path.join(repo, "include", "uspg")
        t4 = strip_comments(open(os.path.join(d, "uspg_4d.hpp")).read())
        t3 = strip_comments(open(os.path.join(d, "uspg_3d.hpp")).read())
        ta = strip_comments(open(os.path.join(d, "uspg_abstract.hpp")).read())
        defs.append(gen_update_dimensions(t4, "4d"))
        defs.append(gen_update_dimensions(t3, "3d"))
        body = function_body(ta, r"get_3d_voxel_index\s*\(\s*const\s+double\s+pos_x\s*,\s*const\s+double\s+pos_y\s*,\s*const\s+double\s+pos_z\s*\)[^{]*\{")
        a = assignments(body)
        env = {k: "d" for k in ("pos_x", "pos_y", "pos_z", "min_x_", "min_y_", "min_z_", "voxel_size_")}
        env.update({k: "z" for k in ("nb_voxels_x_", "nb_voxels_y_", "nb_voxels_z_")})
        ids = []
        for ax in "xyz":
            e, te = E(tokenize(a["voxel_%s_id" % ax]), env).sum()
            if te != "z":
                raise Tr("index type")
            ids.append(e)
        if not re.search(r"return\s*\{\s*voxel_x_id\s*,\s*voxel_y_id\s*,\s*voxel_z_id\s*\}", body):
            raise Tr("get_3d_voxel_index does not return {x, y, z}")
        defs.append("Definition idx3_gen {T : Type} (N : Num T) (floorZ ceilZ : T -> Z) (g : dims (T:=T)) (p : T * T * T) : Z * Z * Z :=\n"
                    "  let '(min_x_, min_y_, min_z_) := d_lo g in let '(nb_voxels_x_, nb_voxels_y_, nb_voxels_z_) := d_nb g in\n"
                    "  let voxel_size_ := d_s g in let '(pos_x, pos_y, pos_z) := p in\n  (%s,\n   %s,\n   %s)." % tuple(ids))
        body = function_body(ta, r"size_t\s+get_voxel_index\s*\(\s*const\s+unsigned\s+voxel_x_id\s*,\s*const\s+unsigned\s+voxel_y_id\s*,\s*const\s+unsigned\s+voxel_z_id\s*\)[^{]*\{")
        a = assignments(body)
        env = {k: "z" for k in ("voxel_x_id", "voxel_y_id", "voxel_z_id", "nb_voxels_x_", "nb_voxels_y_", "nb_voxels_z_")}
        e, te = E(tokenize(a["voxel_id"]), env).sum()
        if not re.search(r"return\s+voxel_id", body):
            raise Tr("get_voxel_index does not return voxel_id")
        defs.append("Definition flat_gen {T : Type} (g : dims (T:=T)) (i : Z * Z * Z) : Z :=\n"
                    "  let '(nb_voxels_x_, nb_voxels_y_, nb_voxels_z_) := d_nb g in let '(voxel_x_id, voxel_y_id, voxel_z_id) := i in\n  %s." % e)
        # ---- get_neighborhood(ix, iy, iz) of both grids: the clamped block, the nesting of the loops, the id of a visited voxel
        flat_ = lambda x: re.sub(r"\s+", "", x)
        nbf = None
        for cls, t in (("4d", t4), ("3d", t3)):
            nb = function_body(t, r"get_neighborhood\s*\(\s*const\s+unsigned\s+object_voxel_x_id\s*,\s*const\s+unsigned\s+object_voxel_y_id\s*,\s*const\s+unsigned\s+object_voxel_z_id\s*\)\s*const\s*noexcept\s*\{")
            a = assignments(nb)
            for ax in "xyz":
                if flat_(a.get("start_voxel_%s_id" % ax, "")) != "object_voxel_%s_id==0?0:object_voxel_%s_id-1" % (ax, ax):
                    raise Tr("%s get_neighborhood: first visited voxel along %s" % (cls, ax))
                if flat_(a.get("end_voxel_%s_id" % ax, "")) != "object_voxel_%s_id==nb_voxels_%s_-1?nb_voxels_%s_:object_voxel_%s_id+2" % (ax, ax, ax, ax):
                    raise Tr("%s get_neighborhood: end of the visited voxels along %s" % (cls, ax))
            fl = flat_(nb)
            loops = "".join("for(size_tvoxel_%s_id=start_voxel_%s_id;voxel_%s_id<end_voxel_%s_id;voxel_%s_id++){" % ((ax,) * 5) for ax in "xyz")
            if loops not in fl:
                raise Tr("%s get_neighborhood: the three loops (x outer, z inner, end exclusive)" % cls)
            env = {k: "z" for k in ("voxel_x_id", "voxel_y_id", "voxel_z_id", "nb_voxels_x_", "nb_voxels_y_", "nb_voxels_z_")}
            mv = re.search(r"const\s+size_t\s+voxel_id\s*=\s*([^;]*);", nb)
            if not mv:
                raise Tr("%s get_neighborhood: id of a visited voxel" % cls)
            e, te = E(tokenize(mv.group(1)), env).sum()
            if nbf is not None and nbf != e:
                raise Tr("the two grids number a visited voxel differently")
            nbf = e
            if cls == "4d" and "std::copy(voxel_content.begin(),voxel_content.end(),std::front_inserter(neighboring_objects));" not in fl:
                raise Tr("4d get_neighborhood: the content of a voxel is not front-inserted")
        defs.append("Definition nb_lo_gen (i : Z) : Z := if i =? 0 then 0 else i - 1.")
        defs.append("Definition nb_hi_gen (n i : Z) : Z := if i =? n - 1 then n else i + 2.")
        defs.append("Definition flat_nb_gen {T : Type} (g : dims (T:=T)) (i : Z * Z * Z) : Z :=\n"
                    "  let '(nb_voxels_x_, nb_voxels_y_, nb_voxels_z_) := d_nb g in let '(voxel_x_id, voxel_y_id, voxel_z_id) := i in\n  %s." % nbf)
    except Exception as e:      # noqa
        err = str(e)
    L = ["(* Grid_gen.v — GENERATED by harness/translate_grid.py from /repo/include/uspg/{uspg_abstract,uspg_3d,uspg_4d}.hpp on every run.", "   Do not edit. *)",
         "From Coq Require Import ZArith Bool List.", "From SC Require Import Num Grid.", "Local Open Scope Z_scope.", ""]
    if err:
        L.append("(* translation failed: %s *)" % err.replace("*)", "* )"))
        L.append("Definition grid_translation_ok : bool := false.")
        L += ["Definition update_dimensions_4d_gen {T : Type} (N : Num T) (floorZ ceilZ : T -> Z) (delta : T) (voxel_size_ : T) (lo hi : T * T * T) : dims (T:=T) := mkdims lo (0, 0, 0) voxel_size_.",
              "Definition update_dimensions_3d_gen {T : Type} (N : Num T) (floorZ ceilZ : T -> Z) (delta : T) (voxel_size_ : T) (lo hi : T * T * T) : dims (T:=T) := mkdims lo (0, 0, 0) voxel_size_.",
              "Definition idx3_gen {T : Type} (N : Num T) (floorZ ceilZ : T -> Z) (g : dims (T:=T)) (p : T * T * T) : Z * Z * Z := (0, 0, 0).",
              "Definition flat_gen {T : Type} (g : dims (T:=T)) (i : Z * Z * Z) : Z := 0.",
              "Definition nb_lo_gen (i : Z) : Z := 0.", "Definition nb_hi_gen (n i : Z) : Z := 0.", "Definition flat_nb_gen {T : Type} (g : dims (T:=T)) (i : Z * Z * Z) : Z := 0."]
    else:
        L.append("Definition grid_translation_ok : bool := true.")
        L += defs
    return "\n".join(L) + "\n"


if __name__ == "__main__":
    repo = sys.argv[1] if len(sys.argv) > 1 else "/repo"
    out = sys.argv[2] if len(sys.argv) > 2 else os.path.join(os.path.dirname(os.path.dirname(os.path.abspath(__file__))), "coq", "Grid_gen.v")
    txt = generate(repo)
    old = open(out).read() if os.path.exists(out) else None
    if old != txt:
        open(out, "w").write(txt)
