#!/usr/bin/env python3
"""translate_narrowphase.py — regenerates coq/Narrow_gen.v from /repo's src/contact_models/contact_node_node_via_coupling.cpp and
contact_model_abstract.cpp on every run: the narrow phase of the default contact model (CONTACT_MODEL_INDEX == 1),
    the constructor:     the squared cut-offs and their maximum
    resolve_contact:     (a) the coupling decision between two epithelial cells: the three squared distances with their
                             three overrides each (normals, already coupled closer, curvature), the choice of the closest face
                             node (if / else-if / else), the test against the adhesion cut-off and the node's current distance;
                         (b) the repulsion: kernel call, cut-off test, closest point, direction, the two sign reversals
                             (epithelial node / ECM face, nucleus node / epithelial face), the force and its distribution on the
                             three face nodes and (negated) on the node
is walked statement by statement and re-emitted over an abstract number type.  Properties_C07.v proves the generated functions
equal to `cpl_decision` (the expression resolve_contact evaluates, see resolve_contact_uses_the_decision) and `interaction` of
the hand-written Contact.v by reflexivity.  The bindings of f_n1..f_n3, the two mutual set_coupled_node_and_min_distance calls
with their arguments and the early return are checked textually.  Fails closed."""
import re, sys, os
sys.path.insert(0, os.path.dirname(os.path.abspath(__file__)))
from translate_columns import strip_comments, macros
from translate_iteration import function_body
from translate_kernel import Tr
from blocktr import parse, split_statements, as_list
from translate_forces import Walker, rx_sub, flat, take_bindings


def pp(text, mac):
    """#if NAME == k / #if NAME / #elif NAME == k / #else / #endif"""
    out = []; stack = []
    for line in text.split("\n"):
        s = line.strip()
        m = re.fullmatch(r"#(if|elif)\s+(\w+)\s*==\s*(-?\d+)", s)
        m2 = re.fullmatch(r"#if\s+(\w+)", s)
        if m or m2:
            name = m.group(2) if m else m2.group(1)
            if mac.get(name) is None:
                raise Tr("macro %s unknown" % name)
            v = (mac[name] == int(m.group(3))) if m else bool(mac[name])
            if m and m.group(1) == "elif":
                stack[-1] = [v and not stack[-1][1], stack[-1][1] or v]
            else:
                stack.append([v, v])
            continue
        if s.startswith("#else"):
            stack[-1] = [not stack[-1][1], True]; continue
        if s.startswith("#endif"):
            stack.pop(); continue
        if s.startswith("#if") or s.startswith("#elif"):
            raise Tr("conditional not understood: " + s)
        if all(x[0] for x in stack):
            out.append(line)
    return "\n".join(out)


class W2(Walker):
    """adds: bool declarations; the option-of-forces result of the repulsion"""
    def walk(self, stmts, outputs=None):
        if stmts and stmts[0][0] == "stmt":
            m = re.fullmatch(r"bool (\w+) = (.*)", stmts[0][1])
            if m:
                g, _ = self.E(m.group(2), "b")
                self.env[m.group(1)] = "b"; self.declared.add(m.group(1))
                return "let %s := %s in\n  %s" % (m.group(1), g, self.walk(stmts[1:]))
        return super().walk(stmts, outputs)

    def finish(self, outputs):
        d = dict(outputs)
        if sorted(d) != ["a", "b", "c", "n"] or len(outputs) != 4:
            raise Tr("repulsion: forces on %s" % [k for k, _ in outputs])
        return "Some (%s, %s, %s, %s)" % (d["n"], d["a"], d["b"], d["c"])


def generate(repo):
    err = None; defs = []
    try:
        mac = macros(strip_comments(open(os.path.join(repo, "include", "global_configuration.hpp")).read()))
        mac = dict(mac, CONTACT_MODEL_INDEX=1)
        abs_ = strip_comments(open(os.path.join(repo, "src", "contact_models", "contact_model_abstract.cpp")).read())
        src = pp(strip_comments(open(os.path.join(repo, "src", "contact_models", "contact_node_node_via_coupling.cpp")).read()), mac)
        # ---------------- constructor: squared cut-offs
        cb = function_body(abs_, r"contact_model_abstract::contact_model_abstract\s*\([^)]*\)[^{]*\{")
        a = {}
        for st in [x.strip() for x in cb.split(";") if x.strip()]:
            m = re.fullmatch(r"([\w.]+)\s*=\s*(.*)", st, re.S)
            if m:
                a[m.group(1)] = re.sub(r"\s+", " ", m.group(2))
        if flat(a.get("interaction_cutoff_adhesion_", "")) != "sim_parameters.contact_cutoff_adhesion_" or flat(a.get("interaction_cutoff_repulsion_", "")) != "sim_parameters.contact_cutoff_repulsion_":
            raise Tr("constructor: the cut-offs are not the two parameters")
        sub = rx_sub([(r"interaction_cutoff_adhesion_", "cut_adh"), (r"interaction_cutoff_repulsion_", "cut_rep")])
        g1, _ = parse(sub(a["interaction_cutoff_square_adhesion_"]), {"cut_adh": "d", "cut_rep": "d"}, "d")
        g2, _ = parse(sub(a["interaction_cutoff_square_repulsion_"]), {"cut_adh": "d", "cut_rep": "d"}, "d")
        if flat(a.get("max_interaction_cutoff_square_", "")) != "std::max(interaction_cutoff_square_repulsion_,interaction_cutoff_square_adhesion_)":
            raise Tr("constructor: maximum of the squared cut-offs")
        defs.append("Definition cut2_adh_gen {T : Type} (N : Num T) (cut_adh cut_rep : T) : T := %s." % g1)
        defs.append("Definition cut2_rep_gen {T : Type} (N : Num T) (cut_adh cut_rep : T) : T := %s." % g2)
        defs.append("Definition cut2_max_gen {T : Type} (N : Num T) (cut_adh cut_rep : T) : T := nmax N (cut2_rep_gen N cut_adh cut_rep) (cut2_adh_gen N cut_adh cut_rep).")
        # ---------------- resolve_contact
        b = function_body(src, r"void\s+contact_node_node_via_coupling::resolve_contact\s*\(\s*cell_ptr\s+c1\s*,\s*cell_ptr\s+c2\s*,\s*node\s*&\s*n1\s*,\s*face\s*\*\s*f\s*\)\s*const\s*noexcept\s*\{")
        st = take_bindings(split_statements(b), ["node&f_n1=c2->node_lst_[f->n1_id_]", "node&f_n2=c2->node_lst_[f->n2_id_]", "node&f_n3=c2->node_lst_[f->n3_id_]",
                                                 "constvec3&f_n1_pos=f_n1.pos()", "constvec3&f_n2_pos=f_n2.pos()", "constvec3&f_n3_pos=f_n3.pos()"], "resolve_contact")
        if len(st) != 3 or st[0][0] != "if" or st[1][0] != "stmt" or st[2][0] != "if":
            raise Tr("resolve_contact: expected the epithelial block, the kernel call and the repulsion block")
        # (a) ---- the coupling decision
        if flat(st[0][1]) != "c1->get_cell_type_id()==0&&c2->get_cell_type_id()==0" or st[0][3] is not None:
            raise Tr("resolve_contact: guard of the coupling block")
        blk = as_list(st[0][2])
        sub = rx_sub([(r"std::numeric_limits<double>::max\(\)", "dmax"), (r"\bn1\.pos\(\)", "n1_pos"), (r"\bn1\.normal_", "n1_normal"),
                      (r"\bf_n([123])\.normal_", r"fn\1_normal"), (r"\bf_n([123])\.coupled_node_\.has_value\(\)", r"fn\1_has"),
                      (r"\bf_n([123])\.squared_distance_to_closest_node_", r"fn\1_sqd"), (r"\bf_n([123])\.curvature_", r"fn\1_curv"),
                      (r"max_dot_product_adhesion_", "c45"), (r"c1->get_cell_type\(\)->surface_coupling_max_curvature_", "maxcurv"),
                      (r"interaction_cutoff_square_adhesion_", "cut2_adh"), (r"\bn1\.squared_distance_to_closest_node_", "n1_sqd")])
        env = {"dmax": "d", "n1_pos": "v", "n1_normal": "v", "c45": "d", "maxcurv": "d", "cut2_adh": "d", "n1_sqd": "d"}
        for k in "123":
            env.update({"f_n%s_pos" % k: "v", "fn%s_normal" % k: "v", "fn%s_has" % k: "b", "fn%s_sqd" % k: "d", "fn%s_curv" % k: "d"})
        w = Walker(env, sub, "None")
        lets = []; i = 0
        # declarations and single-variable overrides, in source order
        while i < len(blk):
            x = blk[i]
            if x[0] == "stmt" and flat(x[1]) in ("doublemin_squared_distance_to_node_face", "node*n2=nullptr"):
                i += 1; continue
            if x[0] == "stmt":
                m = re.fullmatch(r"(?:const )?double (\w+) = (.*)", x[1])
                if not m:
                    raise Tr("coupling block: statement not understood: " + x[1][:80])
                g, _ = w.E(m.group(2), "d"); w.env[m.group(1)] = "d"; w.declared.add(m.group(1))
                lets.append("let %s := %s in" % (m.group(1), g)); i += 1; continue
            r = w.chain(x)
            if r:
                lets.append("let %s := %s in" % r); i += 1; continue
            break
        # the choice of the closest face node: if / else-if / else, each branch assigns the distance and the node
        if i != len(blk) - 2:
            raise Tr("coupling block: %d statements after the overrides, 2 expected" % (len(blk) - i))
        def branch(node):
            l = [flat(y[1]) for y in as_list(node) if y[0] == "stmt"]
            if len(l) != 2:
                raise Tr("choice: a branch does not assign exactly two variables")
            m1 = re.fullmatch(r"min_squared_distance_to_node_face=(squared_distance_f_n([123]))", l[0]); m2 = re.fullmatch(r"n2=&f_n([123])", l[1])
            if not m1 or not m2 or m1.group(2) != m2.group(1):
                raise Tr("choice: distance and node of a branch do not belong together: %s" % l)
            return "(i%s, %s)" % (m2.group(1), m1.group(1))
        ch = blk[i]
        if ch[0] != "if" or ch[3] is None:
            raise Tr("choice: not an if / else-if / else")
        c1_, _ = w.E(ch[1], "b"); b1 = branch(ch[2])
        e2 = as_list(ch[3])
        if len(e2) != 1 or e2[0][0] != "if" or e2[0][3] is None:
            raise Tr("choice: second branch")
        c2_, _ = w.E(e2[0][1], "b"); b2 = branch(e2[0][2]); b3 = branch(e2[0][3])
        lets.append("let '(n2, min_squared_distance_to_node_face) := if %s then %s else if %s then %s else %s in" % (c1_, b1, c2_, b2, b3))
        w.env["min_squared_distance_to_node_face"] = "d"
        fin = blk[i + 1]
        if fin[0] != "if" or fin[3] is not None:
            raise Tr("coupling: final test")
        cf, _ = w.E(fin[1], "b")
        body = [flat(y[1]) for y in as_list(fin[2]) if y[0] == "stmt"]
        want = ["n1.set_coupled_node_and_min_distance(std::make_pair(c2->get_local_id(),n2->get_local_id()),min_squared_distance_to_node_face)",
                "n2->set_coupled_node_and_min_distance(std::make_pair(c1->get_local_id(),n1.get_local_id()),min_squared_distance_to_node_face)", "return"]
        if body != want:
            raise Tr("coupling: the two mutual records and the return are not as expected: %s" % body)
        defs.append("Definition cpl_decision_gen {T : Type} (N : Num T) (dmax c45 cut2_adh maxcurv : T) (n1 a b c : @cnode T) (i1 i2 i3 : nat) : option (nat * T) :=\n"
                    "  let n1_pos := cn_pos n1 in let n1_normal := cn_normal n1 in let n1_sqd := cn_sqd n1 in\n"
                    "  let f_n1_pos := cn_pos a in let f_n2_pos := cn_pos b in let f_n3_pos := cn_pos c in\n"
                    "  let fn1_normal := cn_normal a in let fn2_normal := cn_normal b in let fn3_normal := cn_normal c in\n"
                    "  let fn1_has := match cn_cpl a with Some _ => true | None => false end in let fn2_has := match cn_cpl b with Some _ => true | None => false end in let fn3_has := match cn_cpl c with Some _ => true | None => false end in\n"
                    "  let fn1_sqd := cn_sqd a in let fn2_sqd := cn_sqd b in let fn3_sqd := cn_sqd c in\n"
                    "  let fn1_curv := cn_curv a in let fn2_curv := cn_curv b in let fn3_curv := cn_curv c in\n  %s\n  if %s then Some (n2, min_squared_distance_to_node_face) else None." % ("\n  ".join(lets), cf))
        # (b) ---- the repulsion
        if flat(st[1][1]) != "constauto[min_squared_distance,bary_pos]=compute_node_triangle_distance(n1.pos(),f_n1_pos,f_n2_pos,f_n3_pos)":
            raise Tr("resolve_contact: kernel call")
        sub = rx_sub([(r"c([12])->get_cell_type_id\(\) == (\d)", r"t\1_is_\2"), (r"\bn1\.pos\(\)", "p"), (r"f->normal_", "fnormal"), (r"f->get_area\(\)", "area"),
                      (r"face_type\.repulsion_strength_", "rep"), (r"max_interaction_cutoff_square_", "cut2_max")])
        env = {"p": "v", "f_n1_pos": "v", "f_n2_pos": "v", "f_n3_pos": "v", "fnormal": "v", "area": "d", "rep": "d", "cut2_max": "d",
               "min_squared_distance": "d", "bary_pos": "v", "t1_is_0": "b", "t2_is_1": "b", "t1_is_3": "b", "t2_is_0": "b"}
        w2 = W2(env, sub, "None", {"f_n1": "a", "f_n2": "b", "f_n3": "c", "n1": "n"}, skip=(r"const auto& face_type = c2->get_face_type\(f->local_face_id_\)",))
        # add_force on f_n1 etc.: the walker's pattern wants n\d names
        body = st[2]
        def ren(node):
            if node is None:
                return None
            if node[0] == "stmt":
                return ("stmt", re.sub(r"\bf_n([123])\.add_force", lambda m: "n%d.add_force" % (int(m.group(1)) + 6), node[1]))
            if node[0] == "block":
                return ("block", [ren(x) for x in node[1]])
            return ("if", node[1], ren(node[2]), ren(node[3]))
        w2.out_nodes = {"n7": "a", "n8": "b", "n9": "c", "n1": "n"}
        g = w2.walk([ren(body)])
        defs.append("Definition interaction_gen {T : Type} (N : Num T) (cut2_max : T) (p f_n1_pos f_n2_pos f_n3_pos fnormal : vec3 T) (area rep : T) (t1 t2 : nat) : option (vec3 T * vec3 T * vec3 T * vec3 T) :=\n"
                    "  let t1_is_0 := Nat.eqb t1 0 in let t2_is_1 := Nat.eqb t2 1 in let t1_is_3 := Nat.eqb t1 3 in let t2_is_0 := Nat.eqb t2 0 in\n"
                    "  let k := kernel N p f_n1_pos f_n2_pos f_n3_pos in let min_squared_distance := k_dist k in let bary_pos := k_bary k in\n  %s." % g)
        # ---------------- aabb_intersection_check: three guarded `return false`, then `return true`
        ab = function_body(abs_, r"bool\s+contact_model_abstract::aabb_intersection_check\s*\(\s*const\s+size_t\s+face_aabb_pos\s*,\s*const\s+vec3\s*&\s*node_pos\s*\)\s*const\s*noexcept\s*\{")
        st3 = split_statements(ab)
        if len(st3) != 4 or [x[0] for x in st3] != ["if", "if", "if", "stmt"] or st3[3][1] != "return true":
            raise Tr("aabb_intersection_check: shape")
        conds = []
        slot = rx_sub([(r"face_aabb_lst_\[face_aabb_pos\s*\]", "lo_x"), (r"face_aabb_lst_\[face_aabb_pos \+ 1\]", "lo_y"), (r"face_aabb_lst_\[face_aabb_pos \+ 2\]", "lo_z"),
                       (r"face_aabb_lst_\[face_aabb_pos \+ 3\]", "hi_x"), (r"face_aabb_lst_\[face_aabb_pos \+ 4\]", "hi_y"), (r"face_aabb_lst_\[face_aabb_pos \+ 5\]", "hi_z")])
        benv = {k: "d" for k in ("lo_x", "lo_y", "lo_z", "hi_x", "hi_y", "hi_z")}; benv["node_pos"] = "v"
        for x in st3[:3]:
            if x[3] is not None or [y[1] for y in as_list(x[2])] != ["return false"]:
                raise Tr("aabb_intersection_check: a guard does not return false")
            g, _ = parse(slot(re.sub(r"\s+", " ", x[1])), benv, "b"); conds.append(g)
        defs.append("Definition in_box_gen {T : Type} (N : Num T) (b : @box T) (node_pos : vec3 T) : bool :=\n"
                    "  let lo_x := vx (b_lo b) in let lo_y := vy (b_lo b) in let lo_z := vz (b_lo b) in let hi_x := vx (b_hi b) in let hi_y := vy (b_hi b) in let hi_z := vz (b_hi b) in\n"
                    "  if %s then false else if %s then false else if %s then false else true." % tuple(conds))
        # ---------------- resolve_all_contacts: which nodes search, where they look, which faces they try; the centring of coupled pairs
        rb = function_body(src, r"void\s+contact_node_node_via_coupling::resolve_all_contacts\s*\(\s*const\s+std::vector<cell_ptr>\s*&\s*cell_lst\s*\)\s*noexcept\s*\{")
        rf = flat(rb)
        m = re.search(r"constdoublesurface_coupling_max_curvature=c1->get_cell_type\(\)->surface_coupling_max_curvature_;for\(node&n:c1->node_lst_\)\{if\((.*?)\)\{constunsignedvoxel_1_x=", rf)
        if not m:
            raise Tr("resolve_all_contacts: head of the loop over the nodes")
        cond = re.search(r"for\s*\(\s*node\s*&\s*n\s*:\s*c1->node_lst_\s*\)\s*\{\s*if\s*\((.*?)\)\s*\{\s*const unsigned voxel_1_x", re.sub(r"\s+", " ", rb)).group(1)
        g, _ = parse(rx_sub([(r"n\.is_used\(\)", "used"), (r"n\.curvature_", "curv"), (r"surface_coupling_max_curvature", "maxcurv")])(cond), {"used": "b", "curv": "d", "maxcurv": "d"}, "b")
        defs.append("Definition node_active_gen {T : Type} (N : Num T) (used : bool) (curv maxcurv : T) : bool := %s." % g)
        import translate_grid as tg
        vox = []
        for ax in "xyz":
            mm = re.search(r"const unsigned voxel_1_%s = (.*?);" % ax, re.sub(r"\s+", " ", rb))
            if not mm:
                raise Tr("resolve_all_contacts: voxel of the node along " + ax)
            e_ = mm.group(1).replace("n.pos().d%s()" % ax, "pos_" + ax).replace("grid_.min_%s_" % ax, "min_%s_" % ax).replace("grid_.voxel_size_", "voxel_size_")
            e_ = re.sub(r"^std::floor\((.*)\)$", r"static_cast<unsigned>(std::floor(\1))", e_)       # an unsigned initialised from a floor: the same conversion
            ge, te = tg.E(tg.tokenize(e_), {"pos_" + ax: "d", "min_%s_" % ax: "d", "voxel_size_": "d"}).sum()
            if te != "z":
                raise Tr("voxel index type")
            vox.append(ge)
        defs.append("Definition node_voxel_gen {T : Type} (N : Num T) (floorZ : T -> Z) (g : @dims T) (p : vec3 T) : Z * Z * Z :=\n"
                    "  let '(min_x_, min_y_, min_z_) := d_lo g in let voxel_size_ := d_s g in let pos_x := vx p in let pos_y := vy p in let pos_z := vz p in\n  (%s, %s, %s)." % tuple(vox))
        if "constsize_tvoxel_id=grid_.get_voxel_index(voxel_1_x,voxel_1_y,voxel_1_z);" not in rf or "for(face*f:grid_.voxel_lst_[voxel_id]){" not in rf:
            raise Tr("resolve_all_contacts: the candidate faces are not the content of the node's own voxel")
        m = re.search(r"cell_ptrc2=f->get_owner_cell\(\);if\(c1->get_id\(\)!=c2->get_id\(\)\)\{if\((.*?)\)\{resolve_contact\(c1,c2,n,f\);\}\}", rf)
        if not m:
            raise Tr("resolve_all_contacts: guards of resolve_contact")
        if m.group(1) != "aabb_intersection_check(f->global_face_id_*6,n.pos())&&n.normal_.dot(f->normal_)<max_dot_product_repulsion_":
            raise Tr("resolve_all_contacts: box test and facing test: " + m.group(1))
        defs.append("Definition try_guard_gen {T : Type} (N : Num T) (c90 : T) (b : @box T) (n_pos n_normal f_normal : vec3 T) : bool :=\n  in_box_gen N b n_pos && nltb N (vdot N n_normal f_normal) c90.")
        # the second loop: coupled pairs with c1_id > c2_id are moved to their centre point
        if "if(n1.coupled_node_.has_value()){constauto[c2_id,n2_id]=n1.coupled_node_.value();if(c1_id>c2_id){" not in rf or "n1.pos_.reset(center_point);n2.pos_.reset(center_point);" not in rf:
            raise Tr("resolve_all_contacts: centring of the coupled pairs")
        mm = re.search(r"const vec3 center_point = (.*?);", re.sub(r"\s+", " ", rb))
        g, _ = parse(mm.group(1).replace("n1.pos()", "p1").replace("n2.pos()", "p2"), {"p1": "v", "p2": "v"}, "v")
        defs.append("Definition centre_point_gen {T : Type} (N : Num T) (p1 p2 : vec3 T) : vec3 T := %s." % g)
    except Exception as e:      # noqa
        err = str(e)
    L = ["(* Narrow_gen.v — GENERATED by harness/translate_narrowphase.py from /repo/src/contact_models/contact_node_node_via_coupling.cpp and", "   contact_model_abstract.cpp on every run.  Do not edit. *)",
         "From Coq Require Import NArith ZArith Bool List.", "From SC Require Import Num Vec3 Kernel Grid Contact.", "Local Open Scope bool_scope.", ""]
    if err:
        L.append("(* translation failed: %s *)" % err.replace("*)", "* )"))
        L.append("Definition narrowphase_translation_ok : bool := false.")
    else:
        L.append("Definition narrowphase_translation_ok : bool := true.")
        L += defs
    return "\n".join(L) + "\n", err


if __name__ == "__main__":
    repo = sys.argv[1] if len(sys.argv) > 1 else "/repo"
    out = sys.argv[2] if len(sys.argv) > 2 and not sys.argv[2].startswith("-") else os.path.join(os.path.dirname(os.path.dirname(os.path.abspath(__file__))), "coq", "Narrow_gen.v")
    txt, err = generate(repo)
    if err and "-v" in sys.argv:
        print("translation failed:", err)
    old = open(out).read() if os.path.exists(out) else None
    if old != txt:
        open(out, "w").write(txt)
