#!/usr/bin/env python3
"""translate_broadphase.py — regenerates coq/Contact_gen.v from /repo's src/contact_models/contact_model_abstract.cpp on
every run: the arithmetic of the broad phase of contact detection,
    the constructor:          aabb_padding_ (from the two cut-offs), grid_.voxel_size_
    update_face_aabbs:        the six bounds of the padded bounding box of a face
    store_face_in_uspg:       the first and last voxel, per axis, in which a face is registered
is read statement by statement and re-emitted over an abstract number type.  Properties_C06.v proves the generated
functions equal to the hand-written Contact.v by reflexivity.  Fails closed."""
import re, sys, os
sys.path.insert(0, os.path.dirname(os.path.abspath(__file__)))
from translate_columns import strip_comments
from translate_iteration import function_body
from translate_kernel import Tr
import translate_grid as tg

TOK = re.compile(r"\s*(?:(\d+\.\d*(?:[eE][-+]?\d+)?|\d+)|(static_cast\s*<\s*unsigned\s*>|std::\w+|[A-Za-z_][\w.]*(?:\(\))?)|([-+*/(),]))")


def tokenize(s):
    out = []; i = 0
    while i < len(s):
        if s[i:].strip() == "":
            break
        m = TOK.match(s, i)
        if not m:
            raise Tr("cannot tokenize at: " + s[i:i + 40])
        out.append(re.sub(r"\s+", "", m.group(1) or m.group(2) or m.group(3))); i = m.end()
    return out


class E(tg.E):
    """adds: double literals, std::min / std::max on doubles, component accessors p.dx()"""
    def atom(self):
        tok = self.peek()
        if tok in ("std::min", "std::max"):
            self.eat(); self.eat("("); a, ta = self.sum(); self.eat(","); b, tb = self.sum(); self.eat(")")
            if ta != tb:
                raise Tr("min/max of mixed types")
            if ta == "z":
                if tok != "std::min":
                    raise Tr("integer max")
                return "(Z.min %s %s)" % (a, b), "z"
            return "(%s N %s %s)" % ("nmin" if tok == "std::min" else "nmax", a, b), "d"
        if tok is not None and re.fullmatch(r"\d+\.\d*", tok):
            self.eat(); v = float(tok)
            if v != int(v):
                raise Tr("literal " + tok)
            return "(nofZ N %d)" % int(v), "d"
        m = re.fullmatch(r"(\w+)\.(dx|dy|dz)\(\)", tok or "")
        if m and m.group(1) in self.env and self.env[m.group(1)] == "v":
            self.eat()
            return "(v%s %s)" % (m.group(2)[1], m.group(1)), "d"
        return super().atom()


def assignments(body):
    out = {}
    for st in [x.strip() for x in body.split(";") if x.strip()]:
        m = re.fullmatch(r"(?:const\s+)?(?:double|unsigned|size_t)?\s*([\w.]+)\s*=\s*(.*)", st, re.S)
        if m:
            out[m.group(1)] = re.sub(r"\s+", " ", m.group(2))
    return out


def generate(repo):
    err = None; defs = []
    try:
        src = strip_comments(open(os.path.join(repo, "src", "contact_models", "contact_model_abstract.cpp")).read())
        # ---- constructor
        cb = function_body(src, r"contact_model_abstract::contact_model_abstract\s*\([^)]*\)[^{]*\{")
        cb = cb.replace("sim_parameters.contact_cutoff_repulsion_", "cut_rep").replace("sim_parameters.contact_cutoff_adhesion_", "cut_adh").replace("sim_parameters.min_edge_len_", "lmin")
        a = assignments(cb)
        env = {"cut_rep": "d", "cut_adh": "d", "lmin": "d", "aabb_padding_": "d"}
        pad, t1 = E(tokenize(a["aabb_padding_"]), env).sum()
        vs, t2 = E(tokenize(a["grid_.voxel_size_"]), env).sum()
        if t1 != "d" or t2 != "d":
            raise Tr("constructor: types")
        defs.append("Definition pad_gen {T : Type} (N : Num T) (cut_adh cut_rep : T) : T := %s." % pad)
        defs.append("Definition vsize_gen {T : Type} (N : Num T) (lmin aabb_padding_ : T) : T := %s." % vs)
        # ---- update_face_aabbs
        ub = function_body(src, r"void\s+contact_model_abstract::update_face_aabbs\s*\([^)]*\)[^{]*\{")
        a = assignments(ub)
        env = {"n1_pos": "v", "n2_pos": "v", "n3_pos": "v", "aabb_padding_": "d"}
        ex = {}
        for nm in ("face_min_x", "face_min_y", "face_min_z", "face_max_x", "face_max_y", "face_max_z"):
            e, te = E(tokenize(a[nm]), env).sum()
            if te != "d":
                raise Tr("face box type")
            ex[nm] = e
        if not re.search(r"face_aabb_lst_\.insert\(face_aabb_lst_\.end\(\),\s*\{\s*face_min_x\s*,\s*face_min_y\s*,\s*face_min_z\s*,\s*face_max_x\s*,\s*face_max_y\s*,\s*face_max_z\s*\}\)", ub):
            raise Tr("update_face_aabbs: the six bounds are not stored in the order min x y z, max x y z")
        defs.append("Definition face_box_gen {T : Type} (N : Num T) (aabb_padding_ : T) (n1_pos n2_pos n3_pos : vec3 T) : box (T:=T) :=\n"
                    "  mkbox (mkv %s\n             %s\n             %s)\n        (mkv %s\n             %s\n             %s)." % tuple(ex[k] for k in ("face_min_x", "face_min_y", "face_min_z", "face_max_x", "face_max_y", "face_max_z")))
        # ---- store_face_in_uspg
        sb = function_body(src, r"void\s+contact_model_abstract::store_face_in_uspg\s*\(\s*\)[^{]*\{")
        sb2 = sb.replace("grid_.min_x_", "min_x_").replace("grid_.min_y_", "min_y_").replace("grid_.min_z_", "min_z_").replace("grid_.voxel_size_", "voxel_size_")
        sb2 = sb2.replace("grid_.nb_voxels_x_", "nb_voxels_x_").replace("grid_.nb_voxels_y_", "nb_voxels_y_").replace("grid_.nb_voxels_z_", "nb_voxels_z_")
        a = assignments(sb2)
        # the six bounds are read back in the order they were stored
        for k, nm in enumerate(("face_min_x", "face_min_y", "face_min_z", "face_max_x", "face_max_y", "face_max_z")):
            want = "face_aabb_lst_[face_aabb_pos" + ("" if k == 0 else " + %d" % k) + "]"
            if re.sub(r"\s+", "", a.get(nm, "")) != re.sub(r"\s+", "", want):
                raise Tr("store_face_in_uspg: %s is not read from slot %d" % (nm, k))
        if re.sub(r"\s+", "", a.get("face_aabb_pos", "")) != "i*6":
            raise Tr("store_face_in_uspg: position of the box of face i")
        env = {k: "d" for k in ("face_min_x", "face_min_y", "face_min_z", "face_max_x", "face_max_y", "face_max_z", "min_x_", "min_y_", "min_z_", "voxel_size_")}
        env.update({k: "z" for k in ("nb_voxels_x_", "nb_voxels_y_", "nb_voxels_z_")})
        ix = {}
        for nm in ("voxel_x_start", "voxel_y_start", "voxel_z_start", "voxel_x_stop", "voxel_y_stop", "voxel_z_stop"):
            e, te = E(tokenize(a[nm]), env).sum()
            if te != "z":
                raise Tr("voxel index type")
            ix[nm] = e
        loops = re.sub(r"\s+", "", sb)
        for ax in "xyz":
            if "for(unsignedvoxel_%s=voxel_%s_start;voxel_%s<=voxel_%s_stop;voxel_%s++)" % (ax, ax, ax, ax, ax) not in loops:
                raise Tr("store_face_in_uspg: loop over %s not inclusive from start to stop" % ax)
        if not (loops.index("for(unsignedvoxel_x=") < loops.index("for(unsignedvoxel_y=") < loops.index("for(unsignedvoxel_z=")):
            raise Tr("store_face_in_uspg: nesting order of the loops")
        if "grid_.get_voxel_index(voxel_x,voxel_y,voxel_z)" not in loops:
            raise Tr("store_face_in_uspg: voxel id")
        defs.append("Definition box_range_gen {T : Type} (N : Num T) (floorZ : T -> Z) (g : dims (T:=T)) (b : box (T:=T)) : (Z * Z * Z) * (Z * Z * Z) :=\n"
                    "  let '(min_x_, min_y_, min_z_) := d_lo g in let '(nb_voxels_x_, nb_voxels_y_, nb_voxels_z_) := d_nb g in let voxel_size_ := d_s g in\n"
                    "  let face_min_x := vx (b_lo b) in let face_min_y := vy (b_lo b) in let face_min_z := vz (b_lo b) in\n"
                    "  let face_max_x := vx (b_hi b) in let face_max_y := vy (b_hi b) in let face_max_z := vz (b_hi b) in\n"
                    "  ((%s,\n    %s,\n    %s),\n   (%s,\n    %s,\n    %s))." % tuple(ix[k] for k in ("voxel_x_start", "voxel_y_start", "voxel_z_start", "voxel_x_stop", "voxel_y_stop", "voxel_z_stop")))
    except Exception as e:      # noqa
        err = str(e)
    L = ["(* Contact_gen.v — GENERATED by harness/translate_broadphase.py from /repo/src/contact_models/contact_model_abstract.cpp on every run.", "   Do not edit. *)",
         "From Coq Require Import ZArith Bool List.", "From SC Require Import Num Vec3 Grid Contact.", "Local Open Scope Z_scope.", ""]
    if err:
        L.append("(* translation failed: %s *)" % err.replace("*)", "* )"))
        L.append("Definition broadphase_translation_ok : bool := false.")
        L += ["Definition pad_gen {T : Type} (N : Num T) (cut_adh cut_rep : T) : T := cut_adh.",
              "Definition vsize_gen {T : Type} (N : Num T) (lmin aabb_padding_ : T) : T := lmin.",
              "Definition face_box_gen {T : Type} (N : Num T) (aabb_padding_ : T) (n1_pos n2_pos n3_pos : vec3 T) : box (T:=T) := mkbox n1_pos n1_pos.",
              "Definition box_range_gen {T : Type} (N : Num T) (floorZ : T -> Z) (g : dims (T:=T)) (b : box (T:=T)) : (Z * Z * Z) * (Z * Z * Z) := ((0, 0, 0), (0, 0, 0))."]
    else:
        L.append("Definition broadphase_translation_ok : bool := true.")
        L += defs
    return "\n".join(L) + "\n"


if __name__ == "__main__":
    repo = sys.argv[1] if len(sys.argv) > 1 else "/repo"
    out = sys.argv[2] if len(sys.argv) > 2 else os.path.join(os.path.dirname(os.path.dirname(os.path.abspath(__file__))), "coq", "Contact_gen.v")
    txt = generate(repo)
    old = open(out).read() if os.path.exists(out) else None
    if old != txt:
        open(out, "w").write(txt)
