// drv_geometry: initialize_cell_properties on a generated mesh, then every geometric getter.
// line: NN {x y z} NF {a b c}
// out : OK V A cx cy cz minx miny minz maxx maxy maxz ax ay az nb_nodes nb_faces | {a b c nx ny nz area} ... | used flags
//       or EXC <what>
#include "drv_common.hpp"
#include "cell.hpp"
#include "custom_exception.hpp"
int main(){
    std::string line;
    while (std::getline(std::cin, line)){
        if (line.empty()) continue;
        std::istringstream in(line);
        // "R0" in front: initialize_cell_properties(false), i.e. without the integrity check and the orientation repair (the entry
        // used for meshes that are known to be closed); the windings then stay as given
        bool repair = true; { std::streampos p0 = in.tellg(); std::string w; in >> w; if (w == "R0") repair = false; else in.seekg(p0); }
        mesh m; int nn; in >> nn; m.node_pos_lst.resize(3*nn); for (auto& x : m.node_pos_lst) x = rd(in);
        int nf; in >> nf; m.face_point_ids.resize(nf);
        for (auto& f : m.face_point_ids){ f.resize(3); in >> f[0] >> f[1] >> f[2]; }
        try {
            cell_ptr c = std::make_shared<cell>(m, 0u, nullptr);
            c->initialize_cell_properties(repair);
            vec3 ce = c->compute_centroid();
            auto bb = c->get_aabb();
            vec3 ax = c->get_cell_longest_axis();
            std::cout << "OK " << hx(c->get_volume()) << " " << hx(c->get_area()) << " " << hx(ce.dx()) << " " << hx(ce.dy()) << " " << hx(ce.dz());
            for (double b : bb) std::cout << " " << hx(b);
            std::cout << " " << hx(ax.dx()) << " " << hx(ax.dy()) << " " << hx(ax.dz()) << " " << c->get_nb_of_nodes() << " " << c->get_nb_of_faces() << " |";
            for (const face& f : c->get_face_lst()){
                if (!f.is_used()) continue;
                auto [a,b,d] = f.get_node_ids(); vec3 n = f.get_normal();
                std::cout << " " << a << " " << b << " " << d << " " << hx(n.dx()) << " " << hx(n.dy()) << " " << hx(n.dz()) << " " << hx(f.get_area());
            }
            std::cout << " |";
            for (const node& n : c->get_node_lst()) std::cout << " " << (n.is_used()?1:0);
            std::cout << "\n";
        } catch (const mesh_integrity_exception& e){ std::cout << "EXC mesh_integrity\n";
        } catch (const initial_triangulation_exception& e){ std::cout << "EXC initial_triangulation\n";
        } catch (const std::exception& e){ std::cout << "EXC other " << e.what() << "\n"; }
    }
    return 0;
}
