#!/usr/bin/env python3
"""translate_integrator.py — regenerates coq/Integrator_gen.v from /repo's src/time_integration/time_integration.cpp on every
run: the per-node update blocks of time_integration_scheme::update_nodes_positions,
    contact model 0:  the block executed for every live node of a non-static cell,
    contact model 1:  the block of an uncoupled node and the block of a coupled pair (c1->get_local_id() > c2_id),
each for DYNAMIC_MODEL_INDEX 0 (semi-implicit Euler) and 1 (overdamped), are resolved through the preprocessor conditionals
and executed SYMBOLICALLY, statement by statement (`x.translate(e)`, `x.reset(e)`, `x.reset()`, `const T v = e`), over the
fields pos_/momentum_/force_ of n1 and n2; the final field values are re-emitted as Gallina let-chains over an abstract number
type.  Properties_C03.v proves them equal to upd_dyn / upd_over / upd_pair of the hand-written Integrator.v by reflexivity.
The guards around the blocks (static cells skipped, free slots skipped, has_value, the index comparison, no else-branch of
it) are checked textually.  Kinetic-energy statements are parsed but are not part of the modelled law.  Fails closed."""
import re, sys, os
sys.path.insert(0, os.path.dirname(os.path.abspath(__file__)))
from translate_columns import strip_comments
from translate_iteration import function_body
from translate_kernel import Tr, P, tokenize

FIELDS = {"pos_": "pos", "momentum_": "mom", "force_": "force"}


def pp(text, mac):
    """#if NAME == k / #elif NAME == k / #else / #endif, nested"""
    out = []; stack = []      # entries: [active_now, some_branch_taken]
    for line in text.split("\n"):
        s = line.strip()
        m = re.fullmatch(r"#(if|elif)\s+(\w+)\s*==\s*(-?\d+)", s)
        if m:
            if m.group(2) not in mac:
                raise Tr("macro %s unknown" % m.group(2))
            v = mac[m.group(2)] == int(m.group(3))
            if m.group(1) == "if":
                stack.append([v, v])
            else:
                stack[-1] = [v and not stack[-1][1], stack[-1][1] or v]
            continue
        if s.startswith("#else"):
            stack[-1] = [not stack[-1][1], True]; continue
        if s.startswith("#endif"):
            stack.pop(); continue
        if s.startswith("#if") or s.startswith("#elif"):
            raise Tr("conditional not understood: " + s)
        if s.startswith("#pragma"):
            continue
        if all(x[0] for x in stack):
            out.append(line)
    return "\n".join(out)


def block_at(text, start):
    """text[start] == '{' -> (inside, index after the closing brace)"""
    assert text[start] == "{"
    depth = 0
    for j in range(start, len(text)):
        if text[j] == "{":
            depth += 1
        elif text[j] == "}":
            depth -= 1
            if depth == 0:
                return text[start + 1:j], j + 1
    raise Tr("unbalanced braces")


def block_after(text, rx, what):
    m = re.search(rx, text)
    if not m:
        raise Tr("not found: " + what)
    i = text.index("{", m.end() - 1)
    inside, end = block_at(text, i)
    return inside, m.start(), end


class PE(P):
    def atom(self):
        if self.peek() == "0.5":
            self.eat()
            return "(half N)", "d"
        return super().atom()


def symbolic(block, nodes, scalars):
    """execute the statements of a straight-line block; returns (let lines, final state)"""
    st = {}; env = {k: "d" for k in scalars}; lets = []; cnt = {}
    for n in nodes:
        for f, short in FIELDS.items():
            name = "%s_%s_0" % (n, short)
            lets.append("let %s := n_%s %s in" % (name, short, n)); st[(n, f)] = name; env[name] = "v"; cnt[(n, f)] = 0
    def subst(e):
        def r(m):
            if m.group(1) not in nodes:
                raise Tr("field of an unknown node: " + m.group(0))
            return st[(m.group(1), m.group(2))]
        return re.sub(r"\b(n\d)\.(pos_|momentum_|force_)", r, e)
    def fresh(n, f):
        cnt[(n, f)] += 1
        return "%s_%s_%d" % (n, FIELDS[f], cnt[(n, f)])
    for s in [x.strip() for x in block.split(";")]:
        s = re.sub(r"\s+", " ", s)
        if not s or s.startswith("assert"):
            continue
        if re.fullmatch(r"cell_ptr c2 = cell_lst\[c2_id\]", s) or re.fullmatch(r"node& n2 = c2->node_lst_\[n2_id\]", s):
            continue
        if re.fullmatch(r"const double c2_node_mass = c2->get_node_mass\(\)", s):
            if "c2_node_mass" not in env:
                raise Tr("c2_node_mass in a block without a second cell")
            continue
        m = re.fullmatch(r"c[12]->kinetic_energy_ \+= (.*)", s)
        if m:
            PE(tokenize(subst(m.group(1))), env).sum()       # must parse; not part of the modelled law
            continue
        m = re.fullmatch(r"const (vec3|double) (\w+) = (.*)", s)
        if m:
            e, te = PE(tokenize(subst(m.group(3))), env).sum()
            if te != ("v" if m.group(1) == "vec3" else "d"):
                raise Tr("declaration of %s: type mismatch" % m.group(2))
            if m.group(2) in env:
                raise Tr("redeclaration of " + m.group(2))
            env[m.group(2)] = te; lets.append("let %s := %s in" % (m.group(2), e)); continue
        m = re.fullmatch(r"(n\d)\.(pos_|momentum_|force_)\.(translate|reset)\((.*)\)", s)
        if m:
            n, f, op, arg = m.groups()
            if n not in nodes:
                raise Tr("assignment to a node that is not in scope: " + s)
            if op == "reset" and arg.strip() == "":
                val = "(vzero N)"
            else:
                e, te = PE(tokenize(subst(arg)), env).sum()
                if te != "v":
                    raise Tr("vector expected in: " + s)
                val = e if op == "reset" else "(vadd N %s %s)" % (st[(n, f)], e)
            name = fresh(n, f); lets.append("let %s := %s in" % (name, val)); st[(n, f)] = name; env[name] = "v"; continue
        raise Tr("statement not understood: " + s[:120])
    return lets, st


def emit(name, params, nodes, block):
    scal = params + (["c2_node_mass"] if len(nodes) == 2 and "c2_node_mass" not in params else [])
    lets, st = symbolic(block, nodes, scal)
    res = ["(mknode (n_used %s) (n_cell %s) %s %s %s (n_cpl %s) (n_cpls %s))" % (n, n, st[(n, "pos_")], st[(n, "momentum_")], st[(n, "force_")], n, n) for n in nodes]
    ty = "@inode T" if len(nodes) == 1 else "@inode T * @inode T"
    return ("Definition %s {T : Type} (N : Num T) (%s : T) %s : %s :=\n    %s\n    %s." %
            (name, " ".join(scal), " ".join("(%s : @inode T)" % n for n in nodes), ty, "\n    ".join(lets), res[0] if len(res) == 1 else "(%s, %s)" % tuple(res)))


def flat(s):
    return re.sub(r"\s+", "", s)


def generate(repo):
    err = None; defs = []
    try:
        src = strip_comments(open(os.path.join(repo, "src", "time_integration", "time_integration.cpp")).read())
        body_all = function_body(src, r"void\s+time_integration_scheme::update_nodes_positions\s*\([^)]*\)[^{]*\{")
        for contact in (0, 1):
            for dyn in (0, 1):
                body = pp(body_all, {"CONTACT_MODEL_INDEX": contact, "DYNAMIC_MODEL_INDEX": dyn})
                tag = "over" if dyn else "dyn"
                loop, _, _ = block_after(body, r"for\s*\(\s*size_t\s+c1_id\s*=\s*0\s*;\s*c1_id\s*<\s*cell_lst\.size\(\)\s*;\s*c1_id\+\+\s*\)\s*\{", "loop over the cells")
                fl = flat(loop)
                if not fl.startswith("cell_ptrc1=cell_lst[c1_id];if(c1->is_static_){continue;}constdoublec1_node_mass=c1->get_node_mass();for(node&n1:c1->node_lst_){if(n1.is_used()){"):
                    raise Tr("contact %d: head of the loop over the cells / nodes not as expected" % contact)
                nodes_loop, _, e1 = block_after(loop, r"for\s*\(\s*node\s*&\s*n1\s*:\s*c1->node_lst_\s*\)\s*\{", "loop over the nodes")
                if flat(loop[e1:]) != "":
                    raise Tr("contact %d: statements after the loop over the nodes" % contact)
                used, _, e2 = block_after(nodes_loop, r"if\s*\(\s*n1\.is_used\(\)\s*\)\s*\{", "is_used guard")
                if flat(nodes_loop[e2:]) != "":
                    raise Tr("contact %d: statements after the is_used block" % contact)
                params = ["dt_", "damping_coeff_", "c1_node_mass"]
                if contact == 0:
                    defs.append(emit("single0_%s_gen" % tag, params, ["n1"], used)); continue
                cpl, s0, e3 = block_after(used, r"if\s*\(\s*n1\.coupled_node_\.has_value\(\)\s*\)\s*\{", "has_value guard")
                if flat(used[:s0]) != "":
                    raise Tr("statements before the has_value test")
                rest = used[e3:]
                m = re.match(r"\s*else\s*\{", rest)
                if not m:
                    raise Tr("no else-branch of the has_value test")
                single, e4 = block_at(rest, rest.index("{"))
                if flat(rest[e4:]) != "":
                    raise Tr("statements after the else-branch")
                defs.append(emit("single1_%s_gen" % tag, params, ["n1"], single))
                if not flat(cpl).startswith("constauto[c2_id,n2_id]=n1.coupled_node_.value();if(c1->get_local_id()>c2_id){"):
                    raise Tr("head of the coupled branch not as expected")
                pair, _, e5 = block_after(cpl, r"if\s*\(\s*c1->get_local_id\(\)\s*>\s*c2_id\s*\)\s*\{", "index comparison")
                if flat(cpl[e5:]) != "":
                    raise Tr("the index comparison has an else-branch or statements after it")
                for need in ("cell_ptrc2=cell_lst[c2_id];", "node&n2=c2->node_lst_[n2_id];", "constdoublec2_node_mass=c2->get_node_mass();"):
                    if need not in flat(pair):
                        raise Tr("coupled pair: missing " + need)
                defs.append(emit("pair1_%s_gen" % tag, params + ["c2_node_mass"], ["n1", "n2"], pair))
        # the time advances by dt_ once per call
        tail = flat(body_all)
        if tail.count("simulation_time_+=dt_;") != 1:
            raise Tr("simulation_time_ += dt_ does not occur exactly once")
    except Exception as e:      # noqa
        err = str(e)
    L = ["(* Integrator_gen.v — GENERATED by harness/translate_integrator.py from /repo/src/time_integration/time_integration.cpp on every run.", "   Do not edit. *)",
         "From Coq Require Import ZArith Bool List.", "From SC Require Import Num Vec3 Integrator.", ""]
    names = ["single0_dyn_gen", "single0_over_gen", "single1_dyn_gen", "pair1_dyn_gen", "single1_over_gen", "pair1_over_gen"]
    if err:
        L.append("(* translation failed: %s *)" % err.replace("*)", "* )"))
        L.append("Definition integrator_translation_ok : bool := false.")
        for nm in names:
            if nm.startswith("pair"):
                L.append("Definition %s {T : Type} (N : Num T) (dt_ damping_coeff_ c1_node_mass c2_node_mass : T) (n1 n2 : @inode T) : @inode T * @inode T := (n1, n2)." % nm)
            else:
                L.append("Definition %s {T : Type} (N : Num T) (dt_ damping_coeff_ c1_node_mass : T) (n1 : @inode T) : @inode T := n1." % nm)
    else:
        L.append("Definition integrator_translation_ok : bool := true.")
        L += defs
    return "\n".join(L) + "\n"


if __name__ == "__main__":
    repo = sys.argv[1] if len(sys.argv) > 1 else "/repo"
    out = sys.argv[2] if len(sys.argv) > 2 else os.path.join(os.path.dirname(os.path.dirname(os.path.abspath(__file__))), "coq", "Integrator_gen.v")
    txt = generate(repo)
    old = open(out).read() if os.path.exists(out) else None
    if old != txt:
        open(out, "w").write(txt)
