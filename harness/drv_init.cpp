// drv_init: the initial surface reconstruction and its acceptance gate.
//  GATE nn {x y z} nf {k ids}         cell(mesh).initialize_cell_properties(true): outcome, resulting triangles, volume
//  PDS lmin lox loy loz hix hiy hiz n {x y z}     poisson_disk_sampling: candidates placed in grid 1 (in the given order), grid 2 empty
//  INI seed tri lmin ct_class ncells {nn {x y z} nf {k ids}}     the real start-up: a mesh file is written and simulation_initializer run
#include "tissue.hpp"
#include "poisson_sampling.hpp"
#include "initial_triangulation.hpp"
#include "simulation_initializer.hpp"
#include <filesystem>
#include <fstream>
#include <map>
#include <set>
#include <unistd.h>
#include <csignal>
extern int64_t verif_clock_ns;

static std::string clean(std::string w){ for (char& ch : w) if (ch==' '||ch=='|'||ch=='\n') ch='_'; return w.substr(0, 160); }
static void on_alarm(int){ const char m[] = " TIMEOUT\n"; ssize_t r = write(1, m, sizeof m - 1); (void)r; _exit(3); }
// budget in seconds of CPU time of this process (robust against a loaded machine), with a wall-clock fallback of ten times that
#include <sys/time.h>
static void verif_budget(unsigned s){ struct itimerval it; it.it_interval.tv_sec = 0; it.it_interval.tv_usec = 0; it.it_value.tv_sec = s; it.it_value.tv_usec = 0; setitimer(ITIMER_PROF, &it, nullptr); alarm(10 * s); }

static mesh read_mesh(std::istream& in){
    mesh m; int nn; in >> nn; m.node_pos_lst.resize(3*nn); for (auto& x : m.node_pos_lst) x = rd(in);
    int nf; in >> nf; m.face_point_ids.resize(nf);
    for (auto& f : m.face_point_ids){ int k; in >> k; f.resize(k); for (auto& x : f) in >> x; }
    return m;
}

static bool valid_surface(const cell_ptr& c){
    std::map<std::pair<unsigned,unsigned>, int> he; std::set<unsigned> used; size_t nf = 0;
    for (const face& f : c->get_face_lst()) if (f.is_used()){
        auto [a,b,d] = f.get_node_ids(); nf++;
        if (a==b||b==d||a==d) return false;
        unsigned v[3] = {a,b,d};
        for (int k=0;k<3;k++){ if (v[k] >= c->get_node_lst().size() || !c->get_node_lst()[v[k]].is_used()) return false; used.insert(v[k]);
            if (++he[{v[k], v[(k+1)%3]}] > 1) return false; }
    }
    for (auto& kv : he) if (!he.count({kv.first.second, kv.first.first})) return false;
    size_t nlive = 0; for (const node& n : c->get_node_lst()) if (n.is_used()) nlive++;
    if (used.size() != nlive) return false;
    return (long)nlive - (long)he.size()/2 + (long)nf == 2;
}
static double signed_volume(const cell_ptr& c){
    double v = 0;
    for (const face& f : c->get_face_lst()) if (f.is_used()){
        auto [a,b,d] = f.get_node_ids();
        v += c->get_node_lst()[a].pos().dot(c->get_node_lst()[b].pos().cross(c->get_node_lst()[d].pos()));
    }
    return v / 6.;
}

int main(){
    std::string line;
    std::signal(SIGALRM, on_alarm); std::signal(SIGPROF, on_alarm);
    while (std::getline(std::cin, line)){
        if (line.empty()) continue;
        std::istringstream in(line); std::string mode; in >> mode;
        std::cout.flush(); verif_budget(300);
        try {
            if (mode == "GATE"){
                mesh m = read_mesh(in);
                cell_ptr c = std::make_shared<cell>(m, 0);
                try {
                    c->initialize_cell_properties(true);
                    std::cout << "ACCEPT";
                    for (const face& f : c->get_face_lst()) if (f.is_used()){ auto [a,b,d] = f.get_node_ids(); std::cout << " " << a << " " << b << " " << d; }
                    std::cout << " | " << (valid_surface(c) ? 1 : 0) << " " << hx(signed_volume(c)) << " " << hx(c->get_volume()) << "\n";
                } catch (const std::exception& e){ std::cout << "REJECT " << clean(e.what()) << "\n"; }
            } else if (mode == "PDS"){
                double lmin = rd(in), lo[3], hi[3]; for (double& x : lo) x = rd(in); for (double& x : hi) x = rd(in);
                int n; in >> n; std::vector<oriented_point> pts;
                for (int i = 0; i < n; i++){ double x = rd(in), y = rd(in), z = rd(in); // normals of all orientations (the spacing rule does not depend on them): +z, -z, +x, oblique
                    static const double nrm[4][3] = {{0,0,1},{0,0,-1},{1,0,0},{-0.6,0.8,0}};
                    pts.emplace_back((unsigned)i, vec3(x,y,z), vec3(nrm[i%4][0], nrm[i%4][1], nrm[i%4][2])); }
                uspg_4d<oriented_point> g1(lo[0],lo[1],lo[2],hi[0],hi[1],hi[2], lmin, n), g2(lo[0],lo[1],lo[2],hi[0],hi[1],hi[2], lmin, n);
                for (oriented_point& p : pts) g1.place_object(p, p.position_);
                auto out = poisson_sampling::poisson_disk_sampling(g1, g2, lmin);
                std::cout << "CLOUD " << out.size();
                for (auto& p : out) std::cout << " " << p.id_;
                std::cout << "\n";
            } else if (mode == "INI"){
                long seed; int tri; in >> seed >> tri; double lmin = rd(in); int cls, nc; in >> cls >> nc;
                verif_clock_ns = 1700000000000000000LL + seed * 1000003LL;
                std::string dir = std::string("/verif/.cache/tmp/ini_") + std::to_string(getpid());
                std::filesystem::create_directories(dir);
                std::vector<mesh> ms; for (int i = 0; i < nc; i++) ms.push_back(read_mesh(in));
                { // write the input file in the layout of data/input_meshes (faces may be arbitrary polygons)
                    std::ofstream f(dir + "/in.vtk"); f.precision(17);
                    size_t np = 0; for (auto& m : ms) np += m.node_pos_lst.size()/3;
                    f << "# vtk DataFile Version 4.2\nvtk output\nASCII\nDATASET UNSTRUCTURED_GRID\nPOINTS " << np << " double\n";
                    for (auto& m : ms) for (size_t i = 0; i < m.node_pos_lst.size(); i++) f << m.node_pos_lst[i] << ((i % 9 == 8) ? "\n" : " ");
                    f << "\n";
                    std::vector<std::vector<unsigned>> recs; size_t off = 0, tot = 0;
                    for (auto& m : ms){ std::vector<unsigned> r; r.push_back(m.face_point_ids.size()); for (auto& fc : m.face_point_ids){ r.push_back(fc.size()); for (unsigned x : fc) r.push_back(x + off); } off += m.node_pos_lst.size()/3; tot += r.size() + 1; recs.push_back(r); }
                    f << "CELLS " << ms.size() << " " << tot << "\n";
                    for (auto& r : recs){ f << r.size(); for (unsigned x : r) f << " " << x; f << "\n"; }
                    f << "\nCELL_TYPES " << ms.size() << "\n"; for (size_t i = 0; i < ms.size(); i++) f << "42\n";
                    f << "\nCELL_DATA " << ms.size() << "\nFIELD FieldData 1\ncell_type_id 1 " << ms.size() << " int\n"; for (size_t i = 0; i < ms.size(); i++) f << "0 "; f << "\n";
                }
                global_simulation_parameters sp; sp.input_mesh_path_ = dir + "/in.vtk"; sp.output_folder_path_ = dir + "/out"; sp.perform_initial_triangulation_ = tri != 0;
                sp.enable_edge_swap_operation_ = false; sp.damping_coefficient_ = 1e-9; sp.simulation_duration_ = 1e-6; sp.sampling_period_ = 1e-7; sp.time_step_ = 1e-7;
                sp.min_edge_len_ = lmin; sp.contact_cutoff_adhesion_ = lmin * 0.3; sp.contact_cutoff_repulsion_ = lmin * 0.3;
                auto ct = std::make_shared<cell_type_parameters>(); ct->name_ = "t"; ct->global_type_id_ = (short)cls; ct->mass_density_ = 1e3; ct->bulk_modulus_ = 2500; ct->max_pressure_ = 1e300;
                ct->avg_division_vol_ = 1e300; ct->target_isoperimetric_ratio_ = 150; ct->surface_coupling_max_curvature_ = 1e7;
                face_type_parameters ft; ft.name_ = "f"; ft.repulsion_strength_ = 1e9; ct->add_face_type(ft); ct->add_face_type(ft); ct->add_face_type(ft);
                std::string outcome;
                try {
                    simulation_initializer si(sp, {ct}, false);
                    std::cout << "CELLS " << si.get_cell_lst().size();
                    for (const cell_ptr& c : si.get_cell_lst()){
                        auto bb = c->get_aabb();
                        std::cout << " C " << (valid_surface(c) ? 1 : 0) << " " << hx(signed_volume(c)) << " " << hx(c->get_volume()) << " " << c->get_nb_of_nodes() << " " << c->get_nb_of_faces();
                        for (double x : bb) std::cout << " " << hx(x);
                        // shortest edge
                        double mn = 1e300; for (const edge& e : c->get_edge_set()){ double l = (c->get_node_lst()[e.n1()].pos() - c->get_node_lst()[e.n2()].pos()).norm(); mn = std::min(mn, l); }
                        std::cout << " " << hx(mn);
                    }
                    std::cout << "\n";
                } catch (const intialization_exception& e){ std::cout << "EXC initialization " << clean(e.what()) << "\n"; }
                  catch (const std::exception& e){ std::cout << "EXC other " << clean(e.what()) << "\n"; }
                std::filesystem::remove_all(dir);
            } else std::cout << "FATAL unknown mode\n";
        } catch (const std::exception& e){ std::cout << "FATAL " << clean(e.what()) << "\n"; }
        verif_budget(0);
    }
    return 0;
}
