// drv_kernel: one case per line: 12 hex doubles p a b c -> "dist u v w" from the real kernel
#include "drv_common.hpp"
#include <array>
#include "contact_model_abstract.hpp"
#include <omp.h>
#include <cstring>
#include <vector>
// `drv_kernel mt <threads> <reps>`: all cases are read first and evaluated one after another; then every case is evaluated again
// from <threads> threads at once, <reps> times, and compared bit for bit with its sequential result (the kernel is called from
// the parallel loops of every contact model); finally each result is held by reference across the next call.
static int many_threads(int threads, int reps){
    std::vector<std::array<double,12>> cs; std::string line;
    while (std::getline(std::cin, line)){ if (line.empty()) continue; std::istringstream in(line); std::array<double,12> x; for (int i=0;i<12;i++) x[i]=rd(in); cs.push_back(x); }
    auto call = [&](size_t i){ const auto& x = cs[i]; std::pair<double, vec3> r = contact_model_abstract::compute_node_triangle_distance(vec3(x[0],x[1],x[2]), vec3(x[3],x[4],x[5]), vec3(x[6],x[7],x[8]), vec3(x[9],x[10],x[11])); return std::array<double,4>{r.first, r.second.dx(), r.second.dy(), r.second.dz()}; };
    std::vector<std::array<double,4>> seq(cs.size());
    for (size_t i = 0; i < cs.size(); i++) seq[i] = call(i);
    long long bad = 0; long long first = -1; std::array<double,4> got{};
    omp_set_num_threads(threads);
    for (int r = 0; r < reps; r++){
        #pragma omp parallel for schedule(static)
        for (size_t i = 0; i < cs.size(); i++){
            std::array<double,4> v = call(i);
            if (std::memcmp(v.data(), seq[i].data(), sizeof(double)*4) != 0){
                #pragma omp critical
                { bad++; if (first < 0){ first = (long long)i; got = v; } }
            }
        }
    }
    std::cout << "MT mismatches=" << bad << " first=" << first;
    if (first >= 0) std::cout << " got=" << hx(got[0]) << "," << hx(got[1]) << "," << hx(got[2]) << "," << hx(got[3]) << " sequential=" << hx(seq[first][0]) << "," << hx(seq[first][1]) << "," << hx(seq[first][2]) << "," << hx(seq[first][3]);
    std::cout << "\n";
    long long hbad = 0, hfirst = -1;
    for (size_t i = 0; i + 1 < cs.size(); i++){
        const auto& x = cs[i]; const auto& y = cs[i+1];
        const auto& r1 = contact_model_abstract::compute_node_triangle_distance(vec3(x[0],x[1],x[2]), vec3(x[3],x[4],x[5]), vec3(x[6],x[7],x[8]), vec3(x[9],x[10],x[11]));
        const auto& r2 = contact_model_abstract::compute_node_triangle_distance(vec3(y[0],y[1],y[2]), vec3(y[3],y[4],y[5]), vec3(y[6],y[7],y[8]), vec3(y[9],y[10],y[11]));
        std::array<double,4> v{r1.first, r1.second.dx(), r1.second.dy(), r1.second.dz()}; (void)r2;
        if (std::memcmp(v.data(), seq[i].data(), sizeof(double)*4) != 0){ hbad++; if (hfirst < 0) hfirst = (long long)i; }
    }
    std::cout << "HELD mismatches=" << hbad << " first=" << hfirst << "\n";
    return 0;
}
int main(int argc, char** argv){
    if (argc >= 4 && std::string(argv[1]) == "mt") return many_threads(std::atoi(argv[2]), std::atoi(argv[3]));
    std::string line;
    while (std::getline(std::cin, line)){
        if (line.empty()) continue;
        std::istringstream in(line);
        double x[12]; for (int i=0;i<12;i++) x[i]=rd(in);
        vec3 p(x[0],x[1],x[2]), a(x[3],x[4],x[5]), b(x[6],x[7],x[8]), c(x[9],x[10],x[11]);
        auto r = contact_model_abstract::compute_node_triangle_distance(p,a,b,c);
        std::cout << hx(r.first) << " " << hx(r.second.dx()) << " " << hx(r.second.dy()) << " " << hx(r.second.dz()) << "\n";
    }
    return 0;
}
