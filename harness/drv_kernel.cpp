// drv_kernel: one case per line: 12 hex doubles p a b c -> "dist u v w" from the real kernel
#include "drv_common.hpp"
#include "contact_model_abstract.hpp"
int main(){
    std::string line;
    while (std::getline(std::cin, line)){
        if (line.empty()) continue;
        std::istringstream in(line);
        double x[12]; for (int i=0;i<12;i++) x[i]=rd(in);
        vec3 p(x[0],x[1],x[2]), a(x[3],x[4],x[5]), b(x[6],x[7],x[8]), c(x[9],x[10],x[11]);
        auto r = contact_model_abstract::compute_node_triangle_distance(p,a,b,c);
        std::cout << hx(r.first) << " " << hx(r.second.dx()) << " " << hx(r.second.dy()) << " " << hx(r.second.dz()) << "\n";
    }
    return 0;
}
