// drv_solver: the real solver on a generated tissue, iteration by iteration, with dumps of identities, cross
// references (validated by bounds-checked dereferences), and geometry.
// line: <tissue case> RUN niter threads seed every outdir_tag NEV {iter listpos factor}   (before iteration iter, scale the cell at listpos)
// out : sections separated by " # ":
//   IT k counter | cells {id local class nslots nlive nfaces nft V Vt P} | REF {violations...} [| GEO {cell: nn {used x y z} nf {a b c}}]
//   or EXC k what
#include "tissue.hpp"
#include "solver.hpp"
#include <filesystem>
#include <unistd.h>
extern int64_t verif_clock_ns;

struct vsolver : public solver { using solver::solver;
    unsigned counter() const { return max_cell_id_; }
    unsigned iteration() const { return iteration_; }
    unsigned file_number() const { return file_number_; }
    double time() const { return time_integrator_ptr_->get_simulation_time(); } };

class cell_tester {
public:
    static int ntypes(cell_ptr c){ return (int)c->cell_type_->face_types_.size(); }
    static int type_of(const face& f){ return f.type_id_; }
    static const std::vector<node>& nodes(cell_ptr c){ return c->node_lst_; }
    static void scale(cell_ptr c, double f){
        double m[3] = {0,0,0}; size_t k = 0;
        for (node& n : c->node_lst_) if (n.is_used()){ m[0]+=n.pos().dx(); m[1]+=n.pos().dy(); m[2]+=n.pos().dz(); k++; }
        if (!k) return; for (double& x : m) x /= (double)k;
        for (node& n : c->node_lst_) if (n.is_used()) n.pos_ = vec3(m[0]+(n.pos().dx()-m[0])*f, m[1]+(n.pos().dy()-m[1])*f, m[2]+(n.pos().dz()-m[2])*f);
    }
    static bool coupled(const node& n, unsigned& c2, unsigned& n2){
#if CONTACT_MODEL_INDEX == 1
        if (n.coupled_node_.has_value()){ c2 = n.coupled_node_->first; n2 = n.coupled_node_->second; return true; }
#endif
        return false;
    }
    static std::vector<std::pair<unsigned,unsigned>> group(const node& n){
        std::vector<std::pair<unsigned,unsigned>> g;
#if CONTACT_MODEL_INDEX == 2
        for (auto& kv : n.coupled_nodes_map_) g.push_back({kv.first, kv.second.first});
#endif
        return g;
    }
};

static void dump_ids(const vsolver& s){
    const auto& cl = s.get_cell_lst();
    std::cout << "IT " << s.iteration() << " " << s.counter() << " " << hx(s.time()) << " " << s.file_number() << " |";
    for (const cell_ptr& c : cl)
        std::cout << " " << c->get_id() << " " << c->get_local_id() << " " << c->get_cell_type_id() << " " << c->get_node_lst().size() << " " << c->get_nb_of_nodes()
                  << " " << c->get_nb_of_faces() << " " << cell_tester::ntypes(c) << " " << hx(c->get_volume()) << " " << hx(c->get_target_volume()) << " " << hx(c->get_pressure());
    std::cout << " | REF";
    long ncpl = 0;
    for (size_t pos = 0; pos < cl.size(); pos++){
        const cell_ptr& c = cl[pos];
        for (const face& f : c->get_face_lst()) if (f.is_used()){
            if (f.get_owner_cell().get() != c.get()) std::cout << " owner:" << pos << ":" << f.get_local_id();
            if (cell_tester::type_of(f) >= cell_tester::ntypes(c)) std::cout << " facetype:" << pos << ":" << f.get_local_id() << ":" << cell_tester::type_of(f) << ">=" << cell_tester::ntypes(c);
        }
        const auto& nl = cell_tester::nodes(c);
        for (size_t i = 0; i < nl.size(); i++) if (nl[i].is_used()){
            unsigned c2, n2;
            std::vector<std::pair<unsigned,unsigned>> refs = cell_tester::group(nl[i]);
            if (cell_tester::coupled(nl[i], c2, n2)) refs.push_back({c2, n2});
            for (auto [rc, rn] : refs){
                ncpl++;
                if (rc >= cl.size()) { std::cout << " cplcell:" << pos << ":" << i << "->" << rc << ">=" << cl.size(); continue; }
                if (rc == pos) { std::cout << " cplself:" << pos << ":" << i; continue; }
                const auto& n2l = cell_tester::nodes(cl[rc]);
                if (rn >= n2l.size()) { std::cout << " cplnode:" << pos << ":" << i << "->" << rc << ":" << rn; continue; }
                if (!n2l[rn].is_used()) { std::cout << " cpldead:" << pos << ":" << i << "->" << rc << ":" << rn; continue; }
#if CONTACT_MODEL_INDEX == 1
                unsigned bc, bn;
                if (!cell_tester::coupled(n2l[rn], bc, bn) || bc != pos || bn != i) std::cout << " cplnotmutual:" << pos << ":" << i << "->" << rc << ":" << rn;
#endif
            }
        }
    }
    std::cout << " ncpl=" << ncpl;
}

static void dump_geo(const vsolver& s){
    std::cout << " | GEO";
    for (const cell_ptr& c : s.get_cell_lst()){
        const auto& nl = c->get_node_lst();
        std::cout << " C " << c->get_id() << " " << nl.size();
        for (const node& n : nl) std::cout << " " << (n.is_used()?1:0) << " " << hx(n.pos().dx()) << " " << hx(n.pos().dy()) << " " << hx(n.pos().dz());
        size_t nf = 0; for (const face& f : c->get_face_lst()) if (f.is_used()) nf++;
        std::cout << " " << nf;
        for (const face& f : c->get_face_lst()) if (f.is_used()){ auto [a,b,d] = f.get_node_ids(); std::cout << " " << a << " " << b << " " << d; }
    }
}

int main(){
    std::string line;
    while (std::getline(std::cin, line)){
        if (line.empty()) continue;
        std::istringstream in(line);
        std::string out_dir;
        try {
            tissue_case t = read_tissue(in);
            expect(in, "RUN"); int niter, threads; long seed; int every; std::string tag; in >> niter >> threads >> seed >> every >> tag;
            int nev = 0; in >> nev; struct EV { int it; unsigned pos; double f; }; std::vector<EV> evs(nev);
            for (auto& e : evs){ in >> e.it >> e.pos; e.f = rd(in); }
            verif_clock_ns = 1700000000000000000LL + seed * 1000003LL;
            std::vector<cell_ptr> cells = build_cells(t, true);
            if (std::getenv("VERIF_INCOMING_IDS")) for (size_t i = 0; i < cells.size(); i++){ cells[i]->set_id((unsigned)(3 * (cells.size() - i) + 4)); cells[i]->set_local_id((unsigned)(3 * (cells.size() - i) + 4)); }
            out_dir = std::string("/verif/.cache/tmp/sv_") + tag + "_" + std::to_string(getpid());
            t.sp.output_folder_path_ = out_dir;
            vsolver s(t.sp, cells, threads, true, false);
            dump_ids(s); dump_geo(s); std::cout << " # ";
            for (int k = 0; k < niter; k++){
                for (auto& e : evs) if (e.it == k && e.pos < s.get_cell_lst().size()) cell_tester::scale(s.get_cell_lst()[e.pos], e.f);
                try { s.run_iteration(); }
                catch (const std::exception& e){ std::string w = e.what(); for (char& ch : w) if (ch==' '||ch=='#'||ch=='|') ch='_'; std::cout << "EXC " << k << " " << w << " # "; break; }
                dump_ids(s);
                if ((every > 0 && (k+1) % every == 0) || k == niter-1) dump_geo(s);
                std::cout << " # ";
                if (s.get_cell_lst().empty()) break;
            }
            std::cout << "\n";
        } catch (const std::exception& e){ std::cout << "FATAL " << e.what() << "\n"; }
        if (!out_dir.empty()) std::filesystem::remove_all(out_dir);
    }
    return 0;
}
