#!/usr/bin/env python3
"""translate_cellcycle.py — regenerates coq/CellCycle_gen.v from /repo's sources on every run: the four small member
functions on which the cell-cycle law rests,
    cell::update_target_volume   (src/mesh/cell.cpp)
    cell::update_pressure        (src/mesh/cell.cpp; the statements that assign pressure_)
    cell::is_below_min_vol       (include/mesh/cell.hpp)
    epithelial_cell::is_ready_to_divide (include/mesh/cell_types/epithelial_cell.hpp)
are read as sequences of assignments to members (`x = e;`, `x += e;`, `if (c) x = e;`) or as one returned comparison, and
re-emitted as Gallina let-chains over an abstract number type.  Properties_C04.v proves them equal to the hand-written
CellCycle.v by reflexivity.  Fails closed."""
import re, sys, os
sys.path.insert(0, os.path.dirname(os.path.abspath(__file__)))
from translate_columns import strip_comments
from translate_iteration import function_body
from translate_kernel import tokenize, Tr


# member / parameter of the C++ -> variable of the generated function
NAMES = {"target_volume_": "vt", "growth_rate_": "g", "time_step": "dt", "cell_type_->min_vol_": "minvol",
         "pressure_": "p", "cell_type_->bulk_modulus_": "K", "cell_type_->max_pressure_": "pmax", "volume_": "V",
         "division_volume_": "vdiv"}


def normalise(s):
    s = re.sub(r"\s+", " ", s.strip())
    for k in sorted(NAMES, key=len, reverse=True):
        s = re.sub(r"(?<![\w>])" + re.escape(k) + r"(?!\w)", NAMES[k], s)
    s = s.replace("std::log", "LOG")
    return s


class E:
    """scalar expressions over the variables, + - * / unary minus, LOG(e), comparisons"""
    def __init__(self, toks, vars_):
        self.t = toks; self.i = 0; self.v = vars_

    def peek(self):
        return self.t[self.i] if self.i < len(self.t) else None

    def eat(self, x=None):
        tok = self.peek()
        if x is not None and tok != x:
            raise Tr("expected %r, found %r" % (x, tok))
        self.i += 1
        return tok

    def cmp(self):
        a = self.sum(); op = self.eat(); b = self.sum()
        if op == "<":
            return "nltb N %s %s" % (a, b)
        if op == ">":
            return "nltb N %s %s" % (b, a)
        if op == "<=":
            return "nleb N %s %s" % (a, b)
        if op == ">=":
            return "nleb N %s %s" % (b, a)
        raise Tr("comparison %r" % op)

    def sum(self):
        l = self.prod()
        while self.peek() in ("+", "-"):
            op = self.eat(); r = self.prod()
            l = "(%s N %s %s)" % ("nadd" if op == "+" else "nsub", l, r)
        return l

    def prod(self):
        l = self.unary()
        while self.peek() in ("*", "/"):
            op = self.eat(); r = self.unary()
            l = "(%s N %s %s)" % ("nmul" if op == "*" else "ndiv", l, r)
        return l

    def unary(self):
        if self.peek() == "-":
            self.eat()
            return "(nneg N %s)" % self.unary()
        return self.atom()

    def atom(self):
        tok = self.eat()
        if tok == "(":
            e = self.sum(); self.eat(")")
            return e
        if tok == "LOG":
            self.eat("("); e = self.sum(); self.eat(")")
            return "(llog L %s)" % e
        if tok in self.v:
            return tok
        raise Tr("unknown token %r" % tok)


def let_chain(body, params, result):
    """assignments to `result` (and only to it) -> nested lets; returns the Gallina body"""
    out = []
    stmts = [x.strip() for x in body.split(";") if x.strip()]
    for st in stmts:
        if st.startswith("assert"):
            continue
        m = re.fullmatch(r"if\s*\((.*)\)\s*(\w+)\s*=\s*(.*)", st)
        if m:
            if m.group(2) != result:
                continue
            c = E(tokenize(m.group(1)), params).cmp(); e = E(tokenize(m.group(3)), params).sum()
            out.append("let %s := if %s then %s else %s in" % (result, c, e, result)); continue
        m = re.fullmatch(r"(\w+)\s*(\+=|=)\s*(.*)", st)
        if m:
            if m.group(1) != result:
                if m.group(1) in params:
                    raise Tr("assignment to an input: " + st)
                continue            # another member (energies): not part of the law
            e = E(tokenize(m.group(3)), params).sum()
            if m.group(2) == "+=":
                e = "(nadd N %s %s)" % (result, e)
            out.append("let %s := %s in" % (result, e)); continue
        raise Tr("statement not understood: " + st[:80])
    if not out:
        raise Tr("no assignment to " + result)
    return "\n    ".join(out) + "\n    " + result


def returned_comparison(body, params):
    stmts = [x.strip() for x in body.split(";") if x.strip() and not x.strip().startswith("assert")]
    if len(stmts) != 1 or not stmts[0].startswith("return"):
        raise Tr("expected a single return: " + "; ".join(stmts)[:100])
    return E(tokenize(stmts[0][len("return"):]), params).cmp()


def generate(repo):
    err = None; defs = []
    try:
        cpp = strip_comments(open(os.path.join(repo, "src", "mesh", "cell.cpp")).read())
        hpp = strip_comments(open(os.path.join(repo, "include", "mesh", "cell.hpp")).read())
        epi = strip_comments(open(os.path.join(repo, "include", "mesh", "cell_types", "epithelial_cell.hpp")).read())
        b = normalise(function_body(cpp, r"void\s+cell::update_target_volume\s*\(\s*const\s+double\s+time_step\s*\)[^{]*\{"))
        defs.append("Definition update_target_volume_gen {T} (N : Num T) (dt g minvol vt : T) : T :=\n    " + let_chain(b, {"dt", "g", "minvol", "vt"}, "vt") + ".")
        b = normalise(function_body(cpp, r"void\s+cell::update_pressure\s*\(\s*\)[^{]*\{"))
        # the pressure law: assignments to pressure_; the statement for pressure_energy_ is not part of it
        defs.append("Definition update_pressure_gen {T} (N : Num T) (L : Libm T) (K pmax V vt : T) : T :=\n    " + let_chain(b, {"K", "pmax", "V", "vt", "p"}, "p").replace("let p := if", "let p := if") + ".")
        b = normalise(function_body(hpp, r"bool\s+is_below_min_vol\s*\(\s*\)\s*const[^{]*\{"))
        defs.append("Definition is_below_gen {T} (N : Num T) (V minvol : T) : bool :=\n    " + returned_comparison(b, {"V", "minvol"}) + ".")
        b = normalise(function_body(epi, r"bool\s+is_ready_to_divide\s*\(\s*\)\s*const[^{]*\{"))
        defs.append("Definition epithelial_is_ready_gen {T} (N : Num T) (V vdiv : T) : bool :=\n    " + returned_comparison(b, {"V", "vdiv"}) + ".")
        # the base class: never ready
        if not re.search(r"virtual\s+bool\s+is_ready_to_divide\s*\(\s*\)\s*const\s+noexcept\s*\{\s*return\s+false\s*;\s*\}", hpp):
            raise Tr("cell::is_ready_to_divide (base class) is not `return false`")
        # ---- initialize_random_properties: when a value is drawn, and the +-3 sigma cap applied to it
        from blocktr import parse as bparse, split_statements, as_list
        from translate_forces import Walker, rx_sub, flat as flat_
        ib = function_body(cpp, r"void\s+cell::initialize_random_properties\s*\(\s*\)\s*noexcept\s*\{")
        tops = [x for x in split_statements(ib) if x[0] == "if"]
        if len(tops) != 2:
            raise Tr("initialize_random_properties: two if/else statements expected")
        for node, var, avg, sd, name, extra in ((tops[0], "growth_rate_", "avg_growth_rate_", "std_growth_rate_", "growth_of_gen", ""),
                                                (tops[1], "division_volume_", "avg_division_vol_", "std_division_vol_", "divvol_of_gen", "(avg_is_inf : bool) ")):
            sub = rx_sub([(r"cell_type_->" + avg, "avg"), (r"cell_type_->" + sd, "sd"), (r"std::isinf\(avg\)", "avg_is_inf"), (r"distribution\(gen\)", "raw"), (r"\b" + var, "x")])
            env = {"avg": "d", "sd": "d", "raw": "d", "x": "d", "avg_is_inf": "b"}
            c_, _ = bparse(sub(sub(node[1])), env, "b")
            blk = as_list(node[2])
            heads = [flat_(y[1]) for y in blk[:2] if y[0] == "stmt"]
            if heads != ["std::minstd_randgen(std::chrono::system_clock::now().time_since_epoch().count())", "std::normal_distribution<double>distribution(cell_type_->%s,cell_type_->%s)" % (avg, sd)]:
                raise Tr("initialize_random_properties: the draw of %s" % var)
            w = Walker(env, lambda t: sub(sub(t)), "x")
            w.declared.add("x")
            def ren(nd):
                if nd is None:
                    return None
                if nd[0] == "stmt":
                    return ("stmt", sub(sub(nd[1])))
                if nd[0] == "block":
                    return ("block", [ren(y) for y in nd[1]])
                return ("if", sub(sub(nd[1])), ren(nd[2]), ren(nd[3]))
            body_ = [ren(y) for y in blk[2:]] + [("stmt", "return x")]
            g_ = w.walk(body_)
            el = as_list(node[3])
            if len(el) != 1 or flat_(el[0][1]) != "%s=cell_type_->%s" % (var, avg):
                raise Tr("initialize_random_properties: the value of %s when nothing is drawn" % var)
            defs.append("Definition %s {T} (N : Num T) %s(avg sd raw : T) : T :=\n    if %s then\n  %s\n    else avg." % (name, extra, c_, g_))
        # ---- the solver's initial target volume
        scpp = strip_comments(open(os.path.join(repo, "src", "solver.cpp")).read())
        mm = re.search(r"const\s+double\s+target_volume_\s*=\s*([^;]*);", scpp)
        if not mm or "c->set_target_volume(target_volume_);" not in flat_(scpp):
            raise Tr("solver: initial target volume")
        g_, _ = bparse(rx_sub([(r"c->get_volume\(\)", "V"), (r"cell_type_->initial_pressure_", "p0"), (r"cell_type_->bulk_modulus_", "K")])(mm.group(1)), {"V": "d", "p0": "d", "K": "d"}, "d")
        defs.append("Definition initial_target_gen {T} (N : Num T) (L : Libm T) (V p0 K : T) : T :=\n    %s." % g_)
    except Exception as e:      # noqa
        err = str(e)
    L = ["(* CellCycle_gen.v — GENERATED by harness/translate_cellcycle.py from /repo's src/mesh/cell.cpp, include/mesh/cell.hpp and",
         "   include/mesh/cell_types/epithelial_cell.hpp on every run.  Do not edit. *)",
         "From Coq Require Import ZArith Bool List.", "From SC Require Import Num.", ""]
    if err:
        L.append("(* translation failed: %s *)" % err.replace("*)", "* )"))
        L.append("Definition cellcycle_translation_ok : bool := false.")
        L += ["Definition update_target_volume_gen {T} (N : Num T) (dt g minvol vt : T) : T := vt.",
              "Definition update_pressure_gen {T} (N : Num T) (L : Libm T) (K pmax V vt : T) : T := vt.",
              "Definition is_below_gen {T} (N : Num T) (V minvol : T) : bool := false.",
              "Definition epithelial_is_ready_gen {T} (N : Num T) (V vdiv : T) : bool := false.",
              "Definition growth_of_gen {T} (N : Num T) (avg sd raw : T) : T := raw.", "Definition divvol_of_gen {T} (N : Num T) (avg_is_inf : bool) (avg sd raw : T) : T := raw.",
              "Definition initial_target_gen {T} (N : Num T) (L : Libm T) (V p0 K : T) : T := V."]
    else:
        L.append("Definition cellcycle_translation_ok : bool := true.")
        L += defs
    return "\n".join(L) + "\n"


if __name__ == "__main__":
    repo = sys.argv[1] if len(sys.argv) > 1 else "/repo"
    out = sys.argv[2] if len(sys.argv) > 2 else os.path.join(os.path.dirname(os.path.dirname(os.path.abspath(__file__))), "coq", "CellCycle_gen.v")
    txt = generate(repo)
    old = open(out).read() if os.path.exists(out) else None
    if old != txt:
        open(out, "w").write(txt)
