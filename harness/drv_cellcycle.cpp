// drv_cellcycle: growth / pressure / division trigger / removal, observed on the real cells and the real solver.
// line: <tissue case> H mode seed search niter {scale_k}
//   mode 0: cell level  (per iteration: scale every cell about its centroid by scale_k, then apply_internal_forces(dt))
//   mode 1: real solver (per iteration: scale, then solver::run_iteration())
// out : INIT {id gid V Vt P g Vdiv rawg rawdiv} | I k {id gid V Vt P g Vdiv ready below Vmesh} {X id V minvol Vdiv in_divider} | ...
//       X = a cell emptied during the iteration (clear_data), with the volume it carried when it was emptied
#include "tissue.hpp"
#include "solver.hpp"
#include <random>
#include <chrono>
#include <filesystem>
#include <unistd.h>

extern int64_t verif_clock_ns; extern int64_t verif_clock_step;
struct verif_clear_event { unsigned id; double vol, minvol, divvol; int in_divider; };
extern std::vector<verif_clear_event> verif_clear_log;      // cycle_wrap.cpp: every cell::clear_data() with the volume carried at that moment

class cell_tester {
public:
    static void scale(cell_ptr c, double f){
        // about the mean of the live nodes
        double m[3] = {0,0,0}; size_t k = 0;
        for (node& n : c->node_lst_) if (n.is_used()){ m[0]+=n.pos().dx(); m[1]+=n.pos().dy(); m[2]+=n.pos().dz(); k++; }
        if (!k) return; for (double& x : m) x /= (double)k;
        for (node& n : c->node_lst_) if (n.is_used()){
            n.pos_ = vec3(m[0] + (n.pos().dx()-m[0])*f, m[1] + (n.pos().dy()-m[1])*f, m[2] + (n.pos().dz()-m[2])*f);
        }
    }
};

struct vsolver : public solver { using solver::solver; };

// the volume enclosed by the current mesh, recomputed here from the live triangles
static double mesh_volume(const cell_ptr& c){
    double v = 0;
    for (const face& f : c->get_face_lst()) if (f.is_used()){
        auto [a,b,d] = f.get_node_ids();
        v += c->get_node_lst()[a].pos().dot(c->get_node_lst()[b].pos().cross(c->get_node_lst()[d].pos()));
    }
    return std::fabs(v) / 6.;
}

static void dump(const std::vector<cell_ptr>& cells){
    for (const cell_ptr& c : cells){
        std::cout << " " << c->get_id() << " " << c->get_cell_type_id() << " " << hx(c->get_volume()) << " " << hx(c->get_target_volume())
                  << " " << hx(c->get_pressure()) << " " << hx(c->get_growth_rate()) << " " << hx(c->get_division_volume())
                  << " " << (c->is_ready_to_divide() ? 1 : 0) << " " << (c->is_below_min_vol() ? 1 : 0) << " " << hx(mesh_volume(c)) << " ;";
    }
}

// what initialize_random_properties draws from the wrapped clock, replayed with the same generator types
static void replay_draws(const cell_type_parameters& ct, int64_t clock0, double& rawg, double& rawd){
    int64_t ns = clock0; rawg = std::nan(""); rawd = std::nan("");
    if (ct.std_growth_rate_ != 0.){ ns += verif_clock_step; std::minstd_rand gen(ns); std::normal_distribution<double> d(ct.avg_growth_rate_, ct.std_growth_rate_); rawg = d(gen); }
    if (ct.std_division_vol_ != 0. && !std::isinf(ct.avg_division_vol_)){ ns += verif_clock_step; std::minstd_rand gen(ns); std::normal_distribution<double> d(ct.avg_division_vol_, ct.std_division_vol_); rawd = d(gen); }
}

int main(){
    std::string line; long caseno = 0;
    while (std::getline(std::cin, line)){
        if (line.empty()) continue;
        caseno++;
        std::istringstream in(line);
        try {
            tissue_case t = read_tissue(in);
            expect(in, "H"); int mode; long seed; int search, niter; in >> mode >> seed >> search >> niter;
            std::vector<double> scales(niter); for (auto& s : scales) s = rd(in);
            std::vector<cell_ptr> cells;
            std::cout << "INIT";
            for (size_t i=0;i<t.meshes.size();i++){
                auto ct = t.types[t.cell_type_index[i]];
                int64_t clock0 = 1700000000000000000LL + seed * 7919 + (int64_t)i * 104729;
                double rawg, rawd;
                if (search){   // look for a clock value whose draw lies beyond 3 sigma (exercises the clamp)
                    for (int k=0;k<20000;k++){
                        replay_draws(*ct, clock0, rawg, rawd);
                        bool hit = (ct->std_growth_rate_ != 0. && std::fabs(rawg - ct->avg_growth_rate_) > 3*ct->std_growth_rate_) ||
                                   (!std::isnan(rawd) && std::fabs(rawd - ct->avg_division_vol_) > 3*ct->std_division_vol_);
                        if (hit) break; clock0 += 15485863;
                    }
                }
                replay_draws(*ct, clock0, rawg, rawd);
                verif_clock_ns = clock0;
                cell_ptr c = make_cell(t.meshes[i], (unsigned)i, ct);
                c->initialize_cell_properties();
                cells.push_back(c);
                std::cout << " " << hx(rawg) << " " << hx(rawd) << " " << hx(c->get_growth_rate()) << " " << hx(c->get_division_volume()) << " " << hx(c->get_volume()) << " ;";
            }
            std::string out_dir = std::string("/verif/.cache/tmp/cc_") + std::to_string(getpid());
            t.sp.output_folder_path_ = out_dir;
            // the real solver constructor sets the initial target volume and pressure
            vsolver s(t.sp, cells, 1, true, false);
            std::cout << " | I -1"; dump(s.get_cell_lst());
            const double dt = t.sp.time_step_;
            for (int k=0;k<niter;k++){
                for (const cell_ptr& c : s.get_cell_lst()) if (scales[k] != 1.0) cell_tester::scale(c, scales[k]);
                if (mode == 0){ for (const cell_ptr& c : s.get_cell_lst()) c->apply_internal_forces(dt); }
                else { verif_clear_log.clear(); s.run_iteration(); }
                std::cout << " | I " << k; dump(s.get_cell_lst());
                if (mode != 0) for (const auto& e : verif_clear_log) std::cout << " X " << e.id << " " << hx(e.vol) << " " << hx(e.minvol) << " " << hx(e.divvol) << " " << e.in_divider << " ;";
            }
            std::cout << "\n";
            std::filesystem::remove_all(out_dir);
        } catch (const std::exception& e){
            std::cout << "EXC " << e.what() << "\n";
        }
    }
    return 0;
}
