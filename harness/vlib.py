"""vlib.py — shared machinery of /verif/check.

  * builds /repo's current working tree into cached objects (per file, keyed by content hash),
  * builds C++ drivers against them, the Coq development and the extracted OCaml model,
  * runs implementation and model on the same cases, compares, searches, writes evidence,
  * prints VIOLATION / KNOWN-FINDING lines according to known_findings.json.
"""
import hashlib, json, os, re, subprocess, sys, time, glob, shutil, struct, random, math
from concurrent.futures import ThreadPoolExecutor

VERIF = os.path.dirname(os.path.dirname(os.path.abspath(__file__)))
REPO = os.environ.get("VERIF_REPO", "/repo")
CACHE = os.path.join(VERIF, ".cache")
COQ = os.path.join(VERIF, "coq")
OCAML = os.path.join(VERIF, "ocaml")
HARNESS = os.path.join(VERIF, "harness")
NJOBS = int(os.environ.get("VERIF_JOBS", "16"))

GUARD = "SIMUCELL3D_VERIF"


def log(*a):
    print(*a, file=sys.stderr, flush=True)


def sha(*parts):
    h = hashlib.sha256()
    for p in parts:
        if isinstance(p, str):
            p = p.encode()
        h.update(p)
        h.update(b"\0")
    return h.hexdigest()[:24]


def read(path, mode="rb"):
    with open(path, mode) as f:
        return f.read()


def run(cmd, timeout=None, input=None, cwd=None, env=None, check=False, text=True):
    e = dict(os.environ)
    if env:
        e.update(env)
    p = subprocess.run(cmd, input=input, capture_output=True, text=text, timeout=timeout, cwd=cwd, env=e)
    if check and p.returncode != 0:
        raise RuntimeError("command failed (%d): %s\n%s\n%s" % (p.returncode, cmd if isinstance(cmd, str) else " ".join(cmd), p.stdout[-4000:] if text else "", p.stderr[-4000:] if text else ""))
    return p


# ------------------------------------------------------------------------------------------------
# C++ side: objects of the repository, drivers
# ------------------------------------------------------------------------------------------------

def repo_sources():
    srcs = []
    for root, dirs, files in os.walk(os.path.join(REPO, "src")):
        if "python_bindings" in root:
            continue
        for f in sorted(files):
            if f.endswith(".cpp"):
                srcs.append(os.path.join(root, f))
    srcs.append(os.path.join(REPO, "lib/tinyxml2/tinyxml2.cpp"))
    return sorted(srcs)


def include_dirs():
    dirs = []
    for root, ds, files in os.walk(os.path.join(REPO, "include")):
        dirs.append(root)
    dirs += [os.path.join(REPO, "lib/tinyxml2"), os.path.join(REPO, "lib/delaunator/include")]
    return sorted(dirs)


_hdr_digest = None


def headers_digest():
    global _hdr_digest
    if _hdr_digest is None:
        h = hashlib.sha256()
        files = []
        for d in [os.path.join(REPO, "include"), os.path.join(REPO, "lib/tinyxml2"), os.path.join(REPO, "lib/delaunator/include")]:
            for root, ds, fs in os.walk(d):
                for f in sorted(fs):
                    if f.endswith((".hpp", ".h")):
                        files.append(os.path.join(root, f))
        for f in sorted(files):
            h.update(f.encode()); h.update(read(f))
        for f in sorted(glob.glob(os.path.join(HARNESS, "*.hpp"))):
            h.update(f.encode()); h.update(read(f))
        _hdr_digest = h.hexdigest()
    return _hdr_digest


def cxx_flags(contact=1, dynamic=0, san=False, hooks=True, opt="-O1"):
    fl = ["-std=c++17", opt, "-g1", "-w", "-DNDEBUG", "-ffp-contract=off", "-fopenmp",
          '-DPROJECT_SOURCE_DIR="%s"' % REPO,
          "-include", os.path.join(HARNESS, "cfg_override.hpp"),
          "-DVERIF_CONTACT_MODEL_INDEX=%d" % contact, "-DVERIF_DYNAMIC_MODEL_INDEX=%d" % dynamic]
    if hooks:
        fl.append("-D" + GUARD)
    if san == "asan" or san is True:
        # _GLIBCXX_ASSERTIONS: a subscript beyond the size of a std::vector / std::array / std::optional access aborts even where the
        # address it would read is addressable (far beyond the red zone, or inside the capacity), which AddressSanitizer cannot see
        fl += ["-fsanitize=address,undefined", "-fno-sanitize-recover=all", "-fno-omit-frame-pointer", "-D_GLIBCXX_ASSERTIONS"]
    elif san == "tsan":
        fl += ["-fsanitize=thread"]
    fl += ["-I" + d for d in include_dirs()]
    return fl


class BuildError(Exception):
    pass


def _compile(src, flags, outdir):
    key = sha(" ".join(flags), src, read(src), headers_digest())
    obj = os.path.join(outdir, key + ".o")
    if not os.path.exists(obj):
        tmp = obj + ".tmp%d" % os.getpid()
        p = run(["g++"] + flags + ["-c", src, "-o", tmp])
        if p.returncode != 0:
            raise BuildError("compilation of %s failed:\n%s" % (src, p.stderr[-6000:]))
        os.replace(tmp, obj)
    else:
        os.utime(obj, None)
    return obj


def repo_objs(**cfg):
    """compile every source of /repo's working tree for this configuration (cached per file)"""
    outdir = os.path.join(CACHE, "obj")
    os.makedirs(outdir, exist_ok=True)
    flags = cxx_flags(**cfg)
    srcs = repo_sources()
    with ThreadPoolExecutor(NJOBS) as ex:
        objs = list(ex.map(lambda s: _compile(s, flags, outdir), srcs))
    return objs


def build_driver(name, extra_srcs=(), wrap_clock=False, wraps=(), **cfg):
    """build harness/drv_<name>.cpp against the repo objects; returns the executable path"""
    objs = repo_objs(**cfg)
    outdir = os.path.join(CACHE, "bin")
    os.makedirs(outdir, exist_ok=True)
    flags = cxx_flags(**cfg) + ["-I" + HARNESS]
    srcs = [os.path.join(HARNESS, "drv_%s.cpp" % name)] + [os.path.join(HARNESS, s) for s in extra_srcs]
    if wrap_clock:
        srcs.append(os.path.join(HARNESS, "clock_wrap.cpp"))
    dobjs = [_compile(s, flags, os.path.join(CACHE, "obj")) for s in srcs]
    key = sha(name, *[os.path.basename(o) for o in objs + dobjs], str(wrap_clock), *wraps)
    exe = os.path.join(outdir, "%s-%s" % (name, key))
    if not os.path.exists(exe):
        link = ["g++"] + [f for f in flags if f.startswith("-fsanitize") or f in ("-fopenmp",)] + dobjs + objs + ["-o", exe + ".tmp"]
        if wrap_clock:
            link.append("-Wl,--wrap=_ZNSt6chrono3_V212system_clock3nowEv")
        for w in wraps:
            link.append("-Wl,--wrap=" + w)
        p = run(link)
        if p.returncode != 0:
            raise BuildError("link of driver %s failed:\n%s" % (name, p.stderr[-6000:]))
        os.replace(exe + ".tmp", exe)
    else:
        os.utime(exe, None)
    prune_cache()
    return exe


def prune_cache(max_bytes=3 * 1024 ** 3):
    """keep the cache bounded: drop least recently used files beyond max_bytes"""
    files = []
    for sub in ("obj", "bin"):
        d = os.path.join(CACHE, sub)
        if os.path.isdir(d):
            for f in os.listdir(d):
                p = os.path.join(d, f)
                try:
                    st = os.stat(p)
                    files.append((st.st_mtime, st.st_size, p))
                except OSError:
                    pass
    total = sum(s for _, s, _ in files)
    if total <= max_bytes:
        return
    files.sort()
    for m, s, p in files:
        if total <= max_bytes * 0.7:
            break
        try:
            os.remove(p); total -= s
        except OSError:
            pass


# ------------------------------------------------------------------------------------------------
# Coq / OCaml side
# ------------------------------------------------------------------------------------------------

def regenerate_models():
    """the .v files that are translated from /repo's current source (rewritten only when their content changes)"""
    for script in ("translate_params.py", "translate_columns.py", "translate_facts.py", "translate_iteration.py", "translate_kernel.py", "translate_cellcycle.py", "translate_grid.py", "translate_broadphase.py", "translate_integrator.py", "translate_vec3.py", "translate_geometry.py", "translate_forces.py", "translate_narrowphase.py", "translate_refiner.py", "translate_divider.py"):
        sp = os.path.join(HARNESS, script)
        if os.path.exists(sp):
            run([sys.executable, sp, REPO])


class _CoqLock:
    """checks that run at the same time share coq/ (generated files, make): serialise that part (re-entrant within a process)"""
    depth = 0; fh = None

    def __enter__(self):
        import fcntl
        if _CoqLock.depth == 0:
            os.makedirs(CACHE, exist_ok=True)
            _CoqLock.fh = open(os.path.join(CACHE, "coq.lock"), "w")
            fcntl.flock(_CoqLock.fh, fcntl.LOCK_EX)
        _CoqLock.depth += 1

    def __exit__(self, *a):
        import fcntl
        _CoqLock.depth -= 1
        if _CoqLock.depth == 0:
            fcntl.flock(_CoqLock.fh, fcntl.LOCK_UN); _CoqLock.fh.close(); _CoqLock.fh = None


def coq_make(targets=(), timeout=1500):
    """(re)build Coq targets (full .vo).  Returns (ok, output)."""
    with _CoqLock():
        return _coq_make(targets, timeout)


def _coq_make(targets=(), timeout=1500):
    # the Makefile is generated from the files of _CoqProject that exist (a proof file still being written must not
    # block the others)
    regenerate_models()
    lines = [l.strip() for l in read(os.path.join(COQ, "_CoqProject"), "r").split("\n") if l.strip()]
    keep = [l for l in lines if not l.endswith(".v") or os.path.exists(os.path.join(COQ, l))]
    gen = "\n".join(keep) + "\n"
    genp = os.path.join(COQ, ".CoqProject.gen")
    if not os.path.exists(os.path.join(COQ, "Makefile")) or not os.path.exists(genp) or read(genp, "r") != gen:
        with open(genp, "w") as f:
            f.write(gen)
        run(["coq_makefile", "-f", ".CoqProject.gen", "-o", "Makefile"], cwd=COQ, check=True)
    p = run(["timeout", str(timeout), "make", "-k", "-j%d" % NJOBS] + list(targets), cwd=COQ)
    return p.returncode == 0, p.stdout + p.stderr


FORBIDDEN = ["Admitted", "admit", "Axiom", "Parameter", "Conjecture", "Unset Guard", "bypass_check",
             "Admit Obligations", "-type-in-type", "impredicative-set", "Unset Positivity", "Unset Universe"]

ALLOWED_AXIOMS = [
    "ClassicalDedekindReals.sig_forall_dec", "ClassicalDedekindReals.sig_not_dec",
    "FunctionalExtensionality.functional_extensionality_dep",
    "Classical_Prop.classic", "ProofIrrelevance.proof_irrelevance", "Eqdep.Eq_rect_eq.eq_rect_eq",
    "JMeq.JMeq_eq",
]


def coq_forbidden_scan():
    """grep the development for forbidden vernacular; returns list of offending lines"""
    import re
    bad = []
    pat = re.compile(r"(?<![A-Za-z_])(Admitted|admit|Axiom|Axioms|Parameter|Parameters|Conjecture|Admit Obligations|bypass_check)(?![A-Za-z_'])|Unset Guard|Unset Positivity|Unset Universe Checking|type-in-type|impredicative-set")
    for f in sorted(glob.glob(os.path.join(COQ, "*.v"))):
        txt = read(f, "r")
        # strip comments (non-nested is enough for our files; nested handled by loop)
        out = []; depth = 0; i = 0
        while i < len(txt):
            if txt.startswith("(*", i):
                depth += 1; i += 2; continue
            if txt.startswith("*)", i) and depth > 0:
                depth -= 1; i += 2; continue
            if depth == 0:
                out.append(txt[i])
            elif txt[i] == "\n":
                out.append("\n")
            i += 1
        for n, line in enumerate("".join(out).split("\n"), 1):
            if pat.search(line):
                bad.append("%s:%d: %s" % (os.path.basename(f), n, line.strip()))
    for f in [os.path.join(COQ, "_CoqProject")]:
        if os.path.exists(f):
            t = read(f, "r")
            if "type-in-type" in t or "impredicative-set" in t:
                bad.append("_CoqProject: forbidden flag")
    return bad


def check_property_file(pid, extra_targets=()):
    with _CoqLock():
        return _check_property_file(pid, extra_targets)


def _check_property_file(pid, extra_targets=()):
    """Rebuild Properties_<pid>.vo from scratch (the file itself is always re-checked by the
    kernel), parse Print Assumptions output.  Returns dict(ok, theorems, axioms, log)."""
    tgt = "Properties_%s.vo" % pid
    vo = os.path.join(COQ, tgt)
    for ext in (".vo", ".glob", ".vok", ".vos"):
        try:
            os.remove(os.path.join(COQ, "Properties_%s%s" % (pid, ext)))
        except OSError:
            pass
    ok, out = coq_make([tgt] + list(extra_targets))
    src = read(os.path.join(COQ, "Properties_%s.v" % pid), "r")
    import re
    theorems = re.findall(r"^\s*Theorem\s+([A-Za-z0-9_']+)", src, re.M)
    axioms = set()
    # Print Assumptions output: "Axioms:" followed by "name : type" lines; or "Closed under the global context"
    for m in re.finditer(r"^([A-Za-z_][A-Za-z0-9_']*(?:\.[A-Za-z0-9_']+)+)\s*(?::|$)", out, re.M):
        nm = m.group(1)
        if not nm.endswith(".v"):
            axioms.add(nm)
    closed = out.count("Closed under the global context")
    bad_axioms = sorted(a for a in axioms if a not in ALLOWED_AXIOMS and not a.startswith(("PrimFloat.", "Uint63.", "PrimInt63.", "FloatAxioms.", "FloatOps.", "Sint63.", "PArray.")))
    forb = coq_forbidden_scan()
    res = dict(ok=ok and os.path.exists(vo) and not bad_axioms and not forb,
               built=ok and os.path.exists(vo), theorems=theorems, axioms=sorted(axioms),
               closed=closed, bad_axioms=bad_axioms, forbidden=forb, log=out[-6000:])
    return res


def ocaml_model():
    with _CoqLock():
        return _ocaml_model()


def _ocaml_model():
    """build the extracted model runner ocaml/runner (from coq/Extract.v output)"""
    ok, out = coq_make(["Extract.vo"])
    if not ok:
        raise BuildError("Extract.vo failed:\n" + out[-4000:])
    ml = os.path.join(COQ, "model.ml"); mli = os.path.join(COQ, "model.mli")
    drv = os.path.join(OCAML, "driver.ml")
    key = sha(read(ml), read(mli), read(drv))
    exe = os.path.join(CACHE, "bin", "model-" + key)
    os.makedirs(os.path.dirname(exe), exist_ok=True)
    if not os.path.exists(exe):
        bdir = os.path.join(CACHE, "ocaml-" + key)
        os.makedirs(bdir, exist_ok=True)
        for f in (ml, mli, drv):
            shutil.copy(f, bdir)
        stubs = os.path.join(OCAML, "libm_stubs.c")
        cmd = ["ocamlfind", "ocamlopt", "-O3" if False else "-w", "-a", "-rectypes", "-thread", "-package", "coq-core.kernel",
               "-linkpkg", "model.mli", "model.ml"]
        if os.path.exists(stubs):
            shutil.copy(stubs, bdir); cmd.append("libm_stubs.c")
        cmd += ["driver.ml", "-o", exe + ".tmp"]
        p = run(cmd, cwd=bdir)
        if p.returncode != 0:
            raise BuildError("ocaml build failed:\n" + p.stdout[-3000:] + p.stderr[-6000:])
        os.replace(exe + ".tmp", exe)
        shutil.rmtree(bdir, ignore_errors=True)
    return exe


def run_lines_resilient(cmd, lines, timeout=900, env=None, max_crashes=5):
    """feed one case per line; the driver answers one line per case.  If it dies (sanitizer abort, signal),
    the case it died on gets output None and the rest is re-run.  Returns (outputs, crashes[(index, stderr)])."""
    outs = [None] * len(lines)
    crashes = []
    start = 0
    while start < len(lines):
        try:
            p = run(cmd, input="\n".join(lines[start:]) + "\n", timeout=timeout, env=env)
            rc, so, se = p.returncode, p.stdout, p.stderr
        except subprocess.TimeoutExpired as e:
            rc, so, se = -999, (e.stdout or b"").decode() if isinstance(e.stdout, bytes) else (e.stdout or ""), "timeout"
        got = so.split("\n")
        if got and got[-1] == "":
            got = got[:-1]
        complete = got if rc == 0 else got[:max(0, len(got) - (0 if so.endswith("\n") else 1))]
        if rc != 0 and complete and complete[-1].endswith(" TIMEOUT"):
            complete = complete[:-1]          # the driver's own per-case alarm fired in the middle of this case
        for k, l in enumerate(complete[:len(lines) - start]):
            outs[start + k] = l
        if rc == 0 and len(complete) >= len(lines) - start:
            break
        bad = start + len(complete)
        if bad >= len(lines):
            break
        crashes.append((bad, "exit %s: %s" % (rc, se[-1500:])))
        if len(crashes) >= max_crashes:
            break
        start = bad + 1
    return outs, crashes


# ------------------------------------------------------------------------------------------------
# numbers
# ------------------------------------------------------------------------------------------------

def hx(x):
    return float(x).hex()


def unhx(s):
    if s in ("nan", "-nan", "NaN"):
        return float("nan")
    if s in ("inf", "+inf", "Infinity"):
        return float("inf")
    if s in ("-inf", "-Infinity"):
        return float("-inf")
    return float.fromhex(s)


def bits(x):
    return struct.unpack("<Q", struct.pack("<d", x))[0]


def same_bits(x, y):
    if x != x and y != y:
        return True
    return bits(x) == bits(y) or (x == 0.0 and y == 0.0 and False)


def close(x, y, scale, rel=1e-11):
    """tolerance tier: |x-y| <= rel*scale (scale = sum of |terms| the quantity is made of)"""
    if x != x or y != y:
        return (x != x) and (y != y)
    if math.isinf(x) or math.isinf(y):
        return x == y
    return abs(x - y) <= rel * max(scale, 5e-324)


# ------------------------------------------------------------------------------------------------
# verdicts, evidence, known findings
# ------------------------------------------------------------------------------------------------

def known_findings():
    p = os.path.join(VERIF, "known_findings.json")
    if not os.path.exists(p):
        return []
    return json.load(open(p))


class Check:
    """one run of one property's check"""

    def __init__(self, pid, tier, seed):
        self.pid = pid; self.tier = tier; self.seed = seed
        self.t0 = time.time()
        self.violations = []       # (replay_path, no_input_found)
        self.pending = []          # broken obligations / correspondences held back until the search for a failing input is over
        self.known_hit = []
        self.cov = dict(evaluations=0, distinct_nontrivial=0, rule="", samples=[],
                        obligations=0, discharged=0, checker_cmd="", trusted_base=[],
                        traces_validated_against_impl=0)
        self.assumptions = []
        self.notes = {}
        # runs against a scratch copy of the repository (VERIF_REPO set: seeded changes, experiments) must not overwrite
        # the evidence of the registered checks
        self.evidence_dir = os.environ.get("VERIF_EVIDENCE_DIR") or (os.path.join(VERIF, "evidence") if REPO == "/repo" else os.path.join(CACHE, "evidence_scratch"))
        os.makedirs(self.evidence_dir, exist_ok=True)
        self.replay_dir = os.path.join(VERIF, "replays") if REPO == "/repo" else os.path.join(CACHE, "replays_scratch")
        os.makedirs(self.replay_dir, exist_ok=True)
        self.kf = [k for k in known_findings() if k.get("property") == pid]

    # --- proofs
    def proofs(self, extra_targets=()):
        res = check_property_file(self.pid, extra_targets)
        self.cov["obligations"] = len(res["theorems"])
        self.cov["discharged"] = len(res["theorems"]) if res["built"] else 0
        self.cov["checker_cmd"] = "make -C coq -k Properties_%s.vo  (coqc 8.16.1, full .vo, Print Assumptions under every theorem)" % self.pid
        self.cov["theorems"] = res["theorems"]
        self.cov["axioms_reported_by_print_assumptions"] = res["axioms"]
        self.cov["theorems_closed_under_global_context"] = res["closed"]
        self.proof_res = res
        if self.tier == "thorough" and res["built"]:
            # independent re-check of the compiled property file and everything it depends on
            try:
                r = run(["timeout", "1500", "coqchk", "-o", "-silent", "-Q", ".", "SC", "SC.Properties_%s" % self.pid], cwd=COQ)
                txt = r.stdout + r.stderr
                ax = []
                if "* Axioms:" in txt:
                    seg = txt.split("* Axioms:", 1)[1].split("* Constants/Inductives relying on type-in-type", 1)[0]
                    ax = [l.strip() for l in seg.split("\n") if l.strip() and l.strip() != "<none>"]
                self.cov["coqchk"] = dict(exit=r.returncode, axioms=ax,
                                          type_in_type="<none>" in txt.split("type-in-type:", 1)[-1][:40] if "type-in-type:" in txt else None,
                                          unsafe_fixpoints="<none>" in txt.split("unsafe (co)fixpoints:", 1)[-1][:40] if "unsafe (co)fixpoints:" in txt else None,
                                          positivity_assumed="<none>" in txt.split("positivity is assumed:", 1)[-1][:40] if "positivity is assumed:" in txt else None)
                if r.returncode != 0:
                    res["ok"] = False; res["log"] += "\ncoqchk failed:\n" + txt[-2000:]
            except Exception as e:
                self.cov["coqchk"] = dict(error=str(e)[:200])
        if not res["ok"]:
            # what the translators could not read (or read as something else) in the current source: the first thing to look at
            import glob as _glob
            tf = []
            for g in sorted(_glob.glob(os.path.join(COQ, "*_gen.v"))):
                try:
                    mm = re.search(r"\(\* translation failed: (.*?) \*\)", read(g, "r"), re.S)
                except Exception:
                    mm = None
                if mm:
                    tf.append("%s: %s" % (os.path.basename(g), mm.group(1)[:300]))
            if tf:
                res["log"] = "translators that failed on the current source:\n  " + "\n  ".join(tf) + "\n" + res["log"]
            log("PROOF CHECK FAILED for %s:\n%s" % (self.pid, res["log"]))
            if res["bad_axioms"]:
                log("unexpected axioms: %s" % res["bad_axioms"])
            if res["forbidden"]:
                log("forbidden vernacular: %s" % res["forbidden"])
        return res["ok"]

    def sample(self, s, limit=5):
        if len(self.cov["samples"]) < limit:
            self.cov["samples"].append(s)

    # --- reporting
    def is_known(self, key):
        for k in self.kf:
            if k.get("status") == "known" and k.get("key") == key:
                return k
        return None

    def report(self, case, oracle=None, unchecked=None, key=None, what=""):
        """a failing case (oracle=<predicate>) or a broken obligation (unchecked=<name>)"""
        k = self.is_known(key) if key else None
        if k is not None:
            if key not in self.known_hit:
                self.known_hit.append(key)
                print("KNOWN-FINDING: property=%s %s" % (self.pid, k.get("what", what)), flush=True)
            return
        if oracle is None and not getattr(self, "_flushing", False):
            # a broken obligation or correspondence: held back until the search for a failing input is over; it is printed with
            # "no-failing-input-found" only if that search found none (otherwise the failing input is the report, and the
            # broken obligation is recorded inside its replay file)
            self.pending.append((case, unchecked, key, what))
            return
        n = len(self.violations)
        path = os.path.join(self.replay_dir, "%s_%s_%d_%d.json" % (self.pid, self.tier, self.seed, n))
        rep = dict(property=self.pid, tier=self.tier, seed=self.seed, case=case, what=what)
        if oracle:
            rep["oracle"] = oracle
            if self.pending:
                rep["also_no_longer_checked"] = [dict(unchecked=u, what=w) for _, u, _, w in self.pending]
        if unchecked:
            rep["unchecked"] = unchecked
        with open(path, "w") as f:
            json.dump(rep, f, indent=1, default=str)
        self.violations.append((path, oracle is None))
        if len(self.violations) <= 5:
            print("VIOLATION property=%s replay=%s%s" % (self.pid, path, "" if oracle else " no-failing-input-found"), flush=True)
            if what:
                log("  -> " + what)

    def flush_pending(self):
        if self.pending and not any(not noinput for _, noinput in self.violations):
            self._flushing = True
            for case, unchecked, key, what in self.pending:
                self.report(case, unchecked=unchecked, key=key, what=what)
            self._flushing = False
        elif self.pending and self.violations:
            for case, unchecked, key, what in self.pending:
                log("  (also no longer checked: %s — %s)" % (unchecked, what[:160]))
        self.pending = []

    def finish(self, level="proof"):
        self.flush_pending()
        ev = dict(property_id=self.pid, tier=self.tier, seed=self.seed, level=level,
                  coverage=self.cov, assumptions=self.assumptions, wall_s=round(time.time() - self.t0, 2),
                  violations=len(self.violations))
        ev["coverage"].update(self.notes)
        ev["coverage"]["known_findings_replayed"] = self.known_hit
        with open(os.path.join(self.evidence_dir, self.pid + ".json"), "w") as f:
            json.dump(ev, f, indent=1, default=str)
        if self.violations:
            return 1
        return 0


TRUSTED_BASE_COMMON = [
    "Coq 8.16.1 kernel (coqc); vm_compute used for finite tables and witnesses; native_compute not used",
    "axioms: only those of the standard library reached through Reals (ClassicalDedekindReals.sig_forall_dec, sig_not_dec, FunctionalExtensionality.functional_extensionality_dep) and, where stated, Classical_Prop.classic; none declared here",
    "extraction: ExtrOcamlBasic + ExtrOCamlFloats (their Extract Inductive/Constant directives only), OCaml 4.13.1, coq-core.kernel Float64",
    "hand-written C++ drivers and Python generator/comparator; g++ 12 -O1 -ffp-contract=off; glibc libm shared by both sides",
    "the theorems are about the Gallina model; the code is tied to it only on the cases the correspondence explored",
]
