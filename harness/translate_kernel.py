#!/usr/bin/env python3
"""translate_kernel.py — regenerates coq/Kernel_gen.v from /repo's src/contact_models/contact_model_abstract.cpp on every
run: the body of contact_model_abstract::compute_node_triangle_distance (straight-line declarations, guarded returns) is
parsed and re-emitted as a Gallina function over an abstract number type (Num T), statement by statement, in source order.
Properties_C05.v then proves `kernel_gen = kernel` by reflexivity: the hand-written model of Kernel.v, about which all
theorems of C05/C06/C07 are stated, IS what the source says now.  Fails closed (kernel_translation_ok := false) on anything
outside the small grammar below."""
import re, sys, os
sys.path.insert(0, os.path.dirname(os.path.abspath(__file__)))
from translate_columns import strip_comments
from translate_iteration import function_body


class Tr(Exception):
    pass


TOK = re.compile(r"\s*(?:(\d+\.\d*(?:[eE][-+]?\d+)?|\d+)|([A-Za-z_]\w*)|(<=|>=|&&|==|[-+*/(){},.;=<>]))")


def tokenize(s):
    out = []; i = 0
    while i < len(s):
        if s[i:].strip() == "":
            break
        m = TOK.match(s, i)
        if not m:
            raise Tr("cannot tokenize at: " + s[i:i + 30])
        out.append(m.group(1) or m.group(2) or m.group(3)); i = m.end()
    return out


class P:
    """expressions: typed ('d' double / 'v' vec3) Gallina terms"""
    def __init__(self, toks, env):
        self.t = toks; self.i = 0; self.env = env

    def peek(self):
        return self.t[self.i] if self.i < len(self.t) else None

    def eat(self, x=None):
        tok = self.peek()
        if x is not None and tok != x:
            raise Tr("expected %r, found %r" % (x, tok))
        self.i += 1
        return tok

    def cond(self):
        l = self.cmp()
        while self.peek() == "&&":
            self.eat(); r = self.cmp(); l = "(%s && %s)" % (l, r)
        return l

    def cmp(self):
        if self.peek() == "(":
            # either a parenthesised condition or a parenthesised arithmetic expression followed by a comparison
            save = self.i
            try:
                self.eat("("); c = self.cond(); self.eat(")")
                if self.peek() not in ("<=", ">=", "<", ">", "=="):
                    return c
            except Tr:
                pass
            self.i = save
        a, ta = self.sum()
        op = self.eat()
        b, tb = self.sum()
        if ta != "d" or tb != "d":
            raise Tr("comparison of non-scalars")
        if op == "<=":
            return "nleb N %s %s" % (a, b)
        if op == ">=":
            return "nleb N %s %s" % (b, a)
        if op == "<":
            return "nltb N %s %s" % (a, b)
        if op == ">":
            return "nltb N %s %s" % (b, a)
        raise Tr("comparison %r not supported" % op)

    def sum(self):
        l, tl = self.prod()
        while self.peek() in ("+", "-"):
            op = self.eat(); r, tr_ = self.prod()
            if tl == "d" and tr_ == "d":
                l = "(%s N %s %s)" % ("nadd" if op == "+" else "nsub", l, r)
            elif tl == "v" and tr_ == "v":
                l = "(%s N %s %s)" % ("vadd" if op == "+" else "vsub", l, r)
            else:
                raise Tr("mixed scalar/vector sum")
        return l, tl

    def prod(self):
        l, tl = self.post()
        while self.peek() in ("*", "/"):
            op = self.eat(); r, tr_ = self.post()
            if tl == "d" and tr_ == "d":
                l = "(%s N %s %s)" % ("nmul" if op == "*" else "ndiv", l, r)
            elif tl == "v" and tr_ == "d" and op == "*":
                l = "(vscale N %s %s)" % (l, r); tl = "v"
            else:
                raise Tr("product %s %s %s not supported" % (tl, op, tr_))
        return l, tl

    def post(self):
        e, te = self.atom()
        while self.peek() == ".":
            self.eat(); name = self.eat(); self.eat("(")
            if name == "dot":
                a, ta = self.sum(); self.eat(")")
                if te != "v" or ta != "v":
                    raise Tr("dot of non-vectors")
                e = "(vdot N %s %s)" % (e, a); te = "d"
            elif name == "squared_norm":
                self.eat(")")
                if te != "v":
                    raise Tr("squared_norm of a scalar")
                e = "(vsqnorm N %s)" % e; te = "d"
            else:
                raise Tr("method %s not supported" % name)
        return e, te

    def atom(self):
        tok = self.eat()
        if tok == "(":
            e, te = self.sum(); self.eat(")")
            return e, te
        if tok == "-":
            e, te = self.post()
            if te != "d":
                raise Tr("negated vector")
            return "(nneg N %s)" % e, "d"
        if tok == "vec3":
            self.eat("("); xs = []
            while True:
                a, ta = self.sum()
                if ta != "d":
                    raise Tr("vec3 of non-scalars")
                xs.append(a)
                if self.peek() == ",":
                    self.eat(); continue
                break
            self.eat(")")
            if len(xs) != 3:
                raise Tr("vec3 with %d components" % len(xs))
            return "(mkv %s %s %s)" % tuple(xs), "v"
        if re.fullmatch(r"\d+\.\d*(?:[eE][-+]?\d+)?|\d+", tok):
            v = float(tok)
            if v == 0:
                return "(nzero N)", "d"
            if v == 1:
                return "(none_ N)", "d"
            if v == int(v):
                return "(nofZ N %d)" % int(v), "d"
            raise Tr("literal %s not supported" % tok)
        if tok in self.env:
            return tok if tok not in ("p", "a", "b", "c") else tok, self.env[tok]
        raise Tr("unknown identifier %s" % tok)


def statements(body):
    """top-level statements: declarations, `if (...) return {...};`, `if (...) { ... }`, `return {...};`"""
    out = []; i = 0; n = len(body)
    while i < n:
        if body[i].isspace():
            i += 1; continue
        if body.startswith("if", i) and re.match(r"if\s*\(", body[i:]):
            j = body.index("(", i); depth = 0; k = j
            while True:
                if body[k] == "(":
                    depth += 1
                elif body[k] == ")":
                    depth -= 1
                    if depth == 0:
                        break
                k += 1
            cond = body[j + 1:k]
            r = k + 1
            while body[r].isspace():
                r += 1
            if body[r] == "{" and not body[r:].lstrip("{").lstrip().startswith("return") or (body[r] == "{" and re.match(r"\{\s*(const|return)", body[r:])):
                # a block
                depth = 0; e = r
                while True:
                    if body[e] == "{":
                        depth += 1
                    elif body[e] == "}":
                        depth -= 1
                        if depth == 0:
                            break
                    e += 1
                out.append(("if", cond, statements(body[r + 1:e]))); i = e + 1
            else:
                e = body.index(";", r)
                out.append(("if", cond, statements(body[r:e + 1]))); i = e + 1
            continue
        e = i; depth = 0
        while True:
            if body[e] in "({":
                depth += 1
            elif body[e] in ")}":
                depth -= 1
            elif body[e] == ";" and depth == 0:
                break
            e += 1
        out.append(("stmt", body[i:e].strip())); i = e + 1
    return out


def emit(stmts, env, region, indent):
    """returns Gallina text for a statement list that must end in a return on every path"""
    pad = " " * indent
    if not stmts:
        raise Tr("a path ends without return")
    st = stmts[0]; rest = stmts[1:]
    if st[0] == "if":
        cond = P(tokenize(st[1]), env).cond()
        then_ = emit(st[2], dict(env), region, indent + 2)
        else_ = emit(rest, env, region, indent)
        return "%sif %s then\n%s\n%selse\n%s" % (pad, cond, then_, pad, else_)
    s = st[1]
    m = re.fullmatch(r"const\s+(vec3|double)\s+(\w+)\s*=\s*(.*)", s, re.S)
    if m:
        ty = "v" if m.group(1) == "vec3" else "d"
        e, te = P(tokenize(m.group(3)), env).sum()
        if te != ty:
            raise Tr("declaration of %s: type mismatch" % m.group(2))
        name = m.group(2)
        if name in env:
            name2 = name            # shadowing in an inner block: Gallina let shadows as well
        env[name] = ty
        return "%slet %s := %s in\n%s" % (pad, name, e, emit(rest, env, region, indent))
    m = re.fullmatch(r"return\s*\{(.*)\}", s, re.S)
    if m:
        if rest:
            raise Tr("statements after return")
        p = P(tokenize(m.group(1)), env)
        d, td = p.sum(); p.eat(","); v, tv = p.sum()
        if td != "d" or tv != "v" or p.peek() is not None:
            raise Tr("return value not understood")
        region[0] += 1
        return "%smkk %s %s %d" % (pad, d, v, region[0])
    raise Tr("statement not understood: " + s[:100])


def generate(repo):
    err = None; text = None
    try:
        src = strip_comments(open(os.path.join(repo, "src", "contact_models", "contact_model_abstract.cpp")).read())
        m = re.search(r"contact_model_abstract::compute_node_triangle_distance\s*\(\s*const\s+vec3\s*&\s*p\s*,\s*const\s+vec3\s*&\s*a\s*,\s*const\s+vec3\s*&\s*b\s*,\s*const\s+vec3\s*&\s*c\s*\)", src)
        if not m:
            raise Tr("signature of compute_node_triangle_distance not as expected")
        body = function_body(src[m.start():], r"compute_node_triangle_distance\s*\([^)]*\)[^{]*\{")
        text = emit(statements(body), {"p": "v", "a": "v", "b": "v", "c": "v"}, [0], 4)
    except Exception as e:      # noqa
        err = str(e)
    L = ["(* Kernel_gen.v — GENERATED by harness/translate_kernel.py from /repo/src/contact_models/contact_model_abstract.cpp", "   (compute_node_triangle_distance) on every run.  Do not edit. *)",
         "From Coq Require Import ZArith Bool List.", "From SC Require Import Num Vec3 Kernel.", ""]
    if err:
        L.append("(* translation failed: %s *)" % err.replace("*)", "* )"))
        L.append("Definition kernel_translation_ok : bool := false.")
        L.append("Definition kernel_gen {T : Type} (N : Num T) (p a b c : vec3 T) : kres T := mkk (nzero N) (mkv (nzero N) (nzero N) (nzero N)) 0.")
    else:
        L.append("Definition kernel_translation_ok : bool := true.")
        L.append("Definition kernel_gen {T : Type} (N : Num T) (p a b c : vec3 T) : kres T :=")
        L.append(text + ".")
    return "\n".join(L) + "\n"


if __name__ == "__main__":
    repo = sys.argv[1] if len(sys.argv) > 1 else "/repo"
    out = sys.argv[2] if len(sys.argv) > 2 else os.path.join(os.path.dirname(os.path.dirname(os.path.abspath(__file__))), "coq", "Kernel_gen.v")
    txt = generate(repo)
    old = open(out).read() if os.path.exists(out) else None
    if old != txt:
        open(out, "w").write(txt)
