// drv_integrate: time_integration_scheme::update_nodes_positions on a generated population.
// line: dt damping nsteps NC (static local density volume)*NC NN (used cell px py pz mx my mz fx fy fz cpl ncpls g*)*NN
//       nodes are listed cell after cell (global index = position in this list); cpl / g are global indices (-1: none)
// out : time | per node: px py pz mx my mz fx fy fz
#include "drv_common.hpp"
#include "cell.hpp"
#include "time_integration.hpp"
#include <memory>

class cell_tester {
public:
    static void setup_cell(cell_ptr c, bool is_static, unsigned local, double volume){
        c->is_static_ = is_static; c->local_id_ = local; c->volume_ = volume;
    }
    static node& nd(cell_ptr c, unsigned i){ return c->node_lst_[i]; }
    static void set_unused(cell_ptr c, unsigned i){ c->node_lst_[i].is_used_ = false; c->free_node_queue_.push_back(i); }
    static void set_node(cell_ptr c, unsigned i, const vec3& mom, const vec3& f){
        node& n = c->node_lst_[i];
        n.force_ = f;
#if DYNAMIC_MODEL_INDEX == 0
        n.momentum_ = mom;
#endif
    }
    static void couple1(cell_ptr c, unsigned i, unsigned c2, unsigned n2){
#if CONTACT_MODEL_INDEX == 1
        c->node_lst_[i].coupled_node_ = std::make_pair(c2, n2);
#endif
    }
    static void couple2(cell_ptr c, unsigned i, unsigned c2, unsigned n2){
#if CONTACT_MODEL_INDEX == 2
        c->node_lst_[i].coupled_nodes_map_[c2] = std::make_pair(n2, 0.0);
#endif
    }
    static vec3 mom(cell_ptr c, unsigned i){
#if DYNAMIC_MODEL_INDEX == 0
        return c->node_lst_[i].momentum_;
#else
        return vec3(0,0,0);
#endif
    }
};

int main(){
    std::string line;
    while (std::getline(std::cin, line)){
        if (line.empty()) continue;
        std::istringstream in(line);
        double dt = rd(in), damping = rd(in); int nsteps; in >> nsteps;
        int nc; in >> nc;
        struct CI { int st; unsigned local; double dens, vol; };
        std::vector<CI> ci(nc);
        for (auto& c : ci){ in >> c.st >> c.local; c.dens = rd(in); c.vol = rd(in); }
        int nn; in >> nn;
        struct NI { int used, cell; double p[3], m[3], f[3]; long cpl; std::vector<long> grp; };
        std::vector<NI> ni(nn);
        for (auto& n : ni){
            in >> n.used >> n.cell;
            for (int k=0;k<3;k++) n.p[k]=rd(in);
            for (int k=0;k<3;k++) n.m[k]=rd(in);
            for (int k=0;k<3;k++) n.f[k]=rd(in);
            in >> n.cpl; int g; in >> g; n.grp.resize(g); for (auto& x : n.grp) in >> x;
        }
        // global index -> (cell, local index)
        std::vector<std::pair<unsigned,unsigned>> loc(nn);
        std::vector<std::vector<int>> members(nc);
        for (int g=0; g<nn; g++){ loc[g] = {(unsigned)ni[g].cell, (unsigned)members[ni[g].cell].size()}; members[ni[g].cell].push_back(g); }
        std::vector<cell_ptr> cells;
        std::vector<std::shared_ptr<cell_type_parameters>> types;
        for (int c=0;c<nc;c++){
            std::vector<double> pos;
            for (int g : members[c]) for (int k=0;k<3;k++) pos.push_back(ni[g].p[k]);
            std::vector<unsigned> faces; if (members[c].size() >= 3) faces = {0,1,2};
            auto tp = std::make_shared<cell_type_parameters>(); tp->mass_density_ = ci[c].dens; types.push_back(tp);
            cell_ptr cp = std::make_shared<cell>(pos, faces, (unsigned)(100+c), tp);
            cell_tester::setup_cell(cp, ci[c].st != 0, ci[c].local, ci[c].vol);
            cells.push_back(cp);
        }
        for (int g=0; g<nn; g++){
            auto [c, i] = loc[g];
            cell_tester::set_node(cells[c], i, vec3(ni[g].m[0],ni[g].m[1],ni[g].m[2]), vec3(ni[g].f[0],ni[g].f[1],ni[g].f[2]));
            if (!ni[g].used) cell_tester::set_unused(cells[c], i);
            if (ni[g].cpl >= 0) cell_tester::couple1(cells[c], i, loc[ni[g].cpl].first, loc[ni[g].cpl].second);
            for (long h : ni[g].grp) cell_tester::couple2(cells[c], i, loc[h].first, loc[h].second);
        }
        global_simulation_parameters sp; sp.time_step_ = dt; sp.damping_coefficient_ = damping;
        time_integration_scheme integ(sp, false);
        for (int s=0;s<nsteps;s++) integ.update_nodes_positions(cells);
        std::cout << hx(integ.get_simulation_time()) << " |";
        for (int g=0; g<nn; g++){
            auto [c, i] = loc[g];
            const node& n = cell_tester::nd(cells[c], i);
            vec3 m = cell_tester::mom(cells[c], i);
            std::cout << " " << hx(n.pos().dx()) << " " << hx(n.pos().dy()) << " " << hx(n.pos().dz())
                      << " " << hx(m.dx()) << " " << hx(m.dy()) << " " << hx(m.dz())
                      << " " << hx(n.force().dx()) << " " << hx(n.force().dy()) << " " << hx(n.force().dz());
        }
        std::cout << "\n";
    }
    return 0;
}
