#!/usr/bin/env python3
"""translate_refiner.py — regenerates coq/Refiner_gen.v from /repo's src/triangulation_modules/local_mesh_refiner.cpp on every
run:
    the constructor:   l_min_squared_, l_max_squared_
    refine_mesh:       the squared length of the popped edge, the decision (split / merge if it can be merged / nothing) as an
                       if / else-if tree with the counter increments, the guard of the while loop and the condition of the
                       exception (checked textually)
    split_edge:        position of the new node, the momenta of a, b and the new node (DYNAMIC_MODEL_INDEX == 0), the
                       orientation flags, the four created triangles and WHICH label each of them receives
    merge_edge:        position and momentum of the new node
    can_be_merged:     more than four nodes and exactly two common neighbours (checked textually)
RefinerTie.v proves the generated functions equal to MeshOps.v / RefineLoop.v (reflexivity for the arithmetic and the decision
tree; a case analysis for the created triangles, which the code lists rotated with respect to the model).  Fails closed."""
import re, sys, os
sys.path.insert(0, os.path.dirname(os.path.abspath(__file__)))
from translate_columns import strip_comments
from translate_iteration import function_body
from translate_kernel import Tr
from blocktr import parse, split_statements, as_list
from translate_forces import flat, rx_sub
from translate_integrator import pp


def stmts_of(body):
    return [x[1] for x in split_statements(body) if x[0] == "stmt"]


def find(ss, rx, what):
    for s in ss:
        m = re.fullmatch(rx, s)
        if m:
            return m
    raise Tr(what + " not found")


def generate(repo):
    err = None; defs = []
    try:
        raw = strip_comments(open(os.path.join(repo, "src", "triangulation_modules", "local_mesh_refiner.cpp")).read())
        raw = re.sub(r"SIMUCELL3D_VERIF_TRACE\([^;]*\);", "", raw)
        src = pp(raw, {"DYNAMIC_MODEL_INDEX": 0})
        # ---------------- constructor
        m = re.search(r"local_mesh_refiner::local_mesh_refiner\s*\(\s*const\s+double\s+l_min\s*,\s*const\s+double\s+l_max\s*,[^)]*\)\s*noexcept\s*:\s*([^{]*)\{", src)
        if not m:
            raise Tr("constructor not found")
        ini = flat(m.group(1))
        if "l_min_(l_min),l_max_(l_max),l_min_squared_(l_min*l_min),l_max_squared_(l_max*l_max)," not in ini:
            raise Tr("constructor: squared bounds")
        defs.append("Definition lmin2_gen {T : Type} (N : Num T) (l_min : T) : T := nmul N l_min l_min.")
        defs.append("Definition lmax2_gen {T : Type} (N : Num T) (l_max : T) : T := nmul N l_max l_max.")
        # ---------------- refine_mesh
        b = function_body(src, r"void\s+local_mesh_refiner::refine_mesh\s*\(\s*cell_ptr\s+c\s*\)\s*const\s*noexcept\(false\)\s*\{")
        fb = flat(b)
        head = "c->update_centroid();if(enable_edge_swap_operation_)remove_elongated_triangles(c);edge_setedge_to_check_set=c->get_edge_set();unsignediteration=0;while(edge_to_check_set.size()>0&&iteration<c->get_edge_set().size()){"
        if not fb.startswith(head):
            raise Tr("refine_mesh: head of the function / guard of the loop not as expected")
        tail = "if(iteration==c->get_edge_set().size()){throwmesh_integrity_exception("
        if tail not in fb:
            raise Tr("refine_mesh: condition of the exception")
        i = b.index("while"); j = b.index("{", i)
        depth = 0
        for k in range(j, len(b)):
            if b[k] == "{":
                depth += 1
            elif b[k] == "}":
                depth -= 1
                if depth == 0:
                    break
        loop = split_statements(b[j + 1:k])
        ls = [flat(x[1]) for x in loop if x[0] == "stmt"]
        want = ["autoe_ab=*edge_to_check_set.begin()", "edge_to_check_set.erase(edge_to_check_set.begin())", "constnode&n_a=c->get_node(e_ab.n1())", "constnode&n_b=c->get_node(e_ab.n2())"]
        if ls[:4] != want or len(ls) != 5:
            raise Tr("refine_mesh: the pop of the first edge / its two nodes: %s" % ls)
        m = re.fullmatch(r"const double l_ab_squared = (.*)", [x[1] for x in loop if x[0] == "stmt"][4])
        g, _ = parse(rx_sub([(r"\bn_a\b", "pa"), (r"\bn_b\b", "pb")])(m.group(1)), {"pa": "v", "pb": "v"}, "d")
        defs.append("Definition sq_len_gen {T : Type} (N : Num T) (pa pb : vec3 T) : T := %s." % g)
        ifs = [x for x in loop if x[0] == "if"]
        if len(ifs) != 1 or loop[-1][0] != "if":
            raise Tr("refine_mesh: the decision is not the last statement of the loop")
        d = ifs[0]
        sub = rx_sub([(r"l_max_squared_", "lmax2"), (r"l_min_squared_", "lmin2")])
        c1, _ = parse(sub(d[1]), {"l_ab_squared": "d", "lmax2": "d", "lmin2": "d"}, "b")
        if [flat(x[1]) for x in as_list(d[2])] != ["split_edge(e_ab,c,edge_to_check_set)", "iteration++"]:
            raise Tr("refine_mesh: split branch")
        e = as_list(d[3])
        if len(e) != 1 or e[0][0] != "if" or e[0][3] is not None:
            raise Tr("refine_mesh: else-if branch")
        c2, _ = parse(sub(e[0][1]), {"l_ab_squared": "d", "lmax2": "d", "lmin2": "d"}, "b")
        inner = as_list(e[0][2])
        if len(inner) != 1 or inner[0][0] != "if" or flat(inner[0][1]) != "can_be_merged(e_ab,c)" or inner[0][3] is not None or \
           [flat(x[1]) for x in as_list(inner[0][2])] != ["merge_edge(e_ab,c,edge_to_check_set)", "iteration++"]:
            raise Tr("refine_mesh: merge branch")
        defs.append("Definition decision_gen {T : Type} (N : Num T) (lmin2 lmax2 l_ab_squared : T) (can_be_merged : bool) : decision :=\n  if %s then DSplit else if %s then (if can_be_merged then DMerge else DNone) else DNone." % (c1, c2))
        # ---------------- can_be_merged
        cb = flat(function_body(src, r"bool\s+local_mesh_refiner::can_be_merged\s*\(\s*edge\s*&\s*e_ab\s*,\s*cell_ptr\s+c\s*\)\s*const\s*noexcept\(false\)\s*\{"))
        if not cb.startswith("if(c->get_nb_of_nodes()<=4)returnfalse;") or not cb.endswith("returnnode_set_ab.size()==2;") or \
           "std::set_intersection(node_lst_a.begin(),node_lst_a.end(),node_lst_b.begin(),node_lst_b.end()," not in cb or \
           "node_lst_a=c->get_connected_nodes(n_a.get_local_id(),e_ab)" not in cb or "node_lst_b=c->get_connected_nodes(n_b.get_local_id(),e_ab)" not in cb:
            raise Tr("can_be_merged: not `more than 4 nodes and exactly two common neighbours`")
        # ---------------- split_edge
        b = function_body(src, r"void\s+local_mesh_refiner::split_edge\s*\([^)]*\)\s*const\s*noexcept\(false\)\s*\{")
        ss = stmts_of(b); fs = [flat(x) for x in ss]
        for need in ("node&n_a=c->get_node(e_ab.n1())", "node&n_b=c->get_node(e_ab.n2())", "constunsignedid_n_a=n_a.get_local_id()", "constunsignedid_n_b=n_b.get_local_id()",
                     "constface&f_1=c->get_face(e_ab.f1())", "constface&f_2=c->get_face(e_ab.f2())",
                     "constunsignedid_n_c=f_1.get_opposite_node(n_a.get_local_id(),n_b.get_local_id())", "constunsignedid_n_d=f_2.get_opposite_node(n_a.get_local_id(),n_b.get_local_id())",
                     "noden_e(n_e_pos,0)", "constvec3n_a_momentum=n_a.momentum()", "constvec3n_b_momentum=n_b.momentum()", "constunsignedid_n_e=c->add_node(n_e)",
                     "constauto[f1_n1_id,f1_n2_id,f1_n3_id]=f_1.get_node_ids()", "constauto[f2_n1_id,f2_n2_id,f2_n3_id]=f_2.get_node_ids()",
                     "constunsignedshortf_1_type_id=f_1.get_local_face_type_id()", "constunsignedshortf_2_type_id=f_2.get_local_face_type_id()",
                     "c->delete_face(f_1.get_local_id())", "c->delete_face(f_2.get_local_id())",
                     "c->get_face(f_3_id).set_face_type_id(f_1_type_id)", "c->get_face(f_4_id).set_face_type_id(f_2_type_id)",
                     "c->get_face(f_5_id).set_face_type_id(f_1_type_id)", "c->get_face(f_6_id).set_face_type_id(f_2_type_id)"):
            if need not in fs:
                raise Tr("split_edge: expected `%s`" % need)
        vsub_ = rx_sub([(r"\bn_a\.pos\(\)", "pa"), (r"\bn_b\.pos\(\)", "pb"), (r"\bn_a_momentum\b", "ma"), (r"\bn_b_momentum\b", "mb")])
        env = {"pa": "v", "pb": "v", "ma": "v", "mb": "v"}
        g, _ = parse(vsub_(find(ss, r"const vec3 n_e_pos = (.*)", "split_edge: position of the new node").group(1)), env, "v")
        defs.append("Definition split_pos_gen {T : Type} (N : Num T) (pa pb : vec3 T) : vec3 T := %s." % g)
        ga, _ = parse(vsub_(find(ss, r"n_a\.set_momentum\((.*)\)", "split_edge: momentum of a").group(1)), env, "v")
        gb, _ = parse(vsub_(find(ss, r"n_b\.set_momentum\((.*)\)", "split_edge: momentum of b").group(1)), env, "v")
        ge, _ = parse(vsub_(find(ss, r"n_e\.set_momentum\((.*)\)", "split_edge: momentum of e").group(1)), env, "v")
        defs.append("Definition split_mom_a_gen {T : Type} (N : Num T) (ma mb : vec3 T) : vec3 T := %s." % ga)
        defs.append("Definition split_mom_b_gen {T : Type} (N : Num T) (ma mb : vec3 T) : vec3 T := %s." % gb)
        defs.append("Definition split_mom_e_gen {T : Type} (N : Num T) (ma mb : vec3 T) : vec3 T := %s." % ge)
        # the momenta are read before they are overwritten
        if not (fs.index("constvec3n_a_momentum=n_a.momentum()") < [i for i, x in enumerate(fs) if x.startswith("n_a.set_momentum(")][0]):
            raise Tr("split_edge: momentum of a read after it was overwritten")
        # orientation flags
        for k, nm in (("1", "f1_same_orientation"), ("2", "f2_same_orientation")):
            m = find(ss, r"const bool %s = (.*)" % nm, "split_edge: " + nm)
            want = "(f%s_n1_id==id_n_a&&f%s_n2_id==id_n_b)||(f%s_n2_id==id_n_a&&f%s_n3_id==id_n_b)||(f%s_n3_id==id_n_a&&f%s_n1_id==id_n_b)" % ((k,) * 6)
            if flat(m.group(1)) != want:
                raise Tr("split_edge: %s is not `a is followed by b in the face`" % nm)
        defs.append("Definition same_orientation_gen (t : tri) (a b : N) : bool :=\n  let '(x, y, z) := t in (((x =? a) && (y =? b)) || ((y =? a) && (z =? b)) || ((z =? a) && (x =? b)))%N.")
        # the created triangles
        tops = split_statements(b)
        crea = {}
        for x in tops:
            if x[0] == "if" and flat(x[1]) in ("f1_same_orientation", "f2_same_orientation"):
                for br, node in (("T", x[2]), ("F", x[3])):
                    for y in as_list(node):
                        m = re.fullmatch(r"f_(\d)_id=c->create_face\(id_n_(\w),id_n_(\w),id_n_(\w)\)", flat(y[1]))
                        if not m:
                            raise Tr("split_edge: statement in an orientation branch: " + y[1])
                        crea[(flat(x[1])[:2], br, m.group(1))] = (m.group(2), m.group(3), m.group(4))
        if sorted(crea) != sorted([(f, br, k) for f, ks in (("f1", "35"), ("f2", "46")) for br in "TF" for k in ks]):
            raise Tr("split_edge: created faces %s" % sorted(crea))
        def tri(t):
            return "(%s, %s, %s)" % t
        for f, ks, opp in (("f1", "35", "c"), ("f2", "46", "d")):
            for br in "TF":
                for k in ks:
                    if opp not in crea[(f, br, k)] or ("d" if opp == "c" else "c") in crea[(f, br, k)]:
                        raise Tr("split_edge: face %s does not contain the opposite node of %s" % (k, f))
        defs.append("Definition split_faces_gen (same : bool) (a b c e : N) (ty : nat) : list ltri :=\n  if same then [(%s, ty); (%s, ty)] else [(%s, ty); (%s, ty)]." %
                    (tri(crea[("f1", "T", "3")]), tri(crea[("f1", "T", "5")]), tri(crea[("f1", "F", "3")]), tri(crea[("f1", "F", "5")])))
        # the second face is treated like the first with d in place of c
        for br in "TF":
            for k1, k2 in (("3", "4"), ("5", "6")):
                if tuple("c" if x == "d" else x for x in crea[("f2", br, k2)]) != crea[("f1", br, k1)]:
                    raise Tr("split_edge: faces %s and %s are not built alike" % (k1, k2))
        # ---------------- merge_edge
        b = function_body(src, r"void\s+local_mesh_refiner::merge_edge\s*\([^)]*\)\s*const\s*noexcept\(false\)\s*\{")
        ss = stmts_of(b); fs = [flat(x) for x in ss]
        for need in ("constunsignedid_n_a=e_ab.n1()", "constunsignedid_n_b=e_ab.n2()", "node&n_a=c->get_node(id_n_a)", "node&n_b=c->get_node(id_n_b)", "noden_i(n_i_pos,0)", "n_i.set_momentum(n_i_momentum)", "constunsignedid_n_i=c->add_node(n_i)"):
            if need not in fs:
                raise Tr("merge_edge: expected `%s`" % need)
        msub = rx_sub([(r"\bn_a\.pos\(\)", "pa"), (r"\bn_b\.pos\(\)", "pb"), (r"\bn_a\.momentum\(\)", "ma"), (r"\bn_b\.momentum\(\)", "mb")])
        g, _ = parse(msub(find(ss, r"const vec3 n_i_pos = (.*)", "merge_edge: position").group(1)), env, "v")
        defs.append("Definition merge_pos_gen {T : Type} (N : Num T) (pa pb : vec3 T) : vec3 T := %s." % g)
        g, _ = parse(msub(find(ss, r"const vec3 n_i_momentum = (.*)", "merge_edge: momentum").group(1)), env, "v")
        defs.append("Definition merge_mom_gen {T : Type} (N : Num T) (ma mb : vec3 T) : vec3 T := %s." % g)
    except Exception as e:      # noqa
        err = str(e)
    L = ["(* Refiner_gen.v — GENERATED by harness/translate_refiner.py from /repo/src/triangulation_modules/local_mesh_refiner.cpp on every run.", "   Do not edit. *)",
         "From Coq Require Import NArith ZArith Bool List.", "From SC Require Import Num Vec3 Mesh MeshOps RefineLoop.", "Import ListNotations.", "Local Open Scope bool_scope.", ""]
    if err:
        L.append("(* translation failed: %s *)" % err.replace("*)", "* )"))
        L.append("Definition refiner_translation_ok : bool := false.")
    else:
        L.append("Definition refiner_translation_ok : bool := true.")
        L += defs
    return "\n".join(L) + "\n", err


if __name__ == "__main__":
    repo = sys.argv[1] if len(sys.argv) > 1 else "/repo"
    out = sys.argv[2] if len(sys.argv) > 2 and not sys.argv[2].startswith("-") else os.path.join(os.path.dirname(os.path.dirname(os.path.abspath(__file__))), "coq", "Refiner_gen.v")
    txt, err = generate(repo)
    if err and "-v" in sys.argv:
        print("translation failed:", err)
    old = open(out).read() if os.path.exists(out) else None
    if old != txt:
        open(out, "w").write(txt)
