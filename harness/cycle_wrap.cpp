// cycle_wrap: observation of the two places that empty a cell (linked with -Wl,--wrap): cell::clear_data() is logged with the
// volume the cell carried at that moment, its minimum volume and whether the call came from inside cell_divider::run
// (mother of a division) or from elsewhere (the removal step of solver::run_iteration).
#include "cell.hpp"
#include "cell_divider.hpp"
#include "local_mesh_refiner.hpp"
#include <vector>

struct verif_clear_event { unsigned id; double vol, minvol, divvol; int in_divider; };
std::vector<verif_clear_event> verif_clear_log;
int verif_in_divider = 0;

extern "C" void __real__ZN4cell10clear_dataEv(cell*);
extern "C" void __wrap__ZN4cell10clear_dataEv(cell* c){
    verif_clear_event e; e.id = c->get_id(); e.vol = c->get_volume(); e.minvol = c->get_cell_type() ? c->get_cell_type()->min_vol_ : -1.;
    e.divvol = c->get_division_volume(); e.in_divider = verif_in_divider;
    #pragma omp critical(verif_clear_log_)
    verif_clear_log.push_back(e);
    __real__ZN4cell10clear_dataEv(c);
}

extern "C" void __real__ZN12cell_divider3runERSt6vectorISt10shared_ptrI4cellESaIS3_EEdRK18local_mesh_refinerRjb(std::vector<cell_ptr>&, double, const local_mesh_refiner&, unsigned&, bool);
extern "C" void __wrap__ZN12cell_divider3runERSt6vectorISt10shared_ptrI4cellESaIS3_EEdRK18local_mesh_refinerRjb(std::vector<cell_ptr>& a, double b, const local_mesh_refiner& c, unsigned& d, bool e){
    verif_in_divider = 1;
    __real__ZN12cell_divider3runERSt6vectorISt10shared_ptrI4cellESaIS3_EEdRK18local_mesh_refinerRjb(a, b, c, d, e);
    verif_in_divider = 0;
}
