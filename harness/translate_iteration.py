#!/usr/bin/env python3
"""translate_iteration.py — regenerates coq/Iteration_gen.v from /repo's src/solver.cpp on every run: the ORDER of the
phases of solver::run_iteration() (which call comes after which), the conditions under which the conditional phases run
(`!is_step_tmp()`, `iteration_ % N == 0`), and the shape of the main loop of solver::run().  The #if blocks are resolved
from include/global_configuration.hpp.  Fails closed: anything not understood sets iteration_translation_ok := false."""
import re, sys, os
sys.path.insert(0, os.path.dirname(os.path.abspath(__file__)))
from translate_columns import strip_comments, macros, preprocess

# marker (regular expression on one statement) -> phase constructor
MARKERS = [
    (r"\bsave_mesh\s*\(\s*\)", "PSave"),
    (r"cell_divider::run\s*\(", "PDivide"),
    (r"->\s*update_face_types\s*\(", "PFaceTypes"),
    (r"->\s*refine_meshes\s*\(", "PRefine"),
    (r"contact_model_ptr_\s*->\s*run\s*\(", "PContact"),
    (r"->\s*polarize_faces\s*\(", "PAutoPolarize"),
    (r"->\s*special_polarization_update\s*\(", "PPolarize"),
    (r"->\s*apply_internal_forces\s*\(", "PForces"),
    (r"->\s*update_nodes_positions\s*\(", "PIntegrate"),
    (r"statistic_writer_ptr_\s*->\s*write_data\s*\(", "PStats"),
    (r"cell_lst_\s*\.\s*erase\s*\(", "PRemove"),
    (r"->\s*set_local_id\s*\(", "PRenumber"),
    (r"\biteration_\s*\+\+|\+\+\s*iteration_\b|\biteration_\s*\+=\s*1\b", "PCount"),
]


def function_body(text, signature_re):
    m = re.search(signature_re, text)
    if not m:
        raise ValueError("function not found: " + signature_re)
    i = text.index("{", m.end() - 1)
    depth = 0
    for j in range(i, len(text)):
        if text[j] == "{":
            depth += 1
        elif text[j] == "}":
            depth -= 1
            if depth == 0:
                return text[i + 1:j]
    raise ValueError("unbalanced braces")


def top_statements(body):
    """split a function body into its top-level statements (a statement ends at ';' at depth 0 or at the closing brace of a
    top-level block); pragmas are dropped"""
    body = "\n".join(l for l in body.split("\n") if not l.strip().startswith("#pragma"))
    out = []; depth = 0; par = 0; cur = []
    for ch in body:
        cur.append(ch)
        if ch == "(":
            par += 1
        elif ch == ")":
            par -= 1
        elif ch == "{":
            depth += 1
        elif ch == "}":
            depth -= 1
            if depth == 0 and par == 0:
                out.append("".join(cur).strip()); cur = []
        elif ch == ";" and depth == 0 and par == 0:
            out.append("".join(cur).strip()); cur = []
    if "".join(cur).strip():
        out.append("".join(cur).strip())
    return [s for s in out if s and s != ";"]


def generate(repo):
    err = None; phases = []; main_loop = None; file_target = None
    try:
        cfg = open(os.path.join(repo, "include", "global_configuration.hpp")).read()
        mac = macros(strip_comments(cfg))
        src = preprocess(strip_comments(open(os.path.join(repo, "src", "solver.cpp")).read()), mac)
        body = function_body(src, r"void\s+solver::run_iteration\s*\(\s*\)[^{]*\{")
        for st in top_statements(body):
            hits = [ph for rx, ph in MARKERS if re.search(rx, st)]
            if not hits:
                if re.match(r"(if\s*\(\s*verbose_|printf|std::cout)", st):
                    continue            # progress message
                raise ValueError("statement of run_iteration not understood: " + st[:120])
            if len(hits) > 1:
                raise ValueError("statement of run_iteration matches several phases %s: %s" % (hits, st[:120]))
            ph = hits[0]
            # condition in front of the call
            cond_tmp = bool(re.match(r"if\s*\(\s*!\s*time_integrator_ptr_\s*->\s*is_step_tmp\s*\(\s*\)", st))
            mm = re.search(r"iteration_\s*%\s*(\d+)\s*==\s*0", st.split("{")[0] if ph not in ("PRemove",) else "")
            period = int(mm.group(1)) if mm else 0
            if st.startswith("if") and not cond_tmp and not period:
                raise ValueError("condition of a phase not understood: " + st[:120])
            if ph in ("PRemove",):
                if "is_below_min_vol" not in st or "remove_if" not in st:
                    raise ValueError("removal statement not understood: " + st[:160])
            if ph == "PRenumber" and not re.search(r"for\s*\(", st):
                raise ValueError("renumbering statement not understood: " + st[:160])
            phases.append((ph, cond_tmp, period))
        names = [p[0] for p in phases]
        if len(set(names)) != len(names):
            raise ValueError("a phase occurs twice in run_iteration: %s" % names)
        # the main loop of run()
        rbody = function_body(src, r"void\s+solver::run\s*\(\s*\)[^{]*\{")
        m = re.search(r"while\s*\(\s*time_integrator_ptr_\s*->\s*get_simulation_time\s*\(\s*\)\s*<\s*sim_parameters_\s*\.\s*simulation_duration_\s*&&\s*cell_lst_\s*\.\s*size\s*\(\s*\)\s*>\s*0\s*\)\s*\{\s*run_iteration\s*\(\s*\)\s*;\s*\}", rbody)
        if not m:
            raise ValueError("main loop of solver::run not understood")
        after = rbody[m.end():]
        main_loop = ("time_lt_duration_and_population_nonempty", bool(re.search(r"statistic_writer_ptr_\s*->\s*write_data\s*\(", after)))
        # save_mesh(): the target file number and the loop that catches up with it
        sbody = function_body(src, r"void\s+solver::save_mesh\s*\(\s*\)[^{]*\{")
        sb = re.sub(r"\s+", " ", sbody)
        sb = sb.replace("time_integrator_ptr_->get_simulation_time()", "t").replace("sim_parameters_.sampling_period_", "Sp")
        m2 = re.search(r"unsigned new_file_nb = static_cast<unsigned>\(std::floor\((.*?)\) \+ 1\);", sb)
        if not m2:
            raise ValueError("save_mesh: target file number not understood")
        from translate_grid import E as GE, tokenize as gtok
        e_, te_ = GE(gtok(m2.group(1)), {"t": "d", "Sp": "d"}).sum()
        if te_ != "d":
            raise ValueError("save_mesh: floor of an integer")
        if not re.search(r"while ?\( ?file_number_ < new_file_nb ?\) ?\{ ?file_number_\+\+;", sb):
            raise ValueError("save_mesh: catch-up loop not understood")
        if not re.search(r"mesh_writer::write\(", sb):
            raise ValueError("save_mesh: no call of mesh_writer::write")
        file_target = e_
    except Exception as e:      # noqa
        err = str(e)
    L = ["(* Iteration_gen.v — GENERATED by harness/translate_iteration.py from /repo/src/solver.cpp on every run. Do not edit. *)",
         "From Coq Require Import List Bool ZArith.", "From SC Require Import Num IterationDefs.", "Import ListNotations.", ""]
    if err:
        L.append("(* translation failed: %s *)" % err.replace("*)", "* )"))
        L.append("Definition iteration_translation_ok : bool := false.")
        L.append("Definition run_iteration_phases : list phase_entry := [].")
        L.append("Definition run_loop_final_statistics : bool := false.")
        L.append("Definition file_target_gen {T : Type} (N : SC.Num.Num T) (floorZ : T -> BinNums.Z) (t Sp : T) : BinNums.Z := 0%Z.")
    else:
        L.append("Definition iteration_translation_ok : bool := true.")
        L.append("Definition run_iteration_phases : list phase_entry := [")
        L.append(";\n".join("  mkpe %s %s %d" % (ph, "true" if tmp else "false", per) for ph, tmp, per in phases))
        L.append("].")
        L.append("(* while(time < duration && population not empty) run_iteration();  then a last statistics record: *)")
        L.append("Definition run_loop_final_statistics : bool := %s." % ("true" if main_loop[1] else "false"))
        L.append("(* save_mesh: new_file_nb = floor(...) + 1; while(file_number_ < new_file_nb){ file_number_++; write } *)")
        L.append("Definition file_target_gen {T : Type} (N : SC.Num.Num T) (floorZ : T -> BinNums.Z) (t Sp : T) : BinNums.Z := BinInt.Z.add (floorZ %s) 1%%Z." % file_target)
    return "\n".join(L) + "\n"


if __name__ == "__main__":
    repo = sys.argv[1] if len(sys.argv) > 1 else "/repo"
    out = sys.argv[2] if len(sys.argv) > 2 else os.path.join(os.path.dirname(os.path.dirname(os.path.abspath(__file__))), "coq", "Iteration_gen.v")
    txt = generate(repo)
    old = open(out).read() if os.path.exists(out) else None
    if old != txt:
        open(out, "w").write(txt)
