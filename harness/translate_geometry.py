#!/usr/bin/env python3
"""translate_geometry.py — regenerates coq/Geometry_gen.v from /repo's src/mesh/cell.cpp on every run: the arithmetic of the
geometric queries of a cell,
    update_face_normal_and_area(face&):   raw normal, area, unit normal (zero for a degenerate face)
    compute_volume:                        the per-face term, the loop shape, the finalisation (/6, abs)
    compute_centroid:                      the face centroid, the area-weighted accumulation, the final division
    compute_area:                          the accumulation over the used faces
    get_aabb:                              the six conditional updates of one node
    check_face_normal_orientation:         the per-face term of the signed volume and the flip condition
is read statement by statement and re-emitted over an abstract number type.  SourceTies.v proves the generated functions equal
to the hand-written Geometry.v by reflexivity.  What is NOT translated: the flood fill of the orientation repair (containers),
and the start value of get_aabb (the code starts from +-infinity, the model from the first live node).  Fails closed."""
import re, sys, os
sys.path.insert(0, os.path.dirname(os.path.abspath(__file__)))
from translate_columns import strip_comments
from translate_iteration import function_body
from translate_kernel import Tr, P, tokenize


def flat(s):
    return re.sub(r"\s+", "", s)


HALF = "(ndiv N (none_ N) (nofZ N 2))"


class G(P):
    """adds: 0.5, vector / scalar, .cross(v), .norm(), .dx()/.dy()/.dz()"""
    def atom(self):
        if self.peek() == "0.5":
            self.eat()
            return HALF, "d"
        return super().atom()

    def prod(self):
        l, tl = self.post()
        while self.peek() in ("*", "/"):
            op = self.eat(); r, tr_ = self.post()
            if tl == "d" and tr_ == "d":
                l = "(%s N %s %s)" % ("nmul" if op == "*" else "ndiv", l, r)
            elif tl == "v" and tr_ == "d":
                l = "(%s N %s %s)" % ("vscale" if op == "*" else "vdivs", l, r); tl = "v"
            else:
                raise Tr("product %s %s %s not supported" % (tl, op, tr_))
        return l, tl

    def post(self):
        e, te = self.atom()
        while self.peek() == ".":
            self.eat(); name = self.eat(); self.eat("(")
            if name == "dot":
                a, ta = self.sum(); self.eat(")")
                if te != "v" or ta != "v":
                    raise Tr("dot of non-vectors")
                e = "(vdot N %s %s)" % (e, a); te = "d"
            elif name == "cross":
                a, ta = self.sum(); self.eat(")")
                if te != "v" or ta != "v":
                    raise Tr("cross of non-vectors")
                e = "(vcross N %s %s)" % (e, a); te = "v"
            elif name in ("squared_norm", "norm"):
                self.eat(")")
                if te != "v":
                    raise Tr(name + " of a scalar")
                e = "(%s N %s)" % ("vsqnorm" if name == "squared_norm" else "vnorm", e); te = "d"
            elif name in ("dx", "dy", "dz"):
                self.eat(")")
                if te != "v":
                    raise Tr("component of a scalar")
                e = "(v%s %s)" % (name[1], e); te = "d"
            else:
                raise Tr("method %s not supported" % name)
        return e, te


def expr(s, env, want):
    p = G(tokenize(s), env); g, t = p.sum()
    if t != want or p.peek() is not None:
        raise Tr("expression of type %s expected: %s" % (want, s[:100]))
    return g


PVEC = {"p1": "v", "p2": "v", "p3": "v"}
LETP = "let '(p1, p2, p3) := p in"


def stmts(body):
    return [re.sub(r"\s+", " ", x.strip()) for x in body.split(";") if x.strip() and not x.strip().startswith("assert")]


def face_loop(body, what, decl=r"(?:const\s+)?auto\s*&?\s*f\s*:\s*face_lst_"):
    """for(<decl>){ if(f.is_used()){ BLOCK } }  -> BLOCK, text before, text after"""
    m = re.search(r"for\s*\(\s*" + decl + r"\s*\)\s*\{\s*if\s*\(\s*f\.is_used\(\)\s*\)\s*\{", body)
    if not m:
        raise Tr(what + ": loop over the used faces not found")
    i = m.end() - 1; depth = 0
    for j in range(i, len(body)):
        if body[j] == "{":
            depth += 1
        elif body[j] == "}":
            depth -= 1
            if depth == 0:
                break
    inner = body[i + 1:j]
    rest = body[j + 1:]
    k = rest.index("}")
    if flat(rest[:k]) != "":
        raise Tr(what + ": statements after the is_used block inside the loop")
    return inner, body[:m.start()], rest[k + 1:]


def nodes_of_face(ss, what):
    """the declarations that bind n1, n2, n3 to the three nodes of f, in order; returns the remaining statements"""
    out = []; seen = set()
    for s in ss:
        f = flat(s)
        if re.fullmatch(r"(const)?auto\[n1_id,n2_id,n3_id\]=f\.get_node_ids\(\)", f):
            seen.add("ids"); continue
        m = re.fullmatch(r"constnode&n([123])=node_lst_\[n([123])_id\]", f)
        if m:
            if m.group(1) != m.group(2):
                raise Tr(what + ": n%s bound to node %s" % (m.group(1), m.group(2)))
            seen.add("n" + m.group(1)); continue
        out.append(s)
    if seen != {"ids", "n1", "n2", "n3"}:
        raise Tr(what + ": the three nodes of the face are not bound as expected (%s)" % sorted(seen))
    return out


def generate(repo):
    err = None; defs = []
    try:
        cpp = strip_comments(open(os.path.join(repo, "src", "mesh", "cell.cpp")).read())
        ncpp = flat(strip_comments(open(os.path.join(repo, "src", "mesh", "node.cpp")).read()))
        if "vec3node::operator-(constnode&n)constnoexcept{returnpos_-n.pos();}" not in ncpp:
            raise Tr("node::operator- is not the difference of the positions")
        fcpp = strip_comments(open(os.path.join(repo, "src", "mesh", "face.cpp")).read())
        if not re.search(r"face::get_node_ids\(\)\s*const\s*noexcept\s*\{[^}]*return\s*\{\s*n1_id_\s*,\s*n2_id_\s*,\s*n3_id_\s*\}", fcpp):
            raise Tr("face::get_node_ids does not return {n1_id_, n2_id_, n3_id_}")
        # ---------------- update_face_normal_and_area(face& f)
        b = function_body(cpp, r"void\s+cell::update_face_normal_and_area\s*\(\s*face\s*&\s*f\s*\)\s*noexcept\s*\{")
        ss = stmts(b)
        exp = ["constunsignedn1_id=f.n1_id_,n2_id=f.n2_id_,n3_id=f.n3_id_", "constnode&n1=node_lst_[n1_id],n2=node_lst_[n2_id],n3=node_lst_[n3_id]"]
        if [flat(x) for x in ss[:2]] != exp:
            raise Tr("update_face_normal_and_area: the three nodes are not bound as expected")
        ss = ss[2:]
        env = {"n1": "v", "n2": "v", "n3": "v"}      # a node in a difference stands for its position (node::operator-)
        m = re.fullmatch(r"vec3 face_normal = (.*)", ss[0])
        if not m:
            raise Tr("update_face_normal_and_area: raw normal")
        raw = expr(m.group(1), env, "v")
        if flat(ss[1]) != "constdoubleface_normal_norm=face_normal.norm()":
            raise Tr("update_face_normal_and_area: norm")
        env2 = dict(env, face_normal="v", face_normal_norm="d")
        m = re.fullmatch(r"f\.set_area\((.*)\)", ss[2])
        if not m:
            raise Tr("update_face_normal_and_area: set_area")
        area = expr(m.group(1), env2, "d")
        m = re.fullmatch(r"face_normal = face_normal_norm == 0\.0 \? (.*) : (.*)", ss[3])
        if not m:
            raise Tr("update_face_normal_and_area: normalisation")
        zero = expr(m.group(1), env2, "v"); unit = expr(m.group(2), env2, "v")
        if flat(ss[4]) != "f.set_normal(face_normal)" or len(ss) != 5:
            raise Tr("update_face_normal_and_area: set_normal")
        head = "let '(n1, n2, n3) := p in"
        defs.append("Definition face_normal_raw_gen {T : Type} (N : Num T) (p : vec3 T * vec3 T * vec3 T) : vec3 T :=\n  %s\n  %s." % (head, raw))
        defs.append("Definition face_area_gen {T : Type} (N : Num T) (p : vec3 T * vec3 T * vec3 T) : T :=\n  let face_normal := face_normal_raw_gen N p in let face_normal_norm := vnorm N face_normal in\n  %s." % area)
        defs.append("Definition face_normal_gen {T : Type} (N : Num T) (p : vec3 T * vec3 T * vec3 T) : vec3 T :=\n  let face_normal := face_normal_raw_gen N p in let face_normal_norm := vnorm N face_normal in\n  if neqb N face_normal_norm (nzero N) then %s else %s." % (zero, unit))
        # ---------------- compute_volume
        b = function_body(cpp, r"double\s+cell::compute_volume\s*\(\s*\)\s*const\s*noexcept\s*\{")
        inner, before, after = face_loop(b, "compute_volume", decl=r"const\s+auto\s*&?\s*f\s*:\s*face_lst_")
        if [flat(x) for x in stmts(before)] != ["doublevol=0.0"]:
            raise Tr("compute_volume: start value")
        ss = nodes_of_face(stmts(inner), "compute_volume")
        for k in "123":
            want = "constauto[x%s,y%s,z%s]=n%s.pos_.to_array()" % (k, k, k, k)
            if want not in [flat(x) for x in ss]:
                raise Tr("compute_volume: coordinates of node %s" % k)
        ss = [x for x in ss if "to_array" not in x]
        m = re.fullmatch(r"vol \+= (.*)", ss[0]) if len(ss) == 1 else None
        if not m:
            raise Tr("compute_volume: accumulation")
        env = {"%s%s" % (c, k): "d" for c in "xyz" for k in "123"}
        term = expr(m.group(1), env, "d")
        lets = " ".join("let x%s := vx p%s in let y%s := vy p%s in let z%s := vz p%s in" % (k, k, k, k, k, k) for k in "123")
        defs.append("Definition vol_term_gen {T : Type} (N : Num T) (p : vec3 T * vec3 T * vec3 T) : T :=\n  %s\n  %s\n  %s." % (LETP, lets, term))
        if [flat(x) for x in stmts(after)] != ["vol/=6.", "vol=std::abs(vol)", "returnvol"]:
            raise Tr("compute_volume: finalisation is not `vol /= 6.; vol = std::abs(vol); return vol`")
        defs.append("Definition vol_final_gen {T : Type} (N : Num T) (vol : T) : T := nabs N (ndiv N vol (nofZ N 6)).")
        # ---------------- compute_centroid
        b = function_body(cpp, r"vec3\s+cell::compute_centroid\s*\(\s*\)\s*const\s*noexcept\s*\{")
        inner, before, after = face_loop(b, "compute_centroid")
        if [flat(x) for x in stmts(before)] != ["vec3cell_centroid(0.,0.,0.)"]:
            raise Tr("compute_centroid: start value")
        ss = nodes_of_face(stmts(inner), "compute_centroid")
        if len(ss) != 2:
            raise Tr("compute_centroid: body of the loop")
        m = re.fullmatch(r"const vec3 face_centroid = (.*)", ss[0])
        if not m:
            raise Tr("compute_centroid: face centroid")
        fc = expr(re.sub(r"\bn([123])\.pos_", r"p\1", m.group(1)), PVEC, "v")
        m = re.fullmatch(r"cell_centroid\.translate\((.*)\)", ss[1])
        if not m:
            raise Tr("compute_centroid: accumulation")
        acc = expr(m.group(1).replace("f.get_area()", "f_area"), {"face_centroid": "v", "f_area": "d"}, "v")
        if [flat(x) for x in stmts(after)] != ["cell_centroid=cell_centroid/area_", "returncell_centroid"]:
            raise Tr("compute_centroid: final division")
        defs.append("Definition face_centroid_gen {T : Type} (N : Num T) (p : vec3 T * vec3 T * vec3 T) : vec3 T :=\n  %s\n  %s." % (LETP, fc))
        defs.append("Definition centroid_step_gen {T : Type} (N : Num T) (cell_centroid : vec3 T) (p : vec3 T * vec3 T * vec3 T) (f_area : T) : vec3 T :=\n  let face_centroid := face_centroid_gen N p in\n  vadd N cell_centroid %s." % acc)
        defs.append("Definition centroid_final_gen {T : Type} (N : Num T) (cell_centroid : vec3 T) (area_ : T) : vec3 T := vdivs N cell_centroid area_.")
        # ---------------- compute_area
        b = flat(function_body(cpp, r"double\s+cell::compute_area\s*\(\s*\)\s*const\s*noexcept\s*\{"))
        if b != "constdoublecell_area=std::accumulate(face_lst_.begin(),face_lst_.end(),0.,[](doublesum_area,constface&f)->double{returnsum_area+((f.is_used())?f.get_area():0.);});returncell_area;":
            raise Tr("compute_area: not the accumulation of the areas of the used faces from 0")
        # ---------------- get_aabb: the six conditional updates of one node
        b = function_body(cpp, r"std::array<double,\s*6>\s+cell::get_aabb\s*\(\s*\)\s*const\s*noexcept\s*\{")
        m = re.search(r"for\s*\(\s*const\s+node\s*&\s*n\s*:\s*node_lst_\s*\)\s*\{\s*if\s*\(\s*n\.is_used\(\)\s*\)\s*\{([^{}]*)\}\s*\}", b)
        if not m:
            raise Tr("get_aabb: loop over the used nodes")
        ss = [flat(x) for x in stmts(m.group(1))]
        want = ["constauto[n_x,n_y,n_z]=n.pos_.to_array()"] + ["if(n_%s<min_%s)min_%s=n_%s" % (c, c, c, c) for c in "xyz"] + ["if(n_%s>max_%s)max_%s=n_%s" % (c, c, c, c) for c in "xyz"]
        if ss != want:
            raise Tr("get_aabb: the updates of one node are not as expected: %s" % ss)
        if not flat(b).endswith("return{min_x,min_y,min_z,max_x,max_y,max_z};"):
            raise Tr("get_aabb: order of the returned bounds")
        pre = flat(b[:m.start()])
        for c in "xyz":
            if "doublemin_%s=std::numeric_limits<double>::infinity();" % c not in pre or "doublemax_%s=-std::numeric_limits<double>::infinity();" % c not in pre:
                raise Tr("get_aabb: start values")
        defs.append("Definition aabb_step_gen {T : Type} (N : Num T) (b : vec3 T * vec3 T) (q : vec3 T) : vec3 T * vec3 T :=\n  let '(lo, hi) := b in\n"
                    "  (mkv (if nltb N (vx q) (vx lo) then vx q else vx lo) (if nltb N (vy q) (vy lo) then vy q else vy lo) (if nltb N (vz q) (vz lo) then vz q else vz lo),\n"
                    "   mkv (if nltb N (vx hi) (vx q) then vx q else vx hi) (if nltb N (vy hi) (vy q) then vy q else vy hi) (if nltb N (vz hi) (vz q) then vz q else vz hi)).")
        # ---------------- check_face_normal_orientation: signed volume and flip
        b = function_body(cpp, r"void\s+cell::check_face_normal_orientation\s*\(\s*\)\s*noexcept\s*\{")
        i = b.index("double signed_volume")
        tail = b[i:]
        inner, before, after = face_loop(tail, "check_face_normal_orientation")
        if [flat(x) for x in stmts(before)] != ["doublesigned_volume=0.0"]:
            raise Tr("orientation: start value")
        ss = nodes_of_face(stmts(inner), "check_face_normal_orientation")
        m = re.fullmatch(r"signed_volume \+= (.*)", ss[0]) if len(ss) == 1 else None
        if not m:
            raise Tr("orientation: accumulation")
        ot = expr(re.sub(r"\bn([123])\.pos_", r"p\1", m.group(1)), PVEC, "d")
        defs.append("Definition orient_term_gen {T : Type} (N : Num T) (p : vec3 T * vec3 T * vec3 T) : T :=\n  %s\n  %s." % (LETP, ot))
        if flat(after) != "if(signed_volume<0.0){for(auto&f:face_lst_){if(f.is_used())f.swap_nodes();}}":
            raise Tr("orientation: flip condition / flip loop")
        if not re.search(r"void\s+face::swap_nodes\(\)\s*noexcept\s*\{[^}]*std::swap\(\s*n2_id_\s*,\s*n3_id_\s*\)", fcpp):
            raise Tr("face::swap_nodes does not swap the second and third node")
    except Exception as e:      # noqa
        err = str(e)
    L = ["(* Geometry_gen.v — GENERATED by harness/translate_geometry.py from /repo/src/mesh/cell.cpp (and node.cpp, face.cpp) on every run.", "   Do not edit. *)",
         "From Coq Require Import ZArith Bool List.", "From SC Require Import Num Vec3 Mesh Geometry.", ""]
    if err:
        L.append("(* translation failed: %s *)" % err.replace("*)", "* )"))
        L.append("Definition geometry_translation_ok : bool := false.")
        for nm in ("face_normal_raw_gen", "face_normal_gen", "face_centroid_gen"):
            L.append("Definition %s {T : Type} (N : Num T) (p : vec3 T * vec3 T * vec3 T) : vec3 T := fst (fst p)." % nm)
        for nm in ("face_area_gen", "vol_term_gen", "orient_term_gen"):
            L.append("Definition %s {T : Type} (N : Num T) (p : vec3 T * vec3 T * vec3 T) : T := nzero N." % nm)
        L.append("Definition vol_final_gen {T : Type} (N : Num T) (vol : T) : T := vol.")
        L.append("Definition centroid_step_gen {T : Type} (N : Num T) (cell_centroid : vec3 T) (p : vec3 T * vec3 T * vec3 T) (f_area : T) : vec3 T := cell_centroid.")
        L.append("Definition centroid_final_gen {T : Type} (N : Num T) (cell_centroid : vec3 T) (area_ : T) : vec3 T := cell_centroid.")
        L.append("Definition aabb_step_gen {T : Type} (N : Num T) (b : vec3 T * vec3 T) (q : vec3 T) : vec3 T * vec3 T := b.")
    else:
        L.append("Definition geometry_translation_ok : bool := true.")
        L += defs
    return "\n".join(L) + "\n"


if __name__ == "__main__":
    repo = sys.argv[1] if len(sys.argv) > 1 else "/repo"
    out = sys.argv[2] if len(sys.argv) > 2 else os.path.join(os.path.dirname(os.path.dirname(os.path.abspath(__file__))), "coq", "Geometry_gen.v")
    txt = generate(repo)
    old = open(out).read() if os.path.exists(out) else None
    if old != txt:
        open(out, "w").write(txt)
