#!/bin/bash
# run_seeded.sh <seeded-name> [property-id] [tier]: run a check against a seeded change, in a scratch worktree of
# /repo (VERIF_REPO), leaving /repo itself untouched.  Prints the check's verdict lines.
NAME=$1; PID=${2:-${NAME%%-*}}; TIER=${3:-quick}
WT=/tmp/seeded_wt_$NAME
git -C /repo worktree remove --force $WT 2>/dev/null
git -C /repo worktree add -q --detach $WT HEAD || exit 2
# the stored patch was made against the /repo HEAD of its day: fall back to a 3-way merge, then to patch(1) with fuzz
if ! git -C $WT apply /verif/seeded/$NAME/patch.diff 2>/dev/null; then
  if ! git -C $WT apply --3way /verif/seeded/$NAME/patch.diff 2>/dev/null; then
    if ! (cd $WT && patch -p1 -F3 -s < /verif/seeded/$NAME/patch.diff); then echo "PATCH-DOES-NOT-APPLY $NAME"; git -C /repo worktree remove --force $WT; exit 3; fi
  fi
fi
VERIF_REPO=$WT /verif/check $PID --tier $TIER 2>&1 | grep -E "^VIOLATION|^KNOWN-FINDING| OK tier| FAILED tier|^  -> " | head -8
git -C /repo worktree remove --force $WT
