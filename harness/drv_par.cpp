// drv_par: parallel_exception_handler (include/utils.hpp) under real threads.
// line: EH n threads delay_us nthrow idx...      every task marks itself visited; the listed tasks throw
// out : RAISED <what> | NONE ; visited=<count> ; after_all=<1 if every task had finished when the caller got control>
#include "drv_common.hpp"
#include "utils.hpp"
#include <atomic>
#include <set>
#include <thread>
#include <omp.h>

struct custom_error : public std::exception { std::string w; custom_error(std::string s) : w(std::move(s)) {} const char* what() const noexcept override { return w.c_str(); } };

int main(){
    std::string line;
    while (std::getline(std::cin, line)){
        if (line.empty()) continue;
        std::istringstream in(line); std::string mode; in >> mode;
        size_t n; int threads, delay, nthrow; in >> n >> threads >> delay >> nthrow;
        std::set<size_t> bad; for (int k = 0; k < nthrow; k++){ size_t x; in >> x; bad.insert(x); }
        omp_set_num_threads(threads);
        std::vector<size_t> ids(n); for (size_t i = 0; i < n; i++) ids[i] = i;
        std::vector<std::atomic<int>> visited(n); for (auto& v : visited) v = 0;
        std::atomic<int> finished{0};
        std::function<void(size_t)> f = [&](size_t i){
            visited[i] = 1;
            if (delay) std::this_thread::sleep_for(std::chrono::microseconds((i * 7919) % (delay + 1)));
            if (bad.count(i)){ finished++; if (i % 2) throw custom_error("task" + std::to_string(i)); else throw std::runtime_error("task" + std::to_string(i)); }
            finished++;
        };
        std::string got = "NONE"; int fin_at_return = -1;
        try { parallel_exception_handler<size_t>(ids, f); fin_at_return = finished; }
        catch (const std::exception& e){ fin_at_return = finished; got = std::string("RAISED ") + e.what(); }
        catch (...){ fin_at_return = finished; got = "RAISED-OTHER"; }
        int vis = 0; for (auto& v : visited) vis += v;
        std::cout << got << " ; visited=" << vis << " ; after_all=" << (fin_at_return == (int)n ? 1 : 0) << "\n";
    }
    return 0;
}
