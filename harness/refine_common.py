"""refine_common.py — shared by C01 and C11: generation of remeshing histories, parsing of the store dumps of
drv_refine, the replay query for the extracted model (MeshOps.replay), and the oracles."""
import random, math
from fractions import Fraction as Fr
import vlib, tissue
from vlib import hx, unhx


# ------------------------------------------------------------------ generation
def gen_history(rng, dynamic=True, big=False, half_turn=False):
    kinds = ("tetra", "octa", "icosa", "cube", "ico1", "ico2") if not big else ("ico2", "ico3")
    size = 10 ** rng.uniform(-6, 0)
    kind, n, f = tissue.random_mesh(rng, kinds=kinds, size=size, aniso=rng.random() < 0.4, noise=rng.choice([0.0, 0.05]), place=rng.choice([0, 0, 1, 100]) * size)
    me = tissue.mean_edge(n, f)
    band = rng.choice(["around", "tight", "coarse", "fine"]) if not big else rng.choice(["around", "tight"])
    if band == "around":
        lmin = me * rng.uniform(0.4, 0.7); lmax = 3 * lmin
    elif band == "tight":
        lmin = me * rng.uniform(0.75, 0.95); lmax = me * rng.uniform(1.05, 1.4)
    elif band == "coarse":
        lmin = me * rng.uniform(1.1, 2.0); lmax = 3 * lmin
    else:
        lmin = me * rng.uniform(0.2, 0.3); lmax = 3 * lmin
    swap = 1 if rng.random() < 0.6 else 0
    types = [rng.randrange(3) for _ in f]
    ev = []
    nev = rng.randint(4, 18)
    if dynamic:
        ev.append("MOM %s %d" % (hx(10 ** rng.uniform(-20, -10)), rng.randrange(1 << 30)))
    fresh_mode = rng.random() < 0.5      # refresh normals before every pass (as the force phase of the solver does)
    for _ in range(nev):
        r = rng.random()
        if rng.random() < 0.05:
            ev.append("OPL %d" % rng.choice([2, 2, 1, 0]))      # an operation on an edge whose two opposite nodes are linked (pinched neighbourhood)
            continue
        if rng.random() < 0.06:
            # compaction at a chosen balance of free node and face slots: k collapses (each frees node and face slots), then j
            # splits (each takes one node slot and two face slots back), then rebase(): free nodes without free faces, free faces
            # without free nodes, both, neither
            k = rng.choice([1, 1, 2, 3]); j = rng.choice([max(0, k - 1), k, k, k + 1, 2 * k])
            ev += ["OP 1 %d" % rng.randrange(10 ** 6) for _ in range(k)] + ["OP 0 %d" % rng.randrange(10 ** 6) for _ in range(j)] + ["REBASE", "FRESH", "REFINE"]
            continue
        if half_turn and rng.random() < 0.06:
            # a rigid half turn of the cell about an axis through its centroid (two mirror scalings) after the normals were cached,
            # then an inflation and a pass WITHOUT a refresh in between: the cached normals of most faces now point the other way
            a1 = rng.randrange(3); a2 = (a1 + rng.choice([1, 2])) % 3
            ev += ["FRESH", "A %d %s" % (a1, hx(-1.0)), "A %d %s" % (a2, hx(-1.0)), "S %s" % hx(rng.choice([1.4, 1.8])), "REFINE"]
            continue
        if r < 0.30:
            ev.append("G %s %d" % (hx(rng.choice([0.02, 0.05, 0.1, 0.2, 0.4])), rng.randrange(1 << 30)))
        elif r < 0.38:
            ev.append("S %s" % hx(rng.choice([0.5, 0.7, 1.3, 1.8] if len(f) > 100 else [0.5, 0.7, 1.3, 1.8, 2.5])))
        elif r < 0.46:
            ev.append("A %d %s" % (rng.randrange(3), hx(rng.choice([0.3, 0.5, 2.0, 3.0]))))
        elif r < 0.56:
            ev.append("OP %d %d" % (rng.randrange(3), rng.randrange(10 ** 6)))
        elif r < 0.64:
            ev.append("REBASE")
        elif r < 0.70:
            ev.append("FRESH")
        else:
            if fresh_mode:
                ev.append("FRESH")
            ev.append("REFINE")
            if rng.random() < 0.3:
                ev.append("REFINE")
    ct = tissue.cell_type(gid=0)
    line = tissue.fmt_tissue(tissue.params(), [ct], [(0, n, f)]) + " R %s %s %d %d %s %d %s" % (
        hx(lmin), hx(lmax), swap, len(types), " ".join(map(str, types)), len(ev), " ".join(ev))
    return dict(line=line, lmin=lmin, lmax=lmax, swap=swap, events=ev, size=size, kind=kind)


def huge_case(rng):
    """a single cell with more than 32768 nodes (large ids in the edge keys), a few single operations"""
    n, f = tissue.icosphere(6)
    M = tissue.rnd_rot(rng)
    n = tissue.transform(n, M, (0, 0, 0), (1e-5, 1e-5, 1e-5))
    me = tissue.mean_edge(n, f)
    ev = ["OP 1 %d" % rng.randrange(10 ** 6), "OP 1 %d" % rng.randrange(10 ** 6), "OP 0 %d" % rng.randrange(10 ** 6), "OP 1 %d" % rng.randrange(10 ** 6)]
    types = [0] * len(f)
    ct = tissue.cell_type(gid=0)
    line = tissue.fmt_tissue(tissue.params(), [ct], [(0, n, f)]) + " R %s %s %d %d %s %d %s" % (
        hx(me * 0.5), hx(me * 1.5), 0, len(types), " ".join(map(str, types)), len(ev), " ".join(ev))
    return dict(line=line, lmin=me * 0.5, lmax=me * 1.5, swap=0, events=ev, size=1e-5, kind="ico6")


def pinched_case(rng):
    """collapses on a coarse mesh create edges whose two opposite nodes are linked (non-face 3-cycles); then swaps, collapses and
    splits are attempted exactly there, followed by a pass"""
    size = 10 ** rng.uniform(-6, 0)
    kind, n, f = tissue.random_mesh(rng, kinds=("icosa", "ico1", "ico1", "ico2"), size=size, aniso=rng.random() < 0.3, noise=rng.choice([0.0, 0.05]), place=0.0)
    me = tissue.mean_edge(n, f)
    lmin = me * 0.5; lmax = 3 * lmin
    types = [rng.randrange(3) for _ in f]
    ev = ["MOM %s %d" % (hx(1e-15), rng.randrange(1 << 30))]
    for _ in range(rng.randint(2, 8)):
        ev.append("OP 1 %d" % rng.randrange(10 ** 6))
    for _ in range(rng.randint(2, 5)):
        ev.append("OPL %d" % rng.choice([2, 2, 2, 1, 0]))
        if rng.random() < 0.4:
            ev.append("OP 1 %d" % rng.randrange(10 ** 6))
    ev += ["FRESH", "REFINE", "REBASE", "REFINE"]
    ct = tissue.cell_type(gid=0)
    line = tissue.fmt_tissue(tissue.params(), [ct], [(0, n, f)]) + " R %s %s %d %d %s %d %s" % (
        hx(lmin), hx(lmax), 1, len(types), " ".join(map(str, types)), len(ev), " ".join(ev))
    return dict(line=line, lmin=lmin, lmax=lmax, swap=1, events=ev, size=size, kind=kind)


def tie_case(rng):
    """a lattice-built box whose edges (sides and face diagonals) have squared lengths EXACTLY equal to l_min^2 or l_max^2:
    `longer than the maximum` / `shorter than the minimum` are strict, so the mesh conforms and a pass must not touch it"""
    sides = rng.choice([(3.0, 4.0, 3.0), (3.0, 4.0, 4.0), (6.0, 8.0, 6.0), (5.0, 12.0, 5.0), (4.0, 3.0, 3.0)])
    sc = 2.0 ** rng.choice([0, 0, -3, -20, 4])            # exactly representable scalings
    n0, f = tissue.cube()
    off = [float(rng.choice([0, 0, 7, -16])) * sc for _ in range(3)]
    n = [[(p[k] + 1.0) / 2.0 * sides[k] * sc + off[k] for k in range(3)] for p in n0]
    # exact squared edge lengths in lattice units (integers)
    unit = [[round((p[k] + 1.0) / 2.0 * sides[k]) for k in range(3)] for p in n0]
    sq = sorted(set(sum((unit[a][k] - unit[b][k]) ** 2 for k in range(3)) for t in f for a, b in ((t[0], t[1]), (t[1], t[2]), (t[2], t[0]))))
    lo2, hi2 = sq[0], sq[-1]
    lo_exact = math.isqrt(lo2) ** 2 == lo2; hi_exact = math.isqrt(hi2) ** 2 == hi2
    lmin = math.isqrt(lo2) * sc if (lo_exact and rng.random() < 0.8) else math.sqrt(lo2) * sc * 0.5
    lmax = math.isqrt(hi2) * sc if (hi_exact and rng.random() < 0.8) else math.sqrt(hi2) * sc * 1.5
    types = [rng.randrange(3) for _ in f]
    ev = ["MOM %s %d" % (hx(1e-15), rng.randrange(1 << 30)), "FRESH", "REFINE", "REFINE"]
    ct = tissue.cell_type(gid=0)
    line = tissue.fmt_tissue(tissue.params(), [ct], [(0, n, f)]) + " R %s %s %d %d %s %d %s" % (
        hx(lmin), hx(lmax), 0, len(types), " ".join(map(str, types)), len(ev), " ".join(ev))
    return dict(line=line, lmin=lmin, lmax=lmax, swap=0, events=ev, size=sc * max(sides), kind="lattice_box", conforming=True)


def conforming_case(rng):
    """a mesh that already satisfies the band and the quality rule: a pass must leave it unchanged"""
    size = 10 ** rng.uniform(-6, 0)
    kind, n, f = tissue.random_mesh(rng, kinds=("icosa", "ico1", "ico2", "octa"), size=size, aniso=False, noise=rng.choice([0.0, 0.02]), place=0.0)
    lens = [math.dist(n[a], n[b]) for t in f for a, b in ((t[0], t[1]), (t[1], t[2]), (t[2], t[0]))]
    lmin = min(lens) * rng.uniform(0.5, 0.95); lmax = max(lens) * rng.uniform(1.05, 1.5)
    types = [rng.randrange(3) for _ in f]
    ev = ["MOM %s %d" % (hx(1e-15), rng.randrange(1 << 30)), "FRESH", "REFINE", "REFINE"]
    ct = tissue.cell_type(gid=0)
    line = tissue.fmt_tissue(tissue.params(), [ct], [(0, n, f)]) + " R %s %s %d %d %s %d %s" % (
        hx(lmin), hx(lmax), 1, len(types), " ".join(map(str, types)), len(ev), " ".join(ev))
    return dict(line=line, lmin=lmin, lmax=lmax, swap=1, events=ev, size=size, kind=kind, conforming=True)


# ------------------------------------------------------------------ parsing
def parse_states(out):
    if out is None or out.startswith("FATAL"):
        return None
    states = []
    for sec in out.strip().split("#"):
        sec = sec.strip()
        if not sec:
            continue
        parts = sec.split("@")
        head = parts[0].split()
        st = dict(name=head[1], exc=(head[3] if len(head) > 3 and head[2] == "EXC" else None))
        t = parts[1].split()
        st["nodes"] = [dict(id=int(t[i]), used=int(t[i + 1]), p=[unhx(x) for x in t[i + 2:i + 5]], m=[unhx(x) for x in t[i + 5:i + 8]]) for i in range(0, len(t), 8)]
        t = parts[2].split()
        st["faces"] = [dict(id=int(t[i]), used=int(t[i + 1]), tri=(int(t[i + 2]), int(t[i + 3]), int(t[i + 4])), ty=int(t[i + 5]),
                            n=[unhx(x) for x in t[i + 6:i + 9]], area=unhx(t[i + 9])) for i in range(0, len(t), 10)]
        t = parts[3].split()
        st["edges"] = [(int(t[i]), int(t[i + 1]), int(t[i + 2]), int(t[i + 3])) for i in range(0, len(t), 4)]
        st["freeN"] = [int(x) for x in parts[4].split()]
        st["freeF"] = [int(x) for x in parts[5].split()]
        t = parts[6].split()
        ctl = [(t[i], int(t[i + 1]), int(t[i + 2]), int(t[i + 3]), int(t[i + 4]), int(t[i + 5])) for i in range(0, len(t), 6)]
        st["ctl"] = ctl                                                     # everything the hook reported, in order (incl. pop / end of the loop)
        st["trace"] = [e for e in ctl if e[0] in ("split", "merge", "swap")]   # the completed operations
        states.append(st)
    return states


def canon(tri):
    a, b, c = tri
    m = min(tri)
    return (a, b, c) if m == a else ((b, c, a) if m == b else (c, a, b))


def live_faces(st):
    return [f for f in st["faces"] if f["used"]]


# ------------------------------------------------------------------ oracles on one dump
def fast_valid(st):
    """independent (Python) recomputation: closed, oriented, Euler 2, bookkeeping coherent.  returns None or a name"""
    faces = live_faces(st)
    nodes = st["nodes"]
    he = {}
    for f in faces:
        a, b, c = f["tri"]
        if len({a, b, c}) < 3:
            return "triangle_repeats_node (face %d: %s)" % (f["id"], f["tri"])
        for x in (a, b, c):
            if x >= len(nodes) or not nodes[x]["used"]:
                return "live_triangle_refers_to_dead_node (face %d node %d)" % (f["id"], x)
        for e in ((a, b), (b, c), (c, a)):
            if e in he:
                return "duplicate_half_edge %s (faces %d and %d traverse it in the same direction)" % (e, he[e], f["id"])
            he[e] = f["id"]
    for (a, b) in he:
        if (b, a) not in he:
            return "open_edge (%d,%d) has no opposite half-edge" % (a, b)
    used_ids = {x for f in faces for x in f["tri"]}
    live_ids = {n["id"] for n in nodes if n["used"]}
    if used_ids != live_ids:
        return "live_node_not_used_by_any_triangle %s" % sorted(live_ids ^ used_ids)[:5]
    V = len(live_ids); E = len(he) // 2; F = len(faces)
    if V - E + F != 2:
        return "euler_characteristic V-E+F=%d" % (V - E + F)
    # connected
    if faces:
        adj = {}
        for (a, b), fid in he.items():
            adj.setdefault(fid, set()).add(he[(b, a)])
        seen = {faces[0]["id"]}; stack = [faces[0]["id"]]
        while stack:
            x = stack.pop()
            for y in adj.get(x, ()):
                if y not in seen:
                    seen.add(y); stack.append(y)
        if len(seen) != F:
            return "surface_not_connected"
    # ---- bookkeeping
    for i, n in enumerate(nodes):
        if n["used"] and n["id"] != i:
            return "node_id_differs_from_slot (%d in slot %d)" % (n["id"], i)
    for i, f in enumerate(st["faces"]):
        if f["used"] and f["id"] != i:
            return "face_id_differs_from_slot (%d in slot %d)" % (f["id"], i)
    if sorted(st["freeN"]) != sorted(i for i, n in enumerate(nodes) if not n["used"]) or len(set(st["freeN"])) != len(st["freeN"]):
        return "free_node_queue_disagrees_with_unused_slots"
    if sorted(st["freeF"]) != sorted(i for i, f in enumerate(st["faces"]) if not f["used"]) or len(set(st["freeF"])) != len(st["freeF"]):
        return "free_face_queue_disagrees_with_unused_slots"
    derived = {}
    for (a, b), fid in he.items():
        derived.setdefault((min(a, b), max(a, b)), set()).add(fid)
    es = {}
    for n1, n2, f1, f2 in st["edges"]:
        if (n1, n2) in es:
            return "edge_set_has_duplicate (%d,%d)" % (n1, n2)
        es[(n1, n2)] = {f1, f2}
    if es != derived:
        bad = [k for k in set(es) | set(derived) if es.get(k) != derived.get(k)][:3]
        return "edge_to_face_adjacency_disagrees_with_triangle_list %s" % [(k, es.get(k), derived.get(k)) for k in bad]
    return None


def signed_volume6(st):
    nodes = st["nodes"]
    s = 0.0
    for f in live_faces(st):
        p, q, r = [nodes[i]["p"] for i in f["tri"]]
        s += p[0] * (q[1] * r[2] - q[2] * r[1]) - p[1] * (q[0] * r[2] - q[2] * r[0]) + p[2] * (q[0] * r[1] - q[1] * r[0])
    return s


def total_area(st):
    nodes = st["nodes"]
    return sum(tissue.area([n["p"] for n in nodes], [f["tri"]]) for f in live_faces(st))


def normals_follow_winding(st):
    nodes = st["nodes"]
    for f in live_faces(st):
        p, q, r = [nodes[i]["p"] for i in f["tri"]]
        u = [q[i] - p[i] for i in range(3)]; v = [r[i] - p[i] for i in range(3)]
        cr = [u[1] * v[2] - u[2] * v[1], u[2] * v[0] - u[0] * v[2], u[0] * v[1] - u[1] * v[0]]
        l = math.sqrt(sum(x * x for x in cr))
        if l == 0:
            continue
        d = sum(cr[i] / l * f["n"][i] for i in range(3))
        if d < -1e-9:
            return "cached_normal_opposite_to_winding (face %d %s, cos=%.3g)" % (f["id"], f["tri"], d)
    return None


# ------------------------------------------------------------------ model replay query
def replay_query(pre, trace, lmin, lmax, dynamic):
    t = ["1" if dynamic else "0", hx(lmin * lmin), hx(lmax * lmax)]
    fs = live_faces(pre)
    t.append(str(len(fs)))
    for f in fs:
        t += [str(x) for x in f["tri"]] + [str(f["ty"])]
    ln = [n for n in pre["nodes"] if n["used"]]
    t.append(str(len(ln)))
    for n in ln:
        t += [str(n["id"])] + [hx(x) for x in n["p"]] + [hx(x) for x in n["m"]]
    ops = []
    for op, a, b, c, d, e in trace:
        if op == "split":
            ops.append("S %d %d %d" % (a, b, e))
        elif op == "merge":
            ops.append("M %d %d %d" % (a, b, e))
        else:
            ops.append("W %d %d 0" % (a, b))
    t.append(str(len(ops)))
    return " ".join(t + ops)


def loop_script(ctl):
    """the control events of one refine_mesh call -> (swaps before the loop, pops [(a, b, new, iteration, nb_edges, work_left, op)], end (iteration, nb_edges, work_left) or None)"""
    swaps = []; pops = []; end = None; i = 0
    while i < len(ctl) and ctl[i][0] == "swap":
        swaps.append((ctl[i][1], ctl[i][2])); i += 1
    while i < len(ctl):
        ev = ctl[i]
        if ev[0] == "pop":
            new = 0; op = "N"
            if i + 1 < len(ctl) and ctl[i + 1][0] in ("split", "merge") and {ctl[i + 1][1], ctl[i + 1][2]} == {ev[1], ev[2]}:
                new = ctl[i + 1][5]; op = "S" if ctl[i + 1][0] == "split" else "M"; i += 1
            pops.append((ev[1], ev[2], new, ev[3], ev[4], ev[5], op))
        elif ev[0] == "end":
            end = (ev[1], ev[2], ev[3])
        else:
            return None          # an operation that does not follow a pop of its edge: not a run of the loop
        i += 1
    return swaps, pops, end


def loop_query(pre, ctl, lmin, lmax, dynamic):
    ls = loop_script(ctl)
    if ls is None or ls[2] is None:
        return None, None
    swaps, pops, end = ls
    t = ["1" if dynamic else "0", hx(lmin * lmin), hx(lmax * lmax)]
    fs = live_faces(pre)
    t.append(str(len(fs)))
    for f in fs:
        t += [str(x) for x in f["tri"]] + [str(f["ty"])]
    ln = [n for n in pre["nodes"] if n["used"]]
    t.append(str(len(ln)))
    for n in ln:
        t += [str(n["id"])] + [hx(x) for x in n["p"]] + [hx(x) for x in n["m"]]
    t.append(str(len(swaps))); t += ["%d %d" % sw for sw in swaps]
    t.append(str(len(pops))); t += ["%d %d %d" % (a, b, new) for a, b, new, *_ in pops]
    t.append(str(end[2]))
    return " ".join(t), ls


def parse_loop(line):
    s = line.split("|")
    h = s[0].split()
    kind = h[0]; iter_, nops, left, nedges = [int(x) for x in h[1:5]]
    lg = s[1].split(); log = [(int(lg[i]), int(lg[i + 1]), lg[i + 2]) for i in range(0, len(lg), 3)]
    t = [int(x) for x in s[2].split()]
    faces = [tuple(t[i:i + 4]) for i in range(0, len(t), 4)]
    t = s[3].split()
    nodes = {int(t[i]): [unhx(x) for x in t[i + 1:i + 7]] for i in range(0, len(t), 7)}
    return dict(kind=kind, iter=iter_, nops=nops, left=left, nedges=nedges, log=log, faces=faces, nodes=nodes)


def compare_loop(post, ls, ml, dynamic):
    """model loop (computed decisions) vs the implementation's run of refine_mesh; None or a description"""
    swaps, pops, end = ls
    if ml["kind"] == "DIVERGED" or len(ml["log"]) != len(pops):
        k = len(ml["log"])
        at = pops[k - 1] if 0 < k <= len(pops) else None
        return "the implementation's sequence of pops is not a run of the model loop (model stops after %d of %d pops%s)" % (k, len(pops), "" if at is None else ", at edge (%d,%d): model decision %s, implementation %s, iteration %d of %d edges" % (at[0], at[1], ml["log"][k - 1][2], at[6], at[3], at[4]))
    for (a, b, new, it, ne, wl, op), (mi, me, md) in zip(pops, ml["log"]):
        if (it, ne) != (mi, me):
            return "at the pop of edge (%d,%d) the loop counters differ: implementation iteration %d, %d edges; model %d, %d" % (a, b, it, ne, mi, me)
        if op != md:
            return "popped edge (%d,%d): the implementation %s, the model decides %s" % (a, b, {"S": "splits", "M": "collapses", "N": "leaves it"}[op], {"S": "split", "M": "collapse", "N": "nothing", "X": "stuck"}[md])
    threw = bool(post["exc"])
    if threw != (ml["kind"] == "THREW"):
        return "outcome differs: implementation %s, model %s" % ("threw " + str(post["exc"])[:60] if threw else "returned", ml["kind"])
    if (end[0], end[1]) != (ml["iter"], ml["nedges"]):
        return "counters after the loop differ: implementation iteration %d, %d edges; model %d, %d" % (end[0], end[1], ml["iter"], ml["nedges"])
    return compare_replay(post, (1, ml["faces"], ml["nodes"]), dynamic)


def parse_replay(line):
    if not line.startswith("OK"):
        return None
    s = line.split("|")
    g = int(s[0].split()[1])
    t = [int(x) for x in s[1].split()]
    faces = [tuple(t[i:i + 4]) for i in range(0, len(t), 4)]
    t = s[2].split()
    nodes = {int(t[i]): [unhx(x) for x in t[i + 1:i + 7]] for i in range(0, len(t), 7)}
    return g, faces, nodes


def compare_replay(post, rep, dynamic):
    """model (replayed trace) vs implementation dump; returns None or description"""
    g, mf, mn = rep
    pf = sorted(canon(f["tri"]) + (f["ty"],) for f in live_faces(post))
    if [x[:3] for x in pf] != [x[:3] for x in mf]:
        a = set(x[:3] for x in pf); b = set(x[:3] for x in mf)
        return "triangles differ: only implementation %s, only model %s" % (sorted(a - b)[:4], sorted(b - a)[:4])
    if pf != mf:
        return "face type labels differ: %s" % [(x, y) for x, y in zip(pf, mf) if x != y][:3]
    ln = {n["id"]: n for n in post["nodes"] if n["used"]}
    if set(ln) != set(mn):
        return "live node ids differ: %s" % sorted(set(ln) ^ set(mn))[:5]
    for k, n in ln.items():
        m = mn[k]
        vals = n["p"] + (n["m"] if dynamic else [])
        mv = m[:3] + (m[3:] if dynamic else [])
        if not all(vlib.same_bits(x, y) for x, y in zip(vals, mv)):
            scale = max(abs(x) for x in vals + mv) + 1e-300
            if not all(abs(x - y) <= 1e-12 * scale for x, y in zip(vals, mv)):
                return "node %d state differs: implementation %s model %s" % (k, vals, mv)
    return None
