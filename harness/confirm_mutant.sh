#!/bin/bash
# confirm_mutant.sh <worktree> <seeded-name>: verify an agent's seeded change in its scratch worktree:
#  (1) compiles + 126 tests pass with the change, (2) demo fails with it, (3) demo passes without it.
# On success stores patch+demo+meta skeleton under /verif/seeded/<name>/ and writes confirm.log.
WT=$1; NAME=$2
OUT=/verif/seeded/$NAME
mkdir -p $OUT
LOG=$OUT/confirm.log
: > $LOG
cd $WT || exit 2
git diff -- src include > /tmp/confirm_$NAME.diff
if ! cmp -s /tmp/confirm_$NAME.diff MUTANT/patch.diff; then echo "note: worktree diff differs from MUTANT/patch.diff; using worktree diff" >> $LOG; fi
echo "== build + ctest with the change" >> $LOG
(cmake -G Ninja -B _cbuild -S . -DCMAKE_BUILD_TYPE=Release > /dev/null 2>&1 && cmake --build _cbuild -j8 2>&1 | tail -1 && ctest --test-dir _cbuild -j8 --timeout 900 2>&1 | tail -3) >> $LOG 2>&1
TESTS_OK=$(grep -c "100% tests passed, 0 tests failed out of 126" $LOG)
rm -rf _cbuild
echo "== demo with the change (expect failure)" >> $LOG
(cd MUTANT && timeout 1200 bash ./run_demo.sh) >> $LOG 2>&1; RC_WITH=$?
echo "rc_with=$RC_WITH" >> $LOG
git apply -R /tmp/confirm_$NAME.diff || { echo "cannot revert" >> $LOG; exit 2; }
echo "== demo without the change (expect pass)" >> $LOG
(cd MUTANT && timeout 1200 bash ./run_demo.sh) >> $LOG 2>&1; RC_WITHOUT=$?
echo "rc_without=$RC_WITHOUT" >> $LOG
git apply /tmp/confirm_$NAME.diff
cp /tmp/confirm_$NAME.diff $OUT/patch.diff
cp -r MUTANT/* $OUT/ 2>/dev/null
cp /tmp/confirm_$NAME.diff $OUT/patch.diff
if [ "$TESTS_OK" = "1" ] && [ $RC_WITH -ne 0 ] && [ $RC_WITHOUT -eq 0 ]; then echo "CONFIRMED $NAME" | tee -a $LOG; else echo "NOT-CONFIRMED $NAME tests_ok=$TESTS_OK rc_with=$RC_WITH rc_without=$RC_WITHOUT" | tee -a $LOG; fi
rm -f /tmp/confirm_$NAME.diff
