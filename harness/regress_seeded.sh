#!/bin/bash
cd /verif
for d in seeded/*/; do n=$(basename $d); p=${n%%-*}; 
  out=$(harness/run_seeded.sh $n $p 2>&1 | grep -E "^VIOLATION|OK tier|FAILED tier|PATCH-DOES" | head -3)
  if echo "$out" | grep -q "PATCH-DOES-NOT-APPLY"; then echo "$n NOPATCH";
  elif echo "$out" | grep -q "^VIOLATION" && ! echo "$out" | grep "^VIOLATION" | head -1 | grep -q "no-failing-input-found"; then echo "$n DETECTED-INPUT";
  elif echo "$out" | grep -q "^VIOLATION"; then echo "$n DETECTED-NOINPUT";
  else echo "$n MISSED"; fi
done
