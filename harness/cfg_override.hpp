// Forced-include (-include) configuration override: pulls in the repository's real
// global_configuration.hpp first (its include guard then makes later includes no-ops) and
// re-defines the two compile-time indices from -D macros.  No source hook needed.
#ifndef VERIF_CFG_OVERRIDE
#define VERIF_CFG_OVERRIDE
#include "global_configuration.hpp"
#ifdef VERIF_CONTACT_MODEL_INDEX
#undef CONTACT_MODEL_INDEX
#define CONTACT_MODEL_INDEX VERIF_CONTACT_MODEL_INDEX
#endif
#ifdef VERIF_DYNAMIC_MODEL_INDEX
#undef DYNAMIC_MODEL_INDEX
#define DYNAMIC_MODEL_INDEX VERIF_DYNAMIC_MODEL_INDEX
#endif
#endif
