// drv_contact: the real contact phase (contact_model::run) on a generated tissue, single call, with a dump of everything
// the phase reads (node positions, normals, curvatures, cached face normals/areas, strengths) and everything it writes
// (forces, couplings, positions, the content of every voxel), plus a second run in which the SAME narrow-phase code of
// the repository is driven by ALL node-face pairs instead of the grid (implementation-side completeness oracle).
// line: <tissue case> CT threads
// out : IN ... # GRID ... # OUT ... # ALL ...     (see the code)
#include <algorithm>
#include <array>
#include <cmath>
#include <forward_list>
#include <map>
#include <memory>
#include <numeric>
#include <optional>
#include <set>
#include <sstream>
#include <string>
#include <vector>
#include <iostream>
#include <omp.h>
#define private public
#define protected public
#include "tissue.hpp"
#include "contact_model_abstract.hpp"
#include "local_mesh_refiner.hpp"
#include "contact_node_node_via_coupling.hpp"
#include "contact_node_face_via_spring.hpp"
#include "contact_face_face_via_coupling.hpp"
#undef private
#undef protected

#if CONTACT_MODEL_INDEX == 0
typedef contact_node_face_via_spring cmodel;
#elif CONTACT_MODEL_INDEX == 1
typedef contact_node_node_via_coupling cmodel;
#else
typedef contact_face_face_via_coupling cmodel;
#endif

static std::string v3(const vec3& v){ return hx(v.dx()) + " " + hx(v.dy()) + " " + hx(v.dz()); }

static int g_pre_merges = 0;       // CTM: so many edge merges per cell before the phase (the cells then hold free node and face slots)
static std::vector<cell_ptr> make_tissue(const tissue_case& t, const std::vector<unsigned>& ids){
    std::vector<cell_ptr> cells = build_cells(t, true);
    if (g_pre_merges > 0){
        local_mesh_refiner lmr(t.sp.min_edge_len_, t.sp.min_edge_len_ * 3.0, false);
        for (cell_ptr c : cells){
            int done = 0;
            for (int guard = 0; guard < 200 && done < g_pre_merges; guard++){
                edge_set es = c->get_edge_set(); bool found = false;
                size_t skip = (size_t)(guard * 7) % es.size(); size_t k = 0;
                for (const edge& e0 : es){
                    if (k++ < skip) continue;
                    edge e = e0;
                    if (e.is_manifold() && lmr.can_be_merged(e, c)){
                        edge_set work = es;
                        try { lmr.merge_edge(e, c, work); } catch (const std::exception& ex){ throw std::runtime_error(std::string("PREMERGE ") + ex.what()); }     // the preparation failed, not the phase
                        done++; found = true; break; }
                }
                if (!found && skip == 0) break;
            }
            c->update_all_face_normals_and_areas();
        }
    }
    for (size_t i = 0; i < cells.size(); i++){ cells[i]->set_id(i < ids.size() ? ids[i] : (unsigned)i); cells[i]->set_local_id((unsigned)i); }
#if CONTACT_MODEL_INDEX == 1 || CONTACT_MODEL_INDEX == 2
    for (cell_ptr c : cells) c->compute_node_curvature_and_normals();
#endif
    return cells;
}

static void dump_in(const std::vector<cell_ptr>& cells, const char* tag = "IN"){
    std::cout << tag << " " << cells.size();
    for (const cell_ptr& c : cells){
        std::cout << " C " << c->get_id() << " " << c->get_local_id() << " " << c->get_cell_type_id() << " " << hx(c->get_cell_type()->surface_coupling_max_curvature_) << " " << c->node_lst_.size();
        for (const node& n : c->node_lst_){
            std::cout << " " << (n.is_used() ? 1 : 0) << " " << v3(n.pos());
#if CONTACT_MODEL_INDEX == 1 || CONTACT_MODEL_INDEX == 2
            std::cout << " " << v3(n.normal_) << " " << hx(n.curvature_);
#else
            std::cout << " 0x0p+0 0x0p+0 0x0p+0 0x0p+0";
#endif
            std::cout << " " << v3(n.force());
        }
        size_t nf = 0; for (const face& f : c->face_lst_) if (f.is_used()) nf++;
        std::cout << " " << nf;
        for (const face& f : c->face_lst_) if (f.is_used()){
            auto [a,b,d] = f.get_node_ids();
            std::cout << " " << a << " " << b << " " << d << " " << v3(f.normal_) << " " << hx(f.get_area()) << " " << hx(c->get_face_type(f.local_face_id_).repulsion_strength_)
                      << " " << hx(c->get_face_type(f.local_face_id_).adherence_strength_);
        }
    }
}

static void dump_out(const char* tag, const std::vector<cell_ptr>& cells){
    std::cout << tag << " " << cells.size();
    for (const cell_ptr& c : cells){
        std::cout << " C " << c->node_lst_.size();
        for (const node& n : c->node_lst_){
            std::cout << " " << v3(n.pos()) << " " << v3(n.force());
#if CONTACT_MODEL_INDEX == 1
            if (n.is_used() && n.coupled_node_.has_value()) std::cout << " " << n.coupled_node_->first << " " << n.coupled_node_->second << " " << hx(n.squared_distance_to_closest_node_);
            else std::cout << " - - " << (n.is_used() ? hx(n.squared_distance_to_closest_node_) : std::string("-"));
#elif CONTACT_MODEL_INDEX == 2
            std::cout << " G" << n.coupled_nodes_map_.size();
            for (auto& kv : n.coupled_nodes_map_) std::cout << ":" << kv.first << ":" << kv.second.first << ":" << hx(kv.second.second);
            std::cout << " - -";
#else
            std::cout << " - - -";
#endif
        }
    }
}

#if CONTACT_MODEL_INDEX == 1
// resolve_all_contacts with the grid look-up AND the bounding-box test replaced by a loop over ALL faces (decreasing global
// id: the order in which a voxel lists the faces it holds); everything else is the repository's own code
static void all_pairs(cmodel& cm, const std::vector<cell_ptr>& cell_lst){
    cm.face_lst_.clear();
    size_t gid = 0;
    for (cell_ptr c : cell_lst){
        for (auto& f : c->face_lst_) if (f.is_used()){ cm.face_lst_.push_back(&f); f.global_face_id_ = gid++; }
        for (node& n : c->node_lst_) if (n.is_used()){ n.coupled_node_ = std::nullopt; n.squared_distance_to_closest_node_ = std::numeric_limits<double>::max(); }
    }
    cm.update_face_aabbs(cell_lst);
    for (size_t cell_id = 0; cell_id < cell_lst.size(); cell_id++){
        cell_ptr c1 = cell_lst[cell_id];
        const double mc = c1->get_cell_type()->surface_coupling_max_curvature_;
        for (node& n : c1->node_lst_){
            if (n.is_used() && n.curvature_ < mc){
                for (size_t k = cm.face_lst_.size(); k-- > 0; ){
                    face* f = cm.face_lst_[k];
                    cell_ptr c2 = f->get_owner_cell();
                    if (c1->get_id() != c2->get_id()){
                        // no bounding-box test at all: a pair outside the padded box is beyond every cut-off, so the narrow
                        // phase itself must leave it alone (Properties_C06.within_cutoff_in_box)
                        if (n.normal_.dot(f->normal_) < cmodel::max_dot_product_repulsion_)
                            cm.resolve_contact(c1, c2, n, f);
                    }
                }
            }
        }
    }
    for (size_t c1_id = 0; c1_id < cell_lst.size(); c1_id++){
        cell_ptr c1 = cell_lst[c1_id];
        for (node& n1 : c1->node_lst_) if (n1.is_used() && n1.coupled_node_.has_value()){
            const auto [c2_id, n2_id] = n1.coupled_node_.value();
            if (c1_id > c2_id && c2_id < cell_lst.size() && n2_id < cell_lst[c2_id]->node_lst_.size()){
                node& n2 = cell_lst[c2_id]->node_lst_[n2_id];
                const vec3 center_point = (n1.pos() + n2.pos()) * 0.5;
                n1.pos_.reset(center_point); n2.pos_.reset(center_point);
            }
        }
    }
}
#endif

int main(){
    std::string line;
    while (std::getline(std::cin, line)){
        if (line.empty()) continue;
        std::istringstream in(line);
        try {
            tissue_case t = read_tissue(in);
            std::string md; in >> md; if (md != "CT" && md != "CT2" && md != "CTM") throw std::runtime_error("expected CT");
            int threads; in >> threads;
            g_pre_merges = 0; if (md == "CTM") in >> g_pre_merges;
            std::vector<unsigned> ids;
            // CT2: a SECOND contact phase on the same model object after the cells were moved / node curvatures changed
            std::vector<std::array<double,4>> moves; std::vector<std::tuple<unsigned,unsigned,double>> curv;
            if (md == "CT2"){
                size_t k; in >> k; for (size_t i = 0; i < k; i++){ unsigned x; in >> x; ids.push_back(x); }
                in >> k; for (size_t i = 0; i < k; i++){ unsigned c; in >> c; double x = rd(in), y = rd(in), z = rd(in); moves.push_back({(double)c, x, y, z}); }
                in >> k; for (size_t i = 0; i < k; i++){ unsigned c, n; in >> c >> n; curv.push_back({c, n, rd(in)}); }
            }
            else { unsigned x; while (in >> x) ids.push_back(x); }
            omp_set_num_threads(threads);
            std::vector<cell_ptr> cells = make_tissue(t, ids);
#if CONTACT_MODEL_INDEX == 1
            std::cout << "K " << hx(cmodel::max_dot_product_adhesion_) << " " << hx(cmodel::max_dot_product_repulsion_) << " # ";
#else
            std::cout << "K 0x0p+0 0x0p+0 # ";
#endif
            dump_in(cells);
            cmodel cm(t.sp);
            cm.run(cells);
            auto nb = cm.grid_.get_nb_voxels(); auto mn = cm.grid_.get_min_corner();
            std::cout << " # GRID " << nb[0] << " " << nb[1] << " " << nb[2] << " " << hx(mn[0]) << " " << hx(mn[1]) << " " << hx(mn[2]) << " " << hx(cm.grid_.get_voxel_size()) << " " << cm.grid_.voxel_lst_.size() << " |";
            for (size_t v = 0; v < cm.grid_.voxel_lst_.size(); v++){
                if (cm.grid_.voxel_lst_[v].empty()) continue;
                std::cout << " " << v << ":";
                for (face* f : cm.grid_.voxel_lst_[v]) std::cout << f->global_face_id_ << ",";
            }
            std::cout << " # ";
            dump_out("OUT", cells);
            if (md == "CT2"){
                for (auto& m : moves){ cell_ptr c = cells.at((size_t)m[0]); for (node& n : c->node_lst_) if (n.is_used()) n.pos_.translate(vec3(m[1], m[2], m[3])); }
#if CONTACT_MODEL_INDEX == 1 || CONTACT_MODEL_INDEX == 2
                for (auto& [c, n, v] : curv) cells.at(c)->node_lst_.at(n).curvature_ = v;
#endif
                for (cell_ptr c : cells) for (node& n : c->node_lst_) n.force_.reset();
                std::cout << " # "; dump_in(cells, "IN2");
                cm.run(cells);
                std::cout << " # "; dump_out("OUT2", cells);
                std::cout << "\n"; continue;
            }
#if CONTACT_MODEL_INDEX == 1
            std::vector<cell_ptr> cells2 = make_tissue(t, ids);
            cmodel cm2(t.sp);
            all_pairs(cm2, cells2);
            std::cout << " # ";
            dump_out("ALL", cells2);
#endif
            std::cout << "\n";
        } catch (const std::exception& e){ std::cout << "FATAL " << e.what() << "\n"; }
    }
    return 0;
}
