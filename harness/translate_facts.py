#!/usr/bin/env python3
"""translate_facts.py — regenerates coq/Facts_gen.v from /repo's headers on every run (C10): finite fact tables about
object lifetime and initialisation that the memory-safety property depends on.

  owned_bases          for every std::unique_ptr<X> member of class solver (include/solver.hpp): X, whether some class
                       derives from X (so the pointer can own a derived object), whether X declares a virtual destructor
  node_scalars         for every scalar data member of class node compiled in the active configuration
                       (include/mesh/node.hpp with the #if blocks resolved from global_configuration.hpp): its name and
                       whether it has a default member initialiser; and whether the contact phase reads it
"""
import re, sys, os, glob
sys.path.insert(0, os.path.dirname(os.path.abspath(__file__)))
from translate_columns import strip_comments, macros


def preprocess(text, mac):
    """resolve #if/#elif/#else/#endif over expressions of the form NAME == k joined by ||"""
    out = []; stack = []          # each entry: [active_now, any_branch_taken]
    def ev(expr):
        ors = [x.strip() for x in expr.split("||")]
        res = False
        for o in ors:
            m = re.fullmatch(r"(\w+)\s*==\s*(-?\d+)", o)
            if m:
                if mac.get(m.group(1)) is None:
                    raise ValueError("macro %s unknown" % m.group(1))
                res = res or mac[m.group(1)] == int(m.group(2)); continue
            m = re.fullmatch(r"(\w+)", o)
            if m and mac.get(m.group(1)) is not None:
                res = res or bool(mac[m.group(1)]); continue
            raise ValueError("conditional not understood: " + expr)
        return res
    for line in text.split("\n"):
        s = line.strip()
        if s.startswith("#ifndef") or s.startswith("#ifdef"):
            stack.append([True, True]); continue       # include guards
        if s.startswith("#if"):
            v = ev(s[3:].strip()); stack.append([v, v]); continue
        if s.startswith("#elif"):
            v = (not stack[-1][1]) and ev(s[5:].strip()); stack[-1] = [v, stack[-1][1] or v]; continue
        if s.startswith("#else"):
            stack[-1] = [not stack[-1][1], True]; continue
        if s.startswith("#endif"):
            stack.pop(); continue
        if all(x[0] for x in stack):
            out.append(line)
    return "\n".join(out)


def class_body(text, name):
    m = re.search(r"\bclass\s+%s\b[^;{]*\{" % re.escape(name), text)
    if not m:
        return None
    i = m.end(); depth = 1; j = i
    while j < len(text) and depth:
        depth += text[j] == "{"; depth -= text[j] == "}"; j += 1
    return text[i:j - 1]


def generate(repo):
    err = None; bases = []; scalars = []; handler = (False, False, False, False); raw_writes = ["translation failed"]; folder_fresh = False
    try:
        inc = os.path.join(repo, "include")
        headers = {p: strip_comments(open(p).read()) for p in glob.glob(inc + "/**/*.hpp", recursive=True)}
        alltext = "\n".join(headers.values())
        solver = class_body(headers[os.path.join(inc, "solver.hpp")], "solver")
        if solver is None:
            raise ValueError("class solver not found")
        mac = macros(strip_comments(open(os.path.join(inc, "global_configuration.hpp")).read()))
        for m in re.finditer(r"std::unique_ptr<\s*(\w+)\s*>\s+\w+\s*;", preprocess(solver, mac)):
            x = m.group(1)
            body = class_body(alltext, x)
            if body is None:
                raise ValueError("class %s not found" % x)
            derived = bool(re.search(r"\bclass\s+\w+\s*(?:final\s*)?:\s*(?:public|protected|private)?\s*%s\b" % re.escape(x), alltext))
            vdtor = bool(re.search(r"virtual\s+~\s*%s\s*\(" % re.escape(x), body))
            bases.append((x, derived, vdtor))
        node = class_body(preprocess(headers[os.path.join(inc, "mesh/node.hpp")], mac), "node")
        if node is None:
            raise ValueError("class node not found")
        contact_src = "\n".join(strip_comments(open(p).read()) for p in glob.glob(os.path.join(repo, "src/contact_models/*.cpp")))
        for m in re.finditer(r"^\s*(double|float|int|unsigned|bool|short|size_t)\s+(\w+_)\s*(=[^;]*|\{[^;]*\})?\s*;", node, re.M):
            name = m.group(2)
            read_by_contact = bool(re.search(r"[\.>]%s\b(?!\s*=[^=])" % re.escape(name), contact_src))
            scalars.append((name, m.group(3) is not None, read_by_contact))
        if not bases or not scalars:
            raise ValueError("nothing found")
        # ---- every write of a face-type index in the cell types is the constant 0 or goes through the clamp of set_face_type
        raw_writes = []
        for hp in sorted(glob.glob(os.path.join(inc, "mesh", "cell_types", "*.hpp"))):
            txt = preprocess(headers[hp], mac)
            for mw in re.finditer(r"set_face_type_id\s*\(([^;]*)\)\s*;", txt):
                a_ = re.sub(r"\s+", "", mw.group(1))
                if a_ in ("0", "std::min<size_t>(face_type_id,cell_type_->face_types_.size()-1)"):
                    continue
                if re.match(r"(const)?unsigned(short)?face_type_id", a_):      # the declaration of the setter itself
                    continue
                raw_writes.append("%s: %s" % (os.path.basename(hp), a_[:60]))
        # ---- the solver empties the output folder before it creates and uses it
        sc = re.sub(r"\s+", "", strip_comments(open(os.path.join(repo, "src", "solver.cpp")).read()))
        i_rm = sc.find("std::filesystem::remove_all(sim_parameters_.output_folder_path_);"); i_mk = sc.find("std::filesystem::create_directories(sim_parameters_.output_folder_path_)")
        folder_fresh = 0 <= i_rm < i_mk
        # ---- the shape of parallel_exception_handler (include/utils.hpp): four facts the handler model of Schedule.v assumes
        ut = headers[os.path.join(inc, "utils.hpp")]
        mh = re.search(r"inline\s+void\s+parallel_exception_handler\s*\(", ut)
        if not mh:
            raise ValueError("parallel_exception_handler not found")
        i0 = ut.index("{", mh.end()); depth = 0
        for j0 in range(i0, len(ut)):
            depth += ut[j0] == "{"; depth -= ut[j0] == "}"
            if depth == 0:
                break
        hb = re.sub(r"\s+", "", ut[i0 + 1:j0])
        pragma = re.search(r"#pragmaompparallelfor(.*?)for\(", hb)
        handler = (
            # one exception slot, declared before the parallel region, and not made private / lastprivate / firstprivate by the pragma
            hb.startswith("std::exception_ptre_ptr;#pragmaompparallelfor") and pragma is not None and "private" not in pragma.group(1) and "reduction" not in pragma.group(1),
            # every task runs inside try, and the catch-all stores the current exception inside a critical section
            "try{func(vec[i]);}catch(...){#pragmaompcritical{e_ptr=std::current_exception();}}" in hb,
            # the loop visits every element once and nothing leaves it early
            "for(size_ti=0;i<vec.size();i++){try{" in hb and "break" not in hb and hb.count("return") == 0,
            # after the loop: rethrown iff something was stored
            hb.endswith("if(e_ptr)std::rethrow_exception(e_ptr);"))
    except Exception as ex:
        err = str(ex); bases = []; scalars = []
    b = lambda x: "true" if x else "false"
    lines = ["(* Facts_gen.v — GENERATED by harness/translate_facts.py from /repo's headers; do not edit. *)",
             "From Coq Require Import String List Bool.", "Import ListNotations.", "Local Open Scope string_scope.", ""]
    if err:
        lines.append("(* translation failed: %s *)" % err.replace("*)", "* )").replace("(*", "( *"))
    lines.append("Definition facts_translation_ok : bool := %s." % b(not err))
    lines.append("(* class owned through std::unique_ptr by solver, has derived classes, declares a virtual destructor *)")
    lines.append("Definition owned_bases : list (string * bool * bool) := [" + "; ".join('("%s", %s, %s)' % (x, b(d), b(v)) for x, d, v in bases) + "].")
    lines.append("(* scalar member of node (active configuration), has a default member initialiser, is read by the contact phase *)")
    lines.append("Definition node_scalars : list (string * bool * bool) := [" + "; ".join('("%s", %s, %s)' % (n, b(i), b(r)) for n, i, r in scalars) + "].")
    lines.append("(* parallel_exception_handler: (one shared exception slot declared before the region, every task inside try with a catch-all that stores under a critical section, the loop visits every element and nothing leaves it early, rethrown after the loop iff a slot was stored) *)")
    lines.append("(* writes of a face-type index in include/mesh/cell_types that are neither the constant 0 nor clamped to the declared face types *)")
    lines.append("Definition raw_face_type_writes : list string := [" + "; ".join('"%s"' % x.replace('"', "'") for x in raw_writes) + "].")
    lines.append("(* solver::solver removes the output folder before creating it *)")
    lines.append("Definition output_folder_is_wiped_before_use : bool := %s." % b(folder_fresh))
    lines.append("Definition handler_shape : bool * bool * bool * bool := (%s, %s, %s, %s)." % tuple(b(x) for x in handler))
    return "\n".join(lines) + "\n", err, bases, scalars


def main():
    repo = sys.argv[1] if len(sys.argv) > 1 else "/repo"
    out = sys.argv[2] if len(sys.argv) > 2 else os.path.join(os.path.dirname(os.path.dirname(os.path.abspath(__file__))), "coq", "Facts_gen.v")
    text, err, bases, scalars = generate(repo)
    old = open(out).read() if os.path.exists(out) else None
    if old != text:
        open(out, "w").write(text)
    if err:
        print("translation failed: " + err); return 1
    print("owned bases: %s; node scalars: %s" % (bases, scalars))
    return 0


if __name__ == "__main__":
    sys.exit(main())
