"""tissue.py — generators shared by the checks: closed genus-0 triangle meshes, rigid motions, parameter sets,
and the text format read by harness/tissue.hpp."""
import math, random
from vlib import hx

INF = float("inf")


# ------------------------------------------------------------------ meshes (nodes: list of [x,y,z]; faces: list of (a,b,c), outward)
def tetrahedron():
    n = [[1, 1, 1], [1, -1, -1], [-1, 1, -1], [-1, -1, 1]]
    f = [(0, 1, 2), (0, 3, 1), (0, 2, 3), (1, 3, 2)]
    return [list(map(float, p)) for p in n], orient_outward(n, f)


def octahedron():
    n = [[1, 0, 0], [-1, 0, 0], [0, 1, 0], [0, -1, 0], [0, 0, 1], [0, 0, -1]]
    f = [(0, 2, 4), (2, 1, 4), (1, 3, 4), (3, 0, 4), (2, 0, 5), (1, 2, 5), (3, 1, 5), (0, 3, 5)]
    return [list(map(float, p)) for p in n], orient_outward(n, f)


def icosahedron():
    t = (1 + math.sqrt(5)) / 2
    n = [[-1, t, 0], [1, t, 0], [-1, -t, 0], [1, -t, 0], [0, -1, t], [0, 1, t], [0, -1, -t], [0, 1, -t],
         [t, 0, -1], [t, 0, 1], [-t, 0, -1], [-t, 0, 1]]
    f = [(0, 11, 5), (0, 5, 1), (0, 1, 7), (0, 7, 10), (0, 10, 11), (1, 5, 9), (5, 11, 4), (11, 10, 2), (10, 7, 6), (7, 1, 8),
         (3, 9, 4), (3, 4, 2), (3, 2, 6), (3, 6, 8), (3, 8, 9), (4, 9, 5), (2, 4, 11), (6, 2, 10), (8, 6, 7), (9, 8, 1)]
    s = math.sqrt(1 + t * t)
    return [[x / s for x in p] for p in n], orient_outward(n, f)


def cube():
    n = [[x, y, z] for x in (-1.0, 1.0) for y in (-1.0, 1.0) for z in (-1.0, 1.0)]
    quads = [(0, 1, 3, 2), (4, 6, 7, 5), (0, 4, 5, 1), (2, 3, 7, 6), (0, 2, 6, 4), (1, 5, 7, 3)]
    f = []
    for a, b, c, d in quads:
        f += [(a, b, c), (a, c, d)]
    return n, orient_outward(n, f)


def subdivide(nodes, faces, project=True):
    nodes = [list(p) for p in nodes]
    mid = {}
    def m(a, b):
        k = (min(a, b), max(a, b))
        if k not in mid:
            p = [(nodes[a][i] + nodes[b][i]) / 2 for i in range(3)]
            if project:
                l = math.sqrt(sum(x * x for x in p)); p = [x / l for x in p]
            nodes.append(p); mid[k] = len(nodes) - 1
        return mid[k]
    nf = []
    for a, b, c in faces:
        ab, bc, ca = m(a, b), m(b, c), m(c, a)
        nf += [(a, ab, ca), (b, bc, ab), (c, ca, bc), (ab, bc, ca)]
    return nodes, nf


def icosphere(level):
    n, f = icosahedron()
    for _ in range(level):
        n, f = subdivide(n, f)
    return n, f


def signed_volume(nodes, faces):
    v = 0.0
    for a, b, c in faces:
        p, q, r = nodes[a], nodes[b], nodes[c]
        v += (p[0] * (q[1] * r[2] - q[2] * r[1]) - p[1] * (q[0] * r[2] - q[2] * r[0]) + p[2] * (q[0] * r[1] - q[1] * r[0]))
    return v / 6


def orient_outward(nodes, faces):
    faces = [tuple(f) for f in faces]
    if signed_volume(nodes, faces) < 0:
        faces = [(a, c, b) for a, b, c in faces]
    return faces


def area(nodes, faces):
    s = 0.0
    for a, b, c in faces:
        p, q, r = nodes[a], nodes[b], nodes[c]
        u = [q[i] - p[i] for i in range(3)]; v = [r[i] - p[i] for i in range(3)]
        cr = [u[1] * v[2] - u[2] * v[1], u[2] * v[0] - u[0] * v[2], u[0] * v[1] - u[1] * v[0]]
        s += 0.5 * math.sqrt(sum(x * x for x in cr))
    return s


def mean_edge(nodes, faces):
    tot = 0.0; k = 0
    for a, b, c in faces:
        for i, j in ((a, b), (b, c), (c, a)):
            tot += math.dist(nodes[i], nodes[j]); k += 1
    return tot / k


BASE = dict(tetra=tetrahedron, octa=octahedron, icosa=icosahedron, cube=cube,
            ico1=lambda: icosphere(1), ico2=lambda: icosphere(2), ico3=lambda: icosphere(3))


def rnd_rot(rng):
    q = [rng.gauss(0, 1) for _ in range(4)]
    n = math.sqrt(sum(x * x for x in q)); w, x, y, z = [t / n for t in q]
    return [[1 - 2 * (y * y + z * z), 2 * (x * y - z * w), 2 * (x * z + y * w)],
            [2 * (x * y + z * w), 1 - 2 * (x * x + z * z), 2 * (y * z - x * w)],
            [2 * (x * z - y * w), 2 * (y * z + x * w), 1 - 2 * (x * x + y * y)]]


def transform(nodes, M=None, t=(0, 0, 0), s=(1, 1, 1)):
    out = []
    for p in nodes:
        q = [p[i] * s[i] for i in range(3)]
        if M is not None:
            q = [M[i][0] * q[0] + M[i][1] * q[1] + M[i][2] * q[2] for i in range(3)]
        out.append([q[i] + t[i] for i in range(3)])
    return out


def perturb(rng, nodes, amp):
    return [[x + rng.gauss(0, amp) for x in p] for p in nodes]


def random_mesh(rng, kinds=("tetra", "octa", "icosa", "cube", "ico1", "ico2"), size=1.0, aniso=True, noise=0.05, place=0.0):
    kind = rng.choice(kinds)
    n, f = BASE[kind]()
    sc = (1, 1, 1)
    if aniso and rng.random() < 0.5:
        sc = tuple(rng.uniform(0.5, 2.0) for _ in range(3))
    n = transform(n, None, (0, 0, 0), tuple(size * x for x in sc))
    if noise > 0:
        n = perturb(rng, n, noise * mean_edge(n, f))
    M = rnd_rot(rng)
    d = [rng.gauss(0, 1) for _ in range(3)]; l = math.sqrt(sum(x * x for x in d)) or 1.0
    n = transform(n, M, tuple(place * x / l for x in d))
    return kind, n, f


# ------------------------------------------------------------------ parameters
def face_type(gid=0, tension=1e-3, adh=0.0, rep=1e9, bend=0.0):
    return dict(gid=gid, tension=tension, adh=adh, rep=rep, bend=bend)


def cell_type(gid=0, dens=1e3, K=2.5e3, Pmax=INF, P0=0.0, ka=0.0, avgdiv=INF, stddiv=0.0, avggr=0.0, stdgr=0.0, minvol=0.0,
              angreg=0.0, isoratio=0.0, maxcurv=INF, fts=None):
    return dict(gid=gid, dens=dens, K=K, Pmax=Pmax, P0=P0, ka=ka, avgdiv=avgdiv, stddiv=stddiv, avggr=avggr, stdgr=stdgr,
                minvol=minvol, angreg=angreg, isoratio=isoratio, maxcurv=maxcurv, fts=fts or [face_type(0), face_type(1), face_type(2)])


def params(dt=1e-4, damping=1.0, T=1.0, S=0.1, lmin=0.1, cut_adh=0.05, cut_rep=0.05, swap=1):
    return dict(dt=dt, damping=damping, T=T, S=S, lmin=lmin, cut_adh=cut_adh, cut_rep=cut_rep, swap=swap)


def fmt_tissue(p, cts, cells):
    """cells: list of (ct_index, nodes, faces)"""
    t = ["P", hx(p["dt"]), hx(p["damping"]), hx(p["T"]), hx(p["S"]), hx(p["lmin"]), hx(p["cut_adh"]), hx(p["cut_rep"]), str(int(p["swap"]))]
    t += ["CT", str(len(cts))]
    for c in cts:
        t += [str(c["gid"])] + [hx(c[k]) for k in ("dens", "K", "Pmax", "P0", "ka", "avgdiv", "stddiv", "avggr", "stdgr", "minvol", "angreg", "isoratio", "maxcurv")]
        t += ["NFT", str(len(c["fts"]))]
        for f in c["fts"]:
            t += [str(f["gid"]), hx(f["tension"]), hx(f["adh"]), hx(f["rep"]), hx(f["bend"])]
    t += ["C", str(len(cells))]
    for cti, nodes, faces in cells:
        t += [str(cti), str(len(nodes))]
        for q in nodes:
            t += [hx(x) for x in q]
        t.append(str(len(faces)))
        for a, b, c in faces:
            t += [str(a), str(b), str(c)]
    return " ".join(t)
