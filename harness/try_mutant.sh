#!/bin/bash
# try_mutant.sh <pid> <file-relative-to-repo> <sed-expression> : apply a sed edit in a scratch worktree and run the quick check there
PID=$1; FILE=$2; EXPR=$3; TIER=${4:-quick}
WT=/tmp/mut_wt_$$
git -C /repo worktree add -q --detach $WT HEAD || exit 2
sed -i "$EXPR" $WT/$FILE
if git -C $WT diff --quiet; then echo "SED-DID-NOT-CHANGE-ANYTHING"; else
VERIF_REPO=$WT /verif/check $PID --tier $TIER 2>&1 | grep -E "^VIOLATION|^KNOWN-FINDING| OK tier| FAILED tier|^  -> " | head -6; fi
git -C /repo worktree remove --force $WT
