// Deterministic replacement for std::chrono::system_clock::now(), linked with
// -Wl,--wrap=_ZNSt6chrono3_V212system_clock3nowEv so that the clock-seeded RNGs of the
// repository (poisson sampling, cell property draws) are driven by VERIF seeds.
// The counter is advanced atomically (the repository calls now() from parallel regions).
#include <chrono>
#include <cstdint>
int64_t verif_clock_ns = 1700000000000000000LL;
#include <cstdlib>
// VERIF_CLOCK_STEP_NS: nanoseconds the clock advances per reading (default about 1 ms); a huge step lets a short run span
// hundreds of hours of "computation time"
static int64_t initial_step(){ const char* e = std::getenv("VERIF_CLOCK_STEP_NS"); return e ? std::atoll(e) : 1000003; }
int64_t verif_clock_step = initial_step();
extern "C" std::chrono::system_clock::time_point __wrap__ZNSt6chrono3_V212system_clock3nowEv() {
    int64_t v = __atomic_add_fetch(&verif_clock_ns, verif_clock_step, __ATOMIC_RELAXED);
    return std::chrono::system_clock::time_point(std::chrono::duration_cast<std::chrono::system_clock::duration>(std::chrono::nanoseconds(v)));
}
