// drv_run: solver::run() end to end (the real main loop), observed through an overriding run_iteration that records,
// around every real iteration, what the outputs must describe; then the output folder and the statistics are read back.
// line: <tissue case> RUN threads seed tag string_stats NEV {iter listpos factor}
// out : ITS {k t_before file_before B {id:ready} A {id type area vol tvol P}} # END iter time file ncells
//       # CELLFILES {n: ncells types.. |} # FACEFILES {n ok} # STATS rows separated by ';'
#include "tissue.hpp"
#include <set>
#include <map>
#include "solver.hpp"
#include "mesh_reader.hpp"
#include <filesystem>
#include <map>
#include <fstream>
#include <algorithm>
#include <unistd.h>
extern int64_t verif_clock_ns;

class cell_tester {
public:
    static void scale(cell_ptr c, double f){
        double m[3] = {0,0,0}; size_t k = 0;
        for (node& n : c->node_lst_) if (n.is_used()){ m[0]+=n.pos().dx(); m[1]+=n.pos().dy(); m[2]+=n.pos().dz(); k++; }
        if (!k) return; for (double& x : m) x /= (double)k;
        for (node& n : c->node_lst_) if (n.is_used()) n.pos_ = vec3(m[0]+(n.pos().dx()-m[0])*f, m[1]+(n.pos().dy()-m[1])*f, m[2]+(n.pos().dz()-m[2])*f);
    }
};

struct EV { int it; unsigned pos; double f; };

struct rsolver : public solver {
    using solver::solver;
    std::ostringstream log;
    std::vector<EV> evs;
    void run_iteration() noexcept(false) override {
        for (auto& e : evs) if (e.it == (int)iteration_ && e.pos < cell_lst_.size()) cell_tester::scale(cell_lst_[e.pos], e.f);
        log << " IT " << iteration_ << " " << hx(time_integrator_ptr_->get_simulation_time()) << " " << file_number_ << " B " << cell_lst_.size();
        for (const cell_ptr& c : cell_lst_) log << " " << c->get_id() << ":" << (c->is_ready_to_divide() ? 1 : 0);
        solver::run_iteration();
        log << " A " << cell_lst_.size();
        for (const cell_ptr& c : cell_lst_) log << " " << c->get_id() << " " << (c->get_cell_type() ? c->get_cell_type()->global_type_id_ : -1) << " " << hx(c->get_area()) << " " << hx(c->get_volume())
                                                << " " << hx(c->get_target_volume()) << " " << hx(c->get_pressure());
    }
    void shift_ids(unsigned off){ for (const cell_ptr& c : cell_lst_) c->set_id(c->get_id() + off); max_cell_id_ += off; }
    unsigned iteration() const { return iteration_; }
    unsigned file_number() const { return file_number_; }
    double time() const { return time_integrator_ptr_->get_simulation_time(); }
};

static std::vector<long> numbered(const std::string& dir){
    std::vector<long> v;
    if (!std::filesystem::exists(dir)) return v;
    for (auto& e : std::filesystem::directory_iterator(dir)){
        std::string n = e.path().filename().string();
        if (n.rfind("result_", 0) == 0 && n.size() > 11 && n.substr(n.size()-4) == ".vtk"){
            std::string mid = n.substr(7, n.size()-11);
            if (!mid.empty() && std::all_of(mid.begin(), mid.end(), ::isdigit)) { v.push_back(std::stol(mid)); continue; }
        }
        v.push_back(-1);    // a file that does not follow the naming scheme
    }
    std::sort(v.begin(), v.end());
    return v;
}

int main(){
    std::string line;
    while (std::getline(std::cin, line)){
        if (line.empty()) continue;
        std::istringstream in(line);
        std::string out_dir;
        try {
            tissue_case t = read_tissue(in);
            expect(in, "RUN"); int threads; long seed; std::string tag; int string_stats; in >> threads >> seed >> tag >> string_stats;
            int nev = 0; in >> nev; std::vector<EV> evs(nev);
            for (auto& e : evs){ in >> e.it >> e.pos; e.f = rd(in); }
            verif_clock_ns = 1700000000000000000LL + seed * 1000003LL;
            std::vector<cell_ptr> cells = build_cells(t, true);
            out_dir = std::string("/verif/.cache/tmp/run_") + tag + "_" + std::to_string(getpid());
            std::filesystem::remove_all(out_dir);
            // VERIF_STALE_FILES: the output folder already holds the files of an earlier, longer run (numbers 901..903 and a statistics file)
            if (std::getenv("VERIF_STALE_FILES")){
                std::filesystem::create_directories(out_dir + "/cell_data"); std::filesystem::create_directories(out_dir + "/face_data");
                for (int n = 901; n <= 903; n++){ std::ofstream(out_dir + "/cell_data/result_" + std::to_string(n) + ".vtk") << "# vtk DataFile Version 2.0\nstale\n"; std::ofstream(out_dir + "/face_data/result_" + std::to_string(n) + ".vtk") << "# vtk DataFile Version 2.0\nstale\n"; }
                std::ofstream(out_dir + "/simulation_statistics.csv") << "stale\n";
            }
            t.sp.output_folder_path_ = out_dir;
            rsolver s(t.sp, cells, threads, string_stats != 0, false);
            s.evs = evs;
            // VERIF_ID_OFFSET: the run starts with persistent ids far from zero (as late in a long simulation)
            if (const char* off = std::getenv("VERIF_ID_OFFSET")) s.shift_ids((unsigned)std::atol(off));
            std::string exc;
            try { s.run(); } catch (const std::exception& e){ exc = e.what(); for (char& ch : exc) if (ch==' '||ch=='#'||ch=='|'||ch=='\n') ch='_'; }
            std::cout << "ITS" << s.log.str() << " # END " << s.iteration() << " " << hx(s.time()) << " " << s.file_number() << " " << s.get_cell_lst().size() << " " << (exc.empty() ? "-" : exc);
            std::cout << " # CELLFILES";
            for (long n : numbered(out_dir + "/cell_data")){
                std::cout << " " << n << ":";
                if (n < 0) { std::cout << " BADNAME |"; continue; }
                try {
                    mesh_reader rd_(out_dir + "/cell_data/result_" + std::to_string(n) + ".vtk", false);
                    std::vector<mesh> ms = rd_.read(); std::vector<short> tys = rd_.get_cell_types();
                    std::cout << " " << ms.size(); for (short x : tys) std::cout << " " << x;
                    // the cell_id data array of the file (which cells the file says it describes)
                    { std::ifstream f(out_dir + "/cell_data/result_" + std::to_string(n) + ".vtk"); std::string w; bool found = false;
                      while (f >> w) if (w == "cell_id"){ long comp, cnt; std::string ty; if (f >> comp >> cnt >> ty){ std::cout << " I"; for (long k = 0; k < cnt * comp; k++){ std::string v; if (!(f >> v)) break; std::cout << " " << v; } found = true; } break; }
                      if (!found) std::cout << " I-"; }
                    // W: per cell of the file, 1 iff its triangles form a closed consistently oriented surface that uses every point of the cell
                    std::cout << " W";
                    for (const mesh& m : ms){
                        std::map<std::pair<unsigned,unsigned>, int> he; std::set<unsigned> usedp; bool ok_ = true;
                        for (auto& f : m.face_point_ids){ if (f.size() != 3){ ok_ = false; continue; } for (int k = 0; k < 3; k++){ he[{f[k], f[(k+1)%3]}]++; usedp.insert(f[k]); } }
                        for (auto& kv : he){ if (kv.second != 1) ok_ = false; auto it = he.find({kv.first.second, kv.first.first}); if (it == he.end() || it->second != 1) ok_ = false; }
                        if (usedp.size() != m.node_pos_lst.size() / 3) ok_ = false;
                        std::cout << " " << (ok_ ? 1 : 0);
                    }
                } catch (const std::exception& e){ std::cout << " UNREADABLE"; }
                std::cout << " |";
            }
            std::cout << " # FACEFILES";
            for (long n : numbered(out_dir + "/face_data")){
                std::ifstream f(out_dir + "/face_data/result_" + std::to_string(n) + ".vtk"); std::string first; std::getline(f, first);
                std::cout << " " << n << ":" << ((n >= 0 && first.rfind("# vtk", 0) == 0) ? 1 : 0);
                // the owners the face file names: distinct values of its face_cell_id array with their number of faces
                { std::string w; std::map<std::string, long> owners; bool found = false;
                  while (f >> w) if (w == "face_cell_id"){ long comp, cnt; std::string ty; if (f >> comp >> cnt >> ty){ for (long k = 0; k < cnt * comp; k++){ std::string v; if (!(f >> v)) break; owners[v]++; } found = true; } break; }
                  std::cout << ":"; if (!found) std::cout << "-"; bool fst = true; for (auto& kv : owners){ std::cout << (fst ? "" : ",") << kv.first << "x" << kv.second; fst = false; } }
            }
            std::cout << " # STATS ";
            std::string st;
            if (string_stats) st = s.get_simulation_statistics();
            else { std::ifstream f(out_dir + "/simulation_statistics.csv"); std::stringstream b; b << f.rdbuf(); st = b.str(); }
            for (char& ch : st) if (ch == '\n') ch = ';'; else if (ch == ' ' || ch == '#') ch = '_';
            std::cout << st << "\n";
        } catch (const std::exception& e){ std::cout << "FATAL " << e.what() << "\n"; }
        if (!out_dir.empty()) std::filesystem::remove_all(out_dir);
    }
    return 0;
}
