// drv_grid: uspg_4d<int> / uspg_3d<int> through their public interface.
// line: KIND s lox loy loz hix hiy hiz NP (x y z)*NP NQ (x y z)*NQ
// out : D nx ny nz lo_x lo_y lo_z | P ix iy iz [OOB] R r ... | N ix iy iz [OOB|o...] ; ... | C o...
#include "drv_common.hpp"
#include "uspg_3d.hpp"
#include "uspg_4d.hpp"
#include <optional>
template<class G> static void run_case(G& g, std::istream& in, bool is4d){
    auto nb = g.get_nb_voxels(); auto lo = g.get_min_corner();
    std::cout << "D " << nb[0] << " " << nb[1] << " " << nb[2] << " " << hx(lo[0]) << " " << hx(lo[1]) << " " << hx(lo[2]) << " |";
    int np; in >> np;
    std::vector<std::array<double,3>> pts(np);
    for (int i=0;i<np;i++){
        double x=rd(in), y=rd(in), z=rd(in); pts[i]={x,y,z};
        auto id = g.get_3d_voxel_index(x,y,z);
        std::cout << " P " << id[0] << " " << id[1] << " " << id[2];
        if (id[0]>=nb[0] || id[1]>=nb[1] || id[2]>=nb[2]) { std::cout << " OOB"; continue; }
        g.place_object(i, x, y, z);
        // retrievable from the voxel it was placed in
        bool found=false;
        if constexpr (std::is_same<G, uspg_4d<int>>::value){ for (int o : g.get_voxel_content(id[0],id[1],id[2])) if (o==i) found=true; }
        else { auto c = g.get_voxel_content(id[0],id[1],id[2]); found = c.has_value() && c.value()==i; }
        std::cout << " R " << (found?1:0);
    }
    std::cout << " |";
    int nq; in >> nq;
    for (int i=0;i<nq;i++){
        double x=rd(in), y=rd(in), z=rd(in);
        auto id = g.get_3d_voxel_index(x,y,z);
        std::cout << " N " << id[0] << " " << id[1] << " " << id[2];
        if (id[0]>=nb[0] || id[1]>=nb[1] || id[2]>=nb[2]) { std::cout << " OOB ;"; continue; }
        std::forward_list<int> r = g.get_neighborhood(x,y,z);   // (an out-of-range walk is caught by the sanitizer build)
        for (int o : r) std::cout << " " << o;
        std::cout << " ;";
    }
    std::cout << " | C";
    for (int o : g.get_grid_content()) std::cout << " " << o;
    std::cout << "\n";
}
int main(){
    std::string line;
    while (std::getline(std::cin, line)){
        if (line.empty()) continue;
        std::istringstream in(line);
        std::string kind; in >> kind;
        double s=rd(in), lx=rd(in), ly=rd(in), lz=rd(in), hx_=rd(in), hy=rd(in), hz=rd(in);
        // "G4R"/"G3R": the grid object is first built for ANOTHER box (given after the kind-specific box), filled, and then
        // re-dimensioned with update_dimensions() to the box of the case: a re-used grid must behave like a fresh one
        if (kind=="G4R" || kind=="G3R"){
            double px=rd(in), py=rd(in), pz=rd(in), qx=rd(in), qy=rd(in), qz=rd(in);
            if (kind=="G4R"){ uspg_4d<int> g(px,py,pz,qx,qy,qz,s,0); g.place_object(7, px, py, pz); g.place_object(8, qx, qy, qz); g.update_dimensions(0, lx,ly,lz,hx_,hy,hz); run_case(g,in,true); }
            else { uspg_3d<int> g(px,py,pz,qx,qy,qz,s,0); g.place_object(7, px, py, pz); g.update_dimensions(0, lx,ly,lz,hx_,hy,hz); run_case(g,in,false); }
        }
        else if (kind=="G4H" || kind=="G3H"){
            // a history of interleaved insertions and neighbourhood queries on ONE grid: "P x y z" places the next object id, "Q x y z" asks
            auto hist = [&](auto& g){
                auto nb = g.get_nb_voxels(); int no; in >> no; int next = 0;
                std::cout << "H";
                for (int k = 0; k < no; k++){
                    std::string op; in >> op; double x=rd(in), y=rd(in), z=rd(in);
                    auto id = g.get_3d_voxel_index(x,y,z);
                    bool oob = (id[0]>=nb[0] || id[1]>=nb[1] || id[2]>=nb[2]);
                    if (op == "P"){ std::cout << " P " << next << (oob ? " OOB" : ""); if (!oob) g.place_object(next, x, y, z); next++; }
                    else { std::cout << " Q"; if (oob){ std::cout << " OOB ;"; continue; } auto r = g.get_neighborhood(x,y,z); for (int o : r) std::cout << " " << o; std::cout << " ;"; }
                }
                std::cout << "\n"; };
            if (kind=="G4H"){ uspg_4d<int> g(lx,ly,lz,hx_,hy,hz,s,0); hist(g); } else { uspg_3d<int> g(lx,ly,lz,hx_,hy,hz,s,0); hist(g); }
        }
        else if (kind=="G4"){ uspg_4d<int> g(lx,ly,lz,hx_,hy,hz,s,0); run_case(g,in,true); }
        else { uspg_3d<int> g(lx,ly,lz,hx_,hy,hz,s,0); run_case(g,in,false); }
    }
    return 0;
}
