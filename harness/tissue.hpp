// tissue.hpp — shared by the drivers: parse a generated "tissue case" (parameters, cell types, cell meshes) from a
// token stream and instantiate the real objects of the repository exactly as simulation_initializer does.
//   P dt damping T S lmin cut_adh cut_rep swap
//   CT n { gid dens K Pmax P0 ka avgdiv stddiv avggr stdgr minvol angreg isoratio maxcurv NFT { gid tension adh rep bend } }
//   C n { ct_index NN {x y z} NF {a b c} }
#pragma once
#include "drv_common.hpp"
#include "cell.hpp"
#include "epithelial_cell.hpp"
#include "ecm_cell.hpp"
#include "lumen_cell.hpp"
#include "nucleus_cell.hpp"
#include "static_cell.hpp"
#include "custom_structures.hpp"
#include <memory>
#include <stdexcept>

struct tissue_case {
    global_simulation_parameters sp;
    std::vector<cell_type_param_ptr> types;
    std::vector<int> cell_type_index;
    std::vector<mesh> meshes;
};

static inline void expect(std::istream& in, const char* tok){
    std::string s; in >> s; if (s != tok) throw std::runtime_error(std::string("tissue parse: expected ") + tok + " got " + s);
}

static inline tissue_case read_tissue(std::istream& in){
    tissue_case t;
    expect(in, "P");
    t.sp.time_step_ = rd(in); t.sp.damping_coefficient_ = rd(in); t.sp.simulation_duration_ = rd(in); t.sp.sampling_period_ = rd(in);
    t.sp.min_edge_len_ = rd(in); t.sp.contact_cutoff_adhesion_ = rd(in); t.sp.contact_cutoff_repulsion_ = rd(in);
    int swap; in >> swap; t.sp.enable_edge_swap_operation_ = swap != 0; t.sp.perform_initial_triangulation_ = false;
    expect(in, "CT"); int nct; in >> nct;
    for (int i=0;i<nct;i++){
        auto ct = std::make_shared<cell_type_parameters>();
        int gid; in >> gid; ct->global_type_id_ = (short)gid; ct->name_ = "type" + std::to_string(i);
        ct->mass_density_ = rd(in); ct->bulk_modulus_ = rd(in); ct->max_pressure_ = rd(in); ct->initial_pressure_ = rd(in);
        ct->area_elasticity_modulus_ = rd(in); ct->avg_division_vol_ = rd(in); ct->std_division_vol_ = rd(in);
        ct->avg_growth_rate_ = rd(in); ct->std_growth_rate_ = rd(in); ct->min_vol_ = rd(in);
        ct->angle_regularization_factor_ = rd(in); ct->target_isoperimetric_ratio_ = rd(in); ct->surface_coupling_max_curvature_ = rd(in);
        expect(in, "NFT"); int nft; in >> nft;
        for (int j=0;j<nft;j++){
            face_type_parameters ft; int fg; in >> fg; ft.face_type_global_id_ = (short)fg; ft.name_ = "ft" + std::to_string(j);
            ft.surface_tension_ = rd(in); ft.adherence_strength_ = rd(in); ft.repulsion_strength_ = rd(in); ft.bending_modulus_ = rd(in);
            ct->add_face_type(ft);
        }
        t.types.push_back(ct);
    }
    expect(in, "C"); int nc; in >> nc;
    for (int i=0;i<nc;i++){
        int cti; in >> cti; t.cell_type_index.push_back(cti);
        mesh m; int nn; in >> nn; m.node_pos_lst.resize(3*nn); for (auto& x : m.node_pos_lst) x = rd(in);
        int nf; in >> nf; m.face_point_ids.resize(nf);
        for (auto& f : m.face_point_ids){ f.resize(3); in >> f[0] >> f[1] >> f[2]; }
        t.meshes.push_back(m);
    }
    return t;
}

// the switch of simulation_initializer::triangulate_surface
static inline cell_ptr make_cell(const mesh& m, unsigned id, cell_type_param_ptr ct){
    switch (ct->global_type_id_){
        case 0: return std::make_shared<epithelial_cell>(m, id, ct);
        case 1: return std::make_shared<ecm_cell>(m, id, ct);
        case 2: return std::make_shared<lumen_cell>(m, id, ct);
        case 3: return std::make_shared<nucleus_cell>(m, id, ct);
        case 4: return std::make_shared<static_cell>(m, id, ct);
        default: throw std::runtime_error("bad cell class");
    }
}

static inline std::vector<cell_ptr> build_cells(const tissue_case& t, bool initialize = true){
    std::vector<cell_ptr> cells;
    for (size_t i=0;i<t.meshes.size();i++){
        cell_ptr c = make_cell(t.meshes[i], (unsigned)i, t.types[t.cell_type_index[i]]);
        if (initialize) c->initialize_cell_properties();
        cells.push_back(c);
    }
    return cells;
}
