// drv_refine: histories of node displacements, refinement passes, single remeshing operations and compaction on a
// real cell, with a full dump of the cell store after every event and the operation trace of the guarded hook.
// line: <tissue case with ONE cell> R lmin lmax swap NT {face type id per face} NE {event}
// line: <tissue case with N cells> RM lmin lmax swap threads : refine_meshes on the list with that many threads, against refine_mesh on each cell alone
//   out : RM N | per cell: alone=<ok|EXC what> <nodes> <faces> <digest> together=<nodes> <faces> <digest> | caller=<NONE|EXC what>
//   events: G amp seed | S factor | A axis factor | MOM amp seed | FRESH | REFINE | REBASE | OP kind k   (kind 0 split 1 merge 2 swap) | OPL kind (same, on the first edge whose opposite nodes are linked)
// out : one section per state, separated by " # ":  EV <name> [EXC what] @ nodes @ faces @ edges @ freeN @ freeF @ trace
#include "tissue.hpp"
#include "local_mesh_refiner.hpp"
#include <cstring>
#include <omp.h>
#include <functional>
#include <csignal>
#include <unistd.h>

struct trace_rec { std::string op; unsigned a,b,c,d,e; };
static std::vector<trace_rec> g_trace;
static bool g_trace_on = true;      // off while several threads refine (the trace is a single list)
extern "C" void simucell3d_verif_trace(const char* op, unsigned cell_id, unsigned a, unsigned b, unsigned c, unsigned d, unsigned e){
    if (!g_trace_on) return;
    g_trace.push_back({op, a, b, c, d, e});
}

class cell_tester {
public:
    static std::vector<node>& nodes(cell_ptr c){ return c->node_lst_; }
    static std::vector<face>& faces(cell_ptr c){ return c->face_lst_; }
    static const std::vector<unsigned>& freeN(cell_ptr c){ return c->free_node_queue_; }
    static const std::vector<unsigned>& freeF(cell_ptr c){ return c->free_face_queue_; }
    static void set_pos(node& n, const vec3& p){ n.pos_ = p; }
    static void set_mom(node& n, const vec3& p){
#if DYNAMIC_MODEL_INDEX == 0
        n.momentum_ = p;
#endif
    }
    static vec3 mom(const node& n){
#if DYNAMIC_MODEL_INDEX == 0
        return n.momentum_;
#else
        return vec3(0,0,0);
#endif
    }
    static void set_type(face& f, unsigned short t){ f.type_id_ = t; }
    static int type_of(const face& f){ return f.type_id_; }
};

// deterministic generator (independent of the standard library's distributions)
struct lcg { uint64_t s; explicit lcg(uint64_t x): s(x*6364136223846793005ULL + 1442695040888963407ULL){}
    double uni(){ s = s*6364136223846793005ULL + 1442695040888963407ULL; return ((s >> 11) + 0.5) / 9007199254740992.0; }
    double gauss(){ double u = uni(), v = uni(); return std::sqrt(-2.0*std::log(u)) * std::cos(6.283185307179586*v); } };

static void dump(cell_ptr c, const std::string& name, const std::string& exc){
    std::cout << "EV " << name; if (!exc.empty()) std::cout << " EXC " << exc;
    std::cout << " @";
    for (const node& n : cell_tester::nodes(c)){ vec3 m = cell_tester::mom(n);
        std::cout << " " << n.get_local_id() << " " << (n.is_used()?1:0) << " " << hx(n.pos().dx()) << " " << hx(n.pos().dy()) << " " << hx(n.pos().dz())
                  << " " << hx(m.dx()) << " " << hx(m.dy()) << " " << hx(m.dz()); }
    std::cout << " @";
    for (const face& f : cell_tester::faces(c)){ vec3 nn = f.get_normal();
        if (f.is_used()){ auto [a,b,d] = f.get_node_ids();
            std::cout << " " << f.get_local_id() << " 1 " << a << " " << b << " " << d << " " << cell_tester::type_of(f) << " " << hx(nn.dx()) << " " << hx(nn.dy()) << " " << hx(nn.dz()) << " " << hx(f.get_area()); }
        else std::cout << " " << f.get_local_id() << " 0 0 0 0 0 0x0p+0 0x0p+0 0x0p+0 0x0p+0"; }
    std::cout << " @";
    for (const edge& e : c->get_edge_set()){ std::cout << " " << e.n1() << " " << e.n2() << " ";
        if (e.is_manifold()) std::cout << e.f1() << " " << e.f2(); else std::cout << "-1 -1"; }
    std::cout << " @"; for (unsigned i : cell_tester::freeN(c)) std::cout << " " << i;
    std::cout << " @"; for (unsigned i : cell_tester::freeF(c)) std::cout << " " << i;
    std::cout << " @"; for (auto& t : g_trace) std::cout << " " << t.op << " " << t.a << " " << t.b << " " << t.c << " " << t.d << " " << t.e;
    std::cout << " # ";
    g_trace.clear();
}

static double mean_edge(cell_ptr c){ double s=0; size_t k=0; for (const edge& e : c->get_edge_set()){ s += (c->get_node_lst()[e.n1()].pos() - c->get_node_lst()[e.n2()].pos()).norm(); k++; } return k? s/k : 1.0; }

// per-history time budget: a remeshing loop that does not return is reported, the remaining histories still run
static void on_alarm(int){ const char m[] = " TIMEOUT\n"; ssize_t r = write(1, m, sizeof m - 1); (void)r; _exit(3); }
// budget in seconds of CPU time of this process (robust against a loaded machine), with a wall-clock fallback of ten times that
#include <sys/time.h>
static void verif_budget(unsigned s){ struct itimerval it; it.it_interval.tv_sec = 0; it.it_interval.tv_usec = 0; it.it_value.tv_sec = s; it.it_value.tv_usec = 0; setitimer(ITIMER_PROF, &it, nullptr); alarm(10 * s); }

int main(){
    std::string line;
    std::signal(SIGALRM, on_alarm); std::signal(SIGPROF, on_alarm);
    const char* tb = std::getenv("VERIF_CASE_SECONDS"); const unsigned budget = tb ? (unsigned)std::atoi(tb) : 20u;
    while (std::getline(std::cin, line)){
        if (line.empty()) continue;
        std::istringstream in(line);
        std::cout.flush(); verif_budget(budget);
        try {
            tissue_case t = read_tissue(in);
            std::string md; in >> md;
            if (md == "RM"){
                double lmin = rd(in), lmax = rd(in); int swap, threads; in >> swap >> threads;
                local_mesh_refiner lmr(lmin, lmax, swap != 0);
                g_trace_on = false;
                auto digest = [](cell_ptr c){ std::ostringstream o; size_t nn = 0, nf = 0;
                    for (const node& n : cell_tester::nodes(c)){ o << n.get_local_id() << (n.is_used()?'u':'f'); if (n.is_used()){ nn++; o << hx(n.pos().dx()) << hx(n.pos().dy()) << hx(n.pos().dz()); } }
                    for (const face& f : cell_tester::faces(c)){ o << f.get_local_id() << (f.is_used()?'u':'f'); if (f.is_used()){ nf++; auto [a,b,d] = f.get_node_ids(); o << a << ',' << b << ',' << d << ';'; } }
                    for (const edge& e : c->get_edge_set()) o << e.n1() << '-' << e.n2() << ';';
                    std::ostringstream r; r << nn << " " << nf << " " << std::hex << std::hash<std::string>{}(o.str()); return r.str(); };
                auto clean = [](std::string exc){ for (char& ch : exc) if (ch == ' ' || ch == '@' || ch == '#' || ch == '|') ch = '_'; return exc; };
                std::vector<cell_ptr> alone = build_cells(t, true), together = build_cells(t, true);
                std::vector<std::string> st;
                omp_set_num_threads(1);
                for (cell_ptr c : alone){ try { lmr.refine_mesh(c); st.push_back("ok"); } catch (const std::exception& e){ st.push_back("EXC_" + clean(e.what())); } }
                omp_set_num_threads(threads);
                std::string caller = "NONE";
                try { lmr.refine_meshes(together); } catch (const std::exception& e){ caller = "EXC_" + clean(e.what()); }
                std::cout << "RM " << alone.size();
                for (size_t i = 0; i < alone.size(); i++) std::cout << " | alone=" << st[i] << " " << digest(alone[i]) << " together=" << digest(together[i]);
                std::cout << " | caller=" << caller << "\n";
                g_trace_on = true; verif_budget(0); continue;
            }
            if (md != "R") throw std::runtime_error("expected R");
            double lmin = rd(in), lmax = rd(in); int swap; in >> swap;
            int nt; in >> nt; std::vector<int> ty(nt); for (auto& x : ty) in >> x;
            int ne; in >> ne;
            cell_ptr c = make_cell(t.meshes[0], 0u, t.types[t.cell_type_index[0]]);
            c->initialize_cell_properties();
            for (size_t i=0;i<ty.size() && i<cell_tester::faces(c).size(); i++) cell_tester::set_type(cell_tester::faces(c)[i], (unsigned short)ty[i]);
            local_mesh_refiner lmr(lmin, lmax, swap != 0);
            g_trace.clear();
            dump(c, "INIT", "");
            bool dead = false;
            for (int k=0;k<ne;k++){
                std::string ev; in >> ev; std::string name = ev, exc;
                try {
                    if (ev == "G"){ double amp = rd(in); uint64_t seed; in >> seed; lcg g(seed); double me = mean_edge(c);
                        if (!dead) for (node& n : cell_tester::nodes(c)) if (n.is_used()) cell_tester::set_pos(n, vec3(n.pos().dx()+amp*me*g.gauss(), n.pos().dy()+amp*me*g.gauss(), n.pos().dz()+amp*me*g.gauss())); }
                    else if (ev == "S"){ double f = rd(in); vec3 ce = c->compute_centroid();
                        if (!dead) for (node& n : cell_tester::nodes(c)) if (n.is_used()) cell_tester::set_pos(n, vec3(ce.dx()+(n.pos().dx()-ce.dx())*f, ce.dy()+(n.pos().dy()-ce.dy())*f, ce.dz()+(n.pos().dz()-ce.dz())*f)); }
                    else if (ev == "A"){ int ax; in >> ax; double f = rd(in); vec3 ce = c->compute_centroid();
                        if (!dead) for (node& n : cell_tester::nodes(c)) if (n.is_used()){ double p[3] = {n.pos().dx(), n.pos().dy(), n.pos().dz()}; double cc[3] = {ce.dx(), ce.dy(), ce.dz()}; p[ax] = cc[ax] + (p[ax]-cc[ax])*f; cell_tester::set_pos(n, vec3(p[0],p[1],p[2])); } }
                    else if (ev == "MOM"){ double amp = rd(in); uint64_t seed; in >> seed; lcg g(seed);
                        if (!dead) for (node& n : cell_tester::nodes(c)) if (n.is_used()) cell_tester::set_mom(n, vec3(amp*g.gauss(), amp*g.gauss(), amp*g.gauss())); }
                    else if (ev == "FRESH"){ if (!dead) c->update_all_face_normals_and_areas(); }
                    else if (ev == "REFINE"){ if (!dead) lmr.refine_mesh(c); }
                    else if (ev == "REBASE"){ if (!dead) c->rebase(); }
                    else if (ev == "OP"){ int kind; long idx; in >> kind >> idx; name = ev + std::to_string(kind);
                        if (!dead){
                            const edge_set& es = c->get_edge_set(); auto it = es.begin(); std::advance(it, idx % (long)es.size()); edge e = *it;
                            edge_set work = es;
                            if (kind == 0) lmr.split_edge(e, c, work);
                            else if (kind == 1){ if (lmr.can_be_merged(e, c)) lmr.merge_edge(e, c, work); else name += "-refused"; }
                            else lmr.swap_edge(e, c);
                        } }
                    else if (ev == "OPL"){ int kind; in >> kind; name = ev + std::to_string(kind);
                        // the same single operations on the first edge (in set order) whose two opposite nodes are themselves linked by an
                        // edge while both end points have at least four neighbours (two non-face 3-cycles through the edge)
                        if (!dead){
                            const edge_set& es = c->get_edge_set(); bool found = false; edge e = *es.begin();
                            for (const edge& x : es){
                                if (!x.is_manifold()) continue;
                                const face& f1 = cell_tester::faces(c)[x.f1()]; const face& f2 = cell_tester::faces(c)[x.f2()];
                                unsigned nc_ = f1.get_opposite_node(x.n1(), x.n2()), nd_ = f2.get_opposite_node(x.n1(), x.n2());
                                if (!c->get_edge(nc_, nd_).has_value()) continue;
                                size_t da = 0, db = 0; for (const edge& y : es){ if (y.has_node(x.n1())) da++; if (y.has_node(x.n2())) db++; }
                                if (da >= 4 && db >= 4){ e = x; found = true; break; }
                            }
                            if (!found) name += "-none";
                            else { edge_set work = es;
                                if (kind == 0) lmr.split_edge(e, c, work);
                                else if (kind == 1){ if (lmr.can_be_merged(e, c)) lmr.merge_edge(e, c, work); else name += "-refused"; }
                                else lmr.swap_edge(e, c); }
                        } }
                    else throw std::runtime_error("unknown event " + ev);
                } catch (const std::exception& e){ exc = e.what(); for (char& ch : exc) if (ch == ' ' || ch == '@' || ch == '#') ch = '_'; dead = true; }
                dump(c, name, exc);
            }
            std::cout << "\n";
        } catch (const std::exception& e){ std::cout << "FATAL " << e.what() << "\n"; }
        verif_budget(0);
    }
    return 0;
}
