#!/usr/bin/env python3
"""blocktr.py — a small typed translator for straight-line C++ blocks with guarded exits (shared by translate_forces.py).
Expressions: doubles ('d'), vec3 ('v'), booleans ('b'); + - * / unary minus, comparisons, || && !, parentheses, literals,
M_PI, std::sqrt/cos/sin/tan/acos/cbrt/pow/isfinite/isnan, almost_equal, cot, vec3(a,b,c), and the vec3 methods
dot/cross/norm/squared_norm/dx/dy/dz/get_angle_with/rotate_around_axis.  Everything is emitted over the abstract number type
of Num.v, the libm record of Num.v and the helper functions of Forces.v, in the operation order of the source (left to right,
C++ precedence).  Anything outside the grammar raises Tr."""
import re
from translate_kernel import Tr

TOK = re.compile(r"\s*(?:(\d+\.\d*(?:[eE][-+]?\d+)?|\d+)|(std::\w+|[A-Za-z_]\w*)|(<=|>=|==|!=|&&|\|\||[-+*/(){},.;=<>!?:\[\]]))")


def tokenize(s):
    out = []; i = 0
    while i < len(s):
        if s[i:].strip() == "":
            break
        m = TOK.match(s, i)
        if not m:
            raise Tr("cannot tokenize at: " + s[i:i + 40])
        out.append(m.group(1) or m.group(2) or m.group(3)); i = m.end()
    return out


def lit(tok):
    v = float(tok)
    if v == 0:
        return "(nzero N)"
    if v == 1:
        return "(none_ N)"
    if v == int(v):
        return "(nofZ N %d)" % int(v)
    if v == 0.5:
        return "(ndiv N (none_ N) (nofZ N 2))"
    if v == 1.5:
        return "(ndiv N (nofZ N 3) (nofZ N 2))"
    raise Tr("literal %s not supported" % tok)


class X:
    """helpers: names of the Forces.v functions with the section variables they use"""
    ANGLE = "(angle_with N L %s %s)"
    ANGLE_NAN = "(angle_with_nan N L %s %s)"
    ROT = "(rotate_around_axis N L %s %s %s)"
    COT = "(cot N L %s)"
    AEQ = "(almost_equal N dbl_eps dbl_min %s %s)"
    FIN = "(isfinite N %s)"
    NAN = "(isnan N %s)"

    def __init__(self, toks, env):
        self.t = toks; self.i = 0; self.env = env

    def peek(self, k=0):
        return self.t[self.i + k] if self.i + k < len(self.t) else None

    def eat(self, x=None):
        tok = self.peek()
        if x is not None and tok != x:
            raise Tr("expected %r, found %r (near %s)" % (x, tok, " ".join(self.t[max(0, self.i - 4):self.i + 4])))
        self.i += 1
        return tok

    def expr(self):
        return self.or_()

    def or_(self):
        l, tl = self.and_()
        while self.peek() == "||":
            self.eat(); r, tr_ = self.and_()
            if tl != "b" or tr_ != "b":
                raise Tr("|| of non-booleans")
            l = "(%s || %s)" % (l, r)
        return l, tl

    def and_(self):
        l, tl = self.cmp()
        while self.peek() == "&&":
            self.eat(); r, tr_ = self.cmp()
            if tl != "b" or tr_ != "b":
                raise Tr("&& of non-booleans")
            l = "(%s && %s)" % (l, r)
        return l, tl

    def cmp(self):
        l, tl = self.sum()
        if self.peek() in ("<", ">", "<=", ">=", "==", "!="):
            op = self.eat(); r, tr_ = self.sum()
            if tl != "d" or tr_ != "d":
                raise Tr("comparison of non-scalars")
            if op == "<":
                return "(nltb N %s %s)" % (l, r), "b"
            if op == ">":
                return "(nltb N %s %s)" % (r, l), "b"
            if op == "<=":
                return "(nleb N %s %s)" % (l, r), "b"
            if op == ">=":
                return "(nleb N %s %s)" % (r, l), "b"
            if op == "!=":
                return "(negb (neqb N %s %s))" % (l, r), "b"
            return "(neqb N %s %s)" % (l, r), "b"
        return l, tl

    def sum(self):
        l, tl = self.prod()
        while self.peek() in ("+", "-"):
            op = self.eat(); r, tr_ = self.prod()
            if tl == "d" and tr_ == "d":
                l = "(%s N %s %s)" % ("nadd" if op == "+" else "nsub", l, r)
            elif tl == "v" and tr_ == "v":
                l = "(%s N %s %s)" % ("vadd" if op == "+" else "vsub", l, r)
            else:
                raise Tr("sum of %s and %s" % (tl, tr_))
        return l, tl

    def prod(self):
        l, tl = self.unary()
        while self.peek() in ("*", "/"):
            op = self.eat(); r, tr_ = self.unary()
            if tl == "d" and tr_ == "d":
                l = "(%s N %s %s)" % ("nmul" if op == "*" else "ndiv", l, r)
            elif tl == "v" and tr_ == "d":
                l = "(%s N %s %s)" % ("vscale" if op == "*" else "vdivs", l, r)
            else:
                raise Tr("product %s %s %s" % (tl, op, tr_))
        return l, tl

    def unary(self):
        if self.peek() == "-":
            self.eat(); e, te = self.unary()
            if te != "d":
                raise Tr("negated non-scalar")
            return "(nneg N %s)" % e, "d"
        if self.peek() == "!":
            self.eat(); e, te = self.unary()
            if te != "b":
                raise Tr("! of a non-boolean")
            return "(negb %s)" % e, "b"
        return self.post()

    def args(self):
        self.eat("("); out = []
        if self.peek() == ")":
            self.eat(); return out
        while True:
            out.append(self.expr())
            if self.peek() == ",":
                self.eat(); continue
            break
        self.eat(")")
        return out

    def post(self):
        start = self.i
        e, te = self.atom()
        bare = (self.i == start + 1)            # a bare identifier: an lvalue argument
        self.last_bare = bare
        while self.peek() == ".":
            self.eat(); name = self.eat()
            if name == "get_angle_with":
                self.eat("("); s0 = self.i; a, ta = self.expr(); lv = (self.i == s0 + 1); self.eat(")")
                if te != "v" or ta != "v":
                    raise Tr("get_angle_with of non-vectors")
                e = (self.ANGLE_NAN if lv else self.ANGLE) % (e, a); te = "d"; continue
            a = self.args()
            if name == "dot" and len(a) == 1 and te == "v" and a[0][1] == "v":
                e = "(vdot N %s %s)" % (e, a[0][0]); te = "d"
            elif name == "cross" and len(a) == 1 and te == "v" and a[0][1] == "v":
                e = "(vcross N %s %s)" % (e, a[0][0]); te = "v"
            elif name == "norm" and not a and te == "v":
                e = "(vnorm N %s)" % e; te = "d"
            elif name == "squared_norm" and not a and te == "v":
                e = "(vsqnorm N %s)" % e; te = "d"
            elif name in ("dx", "dy", "dz") and not a and te == "v":
                e = "(v%s %s)" % (name[1], e); te = "d"
            elif name == "rotate_around_axis" and len(a) == 2 and te == "v" and a[0][1] == "v" and a[1][1] == "d":
                e = self.ROT % (e, a[0][0], a[1][0]); te = "v"
            else:
                raise Tr("method %s on %s with %d arguments" % (name, te, len(a)))
        return e, te

    def atom(self):
        tok = self.eat()
        if tok is None:
            raise Tr("unexpected end of expression")
        if tok == "(":
            e, te = self.expr(); self.eat(")")
            return e, te
        if re.fullmatch(r"\d+\.\d*(?:[eE][-+]?\d+)?|\d+", tok):
            return lit(tok), "d"
        if tok == "M_PI":
            return "pi", "d"
        if tok == "vec3":
            a = self.args()
            if len(a) != 3 or any(t != "d" for _, t in a):
                raise Tr("vec3 constructor")
            return "(mkv %s %s %s)" % tuple(x for x, _ in a), "v"
        fun1 = {"std::sqrt": "(nsqrt N %s)", "std::cos": "(lcos L %s)", "std::sin": "(lsin L %s)", "std::tan": "(ltan L %s)", "std::acos": "(lacos L %s)",
                "std::cbrt": "(lcbrt L %s)", "std::exp": "(lexp L %s)", "std::log": "(llog L %s)", "std::abs": "(nabs N %s)", "std::fabs": "(nabs N %s)", "cot": self.COT}
        if tok in fun1:
            a = self.args()
            if len(a) != 1 or a[0][1] != "d":
                raise Tr(tok + ": one scalar argument expected")
            return fun1[tok] % a[0][0], "d"
        if tok in ("std::isfinite", "std::isnan"):
            a = self.args()
            if len(a) != 1 or a[0][1] != "d":
                raise Tr(tok + ": one scalar argument expected")
            return (self.FIN if tok == "std::isfinite" else self.NAN) % a[0][0], "b"
        if tok == "std::pow":
            a = self.args()
            if len(a) != 2 or a[0][1] != "d" or a[1][1] != "d":
                raise Tr("std::pow: two scalar arguments expected")
            return "(lpow L %s %s)" % (a[0][0], a[1][0]), "d"
        if tok == "almost_equal":
            a = self.args()
            if len(a) != 2 or a[0][1] != "d" or a[1][1] != "d":
                raise Tr("almost_equal: two scalar arguments expected")
            return self.AEQ % (a[0][0], a[1][0]), "b"
        if tok in self.env:
            return tok, self.env[tok]
        raise Tr("unknown identifier %r" % tok)


def parse(s, env, want=None):
    p = X(tokenize(s), env); g, t = p.expr()
    if p.peek() is not None:
        raise Tr("trailing tokens in: " + s[:120])
    if want is not None and t != want:
        raise Tr("expression of type %s expected, found %s: %s" % (want, t, s[:120]))
    return g, t


def split_statements(body):
    """top-level statements of a block: (kind, ...) with kind in
         'stmt' text | 'if' cond then_stmts else_stmts_or_None"""
    out = []; i = 0; n = len(body)
    def skip_ws(k):
        while k < n and body[k].isspace():
            k += 1
        return k
    def match_paren(k, open_, close_):
        depth = 0
        while True:
            if body[k] == open_:
                depth += 1
            elif body[k] == close_:
                depth -= 1
                if depth == 0:
                    return k
            k += 1
    def one(k):
        """parse one statement starting at k; returns (node, next index)"""
        k = skip_ws(k)
        if body.startswith("if", k) and re.match(r"if\s*\(", body[k:]):
            j = body.index("(", k); e = match_paren(j, "(", ")")
            cond = body[j + 1:e]
            then_, k2 = one(e + 1)
            k3 = skip_ws(k2)
            if body.startswith("else", k3) and re.match(r"else\b", body[k3:]):
                else_, k4 = one(k3 + 4)
                return ("if", cond, then_, else_), k4
            return ("if", cond, then_, None), k2
        if body[k] == "{":
            e = match_paren(k, "{", "}")
            return ("block", split_statements(body[k + 1:e])), e + 1
        e = k; depth = 0
        while True:
            if body[e] in "({[":
                depth += 1
            elif body[e] in ")}]":
                depth -= 1
            elif body[e] == ";" and depth == 0:
                break
            e += 1
        return ("stmt", re.sub(r"\s+", " ", body[k:e].strip())), e + 1
    while True:
        i = skip_ws(i)
        if i >= n:
            break
        node, i = one(i)
        if node[0] == "stmt" and (node[1] == "" or node[1].startswith("assert")):
            continue
        out.append(node)
    return out


def as_list(node):
    if node is None:
        return []
    if node[0] == "block":
        return node[1]
    return [node]
