(* driver.ml — runs the extracted Gallina models (float instance) on cases read from stdin.
   usage: model <command>; one case per line in, one result per line out; doubles as C99 hex floats *)
open Model

let f_of_s (s : string) : Float64.t =
  Float64.of_float (match s with
    | "nan" | "-nan" -> Float.nan | "inf" -> Float.infinity | "-inf" -> Float.neg_infinity
    | _ -> float_of_string s)
let s_of_f (x : Float64.t) : string =
  let x = Float64.to_float x in
  if Float.is_nan x then "nan" else if x = Float.infinity then "inf"
  else if x = Float.neg_infinity then "-inf" else Printf.sprintf "%h" x

let rec nat_to_int = function O -> 0 | S n -> 1 + nat_to_int n
let rec int_to_nat n = if n <= 0 then O else S (int_to_nat (n-1))
let rec pos_to_int = function XH -> 1 | XO p -> 2 * pos_to_int p | XI p -> 2 * pos_to_int p + 1
let z_to_int = function Z0 -> 0 | Zpos p -> pos_to_int p | Zneg p -> - (pos_to_int p)
let rec int_to_pos n = if n <= 1 then XH else if n land 1 = 0 then XO (int_to_pos (n lsr 1)) else XI (int_to_pos (n lsr 1))
let int_to_z n = if n = 0 then Z0 else if n > 0 then Zpos (int_to_pos n) else Zneg (int_to_pos (-n))

let toks line = List.filter (fun s -> s <> "") (String.split_on_char ' ' (String.trim line))

let v3 a i = { vx = a.(i); vy = a.(i+1); vz = a.(i+2) }

let cmd_kernel line =
  let a = Array.of_list (List.map f_of_s (toks line)) in
  let r = kernel_f (v3 a 0) (v3 a 3) (v3 a 6) (v3 a 9) in
  Printf.printf "%s %s %s %s %d\n" (s_of_f r.k_dist) (s_of_f r.k_bary.vx) (s_of_f r.k_bary.vy) (s_of_f r.k_bary.vz)
    (nat_to_int r.k_region)

let commands : (string * (string -> unit)) list ref = ref [ ("kernel", cmd_kernel) ]

let () =
  let cmd = Sys.argv.(1) in
  let f = try List.assoc cmd !commands with Not_found -> (prerr_endline ("unknown command " ^ cmd); exit 2) in
  (try
    while true do
      let line = input_line stdin in
      if String.trim line <> "" then f line
    done
  with End_of_file -> ());
  flush stdout
