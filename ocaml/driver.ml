(* driver.ml — runs the extracted Gallina models (float instance) on cases read from stdin.
   usage: model <command>; one case per line in, one result per line out; doubles as C99 hex floats *)
open Model
type coqstring = Model.string
type string = Stdlib.String.t

let f_of_s (s : string) : Float64.t =
  Float64.of_float (match s with
    | "nan" | "-nan" -> Float.nan | "inf" -> Float.infinity | "-inf" -> Float.neg_infinity
    | _ -> float_of_string s)
let s_of_f (x : Float64.t) : string =
  let x = Float64.to_float x in
  if Float.is_nan x then "nan" else if x = Float.infinity then "inf"
  else if x = Float.neg_infinity then "-inf" else Printf.sprintf "%h" x

let rec nat_to_int = function O -> 0 | S n -> 1 + nat_to_int n
let rec int_to_nat n = if n <= 0 then O else S (int_to_nat (n-1))
let rec pos_to_int = function XH -> 1 | XO p -> 2 * pos_to_int p | XI p -> 2 * pos_to_int p + 1
let z_to_int = function Z0 -> 0 | Zpos p -> pos_to_int p | Zneg p -> - (pos_to_int p)
let rec int_to_pos n = if n <= 1 then XH else if n land 1 = 0 then XO (int_to_pos (n lsr 1)) else XI (int_to_pos (n lsr 1))
let int_to_z n = if n = 0 then Z0 else if n > 0 then Zpos (int_to_pos n) else Zneg (int_to_pos (-n))

let toks line = List.filter (fun s -> s <> "") (String.split_on_char ' ' (String.trim line))

let v3 a i = { vx = a.(i); vy = a.(i+1); vz = a.(i+2) }

let cmd_kernel line =
  let a = Array.of_list (List.map f_of_s (toks line)) in
  let r = kernel_f (v3 a 0) (v3 a 3) (v3 a 6) (v3 a 9) in
  Printf.printf "%s %s %s %s %d\n" (s_of_f r.k_dist) (s_of_f r.k_bary.vx) (s_of_f r.k_bary.vy) (s_of_f r.k_bary.vz)
    (nat_to_int r.k_region)

(* ---------------------------------------------------------------- C20 grids *)
let cmd_grid line =
  let t = Array.of_list (toks line) in
  let kind = t.(0) in
  let f i = f_of_s t.(i) in
  let s = f 1 in
  let g = grid_dims_f s (((f 2, f 3), f 4)) (((f 5, f 6), f 7)) in
  let ((nx, ny), nz) = g.d_nb in
  let ((lx, ly), lz) = g.d_lo in
  let b = Buffer.create 256 in
  Buffer.add_string b (Printf.sprintf "D %d %d %d %s %s %s |" (z_to_int nx) (z_to_int ny) (z_to_int nz) (s_of_f lx) (s_of_f ly) (s_of_f lz));
  let np = int_of_string t.(8) in
  let pos = ref 9 in
  let is4 = (kind = "G4") in
  let st4 = ref (grid_empty_f g) and st3 = ref (grid3_empty_f g) in
  for i = 0 to np - 1 do
    let p = ((f !pos, f (!pos+1)), f (!pos+2)) in pos := !pos + 3;
    let ((ix, iy), iz) = grid_idx3_f g p in
    Buffer.add_string b (Printf.sprintf " P %d %d %d" (z_to_int ix) (z_to_int iy) (z_to_int iz));
    if not (grid_in_range_f g ((ix, iy), iz)) then Buffer.add_string b " OOB"
    else begin
      let v = grid_flat_f g ((ix, iy), iz) in
      let found =
        if is4 then (match grid_place_f g !st4 p (int_to_z i) with
          | Some st -> st4 := st; List.exists (fun o -> z_to_int o = i) (grid_content_at_f st v)
          | None -> false)
        else (match grid3_place_f g !st3 p (int_to_z i) with
          | Some st -> st3 := st; (match grid3_content_at_f st v with Some o -> z_to_int o = i | None -> false)
          | None -> false) in
      Buffer.add_string b (Printf.sprintf " R %d" (if found then 1 else 0))
    end
  done;
  Buffer.add_string b " |";
  let nq = int_of_string t.(!pos) in incr pos;
  for _ = 0 to nq - 1 do
    let p = ((f !pos, f (!pos+1)), f (!pos+2)) in pos := !pos + 3;
    let ((ix, iy), iz) = grid_idx3_f g p in
    Buffer.add_string b (Printf.sprintf " N %d %d %d" (z_to_int ix) (z_to_int iy) (z_to_int iz));
    if not (grid_in_range_f g ((ix, iy), iz)) then Buffer.add_string b " OOB ;"
    else begin
      let r = if is4 then grid_nbh_f g !st4 p else grid3_nbh_f g !st3 p in
      List.iter (fun o -> Buffer.add_string b (Printf.sprintf " %d" (z_to_int o))) r;
      Buffer.add_string b " ;"
    end
  done;
  Buffer.add_string b " | C";
  let c = if is4 then grid_content_f g !st4 else grid3_content_f g !st3 in
  List.iter (fun o -> Buffer.add_string b (Printf.sprintf " %d" (z_to_int o))) c;
  print_endline (Buffer.contents b)

(* ---------------------------------------------------------------- C03 integrator *)
let integ_cfg = ref (1, false)
let cmd_integrate line =
  let t = Array.of_list (toks line) in
  let pos = ref 0 in
  let next () = let s = t.(!pos) in incr pos; s in
  let nf () = f_of_s (next ()) and ni () = int_of_string (next ()) in
  let dt = nf () in let damping = nf () in let nsteps = ni () in
  let nc = ni () in
  let ci = Array.init nc (fun _ -> let st = ni () in let local = ni () in let dens = nf () in let vol = nf () in (st, local, dens, vol)) in
  let nn = ni () in
  let v3 () = let x = nf () in let y = nf () in let z = nf () in { vx = x; vy = y; vz = z } in
  let nodes = Array.init nn (fun _ ->
    let used = ni () in let cell = ni () in let p = v3 () in let m = v3 () in let f = v3 () in
    let cpl = ni () in let g = ni () in let grp = List.init g (fun _ -> ni ()) in
    (used, cell, p, m, f, cpl, grp)) in
  let live = Array.make nc 0 in
  Array.iter (fun (used, cell, _, _, _, _, _) -> if used <> 0 then live.(cell) <- live.(cell) + 1) nodes;
  let cells = Array.to_list (Array.mapi (fun c (st, local, dens, vol) ->
    { c_static = (st <> 0); c_local = int_to_nat local; c_mass = integ_node_mass_f dens vol (int_to_z live.(c)) }) ci) in
  let nl = Array.to_list (Array.map (fun (used, cell, p, m, f, cpl, grp) ->
    { n_used = (used <> 0); n_cell = int_to_nat cell; n_pos = p; n_mom = m; n_force = f;
      n_cpl = (if cpl >= 0 then Some (int_to_nat cpl) else None); n_cpls = List.map int_to_nat grp }) nodes) in
  let (contact, over) = !integ_cfg in
  let s0 = { s_cells = cells; s_nodes = nl; s_time = Float64.of_float 0.0 } in
  let s1 = integ_steps_f (int_to_nat nsteps) (int_to_nat contact) over dt damping s0 in
  let b = Buffer.create 1024 in
  Buffer.add_string b (s_of_f s1.s_time); Buffer.add_string b " |";
  List.iter (fun n ->
    List.iter (fun v -> Buffer.add_string b (Printf.sprintf " %s %s %s" (s_of_f v.vx) (s_of_f v.vy) (s_of_f v.vz)))
      [n.n_pos; n.n_mom; n.n_force]) s1.s_nodes;
  print_endline (Buffer.contents b)

(* ---------------------------------------------------------------- libm: the C library functions, as arguments of the models *)
let w1 f = fun x -> Float64.of_float (f (Float64.to_float x))
let libm : Float64.t libm = { lcos = w1 cos; lsin = w1 sin; ltan = w1 tan; lacos = w1 acos; llog = w1 Stdlib.log; lexp = w1 exp;
  lcbrt = w1 Float.cbrt; lpow = (fun x y -> Float64.of_float (Float.pow (Float64.to_float x) (Float64.to_float y))) }

(* ---------------------------------------------------------------- C04 cell cycle: elementary queries *)
let cmd_cellcycle line =
  let t = Array.of_list (toks line) in
  let f i = f_of_s t.(i) in
  match t.(0) with
  | "STEP" -> let (vt, p) = cc_step_f libm (f 1) (f 2) (f 3) (f 4) (f 5) (f 6) (f 7) in Printf.printf "%s %s\n" (s_of_f vt) (s_of_f p)
  | "READY" -> Printf.printf "%d\n" (if cc_ready_f (int_to_z (int_of_string t.(1))) (f 2) (f 3) then 1 else 0)
  | "BELOW" -> Printf.printf "%d\n" (if cc_below_f (f 1) (f 2) then 1 else 0)
  | "GROWTH" -> Printf.printf "%s\n" (s_of_f (cc_growth_f (f 1) (f 2) (f 3)))
  | "DIVVOL" -> Printf.printf "%s\n" (s_of_f (cc_divvol_f (t.(1) = "1") (f 2) (f 3) (f 4)))
  | "INIT" -> let vt = cc_initial_target_f libm (f 1) (f 2) (f 3) in
              Printf.printf "%s %s\n" (s_of_f vt) (s_of_f (cc_pressure_f libm (f 3) (f 4) (f 1) vt))
  | _ -> print_endline "?"

(* ---------------------------------------------------------------- C12 geometry *)
let int_to_n i = if i = 0 then N0 else Npos (int_to_pos i)
let n_to_int = function N0 -> 0 | Npos p -> pos_to_int p
let parse_mesh (t : string array) (pos : int ref) =
  let next () = let s = t.(!pos) in incr pos; s in
  let nn = int_of_string (next ()) in
  let nodes = List.init nn (fun _ -> let x = f_of_s (next ()) in let y = f_of_s (next ()) in let z = f_of_s (next ()) in { vx = x; vy = y; vz = z }) in
  let nf = int_of_string (next ()) in
  let faces = List.init nf (fun _ -> let a = int_of_string (next ()) in let b = int_of_string (next ()) in let c = int_of_string (next ()) in ((int_to_n a, int_to_n b), int_to_n c)) in
  (nodes, faces)

let cmd_geometry line =
  let t = Array.of_list (toks line) in
  let pos = ref 0 in
  let (nodes, faces) = parse_mesh t pos in
  let nn = List.length nodes in
  let used = Array.make nn false in
  List.iter (fun ((a, b), c) -> List.iter (fun x -> let i = n_to_int x in if i < nn then used.(i) <- true) [a; b; c]) faces;
  (* remove_unused_nodes resets the position of unused nodes *)
  let zero = Float64.of_float 0.0 in
  let nodes = List.mapi (fun i p -> if used.(i) then p else { vx = zero; vy = zero; vz = zero }) nodes in
  match geo_repair_f nodes faces with
  | None -> print_endline "NOTCLOSED"
  | Some fs ->
    let tris = List.map (geo_tri_pos_f nodes) fs in
    let area = geo_total_area_f tris in
    let vol = geo_volume_f tris in
    let ce = geo_centroid_f tris area in
    let live = List.filteri (fun i _ -> used.(i)) nodes in
    let b = Buffer.create 1024 in
    Buffer.add_string b (Printf.sprintf "OK %s %s %s %s %s" (s_of_f vol) (s_of_f area) (s_of_f ce.vx) (s_of_f ce.vy) (s_of_f ce.vz));
    (match geo_aabb_f live with
     | Some (lo, hi) -> Buffer.add_string b (Printf.sprintf " %s %s %s %s %s %s" (s_of_f lo.vx) (s_of_f lo.vy) (s_of_f lo.vz) (s_of_f hi.vx) (s_of_f hi.vy) (s_of_f hi.vz))
     | None -> Buffer.add_string b " inf inf inf -inf -inf -inf");
    Buffer.add_string b (Printf.sprintf " ? ? ? %d %d |" (List.length live) (List.length fs));
    List.iter2 (fun ((a, bb), c) tp ->
      let n = geo_normal_f tp in
      Buffer.add_string b (Printf.sprintf " %d %d %d %s %s %s %s" (n_to_int a) (n_to_int bb) (n_to_int c) (s_of_f n.vx) (s_of_f n.vy) (s_of_f n.vz) (s_of_f (geo_area_f tp)))) fs tris;
    Buffer.add_string b " |";
    Array.iter (fun u -> Buffer.add_string b (if u then " 1" else " 0")) used;
    print_endline (Buffer.contents b)

(* surface validity oracle on a dump: NL live ids... NF faces... *)
let cmd_valid line =
  let t = Array.of_list (toks line) in
  let pos = ref 0 in
  let next () = let s = t.(!pos) in incr pos; s in
  let nl = int_of_string (next ()) in
  let live = List.init nl (fun _ -> int_to_n (int_of_string (next ()))) in
  let nf = int_of_string (next ()) in
  let faces = List.init nf (fun _ -> let a = int_of_string (next ()) in let b = int_of_string (next ()) in let c = int_of_string (next ()) in ((int_to_n a, int_to_n b), int_to_n c)) in
  Printf.printf "%d %d %d\n" (if mesh_valid_surface_b faces then 1 else 0) (if mesh_valid_dump_b live faces then 1 else 0) (if mesh_connected_b faces then 1 else 0)

(* ---------------------------------------------------------------- C02 internal forces *)
let m_pi = Float64.of_float 0x1.921fb54442d18p+1
let dbl_eps = Float64.of_float epsilon_float
let dbl_min = Float64.of_float min_float
let cmd_forces line =
  let t = Array.of_list (toks line) in
  let pos = ref 0 in
  let next () = let s = t.(!pos) in incr pos; s in
  let nf () = f_of_s (next ()) and ni () = int_of_string (next ()) in
  let term = ni () in let p = nf () in let ka = nf () in let iso = nf () in let kreg = nf () in
  let nt = ni () in
  let tb = List.init nt (fun _ -> let a = nf () in let b = nf () in (a, b)) in
  let tensions = List.map fst tb and bends = List.map snd tb in
  let nn = ni () in
  let nodes = List.init nn (fun _ -> let x = nf () in let y = nf () in let z = nf () in { vx = x; vy = y; vz = z }) in
  let nfc = ni () in
  let faces_flagged = List.init nfc (fun _ -> let a = ni () in let b = ni () in let c = ni () in let ty = ni () in
    (ty >= 0, frc_refresh_f nodes ((int_to_n a, int_to_n b), int_to_n c) (int_to_nat (max ty 0)))) in
  let faces_all = List.map snd faces_flagged in                                         (* indexed by face slot (hinges) *)
  let faces = List.map snd (List.filter fst faces_flagged) in                          (* the used faces, in slot order *)
  let ne = ni () in
  let hinges = List.init ne (fun _ -> let a = ni () in let b = ni () in let f1 = ni () in let f2 = ni () in
    { h_n1 = int_to_n a; h_n2 = int_to_n b; h_f1 = int_to_nat f1; h_f2 = int_to_nat f2 }) in
  let tris = List.map (fun f -> geo_tri_pos_f nodes f.ff_tri) faces in
  let vol = geo_volume_f tris and area = geo_total_area_f tris in
  let zero = Float64.of_float 0.0 in
  let f0 = List.map (fun _ -> { vx = zero; vy = zero; vz = zero }) nodes in
  let do_p f = frc_pressure_f p faces f in
  let do_t f = frc_tension_f libm nodes tensions ka iso vol area faces f in
  let do_b f = frc_bending_f libm m_pi nodes bends faces_all hinges f in
  let do_a f = frc_anglereg_f libm m_pi dbl_eps dbl_min nodes kreg faces f in
  let f = match term with 0 -> do_p f0 | 1 -> do_t f0 | 2 -> do_b f0 | 3 -> do_a f0 | _ -> do_a (do_b (do_t (do_p f0))) in
  let b = Buffer.create 1024 in
  Buffer.add_string b (Printf.sprintf "%s %s |" (s_of_f vol) (s_of_f area));
  List.iter (fun v -> Buffer.add_string b (Printf.sprintf " %s %s %s" (s_of_f v.vx) (s_of_f v.vy) (s_of_f v.vz))) f;
  print_endline (Buffer.contents b)

(* ---------------------------------------------------------------- C01/C11 replay of a remeshing trace *)
let cmd_replay line =
  let t = Array.of_list (toks line) in
  let pos = ref 0 in
  let next () = let s = t.(!pos) in incr pos; s in
  let nf () = f_of_s (next ()) and ni () = int_of_string (next ()) in
  let dyn = ni () <> 0 in let lmin2 = nf () in let lmax2 = nf () in
  let nfc = ni () in
  let faces = List.init nfc (fun _ -> let a = ni () in let b = ni () in let c = ni () in let ty = ni () in
    (((int_to_n a, int_to_n b), int_to_n c), int_to_nat ty)) in
  let nn = ni () in
  let v3 () = let x = nf () in let y = nf () in let z = nf () in { vx = x; vy = y; vz = z } in
  let nodes = List.init nn (fun _ -> let id = ni () in let p = v3 () in let m = v3 () in (int_to_n id, { ns_pos = p; ns_mom = m })) in
  let nops = ni () in
  let ops = List.init nops (fun _ -> let k = next () in let a = ni () in let b = ni () in let e = ni () in
    match k with "S" -> OpSplit (int_to_n a, int_to_n b, int_to_n e) | "M" -> OpMerge (int_to_n a, int_to_n b, int_to_n e) | _ -> OpSwap (int_to_n a, int_to_n b)) in
  let st0 = { ms_faces = faces; ms_nodes = nodes } in
  match ops_replay_f dyn st0 ops with
  | None -> print_endline "NONE"
  | Some st ->
    let g = ops_guards_f dyn lmin2 lmax2 st0 ops in
    let canon (((a, b), c), ty) =
      let a = n_to_int a and b = n_to_int b and c = n_to_int c in
      let m = min a (min b c) in
      let (x, y, z) = if m = a then (a, b, c) else if m = b then (b, c, a) else (c, a, b) in (x, y, z, nat_to_int ty) in
    let fs = List.sort compare (List.map canon st.ms_faces) in
    let ns = List.sort (fun (a, _) (b, _) -> compare a b) (List.map (fun (k, v) -> (n_to_int k, v)) st.ms_nodes) in
    let b = Buffer.create 4096 in
    Buffer.add_string b (Printf.sprintf "OK %d |" (if g then 1 else 0));
    List.iter (fun (x, y, z, ty) -> Buffer.add_string b (Printf.sprintf " %d %d %d %d" x y z ty)) fs;
    Buffer.add_string b " |";
    List.iter (fun (k, v) -> Buffer.add_string b (Printf.sprintf " %d %s %s %s %s %s %s" k (s_of_f v.ns_pos.vx) (s_of_f v.ns_pos.vy) (s_of_f v.ns_pos.vz)
      (s_of_f v.ns_mom.vx) (s_of_f v.ns_mom.vy) (s_of_f v.ns_mom.vz))) ns;
    print_endline (Buffer.contents b)


(* ---------------------------------------------------------------- C11 control of refine_mesh: the loop over the work set *)
let cmd_loop line =
  let t = Array.of_list (toks line) in
  let pos = ref 0 in
  let next () = let s = t.(!pos) in incr pos; s in
  let nf () = f_of_s (next ()) and ni () = int_of_string (next ()) in
  let dyn = ni () <> 0 in let lmin2 = nf () in let lmax2 = nf () in
  let nfc = ni () in
  let faces = List.init nfc (fun _ -> let a = ni () in let b = ni () in let c = ni () in let ty = ni () in
    (((int_to_n a, int_to_n b), int_to_n c), int_to_nat ty)) in
  let nn = ni () in
  let v3 () = let x = nf () in let y = nf () in let z = nf () in { vx = x; vy = y; vz = z } in
  let nodes = List.init nn (fun _ -> let id = ni () in let p = v3 () in let m = v3 () in (int_to_n id, { ns_pos = p; ns_mom = m })) in
  (* the swaps of remove_elongated_triangles come first *)
  let nsw = ni () in
  let swaps = List.init nsw (fun _ -> let a = ni () in let b = ni () in OpSwap (int_to_n a, int_to_n b)) in
  let npop = ni () in
  let script = List.init npop (fun _ -> let a = ni () in let b = ni () in let e = ni () in { p_a = int_to_n a; p_b = int_to_n b; p_new = int_to_n e }) in
  let left = ni () in
  let st0 = { ms_faces = faces; ms_nodes = nodes } in
  match ops_replay_f dyn st0 swaps with
  | None -> print_endline "NONE swaps"
  | Some st1 ->
    let log = loop_log_f dyn lmin2 lmax2 st1 O script in
    let dname d = match d with DSplit -> "S" | DMerge -> "M" | DNone -> "N" | DStuck -> "X" in
    let logs = String.concat "" (List.map (fun ((i, e), d) -> Printf.sprintf " %d %d %s" (nat_to_int i) (nat_to_int e) (dname d)) log) in
    let canon (((a, b), c), ty) =
      let a = n_to_int a and b = n_to_int b and c = n_to_int c in
      let m = min a (min b c) in
      let (x, y, z) = if m = a then (a, b, c) else if m = b then (b, c, a) else (c, a, b) in (x, y, z, nat_to_int ty) in
    let show kind st iter nops left =
      let fs = List.sort compare (List.map canon st.ms_faces) in
      let ns = List.sort (fun (a, _) (b, _) -> compare a b) (List.map (fun (k, v) -> (n_to_int k, v)) st.ms_nodes) in
      let b = Buffer.create 4096 in
      Buffer.add_string b (Printf.sprintf "%s %d %d %d %d |%s |" kind (nat_to_int iter) nops left (nat_to_int (loop_nb_edges_f st)) logs);
      List.iter (fun (x, y, z, ty) -> Buffer.add_string b (Printf.sprintf " %d %d %d %d" x y z ty)) fs;
      Buffer.add_string b " |";
      List.iter (fun (k, v) -> Buffer.add_string b (Printf.sprintf " %d %s %s %s %s %s %s" k (s_of_f v.ns_pos.vx) (s_of_f v.ns_pos.vy) (s_of_f v.ns_pos.vz)
        (s_of_f v.ns_mom.vx) (s_of_f v.ns_mom.vy) (s_of_f v.ns_mom.vz))) ns;
      print_endline (Buffer.contents b) in
    (match loop_run_f dyn lmin2 lmax2 st1 script (int_to_nat left) with
     | Returned (st, iter, ops, l) -> show "RETURNED" st iter (List.length ops) (nat_to_int l)
     | Threw (st, iter, ops) -> show "THREW" st iter (List.length ops) 0
     | Diverged -> print_endline ("DIVERGED 0 0 0 0 |" ^ logs ^ " | |"))


(* ---------------------------------------------------------------- one iteration as the composition of its phases (order generated from the source) *)
let cmd_iteration line =
  let t = Array.of_list (toks line) in
  let pos = ref 0 in
  let next () = let s = t.(!pos) in incr pos; s in
  let ni () = int_of_string (next ()) in
  let n0 = ni () in
  let nit = ni () in
  let inps = List.init nit (fun _ ->
    let nd = ni () in let d = List.init nd (fun _ -> int_to_nat (ni ())) in
    let nr = ni () in let r = List.init nr (fun _ -> int_to_n (ni ())) in
    let tmp = ni () <> 0 in
    { in_div = d; in_below = r; in_tmp = tmp }) in
  if not iter_translation_ok then print_endline "UNTRANSLATED" else begin
    let b = Buffer.create 1024 in
    let s = ref (iter_init (int_to_nat n0)) in
    List.iter (fun inp ->
      let before = List.length !s.i_log in
      let s' = iter_one inp !s in
      let fresh = let rec take k l = if k <= 0 then [] else match l with [] -> [] | x :: r -> x :: take (k - 1) r in take (List.length s'.i_log - before) s'.i_log in
      let ids l = String.concat "," (List.map (fun i -> string_of_int (n_to_int i)) l) in
      let save = List.fold_left (fun acc e -> match e with ESave (_, l) -> Some l | _ -> acc) None fresh in
      let stats = List.fold_left (fun acc e -> match e with EStats (_, l) -> Some l | _ -> acc) None fresh in
      let uses_ok = List.for_all (fun e -> match e with EUse (_, _, cells) -> locals_ok cells O | _ -> true) fresh in
      Buffer.add_string b (Printf.sprintf " | %s ; %s ; %s ; %d ; %d" (ids (List.map (fun c -> c.p_id) s'.i_pop.p_cells))
        (match save with Some l -> ids l | None -> "-") (match stats with Some l -> ids l | None -> "-") (if uses_ok then 1 else 0) (n_to_int s'.i_pop.p_counter));
      s := s') inps;
    print_endline ("OK" ^ Buffer.contents b)
  end

(* ---------------------------------------------------------------- C08 population bookkeeping *)
let cmd_population line =
  let t = Array.of_list (toks line) in
  let pos = ref 0 in
  let next () = let s = t.(!pos) in incr pos; s in
  let ni () = int_of_string (next ()) in
  let n = ni () in let counter = ni () in
  let ids0 = List.init n (fun _ -> ni ()) in
  (* the initial state as dumped (ids may not be 0..n-1 if the dump starts later) *)
  let p0 = { p_cells = List.mapi (fun k i -> { p_id = int_to_n i; p_local = int_to_nat k }) ids0; p_counter = int_to_n counter } in
  let b = Buffer.create 256 in
  let show p =
    if not (pop_inv_b p) then Buffer.add_string b "INVBROKEN "
    else ();
    Buffer.add_string b (Printf.sprintf "%d" (n_to_int p.p_counter));
    List.iter (fun c -> Buffer.add_string b (Printf.sprintf " %d" (n_to_int c.p_id))) p.p_cells in
  show p0;
  let p = ref p0 in
  while !pos < Array.length t do
    let _ = next () in (* D *)
    let nd = ni () in let ms = List.init nd (fun _ -> int_to_nat (ni ())) in
    let _ = next () in (* R *)
    let nr = ni () in let rs = List.init nr (fun _ -> int_to_n (ni ())) in
    p := pop_step !p (EvDivide ms);
    p := pop_step !p (EvRemove rs);
    Buffer.add_string b " | "; show !p
  done;
  print_endline (Buffer.contents b)

(* ---------------------------------------------------------------- C16 cell-data file at token level *)
let cmd_vtk line =
  let t = Array.of_list (toks line) in
  let pos = ref 0 in
  let next () = let s = t.(!pos) in incr pos; s in
  let ni () = int_of_string (next ()) in
  let nc = ni () in
  let cells = List.init nc (fun _ ->
    let ty = ni () in let nn = ni () in
    let coords = List.init (3 * nn) (fun _ -> Printf.sprintf "%.4e" (Float64.to_float (f_of_s (next ())))) in
    let nf = ni () in
    let faces = List.init nf (fun _ -> let a = ni () in let b = ni () in let c = ni () in ((int_to_n a, int_to_n b), int_to_n c)) in
    { w_coords = coords; w_faces = faces; w_type = int_to_n ty }) in
  let file = vtk_write cells in
  let b = Buffer.create 65536 in
  List.iter (fun tk -> Buffer.add_string b (match tk with
    | KPoints -> " POINTS" | KCells -> " CELLS" | KCellTypes -> " CELL_TYPES" | KCellData -> " CELL_DATA" | KFieldTypeId -> " cell_type_id" | KOther -> " OTHER"
    | I n -> Printf.sprintf " %d" (n_to_int n) | X x -> " " ^ x)) file;
  Buffer.add_string b " ||";
  let sem (s : string) = match float_of_string_opt s with Some v when Float.is_finite v -> Some v | _ -> None in
  (match vtk_read sem file with
   | Err _ -> Buffer.add_string b " ERR"
   | Ok (ms, tys) ->
     List.iter (fun m ->
       Buffer.add_string b (Printf.sprintf " %d" (List.length m.r_coords / 3));
       List.iter (fun v -> Buffer.add_string b (Printf.sprintf " %h" v)) m.r_coords;
       Buffer.add_string b (Printf.sprintf " %d" (List.length m.r_faces));
       List.iter (fun f -> Buffer.add_string b (Printf.sprintf " %d" (List.length f)); List.iter (fun x -> Buffer.add_string b (Printf.sprintf " %d" (n_to_int x))) f) m.r_faces) ms;
     Buffer.add_string b " |";
     List.iter (fun x -> Buffer.add_string b (Printf.sprintf " %d" (n_to_int x))) tys);
  print_endline (Buffer.contents b)

(* ---------------------------------------------------------------- C18 parameter reader over the regenerated tables *)
type ptext = { raw : string; p_stod : float option; p_stoi : int option; p_isinf : bool; low : int }
let coq_string_of (s : string) : coqstring =
  let n = String.length s in
  let rec go i = if i >= n then EmptyString else
    let c = Char.code s.[i] in
    let b k = (c lsr k) land 1 = 1 in
    String (Ascii (b 0, b 1, b 2, b 3, b 4, b 5, b 6, b 7), go (i + 1)) in
  go 0
let ocaml_string_of (s : coqstring) : string =
  let b = Buffer.create 16 in
  let rec go = function
    | EmptyString -> ()
    | String (Ascii (b0, b1, b2, b3, b4, b5, b6, b7), r) ->
      let v x k = if x then 1 lsl k else 0 in
      Buffer.add_char b (Char.chr (v b0 0 + v b1 1 + v b2 2 + v b3 3 + v b4 4 + v b5 5 + v b6 6 + v b7 7)); go r in
  go s; Buffer.contents b

let cmd_params line =
  let t = Array.of_list (toks line) in
  let pos = ref 0 in
  let next () = let s = t.(!pos) in incr pos; s in
  let ni () = int_of_string (next ()) in
  let nt = ni () in
  let texts = Array.init nt (fun _ ->
    let raw = next () in
    let sd = next () in let si = next () in let inf = ni () in let low = ni () in
    { raw; p_stod = (if sd = "N" then None else Some (Float64.to_float (f_of_s sd))); p_stoi = (if si = "N" then None else Some (int_of_string si)); p_isinf = (inf = 1); low }) in
  let rec elem () =
    ignore (next ());
    let tag = next () in
    let tx = next () in
    let nchild = ni () in
    let ch = List.init nchild (fun _ -> elem ()) in
    Elem (coq_string_of tag, (if tx = "-" then None else Some (int_of_string tx)), ch) in
  let ndoc = ni () in
  let doc = List.init ndoc (fun _ -> elem ()) in
  let stod i = texts.(i).p_stod and stoi i = (match texts.(i).p_stoi with None -> None | Some z -> Some (int_to_z z))
  and is_inf i = texts.(i).p_isinf and lower i = texts.(i).low in
  let empty = ni () in
  let pv = function
    | VS i -> "s:" ^ texts.(i).raw | VD v -> "d:" ^ (s_of_f (Float64.of_float v)) | VI z -> Printf.sprintf "i:%d" (z_to_int z) | VB b -> if b then "b:1" else "b:0" in
  let prec r = String.concat " " (List.rev_map (fun (f, v) -> ocaml_string_of f ^ "=" ^ pv v) r) in
  let perr = function
    | EMissing tg -> "missing " ^ ocaml_string_of tg | EConv tg -> "conv " ^ ocaml_string_of tg | ERule tg -> "rule " ^ ocaml_string_of tg
    | EUnset tg -> "unset " ^ ocaml_string_of tg | ENoSection s -> "nosection " ^ ocaml_string_of s | ENoCellType -> "nocelltype"
    | ENoFaceTypes -> "nofacetypes" | ENoFaceType -> "nofacetype" in
  let ltb0 v = v < 0.0 and leb0 v = v <= 0.0 and ltb a b = a < b in
  let b = Buffer.create 1024 in
  (match par_numerical stod stoi is_inf lower Float.infinity empty ltb0 leb0 ltb doc with
   | POk r -> Buffer.add_string b ("NUM OK " ^ prec r)
   | PErr e -> Buffer.add_string b ("NUM ERR " ^ perr e));
  Buffer.add_string b " || ";
  (match par_cell_types stod stoi is_inf lower Float.infinity empty ltb0 leb0 ltb doc with
   | POk l -> Buffer.add_string b (Printf.sprintf "BIO OK %d" (List.length l));
     List.iter (fun (r, frs) -> Buffer.add_string b (" CT " ^ prec r ^ Printf.sprintf " NFT %d" (List.length frs));
       List.iter (fun fr -> Buffer.add_string b (" FT " ^ prec fr)) frs) l
   | PErr e -> Buffer.add_string b ("BIO ERR " ^ perr e));
  Buffer.add_string b (if par_translation_ok then "" else " || TRANSLATION-FAILED");
  print_endline (Buffer.contents b)

(* ---------------------------------------------------------------- C19 output events of solver::run *)
let cmd_output line =
  let t = Array.of_list (toks line) in
  let pos = ref 0 in
  let next () = let s = t.(!pos) in incr pos; s in
  let ni () = int_of_string (next ()) in
  let dt = f_of_s (next ()) in let sp = f_of_s (next ()) in let tend = f_of_s (next ()) in
  let ids () = let n = ni () in List.init n (fun _ -> int_to_z (ni ())) in
  let pop0 = ids () in
  let nh = ni () in
  let hist = List.init nh (fun _ -> let mid = ids () in let fin = ids () in (mid, fin)) in
  let b = Buffer.create 1024 in
  let pids l = Buffer.add_string b (Printf.sprintf " %d" (List.length l)); List.iter (fun z -> Buffer.add_string b (Printf.sprintf " %d" (z_to_int z))) l in
  (match out_run_f dt sp tend hist (out_init_f pop0) with
   | None -> Buffer.add_string b "OUT-OF-HISTORY"
   | Some (sf, ev) ->
     List.iter (fun e -> match e with
       | Save (k, p) -> Buffer.add_string b (Printf.sprintf " S %d" (z_to_int k)); pids p
       | Stats (i, tm, p) -> Buffer.add_string b (Printf.sprintf " R %d %s" (nat_to_int i) (s_of_f tm)); pids p) ev;
     Buffer.add_string b (Printf.sprintf " END %d %s %d" (nat_to_int sf.s_iter) (s_of_f sf.s_time0) (z_to_int sf.s_file)));
  print_endline (Buffer.contents b)

(* ---------------------------------------------------------------- C17 the model's reader on a token stream *)
let cmd_vtkread line =
  let t = Array.of_list (toks line) in
  let n = Array.length t in
  let rec go i acc = if i >= n then List.rev acc else
    match t.(i) with
    | "KP" -> go (i+1) (KPoints :: acc) | "KC" -> go (i+1) (KCells :: acc) | "KT" -> go (i+1) (KCellTypes :: acc)
    | "KD" -> go (i+1) (KCellData :: acc) | "KI" -> go (i+1) (KFieldTypeId :: acc) | "O" -> go (i+1) (KOther :: acc)
    | "I" -> go (i+2) (I (int_to_n (int_of_string t.(i+1))) :: acc)
    | "X" -> go (i+2) (X t.(i+1) :: acc)
    | _ -> go (i+1) (KOther :: acc) in
  let file = (try Some (go 0 []) with _ -> None) in
  let sem (s : string) = match float_of_string_opt s with Some v when Float.is_finite v -> Some v | _ -> None in
  match file with
  | None -> print_endline "ERR Untokenisable"
  | Some file ->
    (match vtk_read sem file with
     | Err e -> print_endline ("ERR " ^ (match e with ENoPoints -> "ENoPoints" | EBadNumber -> "EBadNumber" | ECount -> "ECount" | ENoCellTypes -> "ENoCellTypes"
         | ENotPolyhedron -> "ENotPolyhedron" | ENoCells -> "ENoCells" | ECorrupt -> "ECorrupt" | EDangling -> "EDangling" | ENoTypeArray -> "ENoTypeArray"))
     | Ok (ms, tys) -> Printf.printf "OK cells=%d types=%d\n" (List.length ms) (List.length tys))

(* ---------------------------------------------------------------- C06/C07 contact phase (default contact model) *)
let cmd_contact line =
  let t = Array.of_list (toks line) in
  let pos = ref 0 in
  let next () = let s = t.(!pos) in incr pos; s in
  let ni () = int_of_string (next ()) in
  let nf () = f_of_s (next ()) in
  let nv () = let x = nf () in let y = nf () in let z = nf () in { vx = x; vy = y; vz = z } in
  let lmin = nf () in let adh = nf () in let rep = nf () in let c45 = nf () in let c90 = nf () in
  let nc = ni () in
  let cells = List.init nc (fun _ ->
    ignore (next ());
    let id = ni () in let local = ni () in let ty = ni () in let mc = nf () in
    let nn = ni () in
    let nodes = List.init nn (fun _ ->
      let used = ni () in let p = nv () in let nrm = nv () in let curv = nf () in let frc = nv () in
      { cn_used = (used <> 0); cn_pos = p; cn_normal = nrm; cn_curv = curv; cn_force = frc; cn_cpl = None; cn_sqd = Float64.of_float 0.0 }) in
    let nfc = ni () in
    let faces = List.init nfc (fun _ ->
      let a = ni () in let b = ni () in let c = ni () in let nrm = nv () in let area = nf () in let rp = nf () in let _adh = nf () in
      { cf_n1 = int_to_nat a; cf_n2 = int_to_nat b; cf_n3 = int_to_nat c; cf_normal = nrm; cf_area = area; cf_rep = rp }) in
    { cc_id = int_to_nat id; cc_local = int_to_nat local; cc_type = int_to_nat ty; cc_maxcurv = mc; cc_nodes = nodes; cc_faces = faces }) in
  let dmax = Float64.of_float Stdlib.max_float and inf = Float64.of_float Stdlib.infinity in
  let b = Buffer.create 65536 in
  let pv v = Buffer.add_string b (Printf.sprintf " %s %s %s" (s_of_f v.vx) (s_of_f v.vy) (s_of_f v.vz)) in
  let dump tag st =
    Buffer.add_string b (Printf.sprintf "%s %d" tag (List.length st));
    List.iter (fun c ->
      Buffer.add_string b (Printf.sprintf " C %d" (List.length c.cc_nodes));
      List.iter (fun n -> pv n.cn_pos; pv n.cn_force;
        (match n.cn_cpl with
         | Some (c2, n2) when n.cn_used -> Buffer.add_string b (Printf.sprintf " %d %d %s" (nat_to_int c2) (nat_to_int n2) (s_of_f n.cn_sqd))
         | _ -> Buffer.add_string b (Printf.sprintf " - - %s" (if n.cn_used then s_of_f n.cn_sqd else "-")))) c.cc_nodes) st in
  (match ct_phase_f dmax inf c45 c90 lmin adh rep cells with
   | None -> Buffer.add_string b "GRID OOB # OUT OOB"
   | Some (st, store) ->
     (match ct_prepare_f dmax inf lmin adh rep cells with
      | Some p ->
        let g = p.p_grid in
        let ((nx, ny), nz) = g.d_nb in let ((lx, ly), lz) = g.d_lo in
        Buffer.add_string b (Printf.sprintf "GRID %d %d %d %s %s %s %s %d |" (z_to_int nx) (z_to_int ny) (z_to_int nz) (s_of_f lx) (s_of_f ly) (s_of_f lz) (s_of_f g.d_s) (List.length store))
      | None -> Buffer.add_string b "GRID ? |");
     List.iteri (fun v l -> if l <> [] then begin
       Buffer.add_string b (Printf.sprintf " %d:" v);
       List.iter (fun i -> Buffer.add_string b (Printf.sprintf "%d," (nat_to_int i))) l end) store;
     Buffer.add_string b " # ";
     dump "OUT" st);
  Buffer.add_string b " # ";
  (match ct_all_pairs_f dmax inf c45 c90 lmin adh rep cells with
   | None -> Buffer.add_string b "ALL NONE"
   | Some st -> dump "ALL" st);
  print_endline (Buffer.contents b)

(* ---------------------------------------------------------------- C09 deterministic stages of the divider *)
let cmd_divider line =
  let t = Array.of_list (toks line) in
  let pos = ref 1 in
  let next () = let s = t.(!pos) in incr pos; s in
  let nf () = f_of_s (next ()) in
  let nv () = let x = nf () in let y = nf () in let z = nf () in { vx = x; vy = y; vz = z } in
  let pv v = Printf.sprintf "%s %s %s" (s_of_f v.vx) (s_of_f v.vy) (s_of_f v.vz) in
  match t.(0) with
  | "EP" ->
    let e1 = nv () in let e2 = nv () in let p = nv () in let n = nv () in
    (match dv_edge_plane_f e1 e2 p n with Some x -> print_endline ("SOME " ^ pv x) | None -> print_endline "NONE")
  | "DF" ->
    let thr = int_of_string (next ()) in
    let ids = List.init 5 (fun _ -> int_of_string (next ())) in
    let corners = List.map (fun i -> ((i >= thr), { vx = Float64.of_float (float_of_int i); vy = Float64.of_float 0.0; vz = Float64.of_float 0.0 })) ids in
    (match dv_divide_face5_f corners with
     | None -> print_endline "NONE"
     | Some tris -> print_endline ("TRIS" ^ String.concat "" (List.map (fun ((a, b), c) ->
         Printf.sprintf " | %d %d %d" (int_of_float (Float64.to_float a.vx)) (int_of_float (Float64.to_float b.vx)) (int_of_float (Float64.to_float c.vx))) tris)))
  | "ROT" ->
    let n = nv () in let k = int_of_string (next ()) in
    let pts = List.init k (fun _ -> nv ()) in
    let tr = nv () in
    let m = dv_rot_to_z_f n in
    let b = Buffer.create 256 in
    Buffer.add_string b ("M " ^ pv m.r1 ^ " " ^ pv m.r2 ^ " " ^ pv m.r3 ^ " XY");
    let xy = List.map (fun p -> dv_to_xy_f m tr p) pts in
    List.iter (fun p -> Buffer.add_string b (" " ^ pv p)) xy;
    Buffer.add_string b " BACK";
    List.iter (fun p -> Buffer.add_string b (" " ^ pv (dv_to_plane_f m tr p))) xy;
    print_endline (Buffer.contents b)
  | _ -> print_endline "?"

(* ---------------------------------------------------------------- C13 acceptance gate and Poisson disk sampling *)
let cmd_init line =
  let t = Array.of_list (toks line) in
  let pos = ref 1 in
  let next () = let s = t.(!pos) in incr pos; s in
  let ni () = int_of_string (next ()) in
  let nf () = f_of_s (next ()) in
  match t.(0) with
  | "GATE" ->
    let nn = ni () in
    let nodes = List.init nn (fun _ -> let x = nf () in let y = nf () in let z = nf () in { vx = x; vy = y; vz = z }) in
    let nfc = ni () in
    let faces = List.init nfc (fun _ -> let k = ni () in let ids = List.init k (fun _ -> ni ()) in ids) in
    if List.exists (fun f -> List.length f <> 3) faces then print_endline "OUTSIDE-MODEL" else begin
      let tris = List.map (fun f -> match f with [a; b; c] -> ((int_to_n a, int_to_n b), int_to_n c) | _ -> assert false) faces in
      if not (init_gate_b tris) then print_endline "REJECT gate"
      else match geo_repair_f nodes tris with
        | None -> print_endline "REJECT orientation"
        | Some fs -> print_endline ("ACCEPT" ^ String.concat "" (List.map (fun ((a, b), c) -> Printf.sprintf " %d %d %d" (n_to_int a) (n_to_int b) (n_to_int c)) fs))
    end
  | "PDS" ->
    let lmin = nf () in
    let lo = let x = nf () in let y = nf () in let z = nf () in ((x, y), z) in
    let hi = let x = nf () in let y = nf () in let z = nf () in ((x, y), z) in
    let n = ni () in
    let pts = Array.init n (fun _ -> let x = nf () in let y = nf () in let z = nf () in ((x, y), z)) in
    let g = grid_dims_f lmin lo hi in
    let st1 = ref (Some (init_empty_f g)) in
    Array.iter (fun p -> match !st1 with Some s -> st1 := init_place_f g s p { op_pos = p; op_created = true } | None -> ()) pts;
    (match !st1 with
     | None -> print_endline "OOB"
     | Some s1 ->
       (match init_poisson_f g (Float64.mul lmin lmin) s1 (init_empty_f g) with
        | None -> print_endline "OOB"
        | Some s2 ->
          let out = init_content_f g s2 in
          let idx p = let r = ref (-1) in Array.iteri (fun i q -> if q = p && !r < 0 then r := i) pts; !r in
          print_endline (Printf.sprintf "CLOUD %d%s" (List.length out) (String.concat "" (List.map (fun o -> Printf.sprintf " %d" (idx o.op_pos)) out)))))
  | _ -> print_endline "?"

let commands : (string * (string -> unit)) list ref = ref [ ("init", cmd_init); ("divider", cmd_divider); ("contact", cmd_contact); ("vtkread", cmd_vtkread); ("output", cmd_output); ("params", cmd_params); ("vtk", cmd_vtk); ("population", cmd_population); ("replay", cmd_replay); ("loop", cmd_loop); ("iteration", cmd_iteration); ("forces", cmd_forces); ("geometry", cmd_geometry); ("valid", cmd_valid); ("cellcycle", cmd_cellcycle); ("kernel", cmd_kernel); ("grid", cmd_grid); ("integrate", cmd_integrate) ]

let () =
  let cmd = Sys.argv.(1) in
  if cmd = "integrate" then integ_cfg := (int_of_string Sys.argv.(2), Sys.argv.(3) = "1");
  let f = try List.assoc cmd !commands with Not_found -> (prerr_endline ("unknown command " ^ cmd); exit 2) in
  (try
    while true do
      let line = input_line stdin in
      if String.trim line <> "" then f line
    done
  with End_of_file -> ());
  flush stdout
