(* Divider.v — the deterministic geometric stages of cell_divider (src/triangulation_modules/cell_divider.cpp):
   find_edge_plane_intersection, add_point_to_face, divide_faces (one pentagon), the quaternion rotation of
   map_points_to_xy_plane / map_points_to_division_plane, the side test of create_daughter_cells, and the
   assembly of the two daughters from the cut surface and an interface triangulation.  The randomised stage
   (Poisson sampling + Delaunay of the interface) enters as an arbitrary triangle list. *)
From Coq Require Import ZArith Bool List.
From SC Require Import Num Vec3 Geometry.
Import ListNotations.

Section Divider.
  Context {T : Type} (N : Num T).
  Notation vec := (vec3 T).
  Notation "x + y" := (nadd N x y).
  Notation "x - y" := (nsub N x y).
  Notation "x * y" := (nmul N x y).
  Notation "x / y" := (ndiv N x y).
  Notation "x <? y" := (nltb N x y) (at level 70).

  (* find_edge_plane_intersection(e1, e2, p, n) *)
  Definition edge_plane (e1 e2 p n : vec) : option vec :=
    let dot1 := vdot N n (vsub N p e1) in
    let dot2 := vdot N n (vsub N e2 e1) in
    if neqb N dot2 (nzero N) then None else
    let t := dot1 / dot2 in
    if (t <? nzero N) || (none_ N <? t) then None
    else Some (vadd N e1 (vscale N (vsub N e2 e1) t)).

  (* face_side_wrt_plane: the side of the plane (p, n) on which the centroid of the face lies (strictly) *)
  Definition face_side (p1 p2 p3 p n : vec) : bool :=
    nzero N <? vdot N (vsub N (vdivs N (vadd N (vadd N p1 p2) p3) (nofZ N 3)) p) n.

  (* add_point_to_face: the point is inserted between the two consecutive (cyclically) nodes a and b *)
  Definition is_edge (x y a b : nat) : bool := (Nat.eqb x a && Nat.eqb y b) || (Nat.eqb x b && Nat.eqb y a).
  Fixpoint insert_at {A} (l : list A) (j : nat) (x : A) : list A :=
    match j, l with
    | O, _ => x :: l
    | S k, y :: r => y :: insert_at r k x
    | S _, [] => [x]
    end.
  Definition add_point (f : list nat) (a b p : nat) : option (list nat) :=
    let n := length f in
    match find (fun j => is_edge (nth (Nat.modulo (Nat.sub (Nat.add j n) 1) n) f 0%nat) (nth j f 0%nat) a b) (seq 0 n) with
    | Some j => Some (insert_at f j p)
    | None => None
    end.

  (* divide_faces on one face with five corners: corners carry a flag "is an intersection point" (id >= threshold) *)
  Definition corner := (bool * vec)%type.
  Fixpoint find_from (f : list corner) (start : nat) (k : nat) : option nat :=
    match f with
    | [] => None
    | c :: r => if Nat.leb start k && fst c then Some k else find_from r start (S k)
    end.
  Definition divide_face5 (f : list corner) : option (list (vec * vec * vec)) :=
    match find_from f 0 0 with
    | None => None
    | Some i1 =>
        match find_from f (S i1) 0 with
        | None => None
        | Some i2 =>
            let g k := snd (nth (Nat.modulo k 5) f (false, vzero N)) in
            if Nat.eqb (Nat.sub i2 i1) 3 then
              Some [(g i1, g i2, g (S i2)); (g i1, g (S i1), g (S (S i1))); (g i1, g (S (S i1)), g i2)]
            else
              Some [(g i1, g (S i1), g i2); (g (S (S i2)), g i1, g i2); (g (S (S i2)), g i2, g (S i2))]
        end
    end.

  (* ---- map_points_to_xy_plane: rotation built from the quaternion (1 + n.z, n x z), normalised *)
  Record mat := mkmat { r1 : vec; r2 : vec; r3 : vec }.        (* rows *)
  Definition mdot (M : mat) (v : vec) : vec := mkv (vdot N (r1 M) v) (vdot N (r2 M) v) (vdot N (r3 M) v).
  Definition mtranspose (M : mat) : mat :=
    mkmat (mkv (vx (r1 M)) (vx (r2 M)) (vx (r3 M))) (mkv (vy (r1 M)) (vy (r2 M)) (vy (r3 M))) (mkv (vz (r1 M)) (vz (r2 M)) (vz (r3 M))).
  Definition midentity : mat := mkmat (mkv (none_ N) (nzero N) (nzero N)) (mkv (nzero N) (none_ N) (nzero N)) (mkv (nzero N) (nzero N) (none_ N)).
  Definition two : T := nofZ N 2.
  Definition quat_matrix (qw qx qy qz : T) : mat :=
    mkmat (mkv ((none_ N - two * qz * qz) - two * qy * qy) (nneg N two * qz * qw + two * qy * qx) (two * qy * qw + two * qz * qx))
          (mkv (two * qx * qy + two * qw * qz) ((none_ N - two * qz * qz) - two * qx * qx) (two * qz * qy - two * qx * qw))
          (mkv (two * qx * qz - two * qw * qy) (two * qy * qz + two * qw * qx) ((none_ N - two * qy * qy) - two * qx * qx)).
  Definition zaxis : vec := mkv (nzero N) (nzero N) (none_ N).
  Definition rot_to_z (n : vec) : mat :=
    if neqb N (vdot N zaxis n) (none_ N) then midentity else
    let a := vcross N n zaxis in
    let w := none_ N + vdot N n zaxis in
    let nrm := nsqrt N (((w * w + vx a * vx a) + vy a * vy a) + vz a * vz a) in
    quat_matrix (w / nrm) (vx a / nrm) (vy a / nrm) (vz a / nrm).

  (* forward map of one interface point (translation already computed), z forced to 0; and the way back *)
  Definition to_xy (M : mat) (tr p : vec) : vec :=
    let q := mdot M (vadd N p tr) in mkv (vx q) (vy q) (nzero N).
  Definition to_plane (M : mat) (tr p : vec) : vec := vsub N (mdot (mtranspose M) p) tr.

  (* ---- create_daughter_cells: the two daughters are the triangles of the cut surface on either side of the plane,
     each closed by the interface triangles, with opposite windings *)
  Definition flip (t : vec * vec * vec) : vec * vec * vec := let '(a, b, c) := t in (a, c, b).
  Definition daughters (side1 side2 iface : list (vec * vec * vec)) : list (vec * vec * vec) * list (vec * vec * vec) :=
    (side1 ++ iface, side2 ++ map flip iface).
End Divider.
