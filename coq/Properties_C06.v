(* Properties_C06.v — property C06: contact detection finds every node-face pair within the interaction range.
   Only statements; every proof is `exact <lemma of ContactProofsB.v>`.  Model: Contact.v + Grid.v at R with
   Flocq's Zfloor/Zceil. *)
From Coq Require Import Reals Lra ZArith Bool List.
From Flocq Require Import Core.Raux.
From SC Require Import Num Vec3 VecR Kernel KernelProofs Grid Contact Contact_gen ContactProofsB ContactProofsC.
From SC Require ContactTie Narrow_gen Kernel_gen.
Import ListNotations.
Local Open Scope R_scope.

(* 0. THE BROAD PHASE OF THE MODEL IS THE SOURCE.  Contact_gen.v is regenerated on every run from contact_model_abstract.cpp
   (harness/translate_broadphase.py): the padding and the voxel size of the constructor, the six bounds of the padded box of a
   face (update_face_aabbs) and the first / last voxel per axis in which a face is registered (store_face_in_uspg, whose three
   nested loops are checked to run inclusively from start to stop, x outermost).  The functions of Contact.v used below are
   those, for every number type; the kernel they are combined with is tied the same way in Properties_C05 and the grid in
   Properties_C20. *)
Theorem broad_phase_model_is_what_the_source_says : (broadphase_translation_ok = true :> bool) /\
  (forall (T : Type) (N : Num T) (lmin cut_adh cut_rep : T),
     pad_gen N cut_adh cut_rep = pad N cut_adh cut_rep /\ vsize_gen N lmin (pad N cut_adh cut_rep) = vsize N lmin cut_adh cut_rep) /\
  (forall (T : Type) (N : Num T) (cut_adh cut_rep : T) (p1 p2 p3 : vec3 T),
     face_box_gen N (pad N cut_adh cut_rep) p1 p2 p3 = face_box N cut_adh cut_rep p1 p2 p3) /\
  (forall (T : Type) (N : Num T) (fl : T -> Z) (g : dims (T:=T)) (b : box (T:=T)),
     box_voxels N fl g b =
       let '((xs, ys, zs), (xe, ye, ze)) := box_range_gen N fl g b in
       flat_map (fun x => flat_map (fun y => map (fun z => (x, y, z)) (zrange zs (ze + 1)%Z)) (zrange ys (ye + 1)%Z)) (zrange xs (xe + 1)%Z)).
Proof.
  split; [reflexivity|]. split; [|split].
  - intros. split; reflexivity.
  - intros. reflexivity.
  - intros T N fl g b. destruct g as [[[? ?] ?] [[? ?] ?] ?]. reflexivity.
Qed.
Print Assumptions broad_phase_model_is_what_the_source_says.

Section C06.
  Variables (eps dmax inf c45 c90 lmin cut_adh cut_rep : R).
  Hypothesis Hlmin : 0 < lmin.
  Hypothesis Hadh : 0 <= cut_adh.
  Hypothesis Hrep : 0 <= cut_rep.
  Notation prepareR := (prepare NumR Zceil eps dmax inf lmin cut_adh cut_rep).
  Notation registerR := (register NumR Zfloor).
  Notation candidatesR := (candidates NumR Zfloor).
  Notation in_boxR := (in_box NumR).
  Notation face_boxR := (face_box NumR cut_adh cut_rep).
  Notation cut2_maxR := (cut2_max NumR cut_adh cut_rep).
  Notation phaseR := (contact_phase NumR Zfloor Zceil eps dmax inf c45 c90 lmin cut_adh cut_rep).
  Notation all_pairsR := (all_pairs_phase NumR Zceil eps dmax inf c45 c90 lmin cut_adh cut_rep).
  Notation all_pairs_noboxR := (all_pairs_nobox_phase NumR Zceil eps dmax inf c45 c90 lmin cut_adh cut_rep).

  (* narrow range implies the broad-phase box: a point whose squared distance to a triangle is below the largest
     squared cut-off lies in the triangle's padded bounding box *)
  Theorem within_cutoff_in_box : forall p a b c : vR, nondegenerate a b c ->
    k_dist (kernel NumR p a b c) < cut2_maxR -> in_boxR (face_boxR a b c) p = true.
  Proof. exact (cutoff_in_box cut_adh cut_rep Hadh Hrep). Qed.

  (* completeness of the grid: a node inside the padded box of a face finds that face in its own voxel *)
  Theorem candidate_complete : forall st p s fid b pos l,
    prepareR st = Some p -> registerR (p_grid p) (p_boxes p) = Some s ->
    nth_error (p_boxes p) fid = Some b -> in_boxR b pos = true ->
    candidatesR (p_grid p) s pos = Some l -> In fid l.
  Proof. exact (candidates_complete eps dmax inf lmin cut_adh cut_rep Hlmin Hadh Hrep). Qed.

  (* a voxel lists a face at most once, in decreasing global id, and only registered faces *)
  Theorem candidate_once : forall st p s pos l,
    prepareR st = Some p -> registerR (p_grid p) (p_boxes p) = Some s ->
    candidatesR (p_grid p) s pos = Some l ->
    NoDup l /\ (forall i j x y, nth_error l i = Some x -> nth_error l j = Some y -> (i < j)%nat -> (y < x)%nat) /\
    (forall x, In x l -> (x < length (p_boxes p))%nat).
  Proof. exact (candidates_once eps dmax inf lmin cut_adh cut_rep). Qed.

  (* hence the grid only discards pairs the narrow-phase rules discard anyway: the whole phase equals the same rules
     applied to ALL node-face pairs (couplings, forces and positions equal as values, not merely to rounding) *)
  Theorem grid_equals_all_pairs : forall st r s,
    phaseR st = Some (r, s) -> all_pairsR st = Some r.
  Proof. exact (grid_all_pairs eps dmax inf c45 c90 lmin cut_adh cut_rep Hlmin Hadh Hrep). Qed.

  (* ... and the bounding-box test itself only discards pairs that the narrow phase leaves alone: with NO box test at
     all (every node against every face of every other cell) the result is still the same.  This is the statement of
     the property: "the spatial acceleration structure only discards node-triangle pairs that are farther apart than
     the cut-off" *)
  Definition faces_nondegenerate (st : Contact.state (T:=R)) : Prop :=
    forall c f a b cc, In c st -> In f (cc_faces c) ->
      nth_error (cc_nodes c) (cf_n1 f) = Some a -> nth_error (cc_nodes c) (cf_n2 f) = Some b -> nth_error (cc_nodes c) (cf_n3 f) = Some cc ->
      nondegenerate (cn_pos a) (cn_pos b) (cn_pos cc).
  Theorem grid_equals_unfiltered_all_pairs : forall st r s,
    faces_nondegenerate st -> cut_adh * cut_adh <= dmax ->
    phaseR st = Some (r, s) -> all_pairs_noboxR st = Some r.
  Proof. exact (grid_all_pairs_nobox eps dmax inf c45 c90 lmin cut_adh cut_rep Hlmin Hadh Hrep). Qed.
End C06.
Print Assumptions grid_equals_unfiltered_all_pairs.
Print Assumptions within_cutoff_in_box.
Print Assumptions candidate_complete.
Print Assumptions candidate_once.
Print Assumptions grid_equals_all_pairs.

(* THE TIE TO THE SOURCE of the search (ContactTie.v, Narrow_gen.v regenerated from resolve_all_contacts and aabb_intersection_check on
   every run): the box test (three guarded `return false`; equal to in_box by cases on the six comparisons), which nodes search
   (used and below the curvature threshold), the voxel they look in (floor((p - min)/size) per axis; the candidate faces are the
   content of that one voxel), the facing test, and the centre point of a coupled pair. *)
Theorem search_around_the_narrow_phase_is_what_the_source_says : ContactTie.search_tie.
Proof. exact ContactTie.search_around_the_narrow_phase_is_what_the_source_says. Qed.
Print Assumptions search_around_the_narrow_phase_is_what_the_source_says.

(* WHAT THE REGENERATED CODE DOES: the statement on which the soundness of the broad phase rests, about the regenerated padded face
   box (update_face_aabbs), the regenerated padding (the constructor) and the regenerated kernel themselves, at R: a point whose squared
   distance to a non-degenerate triangle is below the largest squared cut-off passes the box test of that triangle.  (Convertible
   with the model: the proof is the model's.) *)
Theorem regenerated_within_cutoff_in_box : forall (cut_adh cut_rep : R) (p a b c : vR),
  0 <= cut_adh -> 0 <= cut_rep -> nondegenerate a b c ->
  k_dist (Kernel_gen.kernel_gen NumR p a b c) < nmax NumR (Narrow_gen.cut2_rep_gen NumR cut_adh cut_rep) (Narrow_gen.cut2_adh_gen NumR cut_adh cut_rep) ->
  in_box NumR (Contact_gen.face_box_gen NumR (Contact_gen.pad_gen NumR cut_adh cut_rep) a b c) p = true.
Proof. intros cut_adh cut_rep p a b c Hadh Hrep. exact (within_cutoff_in_box cut_adh cut_rep Hadh Hrep p a b c). Qed.
Print Assumptions regenerated_within_cutoff_in_box.
