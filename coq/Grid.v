(* Grid.v — uspg_abstract / uspg_4d / uspg_3d (include/uspg/*.hpp), over any Num with a floor/ceil to Z.
   Indices are Z (the code casts the floor of a double to unsigned; a negative or too large value
   is an explicit out-of-range result here, never a wrapped one). *)
From Coq Require Import ZArith Bool List Lia.
From SC Require Import Num.
Import ListNotations.
Local Open Scope Z_scope.

Section Grid.
  Context {T : Type} (N : Num T) (floorZ ceilZ : T -> Z) (eps : T).   (* eps = DBL_EPSILON *)
  Declare Scope num_scope.
  Notation "x + y" := (nadd N x y) : num_scope.
  Notation "x - y" := (nsub N x y) : num_scope.
  Notation "x / y" := (ndiv N x y) : num_scope.
  Delimit Scope num_scope with num.

  Record dims := mkdims {
    d_lo : T * T * T;          (* min_x_, min_y_, min_z_ (already shifted by -eps) *)
    d_nb : Z * Z * Z;          (* nb_voxels_x_, _y_, _z_ *)
    d_s : T }.                 (* voxel_size_ *)

  (* update_dimensions: nb = ceil((max + eps - min)/s), min_ = min - eps *)
  Definition count1 (lo hi s : T) : Z := ceilZ (((hi + eps) - lo) / s)%num.
  Definition update_dimensions (s : T) (lo hi : T * T * T) : dims :=
    let '(lx, ly, lz) := lo in let '(hx, hy, hz) := hi in
    mkdims ((lx - eps)%num, (ly - eps)%num, (lz - eps)%num)
           (count1 lx hx s, count1 ly hy s, count1 lz hz s) s.

  (* get_3d_voxel_index: floor((pos - min_)/s), the last voxel closed on the right (clamped to nb-1) *)
  Definition raw_idx1 (lo_ s x : T) : Z := floorZ ((x - lo_) / s)%num.
  Definition idx1 (lo_ s : T) (nb : Z) (x : T) : Z := Z.min (raw_idx1 lo_ s x) (nb - 1).
  Definition idx3 (g : dims) (p : T * T * T) : Z * Z * Z :=
    let '(lx, ly, lz) := d_lo g in let '(nx, ny, nz) := d_nb g in let '(x, y, z) := p in
    (idx1 lx (d_s g) nx x, idx1 ly (d_s g) ny y, idx1 lz (d_s g) nz z).

  Definition in_range (g : dims) (i : Z * Z * Z) : bool :=
    let '(nx, ny, nz) := d_nb g in let '(x, y, z) := i in
    (0 <=? x) && (x <? nx) && (0 <=? y) && (y <? ny) && (0 <=? z) && (z <? nz).

  (* get_voxel_index(x,y,z) = z*nx*ny + y*nx + x *)
  Definition flat (g : dims) (i : Z * Z * Z) : Z :=
    let '(nx, ny, nz) := d_nb g in let '(x, y, z) := i in z * nx * ny + y * nx + x.

  Definition nvox (g : dims) : Z := let '(nx, ny, nz) := d_nb g in nx * ny * nz.

  (* ---------------------------------------------------------------- uspg_4d: a list per voxel *)
  Section Store.
    Context {A : Type}.
    Definition store := list (list A).
    Definition empty_store (g : dims) : store := repeat [] (Z.to_nat (nvox g)).

    Fixpoint upd {B} (l : list B) (n : nat) (f : B -> B) : list B :=
      match l, n with
      | [], _ => []
      | x :: r, O => f x :: r
      | x :: r, S k => x :: upd r k f
      end.

    (* place_object(obj, voxel_id): push_front *)
    Definition place_id (st : store) (v : Z) (o : A) : store := upd st (Z.to_nat v) (fun c => o :: c).
    Definition content (st : store) (v : Z) : list A := nth (Z.to_nat v) st [].

    (* place_object(obj, pos): None when the computed voxel is out of range (the C++ would write out of bounds) *)
    Definition place (g : dims) (st : store) (p : T * T * T) (o : A) : option store :=
      let i := idx3 g p in if in_range g i then Some (place_id st (flat g i) o) else None.

    (* the half-open integer range [a, b) as a list *)
    Definition zrange (a b : Z) : list Z := map (fun k => a + Z.of_nat k) (seq 0 (Z.to_nat (b - a))).

    (* std::copy(content.begin(), content.end(), front_inserter(acc)) *)
    Definition front_insert (acc c : list A) : list A := rev c ++ acc.

    (* get_neighborhood(ix,iy,iz): clamped 3x3x3 block, x outer, z inner *)
    Definition nb_lo (i : Z) : Z := if i =? 0 then 0 else i - 1.
    Definition nb_hi (n i : Z) : Z := if i =? n - 1 then n else i + 2.
    Definition block (g : dims) (i : Z * Z * Z) : list (Z * Z * Z) :=
      let '(nx, ny, nz) := d_nb g in let '(ix, iy, iz) := i in
      flat_map (fun x => flat_map (fun y => map (fun z => (x, y, z)) (zrange (nb_lo iz) (nb_hi nz iz)))
                                  (zrange (nb_lo iy) (nb_hi ny iy)))
               (zrange (nb_lo ix) (nb_hi nx ix)).
    Definition neighborhood_idx (g : dims) (st : store) (i : Z * Z * Z) : list A :=
      fold_left (fun acc v => front_insert acc (content st (flat g v))) (block g i) [].
    Definition neighborhood (g : dims) (st : store) (p : T * T * T) : list A :=
      neighborhood_idx g st (idx3 g p).

    (* get_grid_content: all voxels, x outer, z inner *)
    Definition all_voxels (g : dims) : list (Z * Z * Z) :=
      let '(nx, ny, nz) := d_nb g in
      flat_map (fun x => flat_map (fun y => map (fun z => (x, y, z)) (zrange 0 nz)) (zrange 0 ny)) (zrange 0 nx).
    Definition grid_content (g : dims) (st : store) : list A :=
      fold_left (fun acc v => front_insert acc (content st (flat g v))) (all_voxels g) [].
  End Store.

  (* ---------------------------------------------------------------- uspg_3d: one optional object per voxel *)
  Section Store3.
    Context {A : Type}.
    Definition store3 := list (option A).
    Definition empty_store3 (g : dims) : store3 := repeat None (Z.to_nat (nvox g)).
    Definition place3 (g : dims) (st : store3) (p : T * T * T) (o : A) : option store3 :=
      let i := idx3 g p in
      if in_range g i then Some (upd st (Z.to_nat (flat g i)) (fun _ => Some o)) else None.
    Definition content3 (st : store3) (v : Z) : option A := nth (Z.to_nat v) st None.
    Definition push_opt (acc : list A) (c : option A) : list A := match c with Some o => o :: acc | None => acc end.
    Definition neighborhood3 (g : dims) (st : store3) (p : T * T * T) : list A :=
      fold_left (fun acc v => push_opt acc (content3 st (flat g v))) (block g (idx3 g p)) [].
    Definition grid_content3 (g : dims) (st : store3) : list A :=
      fold_left (fun acc v => push_opt acc (content3 st (flat g v))) (all_voxels g) [].
  End Store3.
End Grid.
