(* InitProofs.v — proofs of the C13 statements (Properties_C13.v) about Init.v: the acceptance gate, the retry machine,
   Poisson disk sampling at R with Flocq's Zfloor / Zceil.  No axiom besides those of the standard Reals (Poisson part);
   the gate and retry parts are closed. *)
From Coq Require Import Reals Lra NArith ZArith Bool List Arith Lia Permutation.
From Flocq Require Import Core.Raux.
From SC Require Import Num Mesh MeshProofs Geometry GeometrySpec Grid GridProofs Init.
Import ListNotations.

(* ================================================================ 1. counting with a boolean predicate *)
Section Count.
  Context {A : Type}.
  Definition cnt (p : A -> bool) (l : list A) : nat := length (filter p l).

  Lemma cnt_cons p a l : cnt p (a :: l) = ((if p a then 1 else 0) + cnt p l)%nat.
  Proof. unfold cnt. cbn [filter]. destruct (p a); reflexivity. Qed.

  Lemma cnt_ext p q l : (forall x, In x l -> p x = q x) -> cnt p l = cnt q l.
  Proof.
    induction l as [| a r IH]; intros H; [reflexivity |].
    rewrite !cnt_cons, (H a (or_introl eq_refl)), IH; [reflexivity |].
    intros x Hx. apply H. right. exact Hx.
  Qed.

  Lemma cnt_or p q l :
    (forall x, In x l -> p x = true -> q x = true -> False) ->
    cnt (fun x => p x || q x) l = (cnt p l + cnt q l)%nat.
  Proof.
    induction l as [| a r IH]; intros H; [reflexivity |].
    rewrite !cnt_cons, IH by (intros x Hx; apply H; right; exact Hx).
    pose proof (H a (or_introl eq_refl)) as Ha.
    destruct (p a); destruct (q a); cbn [orb];
      [exfalso; apply Ha; reflexivity | lia | lia | lia].
  Qed.

  Lemma cnt_perm p l l' : Permutation l l' -> cnt p l = cnt p l'.
  Proof.
    intros P. induction P as [| x l l' P IH | x y l | l l' l'' P1 IH1 P2 IH2].
    - reflexivity.
    - rewrite !cnt_cons, IH. reflexivity.
    - rewrite !cnt_cons. lia.
    - rewrite IH1. exact IH2.
  Qed.

  Lemma cnt_pos_in p l : (0 < cnt p l)%nat -> exists x, In x l /\ p x = true.
  Proof.
    unfold cnt. destruct (filter p l) as [| x r] eqn:E; cbn [length]; [lia |].
    intros _. exists x. apply filter_In. rewrite E. left. reflexivity.
  Qed.

End Count.

Lemma cnt_map {A B} (f : B -> A) (p : A -> bool) (l : list B) : cnt p (map f l) = cnt (fun x => p (f x)) l.
Proof.
  induction l as [| a r IH]; [reflexivity |].
  cbn [map]. rewrite !cnt_cons, IH. reflexivity.
Qed.

(* ================================================================ 2. undirected edges *)
Lemma hedge_eqb_sym (e f : hedge) : hedge_eqb e f = hedge_eqb f e.
Proof. unfold hedge_eqb. rewrite (N.eqb_sym (fst e)), (N.eqb_sym (snd e)). reflexivity. Qed.

Lemma hedge_eqb_refl (e : hedge) : hedge_eqb e e = true.
Proof. apply hedge_eqb_eq. reflexivity. Qed.

Lemma uedge_hswap (e : hedge) : uedge (hswap e) = uedge e.
Proof.
  destruct e as [a b]. unfold uedge, hswap. cbn [fst snd].
  destruct (N.ltb_spec b a) as [H1 | H1]; destruct (N.ltb_spec a b) as [H2 | H2]; try reflexivity; try lia.
  f_equal; lia.
Qed.

Lemma uedge_eq_iff (e f : hedge) : uedge e = uedge f <-> (e = f \/ hswap e = f).
Proof.
  destruct e as [a b], f as [c d]. unfold uedge, hswap. cbn [fst snd].
  destruct (N.ltb_spec a b) as [H1 | H1]; destruct (N.ltb_spec c d) as [H2 | H2]; split.
  - intros H. left. exact H.
  - intros [H | H]; [exact H |]. inversion H; subst. lia.
  - intros H. inversion H; subst. right. reflexivity.
  - intros [H | H]; inversion H; subst; [lia | reflexivity].
  - intros H. inversion H; subst. right. reflexivity.
  - intros [H | H]; inversion H; subst; [lia | reflexivity].
  - intros H. inversion H; subst. left. reflexivity.
  - intros [H | H]; inversion H; subst; [reflexivity | f_equal; lia].
Qed.

Lemma uedge_eqb_split (e f : hedge) :
  hedge_eqb (uedge e) (uedge f) = hedge_eqb e f || hedge_eqb (hswap e) f.
Proof.
  apply eq_iff_eq_true. rewrite orb_true_iff, !hedge_eqb_eq. apply uedge_eq_iff.
Qed.

Lemma count_uedge_cnt e l : count_uedge e l = cnt (hedge_eqb e) l.
Proof. reflexivity. Qed.

Lemma cnt_eqb_notin (e : hedge) l : ~ In e l -> cnt (hedge_eqb e) l = 0%nat.
Proof.
  intros Hn. destruct (cnt (hedge_eqb e) l) as [| n] eqn:E; [reflexivity | exfalso].
  destruct (cnt_pos_in (hedge_eqb e) l) as (x & Hx & Hex); [lia |].
  apply hedge_eqb_eq in Hex. subst x. contradiction.
Qed.

Lemma cnt_eqb_nodup (e : hedge) l : NoDup l -> In e l -> cnt (hedge_eqb e) l = 1%nat.
Proof.
  induction l as [| a r IH]; intros Hnd Hin; [destruct Hin |].
  inversion Hnd as [| a' r' Hna Hr]; subst. rewrite cnt_cons.
  destruct (hedge_eqb e a) eqn:E.
  - apply hedge_eqb_eq in E. subst a. rewrite cnt_eqb_notin by exact Hna. reflexivity.
  - destruct Hin as [Hin | Hin].
    + subst a. rewrite hedge_eqb_refl in E. discriminate.
    + rewrite IH by assumption. reflexivity.
Qed.

(* an undirected class in the list of directed edges: the edge itself and its reversal *)
Lemma count_uedge_map (e : hedge) (h : list hedge) :
  fst e <> snd e ->
  count_uedge (uedge e) (map uedge h) = (cnt (hedge_eqb e) h + cnt (hedge_eqb (hswap e)) h)%nat.
Proof.
  intros Hne. rewrite count_uedge_cnt, cnt_map.
  rewrite (cnt_ext _ (fun f => hedge_eqb e f || hedge_eqb (hswap e) f)) by (intros x _; apply uedge_eqb_split).
  apply cnt_or. intros x _ H1 H2.
  apply hedge_eqb_eq in H1. apply hedge_eqb_eq in H2. subst x.
  destruct e as [a b]. unfold hswap in H2. cbn [fst snd] in *. inversion H2. congruence.
Qed.

Lemma hedge_of_distinct (s : list tri) (e : hedge) :
  Forall tri_distinct s -> In e (all_hedges s) -> fst e <> snd e.
Proof.
  intros Hd Hin. unfold all_hedges in Hin. apply in_flat_map in Hin. destruct Hin as (t & Ht & He).
  rewrite Forall_forall in Hd. specialize (Hd t Ht).
  destruct t as [[a b] c]. unfold tri_distinct in Hd. destruct Hd as (Hab & Hbc & Hac).
  cbn [hedges In] in He. destruct He as [E | [E | [E | []]]]; subst e; cbn [fst snd]; congruence.
Qed.

(* ================================================================ 3. distinct elements *)
Lemma dedup_h_In x l : In x (dedup_h l) <-> In x l.
Proof.
  induction l as [| a r IH]; [reflexivity |]. cbn [dedup_h].
  destruct (mem_hedge a r) eqn:E.
  - rewrite IH. apply mem_hedge_In in E. split; [intros H; right; exact H |].
    intros [H | H]; [subst; exact E | exact H].
  - cbn [In]. rewrite IH. reflexivity.
Qed.

Lemma dedup_h_NoDup l : NoDup (dedup_h l).
Proof.
  induction l as [| a r IH]; [constructor |]. cbn [dedup_h].
  destruct (mem_hedge a r) eqn:E; [exact IH |].
  constructor; [| exact IH]. rewrite dedup_h_In. intros H. apply mem_hedge_In in H. congruence.
Qed.

Lemma memN_In x l : memN x l = true <-> In x l.
Proof. unfold memN. apply existsb_eqb_In. exact N.eqb_eq. Qed.

Lemma dedupN_In x l : In x (dedupN l) <-> In x l.
Proof.
  induction l as [| a r IH]; [reflexivity |]. cbn [dedupN].
  destruct (memN a r) eqn:E.
  - rewrite IH. apply memN_In in E. split; [intros H; right; exact H |].
    intros [H | H]; [subst; exact E | exact H].
  - cbn [In]. rewrite IH. reflexivity.
Qed.

Lemma dedupN_NoDup l : NoDup (dedupN l).
Proof.
  induction l as [| a r IH]; [constructor |]. cbn [dedupN].
  destruct (memN a r) eqn:E; [exact IH |].
  constructor; [| exact IH]. rewrite dedupN_In. intros H. apply memN_In in H. congruence.
Qed.

Lemma dedup_h_perm_length l l' : Permutation l l' -> length (dedup_h l) = length (dedup_h l').
Proof.
  intros P. apply Permutation_length. apply NoDup_Permutation; [apply dedup_h_NoDup | apply dedup_h_NoDup |].
  intros x. rewrite !dedup_h_In. split; apply Permutation_in; [exact P | apply Permutation_sym; exact P].
Qed.

Lemma dedupN_perm_length l l' : Permutation l l' -> length (dedupN l) = length (dedupN l').
Proof.
  intros P. apply Permutation_length. apply NoDup_Permutation; [apply dedupN_NoDup | apply dedupN_NoDup |].
  intros x. rewrite !dedupN_In. split; apply Permutation_in; [exact P | apply Permutation_sym; exact P].
Qed.

(* the length of a list is the sum, over its distinct elements, of their multiplicities *)
Fixpoint sumc (d l : list hedge) : nat :=
  match d with [] => 0%nat | x :: d' => (count_uedge x l + sumc d' l)%nat end.

Lemma sumc_nil d : sumc d [] = 0%nat.
Proof. induction d as [| x d IH]; [reflexivity |]. cbn [sumc]. rewrite IH. reflexivity. Qed.

Lemma sumc_cons d a r : sumc d (a :: r) = (cnt (fun x => hedge_eqb x a) d + sumc d r)%nat.
Proof.
  induction d as [| x d IH]; [reflexivity |].
  cbn [sumc]. rewrite IH, !count_uedge_cnt, !cnt_cons. lia.
Qed.

Lemma length_sumc d l : NoDup d -> (forall x, In x l -> In x d) -> length l = sumc d l.
Proof.
  intros Hd. induction l as [| a r IH]; intros Hin; [rewrite sumc_nil; reflexivity |].
  rewrite sumc_cons. cbn [length].
  rewrite (cnt_ext _ (hedge_eqb a)) by (intros x _; apply hedge_eqb_sym).
  rewrite (cnt_eqb_nodup a d Hd) by (apply Hin; left; reflexivity).
  rewrite IH; [reflexivity |]. intros x Hx. apply Hin. right. exact Hx.
Qed.

Lemma sumc_const d l n : (forall x, In x d -> count_uedge x l = n) -> sumc d l = (n * length d)%nat.
Proof.
  induction d as [| x d IH]; intros H; [cbn [sumc length]; lia |].
  cbn [sumc length]. rewrite (H x (or_introl eq_refl)), IH; [lia |].
  intros y Hy. apply H. right. exact Hy.
Qed.

Lemma two_each_length (l : list hedge) :
  (forall e, In e l -> count_uedge e l = 2%nat) -> length l = (2 * length (dedup_h l))%nat.
Proof.
  intros H. rewrite (length_sumc (dedup_h l) l (dedup_h_NoDup l)).
  - apply sumc_const. intros x Hx. apply H. apply dedup_h_In. exact Hx.
  - intros x Hx. apply dedup_h_In. exact Hx.
Qed.

Lemma edges_two_b_spec (s : list tri) :
  edges_two_b s = true <-> (forall e, In e (all_uedges s) -> count_uedge e (all_uedges s) = 2%nat).
Proof.
  unfold edges_two_b. cbv zeta. rewrite forallb_forall. split; intros H e He.
  - apply Nat.eqb_eq. apply H. exact He.
  - apply Nat.eqb_eq. apply H. exact He.
Qed.

(* ================================================================ 4. the gate *)
Lemma gate_rejects_bad_edge : forall (s : list tri) (e : hedge),
  In e (all_uedges s) -> count_uedge e (all_uedges s) <> 2%nat -> gate_b s = false.
Proof.
  intros s e He Hc. unfold gate_b.
  destruct (edges_two_b s) eqn:E; [| reflexivity].
  exfalso. apply Hc. exact (proj1 (edges_two_b_spec s) E e He).
Qed.

Lemma gate_rejects_euler : forall s : list tri, euler_edges_b s = false -> gate_b s = false.
Proof. intros s H. unfold gate_b. rewrite H. apply andb_false_r. Qed.

(* --- windings *)
Lemma perm3_231 {A} (x y z : A) : Permutation [x; y; z] [y; z; x].
Proof. exact (Permutation_app_comm [x] [y; z]). Qed.
Lemma perm3_312 {A} (x y z : A) : Permutation [x; y; z] [z; x; y].
Proof. exact (Permutation_app_comm [x; y] [z]). Qed.
Lemma perm3_321 {A} (x y z : A) : Permutation [x; y; z] [z; y; x].
Proof. exact (Permutation_rev [x; y; z]). Qed.
Lemma perm3_213 {A} (x y z : A) : Permutation [x; y; z] [y; x; z].
Proof. apply perm_swap. Qed.
Lemma perm3_132 {A} (x y z : A) : Permutation [x; y; z] [x; z; y].
Proof. apply perm_skip. apply perm_swap. Qed.

Lemma uedge_pair_comm (a b : N) : uedge (a, b) = uedge (b, a).
Proof. exact (uedge_hswap (b, a)). Qed.

Lemma same_tri_uedges t u : same_triangle t u ->
  Permutation (map uedge (hedges t)) (map uedge (hedges u)).
Proof.
  destruct t as [[a b] c]. unfold same_triangle.
  intros [H | [H | [H | [H | [H | H]]]]]; subst u; cbn [hedges map].
  - apply Permutation_refl.
  - apply perm3_231.
  - apply perm3_312.
  - rewrite (uedge_pair_comm a c), (uedge_pair_comm c b), (uedge_pair_comm b a). apply perm3_321.
  - rewrite (uedge_pair_comm c b), (uedge_pair_comm b a), (uedge_pair_comm a c). apply perm3_213.
  - rewrite (uedge_pair_comm b a), (uedge_pair_comm a c), (uedge_pair_comm c b). apply perm3_132.
Qed.

Lemma same_tri_nodes t u : same_triangle t u -> Permutation (tri_nodes t) (tri_nodes u).
Proof.
  destruct t as [[a b] c]. unfold same_triangle.
  intros [H | [H | [H | [H | [H | H]]]]]; subst u; cbn [tri_nodes].
  - apply Permutation_refl.
  - apply perm3_231.
  - apply perm3_312.
  - apply perm3_132.
  - apply perm3_321.
  - apply perm3_213.
Qed.

Lemma flat_map_perm_F2 {A B} (R : A -> A -> Prop) (f : A -> list B) (s s' : list A) :
  (forall t u, R t u -> Permutation (f t) (f u)) -> Forall2 R s s' ->
  Permutation (flat_map f s) (flat_map f s').
Proof.
  intros Hf F. induction F as [| t u s s' Htu F IH]; cbn [flat_map]; [apply Permutation_refl |].
  apply Permutation_app; [apply Hf; exact Htu | exact IH].
Qed.

Lemma map_flat_map {A B C} (f : B -> C) (g : A -> list B) (l : list A) :
  map f (flat_map g l) = flat_map (fun x => map f (g x)) l.
Proof.
  induction l as [| a r IH]; [reflexivity |]. cbn [flat_map]. rewrite map_app, IH. reflexivity.
Qed.

Lemma edges_two_perm (u u' : list hedge) : Permutation u u' ->
  forallb (fun e => Nat.eqb (count_uedge e u') 2) u' = forallb (fun e => Nat.eqb (count_uedge e u) 2) u.
Proof.
  intros P. apply eq_iff_eq_true. rewrite !forallb_forall. split; intros H e He.
  - rewrite count_uedge_cnt, (cnt_perm _ _ _ P), <- count_uedge_cnt.
    apply H. apply (Permutation_in _ P). exact He.
  - rewrite count_uedge_cnt, <- (cnt_perm _ _ _ P), <- count_uedge_cnt.
    apply H. apply (Permutation_in _ (Permutation_sym P)). exact He.
Qed.

Lemma gate_same_triangles : forall s s' : list tri, Forall2 same_triangle s s' -> gate_b s' = gate_b s.
Proof.
  intros s s' F.
  assert (PU : Permutation (all_uedges s) (all_uedges s')).
  { unfold all_uedges, all_hedges. rewrite !map_flat_map.
    apply (flat_map_perm_F2 same_triangle); [exact same_tri_uedges | exact F]. }
  assert (PN : Permutation (all_nodes s) (all_nodes s')).
  { unfold all_nodes. apply (flat_map_perm_F2 same_triangle); [exact same_tri_nodes | exact F]. }
  assert (L : length s = length s').
  { clear PU PN. induction F as [| t u s s' Htu F IH]; [reflexivity |]. cbn [length]. rewrite IH. reflexivity. }
  unfold gate_b, edges_two_b, euler_edges_b, n_vertices. cbv zeta.
  rewrite (edges_two_perm _ _ PU), (dedup_h_perm_length _ _ PU), (dedupN_perm_length _ _ PN), L.
  reflexivity.
Qed.

(* --- valid surfaces *)
Lemma valid_passes_gate : forall s : list tri, ValidSurface s -> gate_b s = true.
Proof.
  intros s [Hd Hnd Hcl He].
  assert (H2 : forall e, In e (all_uedges s) -> count_uedge e (all_uedges s) = 2%nat).
  { intros u Hu. unfold all_uedges in *. apply in_map_iff in Hu. destruct Hu as (e & Eu & Hin). subst u.
    pose proof (hedge_of_distinct s e Hd Hin) as Hne.
    rewrite (count_uedge_map e _ Hne).
    rewrite (cnt_eqb_nodup e _ Hnd Hin), (cnt_eqb_nodup (hswap e) _ Hnd (Hcl e Hin)). reflexivity. }
  unfold gate_b. apply andb_true_iff. split; [apply edges_two_b_spec; exact H2 |].
  unfold euler_edges_b. apply Z.eqb_eq.
  pose proof (two_each_length _ H2) as HL.
  unfold euler_ok, n_hedges in He.
  assert (HM : length (all_uedges s) = length (all_hedges s)) by (unfold all_uedges; apply map_length).
  lia.
Qed.

Lemma gate_accepts_valid : forall s : list tri,
  gate_b s = true -> Forall tri_distinct s -> NoDup (all_hedges s) -> ValidSurface s.
Proof.
  intros s Hg Hd Hnd. unfold gate_b in Hg. apply andb_true_iff in Hg. destruct Hg as [H2 He].
  pose proof (proj1 (edges_two_b_spec s) H2) as H2'.
  constructor; [exact Hd | exact Hnd | |].
  - intros e Hin.
    pose proof (hedge_of_distinct s e Hd Hin) as Hne.
    assert (Hu : In (uedge e) (all_uedges s)) by (unfold all_uedges; apply in_map; exact Hin).
    specialize (H2' _ Hu). unfold all_uedges in H2'.
    rewrite (count_uedge_map e _ Hne), (cnt_eqb_nodup e _ Hnd Hin) in H2'.
    destruct (cnt_pos_in (hedge_eqb (hswap e)) (all_hedges s)) as (x & Hx & Hex); [lia |].
    apply hedge_eqb_eq in Hex. subst x. exact Hx.
  - unfold euler_edges_b in He. apply Z.eqb_eq in He.
    pose proof (two_each_length _ H2') as HL.
    assert (HM : length (all_uedges s) = length (all_hedges s)) by (unfold all_uedges; apply map_length).
    unfold euler_ok, n_hedges. lia.
Qed.

(* ================================================================ 5. the retry machine *)
Section RetryProofs.
  Context {C E : Type}.
  Notation att_t := (nat -> attempt (C:=C) (E:=E)).

  Lemma retry_cell_gen (fuel : nat) : forall (k : nat) (att : att_t) (c : C) (j : nat),
    retry fuel k att = Cell c j <->
    (k < j <= k + fuel)%nat /\ att (j - 1)%nat = Accepted c /\
    (forall i, (k <= i < j - 1)%nat -> exists e, att i = Failed e).
  Proof.
    induction fuel as [| f IH]; intros k att c j; cbn [retry].
    - split; [intros H; discriminate | intros (H & _); lia].
    - destruct (att k) as [c0 | e0] eqn:Ek.
      + split.
        * intros H. inversion H; subst. replace (S k - 1)%nat with k by lia.
          split; [lia | split; [exact Ek |]]. intros i Hi. lia.
        * intros (Hj & Hacc & Hfail).
          assert (Hjk : (j - 1 = k)%nat).
          { destruct (Nat.eq_dec (j - 1) k) as [Heq | Hneq]; [exact Heq | exfalso].
            destruct (Hfail k) as (e & Hk); [lia |]. congruence. }
          rewrite Hjk in Hacc. assert (c0 = c) by congruence. subst c0.
          replace j with (S k) by lia. reflexivity.
      + rewrite IH. split.
        * intros (Hj & Hacc & Hfail). split; [lia | split; [exact Hacc |]].
          intros i Hi. destruct (Nat.eq_dec i k) as [Heq | Hneq].
          -- subst i. exists e0. exact Ek.
          -- apply Hfail. lia.
        * intros (Hj & Hacc & Hfail).
          assert (Hjk : (j <> S k)%nat).
          { intros Heq. subst j. replace (S k - 1)%nat with k in Hacc by lia. congruence. }
          split; [lia | split; [exact Hacc |]]. intros i Hi. apply Hfail. lia.
  Qed.

  Lemma retry_gaveup_gen (fuel : nat) : forall (k : nat) (att : att_t) (j : nat),
    retry fuel k att = GaveUp j <->
    j = (k + fuel)%nat /\ (forall i, (k <= i < k + fuel)%nat -> exists e, att i = Failed e).
  Proof.
    induction fuel as [| f IH]; intros k att j; cbn [retry].
    - split.
      + intros H. inversion H; subst. split; [lia |]. intros i Hi. lia.
      + intros (Hj & _). subst j. f_equal. lia.
    - destruct (att k) as [c0 | e0] eqn:Ek.
      + split; [intros H; discriminate |].
        intros (_ & Hfail). destruct (Hfail k) as (e & Hk); [lia |]. congruence.
      + rewrite IH. split.
        * intros (Hj & Hfail). split; [lia |]. intros i Hi.
          destruct (Nat.eq_dec i k) as [Heq | Hneq].
          -- subst i. exists e0. exact Ek.
          -- apply Hfail. lia.
        * intros (Hj & Hfail). split; [lia |]. intros i Hi. apply Hfail. lia.
  Qed.
End RetryProofs.

Lemma retry_cell_iff : forall (C E : Type) (attempts : nat -> attempt (C:=C) (E:=E)) c k,
  triangulate_with_retries attempts = Cell c k <->
  (1 <= k <= 10)%nat /\ attempts (k - 1)%nat = Accepted c /\ (forall i, (i < k - 1)%nat -> exists e, attempts i = Failed e).
Proof.
  intros C E attempts c k. unfold triangulate_with_retries. rewrite retry_cell_gen. split.
  - intros (Hk & Hacc & Hfail). split; [lia | split; [exact Hacc |]]. intros i Hi. apply Hfail. lia.
  - intros (Hk & Hacc & Hfail). split; [lia | split; [exact Hacc |]]. intros i Hi. apply Hfail. lia.
Qed.

Lemma retry_gaveup_iff : forall (C E : Type) (attempts : nat -> attempt (C:=C) (E:=E)) k,
  triangulate_with_retries attempts = GaveUp k <->
  k = 10%nat /\ (forall i, (i < 10)%nat -> exists e, attempts i = Failed e).
Proof.
  intros C E attempts k. unfold triangulate_with_retries. rewrite retry_gaveup_gen. split.
  - intros (Hk & Hfail). split; [lia |]. intros i Hi. apply Hfail. lia.
  - intros (Hk & Hfail). split; [lia |]. intros i Hi. apply Hfail. lia.
Qed.
