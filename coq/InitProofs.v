(* InitProofs.v — proofs of the C13 statements (Properties_C13.v) about Init.v: the acceptance gate, the retry machine,
   Poisson disk sampling at R with Flocq's Zfloor / Zceil.  No axiom besides those of the standard Reals (Poisson part);
   the gate and retry parts are closed. *)
From Coq Require Import Reals Lra NArith ZArith Bool List Arith Lia Permutation.
From Flocq Require Import Core.Raux.
From SC Require Import Num Mesh MeshProofs Geometry GeometrySpec Grid GridProofs Init.
Import ListNotations.

(* ================================================================ 1. counting with a boolean predicate *)
Section Count.
  Context {A : Type}.
  Definition cnt (p : A -> bool) (l : list A) : nat := length (filter p l).

  Lemma cnt_cons p a l : cnt p (a :: l) = ((if p a then 1 else 0) + cnt p l)%nat.
  Proof. unfold cnt. cbn [filter]. destruct (p a); reflexivity. Qed.

  Lemma cnt_ext p q l : (forall x, In x l -> p x = q x) -> cnt p l = cnt q l.
  Proof.
    induction l as [| a r IH]; intros H; [reflexivity |].
    rewrite !cnt_cons, (H a (or_introl eq_refl)), IH; [reflexivity |].
    intros x Hx. apply H. right. exact Hx.
  Qed.

  Lemma cnt_or p q l :
    (forall x, In x l -> p x = true -> q x = true -> False) ->
    cnt (fun x => p x || q x) l = (cnt p l + cnt q l)%nat.
  Proof.
    induction l as [| a r IH]; intros H; [reflexivity |].
    rewrite !cnt_cons, IH by (intros x Hx; apply H; right; exact Hx).
    pose proof (H a (or_introl eq_refl)) as Ha.
    destruct (p a); destruct (q a); cbn [orb];
      [exfalso; apply Ha; reflexivity | lia | lia | lia].
  Qed.

  Lemma cnt_perm p l l' : Permutation l l' -> cnt p l = cnt p l'.
  Proof.
    intros P. induction P as [| x l l' P IH | x y l | l l' l'' P1 IH1 P2 IH2].
    - reflexivity.
    - rewrite !cnt_cons, IH. reflexivity.
    - rewrite !cnt_cons. lia.
    - rewrite IH1. exact IH2.
  Qed.

  Lemma cnt_pos_in p l : (0 < cnt p l)%nat -> exists x, In x l /\ p x = true.
  Proof.
    unfold cnt. destruct (filter p l) as [| x r] eqn:E; cbn [length]; [lia |].
    intros _. exists x. apply filter_In. rewrite E. left. reflexivity.
  Qed.

End Count.

Lemma cnt_map {A B} (f : B -> A) (p : A -> bool) (l : list B) : cnt p (map f l) = cnt (fun x => p (f x)) l.
Proof.
  induction l as [| a r IH]; [reflexivity |].
  cbn [map]. rewrite !cnt_cons, IH. reflexivity.
Qed.

(* ================================================================ 2. undirected edges *)
Lemma hedge_eqb_sym (e f : hedge) : hedge_eqb e f = hedge_eqb f e.
Proof. unfold hedge_eqb. rewrite (N.eqb_sym (fst e)), (N.eqb_sym (snd e)). reflexivity. Qed.

Lemma hedge_eqb_refl (e : hedge) : hedge_eqb e e = true.
Proof. apply hedge_eqb_eq. reflexivity. Qed.

Lemma uedge_hswap (e : hedge) : uedge (hswap e) = uedge e.
Proof.
  destruct e as [a b]. unfold uedge, hswap. cbn [fst snd].
  destruct (N.ltb_spec b a) as [H1 | H1]; destruct (N.ltb_spec a b) as [H2 | H2]; try reflexivity; try lia.
  f_equal; lia.
Qed.

Lemma uedge_eq_iff (e f : hedge) : uedge e = uedge f <-> (e = f \/ hswap e = f).
Proof.
  destruct e as [a b], f as [c d]. unfold uedge, hswap. cbn [fst snd].
  destruct (N.ltb_spec a b) as [H1 | H1]; destruct (N.ltb_spec c d) as [H2 | H2]; split.
  - intros H. left. exact H.
  - intros [H | H]; [exact H |]. inversion H; subst. lia.
  - intros H. inversion H; subst. right. reflexivity.
  - intros [H | H]; inversion H; subst; [lia | reflexivity].
  - intros H. inversion H; subst. right. reflexivity.
  - intros [H | H]; inversion H; subst; [lia | reflexivity].
  - intros H. inversion H; subst. left. reflexivity.
  - intros [H | H]; inversion H; subst; [reflexivity | f_equal; lia].
Qed.

Lemma uedge_eqb_split (e f : hedge) :
  hedge_eqb (uedge e) (uedge f) = hedge_eqb e f || hedge_eqb (hswap e) f.
Proof.
  apply eq_iff_eq_true. rewrite orb_true_iff, !hedge_eqb_eq. apply uedge_eq_iff.
Qed.

Lemma count_uedge_cnt e l : count_uedge e l = cnt (hedge_eqb e) l.
Proof. reflexivity. Qed.

Lemma cnt_eqb_notin (e : hedge) l : ~ In e l -> cnt (hedge_eqb e) l = 0%nat.
Proof.
  intros Hn. destruct (cnt (hedge_eqb e) l) as [| n] eqn:E; [reflexivity | exfalso].
  destruct (cnt_pos_in (hedge_eqb e) l) as (x & Hx & Hex); [lia |].
  apply hedge_eqb_eq in Hex. subst x. contradiction.
Qed.

Lemma cnt_eqb_nodup (e : hedge) l : NoDup l -> In e l -> cnt (hedge_eqb e) l = 1%nat.
Proof.
  induction l as [| a r IH]; intros Hnd Hin; [destruct Hin |].
  inversion Hnd as [| a' r' Hna Hr]; subst. rewrite cnt_cons.
  destruct (hedge_eqb e a) eqn:E.
  - apply hedge_eqb_eq in E. subst a. rewrite cnt_eqb_notin by exact Hna. reflexivity.
  - destruct Hin as [Hin | Hin].
    + subst a. rewrite hedge_eqb_refl in E. discriminate.
    + rewrite IH by assumption. reflexivity.
Qed.

(* an undirected class in the list of directed edges: the edge itself and its reversal *)
Lemma count_uedge_map (e : hedge) (h : list hedge) :
  fst e <> snd e ->
  count_uedge (uedge e) (map uedge h) = (cnt (hedge_eqb e) h + cnt (hedge_eqb (hswap e)) h)%nat.
Proof.
  intros Hne. rewrite count_uedge_cnt, cnt_map.
  rewrite (cnt_ext _ (fun f => hedge_eqb e f || hedge_eqb (hswap e) f)) by (intros x _; apply uedge_eqb_split).
  apply cnt_or. intros x _ H1 H2.
  apply hedge_eqb_eq in H1. apply hedge_eqb_eq in H2. subst x.
  destruct e as [a b]. unfold hswap in H2. cbn [fst snd] in *. inversion H2. congruence.
Qed.

Lemma hedge_of_distinct (s : list tri) (e : hedge) :
  Forall tri_distinct s -> In e (all_hedges s) -> fst e <> snd e.
Proof.
  intros Hd Hin. unfold all_hedges in Hin. apply in_flat_map in Hin. destruct Hin as (t & Ht & He).
  rewrite Forall_forall in Hd. specialize (Hd t Ht).
  destruct t as [[a b] c]. unfold tri_distinct in Hd. destruct Hd as (Hab & Hbc & Hac).
  cbn [hedges In] in He. destruct He as [E | [E | [E | []]]]; subst e; cbn [fst snd]; congruence.
Qed.

(* ================================================================ 3. distinct elements *)
Lemma dedup_h_In x l : In x (dedup_h l) <-> In x l.
Proof.
  induction l as [| a r IH]; [reflexivity |]. cbn [dedup_h].
  destruct (mem_hedge a r) eqn:E.
  - rewrite IH. apply mem_hedge_In in E. split; [intros H; right; exact H |].
    intros [H | H]; [subst; exact E | exact H].
  - cbn [In]. rewrite IH. reflexivity.
Qed.

Lemma dedup_h_NoDup l : NoDup (dedup_h l).
Proof.
  induction l as [| a r IH]; [constructor |]. cbn [dedup_h].
  destruct (mem_hedge a r) eqn:E; [exact IH |].
  constructor; [| exact IH]. rewrite dedup_h_In. intros H. apply mem_hedge_In in H. congruence.
Qed.

Lemma memN_In x l : memN x l = true <-> In x l.
Proof. unfold memN. apply existsb_eqb_In. exact N.eqb_eq. Qed.

Lemma dedupN_In x l : In x (dedupN l) <-> In x l.
Proof.
  induction l as [| a r IH]; [reflexivity |]. cbn [dedupN].
  destruct (memN a r) eqn:E.
  - rewrite IH. apply memN_In in E. split; [intros H; right; exact H |].
    intros [H | H]; [subst; exact E | exact H].
  - cbn [In]. rewrite IH. reflexivity.
Qed.

Lemma dedupN_NoDup l : NoDup (dedupN l).
Proof.
  induction l as [| a r IH]; [constructor |]. cbn [dedupN].
  destruct (memN a r) eqn:E; [exact IH |].
  constructor; [| exact IH]. rewrite dedupN_In. intros H. apply memN_In in H. congruence.
Qed.

Lemma dedup_h_perm_length l l' : Permutation l l' -> length (dedup_h l) = length (dedup_h l').
Proof.
  intros P. apply Permutation_length. apply NoDup_Permutation; [apply dedup_h_NoDup | apply dedup_h_NoDup |].
  intros x. rewrite !dedup_h_In. split; apply Permutation_in; [exact P | apply Permutation_sym; exact P].
Qed.

Lemma dedupN_perm_length l l' : Permutation l l' -> length (dedupN l) = length (dedupN l').
Proof.
  intros P. apply Permutation_length. apply NoDup_Permutation; [apply dedupN_NoDup | apply dedupN_NoDup |].
  intros x. rewrite !dedupN_In. split; apply Permutation_in; [exact P | apply Permutation_sym; exact P].
Qed.

(* the length of a list is the sum, over its distinct elements, of their multiplicities *)
Fixpoint sumc (d l : list hedge) : nat :=
  match d with [] => 0%nat | x :: d' => (count_uedge x l + sumc d' l)%nat end.

Lemma sumc_nil d : sumc d [] = 0%nat.
Proof. induction d as [| x d IH]; [reflexivity |]. cbn [sumc]. rewrite IH. reflexivity. Qed.

Lemma sumc_cons d a r : sumc d (a :: r) = (cnt (fun x => hedge_eqb x a) d + sumc d r)%nat.
Proof.
  induction d as [| x d IH]; [reflexivity |].
  cbn [sumc]. rewrite IH, !count_uedge_cnt, !cnt_cons. lia.
Qed.

Lemma length_sumc d l : NoDup d -> (forall x, In x l -> In x d) -> length l = sumc d l.
Proof.
  intros Hd. induction l as [| a r IH]; intros Hin; [rewrite sumc_nil; reflexivity |].
  rewrite sumc_cons. cbn [length].
  rewrite (cnt_ext _ (hedge_eqb a)) by (intros x _; apply hedge_eqb_sym).
  rewrite (cnt_eqb_nodup a d Hd) by (apply Hin; left; reflexivity).
  rewrite IH; [reflexivity |]. intros x Hx. apply Hin. right. exact Hx.
Qed.

Lemma sumc_const d l n : (forall x, In x d -> count_uedge x l = n) -> sumc d l = (n * length d)%nat.
Proof.
  induction d as [| x d IH]; intros H; [cbn [sumc length]; lia |].
  cbn [sumc length]. rewrite (H x (or_introl eq_refl)), IH; [lia |].
  intros y Hy. apply H. right. exact Hy.
Qed.

Lemma two_each_length (l : list hedge) :
  (forall e, In e l -> count_uedge e l = 2%nat) -> length l = (2 * length (dedup_h l))%nat.
Proof.
  intros H. rewrite (length_sumc (dedup_h l) l (dedup_h_NoDup l)).
  - apply sumc_const. intros x Hx. apply H. apply dedup_h_In. exact Hx.
  - intros x Hx. apply dedup_h_In. exact Hx.
Qed.

Lemma edges_two_b_spec (s : list tri) :
  edges_two_b s = true <-> (forall e, In e (all_uedges s) -> count_uedge e (all_uedges s) = 2%nat).
Proof.
  unfold edges_two_b. cbv zeta. rewrite forallb_forall. split; intros H e He.
  - apply Nat.eqb_eq. apply H. exact He.
  - apply Nat.eqb_eq. apply H. exact He.
Qed.

(* ================================================================ 4. the gate *)
Lemma gate_rejects_bad_edge : forall (s : list tri) (e : hedge),
  In e (all_uedges s) -> count_uedge e (all_uedges s) <> 2%nat -> gate_b s = false.
Proof.
  intros s e He Hc. unfold gate_b.
  destruct (edges_two_b s) eqn:E; [| reflexivity].
  exfalso. apply Hc. exact (proj1 (edges_two_b_spec s) E e He).
Qed.

Lemma gate_rejects_euler : forall s : list tri, euler_edges_b s = false -> gate_b s = false.
Proof. intros s H. unfold gate_b. rewrite H. apply andb_false_r. Qed.

(* --- windings *)
Lemma perm3_231 {A} (x y z : A) : Permutation [x; y; z] [y; z; x].
Proof. exact (Permutation_app_comm [x] [y; z]). Qed.
Lemma perm3_312 {A} (x y z : A) : Permutation [x; y; z] [z; x; y].
Proof. exact (Permutation_app_comm [x; y] [z]). Qed.
Lemma perm3_321 {A} (x y z : A) : Permutation [x; y; z] [z; y; x].
Proof. exact (Permutation_rev [x; y; z]). Qed.
Lemma perm3_213 {A} (x y z : A) : Permutation [x; y; z] [y; x; z].
Proof. apply perm_swap. Qed.
Lemma perm3_132 {A} (x y z : A) : Permutation [x; y; z] [x; z; y].
Proof. apply perm_skip. apply perm_swap. Qed.

Lemma uedge_pair_comm (a b : N) : uedge (a, b) = uedge (b, a).
Proof. exact (uedge_hswap (b, a)). Qed.

Lemma same_tri_uedges t u : same_triangle t u ->
  Permutation (map uedge (hedges t)) (map uedge (hedges u)).
Proof.
  destruct t as [[a b] c]. unfold same_triangle.
  intros [H | [H | [H | [H | [H | H]]]]]; subst u; cbn [hedges map].
  - apply Permutation_refl.
  - apply perm3_231.
  - apply perm3_312.
  - rewrite (uedge_pair_comm a c), (uedge_pair_comm c b), (uedge_pair_comm b a). apply perm3_321.
  - rewrite (uedge_pair_comm c b), (uedge_pair_comm b a), (uedge_pair_comm a c). apply perm3_213.
  - rewrite (uedge_pair_comm b a), (uedge_pair_comm a c), (uedge_pair_comm c b). apply perm3_132.
Qed.

Lemma same_tri_nodes t u : same_triangle t u -> Permutation (tri_nodes t) (tri_nodes u).
Proof.
  destruct t as [[a b] c]. unfold same_triangle.
  intros [H | [H | [H | [H | [H | H]]]]]; subst u; cbn [tri_nodes].
  - apply Permutation_refl.
  - apply perm3_231.
  - apply perm3_312.
  - apply perm3_132.
  - apply perm3_321.
  - apply perm3_213.
Qed.

Lemma flat_map_perm_F2 {A B} (R : A -> A -> Prop) (f : A -> list B) (s s' : list A) :
  (forall t u, R t u -> Permutation (f t) (f u)) -> Forall2 R s s' ->
  Permutation (flat_map f s) (flat_map f s').
Proof.
  intros Hf F. induction F as [| t u s s' Htu F IH]; cbn [flat_map]; [apply Permutation_refl |].
  apply Permutation_app; [apply Hf; exact Htu | exact IH].
Qed.

Lemma map_flat_map {A B C} (f : B -> C) (g : A -> list B) (l : list A) :
  map f (flat_map g l) = flat_map (fun x => map f (g x)) l.
Proof.
  induction l as [| a r IH]; [reflexivity |]. cbn [flat_map]. rewrite map_app, IH. reflexivity.
Qed.

Lemma edges_two_perm (u u' : list hedge) : Permutation u u' ->
  forallb (fun e => Nat.eqb (count_uedge e u') 2) u' = forallb (fun e => Nat.eqb (count_uedge e u) 2) u.
Proof.
  intros P. apply eq_iff_eq_true. rewrite !forallb_forall. split; intros H e He.
  - rewrite count_uedge_cnt, (cnt_perm _ _ _ P), <- count_uedge_cnt.
    apply H. apply (Permutation_in _ P). exact He.
  - rewrite count_uedge_cnt, <- (cnt_perm _ _ _ P), <- count_uedge_cnt.
    apply H. apply (Permutation_in _ (Permutation_sym P)). exact He.
Qed.

Lemma gate_same_triangles : forall s s' : list tri, Forall2 same_triangle s s' -> gate_b s' = gate_b s.
Proof.
  intros s s' F.
  assert (PU : Permutation (all_uedges s) (all_uedges s')).
  { unfold all_uedges, all_hedges. rewrite !map_flat_map.
    apply (flat_map_perm_F2 same_triangle); [exact same_tri_uedges | exact F]. }
  assert (PN : Permutation (all_nodes s) (all_nodes s')).
  { unfold all_nodes. apply (flat_map_perm_F2 same_triangle); [exact same_tri_nodes | exact F]. }
  assert (L : length s = length s').
  { clear PU PN. induction F as [| t u s s' Htu F IH]; [reflexivity |]. cbn [length]. rewrite IH. reflexivity. }
  unfold gate_b, edges_two_b, euler_edges_b, n_vertices. cbv zeta.
  rewrite (edges_two_perm _ _ PU), (dedup_h_perm_length _ _ PU), (dedupN_perm_length _ _ PN), L.
  reflexivity.
Qed.

(* --- valid surfaces *)
Lemma valid_passes_gate : forall s : list tri, ValidSurface s -> gate_b s = true.
Proof.
  intros s [Hd Hnd Hcl He].
  assert (H2 : forall e, In e (all_uedges s) -> count_uedge e (all_uedges s) = 2%nat).
  { intros u Hu. unfold all_uedges in *. apply in_map_iff in Hu. destruct Hu as (e & Eu & Hin). subst u.
    pose proof (hedge_of_distinct s e Hd Hin) as Hne.
    rewrite (count_uedge_map e _ Hne).
    rewrite (cnt_eqb_nodup e _ Hnd Hin), (cnt_eqb_nodup (hswap e) _ Hnd (Hcl e Hin)). reflexivity. }
  unfold gate_b. apply andb_true_iff. split; [apply edges_two_b_spec; exact H2 |].
  unfold euler_edges_b. apply Z.eqb_eq.
  pose proof (two_each_length _ H2) as HL.
  unfold euler_ok, n_hedges in He.
  assert (HM : length (all_uedges s) = length (all_hedges s)) by (unfold all_uedges; apply map_length).
  lia.
Qed.

Lemma gate_accepts_valid : forall s : list tri,
  gate_b s = true -> Forall tri_distinct s -> NoDup (all_hedges s) -> ValidSurface s.
Proof.
  intros s Hg Hd Hnd. unfold gate_b in Hg. apply andb_true_iff in Hg. destruct Hg as [H2 He].
  pose proof (proj1 (edges_two_b_spec s) H2) as H2'.
  constructor; [exact Hd | exact Hnd | |].
  - intros e Hin.
    pose proof (hedge_of_distinct s e Hd Hin) as Hne.
    assert (Hu : In (uedge e) (all_uedges s)) by (unfold all_uedges; apply in_map; exact Hin).
    specialize (H2' _ Hu). unfold all_uedges in H2'.
    rewrite (count_uedge_map e _ Hne), (cnt_eqb_nodup e _ Hnd Hin) in H2'.
    destruct (cnt_pos_in (hedge_eqb (hswap e)) (all_hedges s)) as (x & Hx & Hex); [lia |].
    apply hedge_eqb_eq in Hex. subst x. exact Hx.
  - unfold euler_edges_b in He. apply Z.eqb_eq in He.
    pose proof (two_each_length _ H2') as HL.
    assert (HM : length (all_uedges s) = length (all_hedges s)) by (unfold all_uedges; apply map_length).
    unfold euler_ok, n_hedges. lia.
Qed.

(* ================================================================ 5. the retry machine *)
Section RetryProofs.
  Context {C E : Type}.
  Notation att_t := (nat -> attempt (C:=C) (E:=E)).

  Lemma retry_cell_gen (fuel : nat) : forall (k : nat) (att : att_t) (c : C) (j : nat),
    retry fuel k att = Cell c j <->
    (k < j <= k + fuel)%nat /\ att (j - 1)%nat = Accepted c /\
    (forall i, (k <= i < j - 1)%nat -> exists e, att i = Failed e).
  Proof.
    induction fuel as [| f IH]; intros k att c j; cbn [retry].
    - split; [intros H; discriminate | intros (H & _); lia].
    - destruct (att k) as [c0 | e0] eqn:Ek.
      + split.
        * intros H. inversion H; subst. replace (S k - 1)%nat with k by lia.
          split; [lia | split; [exact Ek |]]. intros i Hi. lia.
        * intros (Hj & Hacc & Hfail).
          assert (Hjk : (j - 1 = k)%nat).
          { destruct (Nat.eq_dec (j - 1) k) as [Heq | Hneq]; [exact Heq | exfalso].
            destruct (Hfail k) as (e & Hk); [lia |]. congruence. }
          rewrite Hjk in Hacc. assert (c0 = c) by congruence. subst c0.
          replace j with (S k) by lia. reflexivity.
      + rewrite IH. split.
        * intros (Hj & Hacc & Hfail). split; [lia | split; [exact Hacc |]].
          intros i Hi. destruct (Nat.eq_dec i k) as [Heq | Hneq].
          -- subst i. exists e0. exact Ek.
          -- apply Hfail. lia.
        * intros (Hj & Hacc & Hfail).
          assert (Hjk : (j <> S k)%nat).
          { intros Heq. subst j. replace (S k - 1)%nat with k in Hacc by lia. congruence. }
          split; [lia | split; [exact Hacc |]]. intros i Hi. apply Hfail. lia.
  Qed.

  Lemma retry_gaveup_gen (fuel : nat) : forall (k : nat) (att : att_t) (j : nat),
    retry fuel k att = GaveUp j <->
    j = (k + fuel)%nat /\ (forall i, (k <= i < k + fuel)%nat -> exists e, att i = Failed e).
  Proof.
    induction fuel as [| f IH]; intros k att j; cbn [retry].
    - split.
      + intros H. inversion H; subst. split; [lia |]. intros i Hi. lia.
      + intros (Hj & _). subst j. f_equal. lia.
    - destruct (att k) as [c0 | e0] eqn:Ek.
      + split; [intros H; discriminate |].
        intros (_ & Hfail). destruct (Hfail k) as (e & Hk); [lia |]. congruence.
      + rewrite IH. split.
        * intros (Hj & Hfail). split; [lia |]. intros i Hi.
          destruct (Nat.eq_dec i k) as [Heq | Hneq].
          -- subst i. exists e0. exact Ek.
          -- apply Hfail. lia.
        * intros (Hj & Hfail). split; [lia |]. intros i Hi. apply Hfail. lia.
  Qed.
End RetryProofs.

Lemma retry_cell_iff : forall (C E : Type) (attempts : nat -> attempt (C:=C) (E:=E)) c k,
  triangulate_with_retries attempts = Cell c k <->
  (1 <= k <= 10)%nat /\ attempts (k - 1)%nat = Accepted c /\ (forall i, (i < k - 1)%nat -> exists e, attempts i = Failed e).
Proof.
  intros C E attempts c k. unfold triangulate_with_retries. rewrite retry_cell_gen. split.
  - intros (Hk & Hacc & Hfail). split; [lia | split; [exact Hacc |]]. intros i Hi. apply Hfail. lia.
  - intros (Hk & Hacc & Hfail). split; [lia | split; [exact Hacc |]]. intros i Hi. apply Hfail. lia.
Qed.

Lemma retry_gaveup_iff : forall (C E : Type) (attempts : nat -> attempt (C:=C) (E:=E)) k,
  triangulate_with_retries attempts = GaveUp k <->
  k = 10%nat /\ (forall i, (i < 10)%nat -> exists e, attempts i = Failed e).
Proof.
  intros C E attempts k. unfold triangulate_with_retries. rewrite retry_gaveup_gen. split.
  - intros (Hk & Hfail). split; [lia |]. intros i Hi. apply Hfail. lia.
  - intros (Hk & Hfail). split; [lia |]. intros i Hi. apply Hfail. lia.
Qed.

(* ================================================================ 6. Poisson disk sampling at R *)
Section ListFacts2.
  Context {A : Type}.

  Lemma FOP_perm (R : A -> A -> Prop) (l l' : list A) :
    (forall x y, R x y -> R y x) -> Permutation l l' -> ForallOrdPairs R l -> ForallOrdPairs R l'.
  Proof.
    intros Hsym P. induction P as [| x l l' P IH | x y l | l l' l'' P1 IH1 P2 IH2]; intros H.
    - exact H.
    - inversion H as [| a r Hx Hr]; subst. constructor.
      + apply (Permutation_Forall P). exact Hx.
      + apply IH. exact Hr.
    - inversion H as [| a r Hy Hr]; subst.
      inversion Hr as [| a' r' Hx Hl]; subst.
      inversion Hy as [| b r'' Hyx Hyl]; subst.
      constructor; [constructor; [apply Hsym; exact Hyx | exact Hx] |].
      constructor; [exact Hyl | exact Hl].
    - apply IH2. apply IH1. exact H.
  Qed.

  Lemma concat_upd_cons (st : list (list A)) (n : nat) (o : A) :
    (n < length st)%nat -> Permutation (concat (upd st n (fun c => o :: c))) (o :: concat st).
  Proof.
    revert n. induction st as [| a r IH]; intros n Hn; cbn [length] in Hn; [lia |].
    destruct n as [| k]; cbn [upd concat].
    - cbn [app]. apply Permutation_refl.
    - apply Permutation_trans with (a ++ o :: concat r).
      + apply Permutation_app_head. apply IH. lia.
      + apply Permutation_sym. apply Permutation_middle.
  Qed.

  Lemma in_concat_nth (st : list (list A)) (o : A) :
    In o (concat st) -> exists k, In o (nth k st []).
  Proof.
    induction st as [| a r IH]; cbn [concat]; [intros [] |].
    intros H. apply in_app_iff in H. destruct H as [H | H].
    - exists 0%nat. exact H.
    - destruct (IH H) as (k & Hk). exists (S k). exact Hk.
  Qed.

  Lemma nth_in_concat (st : list (list A)) (k : nat) (o : A) :
    In o (nth k st []) -> In o (concat st).
  Proof.
    revert k. induction st as [| a r IH]; intros k H.
    - destruct k; destruct H.
    - cbn [concat]. apply in_app_iff. destruct k as [| k]; cbn [nth] in H; [left; exact H | right].
      apply (IH k). exact H.
  Qed.

  Lemma concat_repeat_nil (n : nat) : concat (repeat (@nil A) n) = [].
  Proof. induction n as [| n IH]; [reflexivity |]. cbn [repeat concat app]. exact IH. Qed.
End ListFacts2.

Section PoissonR.
  Local Open Scope R_scope.
  Notation opR := (opoint (T:=R)).
  Notation storeR := (store (A:=opR)).

  Definition ip_points (st : storeR) : list opR := concat st.
  Definition ip_spaced (l2 : R) (l : list opR) : Prop :=
    ForallOrdPairs (fun p q => l2 <= sqd NumR (op_pos p) (op_pos q)) l.
  Definition ip_stored (g : dims (T:=R)) (st : storeR) : Prop :=
    forall k o, In o (nth k st []) ->
      in_range g (idx3 NumR Zfloor g (op_pos o)) = true /\ k = Z.to_nat (flat g (idx3 NumR Zfloor g (op_pos o))).

  Lemma sqd_sym (p q : R * R * R) : sqd NumR p q = sqd NumR q p.
  Proof.
    destruct p as [[px py] pz], q as [[qx qy] qz]. unfold sqd. cbn [NumR nsub nadd nmul]. ring.
  Qed.

  Lemma sq_lt_abs (a l : R) : 0 < l -> a * a < l * l -> Rabs a <= l.
  Proof.
    intros Hl H. apply Rabs_le. split.
    - destruct (Rle_lt_dec (- l) a) as [Hle | Hlt]; [exact Hle | exfalso].
      assert (H1 : l * l < (- a) * (- a)) by (apply Rmult_le_0_lt_compat; lra).
      replace ((- a) * (- a)) with (a * a) in H1 by ring. lra.
    - destruct (Rle_lt_dec a l) as [Hle | Hlt]; [exact Hle | exfalso].
      assert (H1 : l * l < a * a) by (apply Rmult_le_0_lt_compat; lra).
      lra.
  Qed.

  Lemma sqd_close (p q : R * R * R) (l : R) :
    0 < l -> sqd NumR q p < l * l ->
    (let '(px, py, pz) := p in let '(qx, qy, qz) := q in
     Rabs (px - qx) <= l /\ Rabs (py - qy) <= l /\ Rabs (pz - qz) <= l).
  Proof.
    destruct p as [[px py] pz], q as [[qx qy] qz]. unfold sqd. cbn [NumR nsub nadd nmul].
    intros Hl H.
    pose proof (Rle_0_sqr (qx - px)) as Hx. pose proof (Rle_0_sqr (qy - py)) as Hy.
    pose proof (Rle_0_sqr (qz - pz)) as Hz. unfold Rsqr in Hx, Hy, Hz.
    repeat split; rewrite Rabs_minus_sym; apply sq_lt_abs; try exact Hl; lra.
  Qed.

  Lemma accept_true_all (l2 : R) (c : R * R * R) (nbrs : list opR) :
    forall k, accept NumR l2 c nbrs k = true -> forall q, In q nbrs -> l2 <= sqd NumR (op_pos q) c.
  Proof.
    induction nbrs as [| a r IH]; intros k H q Hq; [destruct Hq |].
    cbn [accept] in H.
    destruct (nltb NumR (sqd NumR (op_pos a) c) l2 || Nat.leb 30 k) eqn:E; [discriminate |].
    apply orb_false_iff in E. destruct E as [E _]. cbn [NumR nltb] in E. apply Rltb_false in E.
    destruct Hq as [Hq | Hq]; [subst q; exact E | exact (IH _ H q Hq)].
  Qed.

  Lemma try_cands_cases (g : dims (T:=R)) (l2 : R) (st : storeR) (nbrs cands : list opR) :
    forall (k : nat) (st' : storeR),
    try_cands NumR Zfloor g l2 st nbrs cands k = Some st' ->
    st' = st \/ exists c, In c cands /\ accept NumR l2 (op_pos c) nbrs 0 = true /\
                          place NumR Zfloor g st (op_pos c) c = Some st'.
  Proof.
    induction cands as [| c r IH]; intros k st' H.
    - cbn [try_cands] in H. left. inversion H. reflexivity.
    - destruct k as [| k']; cbn [try_cands] in H; [left; inversion H; reflexivity |].
      destruct (accept NumR l2 (op_pos c) nbrs 0) eqn:Ea.
      + right. exists c. split; [left; reflexivity | split; [exact Ea | exact H]].
      + destruct (IH k' st' H) as [Hs | (c' & Hc' & Hacc & Hpl)]; [left; exact Hs | right].
        exists c'. split; [right; exact Hc' | split; [exact Hacc | exact Hpl]].
  Qed.

  Section Run.
    Variables (eps lmin : R) (lo hi : R * R * R) (st1 : storeR).
    Hypotheses (Heps : 0 <= eps) (Hlmin : 0 < lmin) (Hbox : gp_box_ok lo hi).
    Notation g := (update_dimensions NumR Zceil eps lmin lo hi).
    Hypothesis Hst1_box : forall o, In o (ip_points st1) -> gp_in_box lo hi (op_pos o).
    Hypothesis Hst1_stored : ip_stored g st1.

    Definition ip_inv (st : storeR) : Prop :=
      length st = Z.to_nat (nvox g) /\ ip_stored g st /\ ip_spaced (lmin * lmin) (ip_points st) /\
      (forall o, In o (ip_points st) -> gp_in_box lo hi (op_pos o)).

    Lemma poisson_step (st st' : storeR) (v : Z * Z * Z) :
      ip_inv st -> in_range g v = true ->
      try_cands NumR Zfloor g (lmin * lmin) st (neighborhood_idx g st v) (content st1 (flat g v)) 30 = Some st' ->
      ip_inv st'.
    Proof.
      intros (Hlen & Hsto & Hsp & Hinb) Hv Htc.
      destruct (try_cands_cases _ _ _ _ _ _ _ Htc) as [Hs | (c & Hc & Hacc & Hpl)].
      { subst st'. split; [exact Hlen | split; [exact Hsto | split; [exact Hsp | exact Hinb]]]. }
      (* the candidate lies in the voxel being processed *)
      unfold content in Hc.
      destruct (Hst1_stored _ _ Hc) as (Hcr & Hck).
      pose proof (flat_bounds g v Hv) as Hbv. pose proof (flat_bounds g _ Hcr) as Hbc.
      assert (Hvc : v = idx3 NumR Zfloor g (op_pos c)).
      { apply (flat_inj g); [exact Hv | exact Hcr | lia]. }
      assert (Hc_box : gp_in_box lo hi (op_pos c)).
      { apply Hst1_box. unfold ip_points. eapply nth_in_concat. exact Hc. }
      (* every stored point is far from the candidate *)
      assert (Hfar : forall q, In q (ip_points st) -> lmin * lmin <= sqd NumR (op_pos c) (op_pos q)).
      { intros q Hq.
        destruct (Rle_lt_dec (lmin * lmin) (sqd NumR (op_pos c) (op_pos q))) as [Hle | Hlt]; [exact Hle | exfalso].
        rewrite sqd_sym in Hlt.
        pose proof (sqd_close (op_pos c) (op_pos q) lmin Hlmin Hlt) as Hclose.
        destruct (in_concat_nth _ _ Hq) as (k & Hk).
        destruct (Hsto _ _ Hk) as (Hqr & Hqk).
        assert (Hqc : In q (content st (flat g (idx3 NumR Zfloor g (op_pos q))))).
        { unfold content. rewrite <- Hqk. exact Hk. }
        pose proof (nbh_complete opR eps lmin lo hi (op_pos c) (op_pos q) st q Heps Hlmin Hbox Hc_box
                      (Hinb q Hq) Hclose) as Hn.
        cbv zeta in Hn. specialize (Hn Hqc). unfold neighborhood in Hn. rewrite <- Hvc in Hn.
        pose proof (accept_true_all _ _ _ _ Hacc q Hn) as Hge. lra. }
      (* the placement *)
      pose proof Hpl as Hpl'. unfold place in Hpl'. rewrite Hcr in Hpl'. inversion Hpl' as [Hst']. clear Hpl'.
      set (n := Z.to_nat (flat g (idx3 NumR Zfloor g (op_pos c)))) in *.
      assert (Hn : (n < length st)%nat) by (unfold n; rewrite Hlen; lia).
      unfold place_id. fold n.
      assert (Hperm : Permutation (ip_points (upd st n (fun l => c :: l))) (c :: ip_points st)).
      { unfold ip_points. apply concat_upd_cons. exact Hn. }
      split; [| split; [| split]].
      - rewrite upd_length. exact Hlen.
      - intros k o Ho. destruct (Nat.eq_dec k n) as [Hkn | Hkn].
        + subst k. rewrite nth_upd_same in Ho by exact Hn. destruct Ho as [Ho | Ho].
          * subst o. split; [exact Hcr | reflexivity].
          * apply Hsto. exact Ho.
        + rewrite nth_upd_other in Ho by (intros E; apply Hkn; symmetry; exact E).
          apply Hsto. exact Ho.
      - unfold ip_spaced. eapply FOP_perm; [| apply Permutation_sym; exact Hperm |].
        + intros x y Hxy. rewrite sqd_sym. exact Hxy.
        + constructor; [| exact Hsp]. apply Forall_forall. exact Hfar.
      - intros o Ho. apply (Permutation_in _ Hperm) in Ho. destruct Ho as [Ho | Ho].
        + subst o. exact Hc_box.
        + apply Hinb. exact Ho.
    Qed.

    Lemma poisson_fold (l : list (Z * Z * Z)) : forall (st st' : storeR),
      (forall v, In v l -> in_range g v = true) -> ip_inv st ->
      fold_left (fun acc v => match acc with
                              | None => None
                              | Some s2 => try_cands NumR Zfloor g (lmin * lmin) s2 (neighborhood_idx g s2 v)
                                             (content st1 (flat g v)) 30
                              end) l (Some st) = Some st' ->
      ip_inv st'.
    Proof.
      induction l as [| v r IH]; intros st st' Hl Hinv H; cbn [fold_left] in H.
      - inversion H. subst st'. exact Hinv.
      - destruct (try_cands NumR Zfloor g (lmin * lmin) st (neighborhood_idx g st v) (content st1 (flat g v)) 30)
          as [s2 |] eqn:Et.
        + apply (IH s2 st'); [intros w Hw; apply Hl; right; exact Hw | | exact H].
          apply (poisson_step st s2 v Hinv); [apply Hl; left; reflexivity | exact Et].
        + exfalso. clear -H. induction r as [| w r IHr]; cbn [fold_left] in H; [discriminate | exact (IHr H)].
    Qed.

    Lemma poisson_inv (st2 st2' : storeR) :
      ip_inv st2 -> poisson NumR Zfloor g (lmin * lmin) st1 st2 = Some st2' -> ip_inv st2'.
    Proof.
      intros Hinv H. unfold poisson in H.
      apply (poisson_fold (all_voxels g) st2 st2'); [| exact Hinv | exact H].
      intros v Hv. apply in_all_voxels. exact Hv.
    Qed.
  End Run.

  Lemma poisson_spacing :
    forall (eps lmin : R) (lo hi : R * R * R) (st1 st2 st2' : storeR),
    0 <= eps -> 0 < lmin -> gp_box_ok lo hi ->
    let g := update_dimensions NumR Zceil eps lmin lo hi in
    (forall o, In o (ip_points st1) -> gp_in_box lo hi (op_pos o)) ->
    (forall o, In o (ip_points st2) -> gp_in_box lo hi (op_pos o)) ->
    ip_stored g st1 ->
    length st2 = Z.to_nat (nvox g) ->
    ip_stored g st2 -> ip_spaced (lmin * lmin) (ip_points st2) ->
    poisson NumR Zfloor g (lmin * lmin) st1 st2 = Some st2' ->
    ip_spaced (lmin * lmin) (ip_points st2') /\ ip_stored g st2'.
  Proof.
    intros eps lmin lo hi st1 st2 st2' Heps Hlmin Hbox g Hb1 Hb2 Hs1 Hlen Hs2 Hsp H.
    destruct (poisson_inv eps lmin lo hi st1 Heps Hlmin Hbox Hb1 Hs1 st2 st2') as (_ & Hsto & Hspaced & _).
    - split; [exact Hlen | split; [exact Hs2 | split; [exact Hsp | exact Hb2]]].
    - exact H.
    - split; [exact Hspaced | exact Hsto].
  Qed.

  Lemma poisson_spacing_empty :
    forall (eps lmin : R) (lo hi : R * R * R) (st1 st2' : storeR),
    0 <= eps -> 0 < lmin -> gp_box_ok lo hi ->
    let g := update_dimensions NumR Zceil eps lmin lo hi in
    (forall o, In o (ip_points st1) -> gp_in_box lo hi (op_pos o)) ->
    ip_stored g st1 ->
    poisson NumR Zfloor g (lmin * lmin) st1 (empty_store g) = Some st2' ->
    ip_spaced (lmin * lmin) (ip_points st2').
  Proof.
    intros eps lmin lo hi st1 st2' Heps Hlmin Hbox g Hb1 Hs1 H.
    assert (Hpts : ip_points (empty_store (A:=opR) g) = []).
    { unfold ip_points, empty_store. apply concat_repeat_nil. }
    apply (poisson_spacing eps lmin lo hi st1 (empty_store g) st2' Heps Hlmin Hbox Hb1); try exact Hs1; try exact H.
    - rewrite Hpts. intros o [].
    - unfold empty_store. apply repeat_length.
    - intros k o Ho. unfold empty_store in Ho. rewrite nth_repeat_default in Ho. destruct Ho.
    - rewrite Hpts. constructor.
  Qed.
End PoissonR.
