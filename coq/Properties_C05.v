(* Properties_C05.v — property C05: the point-to-triangle kernel returns the true closest point.
   Only statements; every proof is `exact <lemma of KernelProofs.v>`. *)
From Coq Require Import Reals Lra.
From SC Require Import Num Vec3 VecR Kernel Kernel_gen KernelProofs Rot.
Local Open Scope R_scope.

(* 0. THE MODEL IS THE SOURCE.  Kernel_gen.v is regenerated on every run from the body of
   contact_model_abstract::compute_node_triangle_distance (harness/translate_kernel.py: declarations and guarded returns,
   statement by statement, over an abstract number type).  The hand-written function of Kernel.v, about which everything below
   (and C06, C07) is stated, is syntactically that function, for every number type (reals for the theorems, binary64 for the
   runs): a change of the C++ kernel changes Kernel_gen.v and this proof no longer checks. *)
Theorem kernel_model_is_what_the_source_says : (kernel_translation_ok = true :> bool) /\
  forall (T : Type) (N : Num T) (p a b c : vec3 T), kernel_gen N p a b c = kernel N p a b c.
Proof. split; [reflexivity | intros; reflexivity]. Qed.
Print Assumptions kernel_model_is_what_the_source_says.

(* barycentric coordinates are non-negative ... *)
Theorem bary_nonneg : forall p a b c : vR, nondegenerate a b c ->
  let u := k_bary (kernel NumR p a b c) in 0 <= vx u /\ 0 <= vy u /\ 0 <= vz u.
Proof. exact bary_nonneg_. Qed.
Print Assumptions bary_nonneg.

(* ... and sum to one *)
Theorem bary_sum_one : forall p a b c : vR, nondegenerate a b c ->
  let u := k_bary (kernel NumR p a b c) in vx u + vy u + vz u = 1.
Proof. exact bary_sum_one_. Qed.
Print Assumptions bary_sum_one.

(* the squared distance returned is the squared distance to the point the coordinates designate *)
Theorem dist_is_dist_to_bary_point : forall p a b c : vR, nondegenerate a b c ->
  k_dist (kernel NumR p a b c) = sqn (p -v bary_point a b c (k_bary (kernel NumR p a b c))).
Proof. exact dist_bary_. Qed.
Print Assumptions dist_is_dist_to_bary_point.

(* that point is the closest point of the triangle: no point a + s(b-a) + t(c-a) of the triangle is nearer;
   all seven Voronoi regions, including the fall-through interior case *)
Theorem kernel_closest : forall p a b c : vR, nondegenerate a b c ->
  forall s t, 0 <= s -> 0 <= t -> s + t <= 1 ->
  k_dist (kernel NumR p a b c) <= sqn (p -v tri_point a b c s t).
Proof. exact closest_. Qed.
Print Assumptions kernel_closest.

(* distance, barycentric coordinates and region are unchanged by any rigid motion (orthogonal
   matrix, so rotations and reflections, plus any translation) applied to point and triangle together *)
Theorem kernel_equivariant : forall (M : mat3) (t p a b c : vR), orthogonal M ->
  kernel NumR (rigid M t p) (rigid M t a) (rigid M t b) (rigid M t c) = kernel NumR p a b c.
Proof. exact kernel_rigid. Qed.
Print Assumptions kernel_equivariant.

(* non-vacuity: a concrete non-degenerate triangle away from the origin, and the witness of the
   defect that the unfixed code had (base vertex added twice in the interior branch) *)
Example nondegenerate_witness : nondegenerate (mkv 1 1 0) (mkv 2 1 0) (mkv 1 2 0).
Proof. unfold nondegenerate. vunfold. cbn. lra. Qed.

(* WHAT THE REGENERATED CODE DOES: the central statement of C05 about the translated function itself (kernel_gen at R): no point of
   the triangle is closer to the query point than the distance it returns.  (kernel_gen and kernel are convertible: the proof is the
   model's.) *)
Theorem regenerated_kernel_returns_the_closest_point : forall p a b c : vR, nondegenerate a b c ->
  forall s t, 0 <= s -> 0 <= t -> s + t <= 1 ->
  k_dist (kernel_gen NumR p a b c) <= sqn (p -v tri_point a b c s t).
Proof. exact closest_. Qed.
Print Assumptions regenerated_kernel_returns_the_closest_point.
