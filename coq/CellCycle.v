(* CellCycle.v — growth, pressure, division trigger, removal (cell::update_target_volume, cell::update_pressure,
   epithelial_cell::is_ready_to_divide, cell::is_below_min_vol, cell::initialize_random_properties, the initial
   target volume set by the solver constructor, and the removal filter of solver::run_iteration). *)
From Coq Require Import ZArith Bool List.
From SC Require Import Num.
Import ListNotations.

Section CellCycle.
  Context {T : Type} (N : Num T) (L : Libm T).
  Notation "x + y" := (nadd N x y).
  Notation "x - y" := (nsub N x y).
  Notation "x * y" := (nmul N x y).
  Notation "x / y" := (ndiv N x y).
  Notation "x <? y" := (nltb N x y) (at level 70).
  Notation "x <=? y" := (nleb N x y) (at level 70).

  Definition three : T := nofZ N 3.

  (* target_volume_ += time_step * growth_rate_; if (target_volume_ < min_vol_) target_volume_ = min_vol_; *)
  Definition update_target_volume (dt g minvol vt : T) : T :=
    let v := vt + dt * g in if v <? minvol then minvol else v.

  (* pressure_ = - bulk_modulus_ * log(volume_ / target_volume_); if (pressure_ > max_pressure_) pressure_ = max_pressure_; *)
  Definition update_pressure (K pmax V vt : T) : T :=
    let p := (nneg N K) * llog L (V / vt) in if pmax <? p then pmax else p.

  (* one force phase of a cell that is subject to internal forces: (new target volume, new pressure) *)
  Definition cycle_step (dt g minvol K pmax V vt : T) : T * T :=
    let vt' := update_target_volume dt g minvol vt in (vt', update_pressure K pmax V vt').

  (* division trigger: epithelial cells (class 0) only *)
  Definition is_ready (cls : Z) (V vdiv : T) : bool := Z.eqb cls 0 && (vdiv <=? V).

  (* removal test *)
  Definition is_below (V minvol : T) : bool := V <? minvol.

  (* the +-3 sigma cap applied to a drawn value *)
  Definition clamp3 (avg sd x : T) : T :=
    let x1 := if (avg + three * sd) <? x then avg + three * sd else x in
    if x1 <? (avg - three * sd) then avg - three * sd else x1.

  (* growth rate: drawn iff std != 0 *)
  Definition growth_of (avg sd raw : T) : T := if neqb N sd (nzero N) then avg else clamp3 avg sd raw.
  (* division volume: drawn iff std != 0 and the mean is finite *)
  Definition divvol_of (avg_is_inf : bool) (avg sd raw : T) : T :=
    if neqb N sd (nzero N) || avg_is_inf then avg else clamp3 avg sd raw.

  (* solver constructor: target volume from the initial pressure, then update_pressure *)
  Definition initial_target (V p0 K : T) : T := V * lexp L (p0 / K).

  (* removal filter of run_iteration on (id, volume, min volume) triples *)
  Definition survivors {A} (cells : list (A * T * T)) : list (A * T * T) :=
    filter (fun c => negb (is_below (snd (fst c)) (snd c))) cells.
End CellCycle.
