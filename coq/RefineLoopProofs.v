(* RefineLoopProofs.v — theorems about the control of refine_mesh (RefineLoop.v), over R. *)
From Coq Require Import NArith ZArith Bool List Lia Reals Lra Permutation.
From SC Require Import Num Vec3 VecR Mesh MeshProofs Geometry GeometrySpec MeshOps MeshOpsSpec MeshOpsProofs MeshOpsPhysProofs RefineLoop.
Import ListNotations.

Notation loopR := (refine_loop NumR).

Definition result_of (o : outcome (T:=R)) : option (mstateR * nat * list op) :=
  match o with Returned st i ops _ => Some (st, i, ops) | Threw st i ops => Some (st, i, ops) | Diverged => None end.

(* ------------------------------------------------------------------ auxiliary: replay / guards over an append *)
Lemma replay_app (dynamic : bool) : forall (l1 l2 : list op) (st : mstateR),
  replay NumR dynamic st (l1 ++ l2) =
  match replay NumR dynamic st l1 with Some s => replay NumR dynamic s l2 | None => None end.
Proof.
  induction l1 as [|o l1 IH]; intros l2 st; cbn [app replay]; [reflexivity|].
  destruct (apply_op NumR dynamic st o); [apply IH | reflexivity].
Qed.

Lemma guards_ok_app (dynamic : bool) (lmin2 lmax2 : R) : forall (l1 l2 : list op) (st : mstateR),
  guards_ok NumR dynamic lmin2 lmax2 st (l1 ++ l2) =
  guards_ok NumR dynamic lmin2 lmax2 st l1 &&
  match replay NumR dynamic st l1 with Some s => guards_ok NumR dynamic lmin2 lmax2 s l2 | None => false end.
Proof.
  induction l1 as [|o l1 IH]; intros l2 st; cbn [app replay guards_ok]; [reflexivity|].
  destruct (apply_op NumR dynamic st o) as [st1|].
  - rewrite IH. apply andb_assoc.
  - rewrite !andb_false_r. reflexivity.
Qed.

(* what the decision of the loop says about the guard of the operation *)
Lemma decide_split (lmin2 lmax2 : R) (st : mstateR) (a b : N) :
  decide NumR lmin2 lmax2 st a b = DSplit -> forall e, guard_ok NumR lmin2 lmax2 st (OpSplit a b e) = true.
Proof.
  unfold decide. intros H e. cbn [guard_ok].
  destruct (negb (edge_exists (ms_faces st) a b)); [discriminate|].
  destruct (sq_len NumR st a b) as [l|]; [|discriminate].
  destruct (nltb NumR lmax2 l); [reflexivity|].
  destruct (nltb NumR l lmin2); [destruct (can_merge st a b)|]; discriminate.
Qed.

Lemma decide_merge (lmin2 lmax2 : R) (st : mstateR) (a b : N) :
  decide NumR lmin2 lmax2 st a b = DMerge -> forall i, guard_ok NumR lmin2 lmax2 st (OpMerge a b i) = true.
Proof.
  unfold decide. intros H i. cbn [guard_ok].
  destruct (negb (edge_exists (ms_faces st) a b)); [discriminate|].
  destruct (sq_len NumR st a b) as [l|]; [|discriminate].
  destruct (nltb NumR lmax2 l); [discriminate|].
  destruct (nltb NumR l lmin2); [|discriminate].
  destruct (can_merge st a b) eqn:Ec; [|discriminate].
  unfold can_merge in Ec. apply andb_true_iff in Ec. destruct Ec as [_ ->]. reflexivity.
Qed.

(* the invariant of the inner loop *)
Lemma loop_inv (dynamic : bool) (lmin2 lmax2 : R) (st0 : mstateR) :
  forall (script : list pop) (st : mstateR) (iter : nat) (acc : list op) (left : nat)
         (st' : mstateR) (iter' : nat) (ops : list op),
  replay NumR dynamic st0 (rev acc) = Some st ->
  guards_ok NumR dynamic lmin2 lmax2 st0 (rev acc) = true ->
  iter = length acc ->
  (forall o, In o acc -> is_split o = true \/ is_merge o = true) ->
  result_of (loop NumR dynamic lmin2 lmax2 st iter acc script left) = Some (st', iter', ops) ->
  replay NumR dynamic st0 ops = Some st' /\ guards_ok NumR dynamic lmin2 lmax2 st0 ops = true /\ iter' = length ops /\
  (forall o, In o ops -> is_split o = true \/ is_merge o = true).
Proof.
  induction script as [|p r IH]; intros st iter acc left st' iter' ops Hre Hg Hit Hsm Hres; cbn [loop] in Hres.
  - destruct (Nat.eqb left 0 || negb (Nat.ltb iter (nb_edges st))); [|discriminate].
    unfold after_loop in Hres.
    destruct (Nat.eqb iter (nb_edges st)); cbn [result_of] in Hres; injection Hres as <- <- <-;
      (repeat split; [exact Hre | exact Hg | rewrite rev_length; exact Hit | intros o Ho; apply Hsm; apply in_rev; exact Ho]).
  - destruct (Nat.ltb iter (nb_edges st)); [|discriminate].
    destruct (decide NumR lmin2 lmax2 st (p_a p) (p_b p)) eqn:Ed.
    + cbv zeta in Hres.
      destruct (apply_op NumR dynamic st (OpSplit (p_a p) (p_b p) (p_new p))) as [st1|] eqn:Eap; [|discriminate].
      apply (IH st1 (S iter) (OpSplit (p_a p) (p_b p) (p_new p) :: acc) left); try exact Hres.
      * cbn [rev]. rewrite replay_app, Hre. cbn [replay]. rewrite Eap. reflexivity.
      * cbn [rev]. rewrite guards_ok_app, Hg, Hre. cbn [guards_ok andb]. rewrite Eap.
        rewrite (decide_split _ _ _ _ _ Ed). reflexivity.
      * cbn [length]. f_equal. exact Hit.
      * intros o [<-|Ho]; [left; reflexivity | apply Hsm; exact Ho].
    + cbv zeta in Hres.
      destruct (apply_op NumR dynamic st (OpMerge (p_a p) (p_b p) (p_new p))) as [st1|] eqn:Eap; [|discriminate].
      apply (IH st1 (S iter) (OpMerge (p_a p) (p_b p) (p_new p) :: acc) left); try exact Hres.
      * cbn [rev]. rewrite replay_app, Hre. cbn [replay]. rewrite Eap. reflexivity.
      * cbn [rev]. rewrite guards_ok_app, Hg, Hre. cbn [guards_ok andb]. rewrite Eap.
        rewrite (decide_merge _ _ _ _ _ Ed). reflexivity.
      * cbn [length]. f_equal. exact Hit.
      * intros o [<-|Ho]; [right; reflexivity | apply Hsm; exact Ho].
    + apply (IH st iter acc left); assumption.
    + discriminate.
Qed.

(* L1: whatever the order of the pops, the loop is a replay of the operations it lists; each of them satisfied its guard
   when it fired (split: longer than l_max; collapse: shorter than l_min and link condition); only splits and collapses
   occur; the counter is the number of operations *)
Lemma loop_is_replay : forall (dynamic : bool) (lmin2 lmax2 : R) (st : mstateR) (script : list pop) (left : nat)
                              (st' : mstateR) (iter : nat) (ops : list op),
  result_of (loopR dynamic lmin2 lmax2 st script left) = Some (st', iter, ops) ->
  replay NumR dynamic st ops = Some st' /\ guards_ok NumR dynamic lmin2 lmax2 st ops = true /\ iter = length ops /\
  (forall o, In o ops -> is_split o = true \/ is_merge o = true).
Proof.
  intros dynamic lmin2 lmax2 st script left st' iter ops H. unfold refine_loop in H.
  apply (loop_inv dynamic lmin2 lmax2 st script st 0%nat [] left); try exact H; try reflexivity.
  intros o [].
Qed.

(* L2: a mesh whose edges all lie in the band is left completely unchanged, in any order of the work set, and nothing is
   thrown *)
Definition in_band (lmin2 lmax2 : R) (st : mstateR) : Prop :=
  forall a b l, edge_exists (ms_faces st) a b = true -> sq_len NumR st a b = Some l -> (lmin2 <= l <= lmax2)%R.
Lemma loop_fixpoint : forall (dynamic : bool) (lmin2 lmax2 : R) (st : mstateR) (script : list pop),
  in_band lmin2 lmax2 st -> (0 < nb_edges st)%nat ->
  (forall p, In p script -> edge_exists (ms_faces st) (p_a p) (p_b p) = true /\ exists l, sq_len NumR st (p_a p) (p_b p) = Some l) ->
  loopR dynamic lmin2 lmax2 st script 0 = Returned st 0 [] 0.
Proof.
  intros dynamic lmin2 lmax2 st script Hband Hpos. unfold refine_loop.
  induction script as [|p r IH]; intros Hs; cbn [loop].
  - cbn [Nat.eqb orb rev]. unfold after_loop.
    destruct (Nat.eqb_spec 0 (nb_edges st)) as [E|_]; [lia | reflexivity].
  - destruct (Nat.ltb_spec 0 (nb_edges st)) as [_|E]; [|lia].
    destruct (Hs p (or_introl eq_refl)) as [Hee [l Hl]].
    assert (Ed : decide NumR lmin2 lmax2 st (p_a p) (p_b p) = DNone).
    { unfold decide. rewrite Hee, Hl. cbn [negb].
      destruct (Hband _ _ _ Hee Hl) as [B1 B2].
      change (nltb NumR) with Rltb.
      rewrite (proj2 (Rltb_false lmax2 l) B2), (proj2 (Rltb_false l lmin2) B1). reflexivity. }
    rewrite Ed. apply IH. intros q Hq. apply Hs. right; exact Hq.
Qed.

(* ------------------------------------------------------------------ counting faces *)
(* V - E + F = 2 with 2E = 3F: F = 2V - 4 is even *)
Lemma faces_even (s : list ltri) : ValidSurface (tris s) -> exists k, length s = (2 * k)%nat.
Proof.
  intros [_ _ _ He]. unfold euler_ok, n_hedges in He. rewrite length_all_hedges in He.
  remember (n_vertices (tris s)) as V eqn:EV. clear EV.
  unfold tris in He. rewrite map_length in He. unfold ltri in *. exists (V - 2)%nat. lia.
Qed.

Lemma nb_even (k : nat) : Nat.div (3 * (2 * k)) 2 = (3 * k)%nat.
Proof. replace (3 * (2 * k))%nat with ((3 * k) * 2)%nat by lia. apply Nat.div_mul. discriminate. Qed.

Lemma split_length (s : list ltri) (a b e : N) :
  ValidSurface (tris s) -> In (a, b) (all_hedges (tris s)) -> length (split s a b e) = (length s + 2)%nat.
Proof.
  intros HV Hab.
  destruct (edge_nf s a b HV Hab)
    as (f1 & f2 & c & d & Ef1 & Ef2 & Ec & Ed & Ed' & D1 & D2' & D2 & PS & PH & Hrest & _).
  rewrite (Permutation_length PS). unfold split.
  rewrite (Permutation_length (Permutation_flat_map (split_tri a b e) PS)).
  cbn [flat_map]. rewrite !app_length.
  rewrite flat_map_singletons.
  2:{ intros [t ty] Hf. destruct (Hrest _ Hf) as (_ & X1 & X2). cbn [fst] in *.
      unfold split_tri. rewrite X1, X2. reflexivity. }
  destruct f1 as [t1 ty1], f2 as [t2 ty2]. cbn [fst snd] in *.
  unfold split_tri. rewrite D1, D2', D2. cbn [length]. lia.
Qed.

Lemma collapse_length (s : list ltri) (a b i : N) :
  ValidSurface (tris s) -> In (a, b) (all_hedges (tris s)) -> (length (collapse s a b i) + 2)%nat = length s.
Proof.
  intros HV Hab.
  destruct (edge_nf s a b HV Hab)
    as (f1 & f2 & c & d & Ef1 & Ef2 & Ec & Ed & Ed' & D1 & D2' & D2 & PS & _).
  rewrite (Permutation_length PS). unfold collapse. rewrite map_length. unfold rest_of. cbn [length]. lia.
Qed.

(* one operation *)
Lemma nb_edges_op (dynamic : bool) (st st' : mstateR) (o : op) :
  ValidSurface (tris (ms_faces st)) -> op_wf st o -> apply_op NumR dynamic st o = Some st' ->
  (is_split o = true -> nb_edges st' = nb_edges st + 3)%nat /\
  (is_merge o = true -> nb_edges st' + 3 = nb_edges st)%nat.
Proof.
  intros HV Hwf Hap. destruct (faces_even _ HV) as [k Hk].
  destruct o as [a b e|a b i|a b]; cbn [op_wf apply_op is_split is_merge] in *.
  - destruct Hwf as (Hab & _).
    destruct (nget (ms_nodes st) a) as [na|]; [|discriminate].
    destruct (nget (ms_nodes st) b) as [nb|]; [|discriminate].
    destruct (negb (edge_exists (ms_faces st) a b)); [discriminate|].
    injection Hap as <-. split; [intros _|discriminate].
    unfold nb_edges. cbn [ms_faces]. rewrite (split_length _ a b e HV Hab), Hk.
    replace (2 * k + 2)%nat with (2 * (k + 1))%nat by lia. rewrite !nb_even. lia.
  - destruct Hwf as (Hab & _).
    destruct (nget (ms_nodes st) a) as [na|]; [|discriminate].
    destruct (nget (ms_nodes st) b) as [nb|]; [|discriminate].
    destruct (negb (edge_exists (ms_faces st) a b)); [discriminate|].
    injection Hap as <-. split; [discriminate|intros _].
    unfold nb_edges. cbn [ms_faces]. pose proof (collapse_length _ a b i HV Hab) as Hl. rewrite Hk in Hl.
    replace (length (collapse (ms_faces st) a b i)) with (2 * (k - 1))%nat by lia.
    rewrite Hk, !nb_even. lia.
  - split; discriminate.
Qed.

(* L3: on a closed surface a split adds three edges and a collapse removes three *)
Lemma nb_edges_trace : forall (dynamic : bool) (ops : list op) (st st' : mstateR),
  ValidSurface (tris (ms_faces st)) -> trace_wf dynamic st ops -> replay NumR dynamic st ops = Some st' ->
  (forall o, In o ops -> is_split o = true \/ is_merge o = true) ->
  (nb_edges st' + 3 * nmerges ops = nb_edges st + 3 * nsplits ops)%nat.
Proof.
  intros dynamic ops. induction ops as [|o r IH]; intros st st' HV Hwf Hre Hsm; cbn [replay trace_wf] in Hwf, Hre.
  - injection Hre as <-. unfold nmerges, nsplits. cbn [filter length]. lia.
  - destruct Hwf as [Hop Hrest]. destruct (apply_op NumR dynamic st o) as [st1|] eqn:Eap; [|discriminate].
    pose proof (apply_op_valid dynamic st st1 o HV Hop Eap) as HV1.
    specialize (IH st1 st' HV1 Hrest Hre (fun o' Ho' => Hsm o' (or_intror Ho'))).
    destruct (nb_edges_op dynamic st st1 o HV Hop Eap) as [Hs Hm].
    unfold nmerges, nsplits in *. cbn [filter].
    destruct (Hsm o (or_introl eq_refl)) as [E|E].
    + assert (E' : is_merge o = false) by (destruct o; try discriminate; reflexivity).
      rewrite E, E'. cbn [length]. specialize (Hs E). lia.
    + assert (E' : is_split o = false) by (destruct o; try discriminate; reflexivity).
      rewrite E, E'. cbn [length]. specialize (Hm E). lia.
Qed.

(* how the loop is left *)
Lemma loop_end (dynamic : bool) (lmin2 lmax2 : R) :
  forall (script : list pop) (st : mstateR) (iter : nat) (acc : list op) (left : nat),
  match loop NumR dynamic lmin2 lmax2 st iter acc script left with
  | Threw st' i _ => i = nb_edges st'
  | Returned st' i _ l => l = left /\ i <> nb_edges st' /\ (left = 0%nat \/ (nb_edges st' <= i)%nat)
  | Diverged => True
  end.
Proof.
  induction script as [|p r IH]; intros st iter acc left; cbn [loop].
  - destruct (Nat.eqb_spec left 0) as [E0|E0]; cbn [orb].
    + unfold after_loop. destruct (Nat.eqb_spec iter (nb_edges st)) as [E|E]; [exact E|].
      repeat split; [exact E | left; exact E0].
    + destruct (Nat.ltb_spec iter (nb_edges st)) as [E1|E1]; cbn [negb]; [exact I|].
      unfold after_loop. destruct (Nat.eqb_spec iter (nb_edges st)) as [E|E]; [exact E|].
      repeat split; [exact E | right; exact E1].
  - destruct (Nat.ltb iter (nb_edges st)); [|exact I].
    destruct (decide NumR lmin2 lmax2 st (p_a p) (p_b p)); cbv zeta.
    + destruct (apply_op NumR dynamic st (OpSplit (p_a p) (p_b p) (p_new p))); [apply IH | exact I].
    + destruct (apply_op NumR dynamic st (OpMerge (p_a p) (p_b p) (p_new p))); [apply IH | exact I].
    + apply IH.
    + exact I.
Qed.

Lemma count_ops (ops : list op) :
  (forall o, In o ops -> is_split o = true \/ is_merge o = true) -> length ops = (nsplits ops + nmerges ops)%nat.
Proof.
  unfold nsplits, nmerges. induction ops as [|o r IH]; intros H; [reflexivity|].
  specialize (IH (fun o' Ho' => H o' (or_intror Ho'))).
  destruct o; cbn [filter is_split is_merge length].
  - lia.
  - lia.
  - destruct (H _ (or_introl eq_refl)); discriminate.
Qed.

(* L4: the exception of the loop ("the simulation is unstable") is raised exactly when 4 * collapses = E0 + 2 * splits *)
Lemma threw_arith : forall (dynamic : bool) (lmin2 lmax2 : R) (st : mstateR) (script : list pop) (left : nat)
                           (st' : mstateR) (iter : nat) (ops : list op),
  ValidSurface (tris (ms_faces st)) -> loopR dynamic lmin2 lmax2 st script left = Threw st' iter ops ->
  trace_wf dynamic st ops ->
  (4 * nmerges ops = nb_edges st + 2 * nsplits ops)%nat.
Proof.
  intros dynamic lmin2 lmax2 st script left st' iter ops HV Hl Hwf.
  destruct (loop_is_replay dynamic lmin2 lmax2 st script left st' iter ops) as (Hre & _ & Hit & Hsm).
  { rewrite Hl. reflexivity. }
  pose proof (loop_end dynamic lmin2 lmax2 script st 0%nat [] left) as He.
  unfold refine_loop in Hl. rewrite Hl in He.
  pose proof (nb_edges_trace dynamic ops st st' HV Hwf Hre Hsm) as Ht.
  pose proof (count_ops ops Hsm) as Hc. lia.
Qed.

(* L5: hence a pass without collapses never raises it, however many splits it performs: the guard
   `iteration < edge_set.size()` moves by three with every split and does not bound a cascade of splits.  (The clause
   "always returns after a bounded number of operations" of the property is therefore not enforced by the loop's own
   guard; what bounds a cascade is only the geometry: every split halves an edge.) *)
Lemma split_cascade_never_throws : forall (dynamic : bool) (lmin2 lmax2 : R) (st : mstateR) (script : list pop) (left : nat)
                                          (st' : mstateR) (iter : nat) (ops : list op),
  ValidSurface (tris (ms_faces st)) -> (0 < nb_edges st)%nat -> trace_wf dynamic st ops -> nmerges ops = 0%nat ->
  loopR dynamic lmin2 lmax2 st script left <> Threw st' iter ops.
Proof.
  intros dynamic lmin2 lmax2 st script left st' iter ops HV Hpos Hwf Hm Hl.
  pose proof (threw_arith dynamic lmin2 lmax2 st script left st' iter ops HV Hl Hwf) as H. lia.
Qed.

(* L6: the loop can also be left silently with edges still waiting (guard failed with iteration > edge count): only when
   collapses dominate *)
Lemma leftover_arith : forall (dynamic : bool) (lmin2 lmax2 : R) (st : mstateR) (script : list pop) (left : nat)
                              (st' : mstateR) (iter : nat) (ops : list op),
  ValidSurface (tris (ms_faces st)) -> loopR dynamic lmin2 lmax2 st script left = Returned st' iter ops left ->
  (0 < left)%nat -> trace_wf dynamic st ops ->
  (nb_edges st + 2 * nsplits ops < 4 * nmerges ops)%nat.
Proof.
  intros dynamic lmin2 lmax2 st script left st' iter ops HV Hl Hpos Hwf.
  destruct (loop_is_replay dynamic lmin2 lmax2 st script left st' iter ops) as (Hre & _ & Hit & Hsm).
  { rewrite Hl. reflexivity. }
  pose proof (loop_end dynamic lmin2 lmax2 script st 0%nat [] left) as He.
  unfold refine_loop in Hl. rewrite Hl in He. destruct He as (_ & Hne & Hor).
  pose proof (nb_edges_trace dynamic ops st st' HV Hwf Hre Hsm) as Ht.
  pose proof (count_ops ops Hsm) as Hc. lia.
Qed.

(* ------------------------------------------------------------------ bonus: the loop's own guard does not bound a cascade *)
(* With l_max^2 = 1 fixed there are closed meshes on which the loop performs any prescribed number n of operations
   without reporting anything: a tetrahedron 0 1 2 3 with node 0 at the origin and node 1 at (2^n, 0, 0); the script
   splits edge (0,1) by node 4, then (0,4) by 5, then (0,5) by 6, ...: the k-th new node sits at (2^(n-k), 0, 0). *)
Section Cascade.
Local Open Scope N_scope.

(* the face list after k splits: the two faces on the edge (0,x) first and last-but-two, A in between never touches 0 *)
Definition cas_faces (x : N) (A : list ltri) : list ltri :=
  ((0, x, 2), 0%nat) :: A ++ [((x, 0, 3), 0%nat); ((0, 2, 3), 0%nat); ((1, 3, 2), 0%nat)].

Definition no0 (f : ltri) : Prop := let '(a, b, c) := fst f in a <> 0 /\ b <> 0 /\ c <> 0.

Fixpoint cas_script (m : nat) (x e : N) : list pop :=
  match m with O => [] | S m' => mkpop 0 x e :: cas_script m' e (e + 1) end.

Lemma split_no0 (x e : N) (A : list ltri) : Forall no0 A -> flat_map (split_tri 0 x e) A = A.
Proof.
  intros H. apply flat_map_singletons. intros [[[a b] c] ty] Hf. rewrite Forall_forall in H.
  destruct (H _ Hf) as (Ha & Hb & Hc). cbn [fst] in *.
  unfold split_tri, has_dir.
  rewrite (proj2 (N.eqb_neq a 0) Ha), (proj2 (N.eqb_neq b 0) Hb), (proj2 (N.eqb_neq c 0) Hc).
  cbn [andb orb]. rewrite !andb_false_r. reflexivity.
Qed.

Lemma split_cas (x e : N) (A : list ltri) : x <> 0 -> x <> 2 -> x <> 3 -> Forall no0 A ->
  split (cas_faces x A) 0 x e = cas_faces e (((e, x, 2), 0%nat) :: A ++ [((x, e, 3), 0%nat)]).
Proof.
  intros N0 N2 N3 HA. unfold split, cas_faces. cbn [flat_map]. rewrite flat_map_app, (split_no0 x e A HA).
  cbn [flat_map]. unfold split_tri, has_dir, third.
  assert (E0 : (x =? 0) = false) by (apply N.eqb_neq; exact N0).
  assert (E0' : (0 =? x) = false) by (apply N.eqb_neq; congruence).
  assert (E2 : (2 =? x) = false) by (apply N.eqb_neq; congruence).
  assert (E3 : (3 =? x) = false) by (apply N.eqb_neq; congruence).
  rewrite ?E0, ?E0', ?E2, ?E3, ?N.eqb_refl.
  destruct (1 =? x); cbn [N.eqb Pos.eqb andb orb negb app]; rewrite <- !app_assoc; cbn [app]; reflexivity.
Qed.

Lemma cas_edge (x : N) (A : list ltri) : x <> 0 -> edge_exists (cas_faces x A) 0 x = true.
Proof.
  intros N0. unfold edge_exists, cas_faces. cbn [existsb fst]. unfold has_uedge.
  assert (E0' : (0 =? x) = false) by (apply N.eqb_neq; congruence).
  rewrite E0', !N.eqb_refl. cbn [negb andb orb]. rewrite orb_true_r. reflexivity.
Qed.

Lemma cas_nb_edges (x : N) (A : list ltri) (nodes : nmapR) (iter : nat) :
  (iter <= length A)%nat -> (iter < nb_edges (mkms (cas_faces x A) nodes))%nat.
Proof.
  intros H. unfold nb_edges. cbn [ms_faces]. unfold cas_faces. cbn [length]. rewrite app_length. cbn [length].
  apply (Nat.div_le_lower_bound _ 2 (S iter)); [discriminate | lia].
Qed.

Lemma cas_decide (x : N) (A : list ltri) (nodes : nmapR) (n0 nx : nstateR) (c : R) :
  x <> 0 -> nget nodes 0 = Some n0 -> ns_pos n0 = (mkv 0 0 0)%R -> nget nodes x = Some nx -> ns_pos nx = (mkv c 0 0)%R ->
  (2 <= c)%R -> decide NumR 0%R 1%R (mkms (cas_faces x A) nodes) 0 x = DSplit.
Proof.
  intros N0 G0 P0 Gx Px Hc. unfold decide. cbn [ms_faces]. rewrite (cas_edge x A N0). cbn [negb].
  unfold sq_len. cbn [ms_nodes]. rewrite G0, Gx, P0, Px.
  change (nltb NumR) with Rltb.
  assert (E : Rltb 1 (vsqnorm NumR (vsub NumR ((mkv 0 0 0)%R) ((mkv c 0 0)%R))) = true).
  { apply Rltb_true. unfold vsqnorm, vsub. cbn. nra. }
  rewrite E. reflexivity.
Qed.

Lemma cas_apply (x e : N) (A : list ltri) (nodes : nmapR) (n0 nx : nstateR) (c : R) :
  x <> 0 -> x <> 2 -> x <> 3 -> e <> 0 -> Forall no0 A ->
  nget nodes 0 = Some n0 -> ns_pos n0 = (mkv 0 0 0)%R -> nget nodes x = Some nx -> ns_pos nx = (mkv c 0 0)%R ->
  exists (nodes' : nmapR) (n0' ne : nstateR),
    apply_op NumR true (mkms (cas_faces x A) nodes) (OpSplit 0 x e) =
      Some (mkms (cas_faces e (((e, x, 2), 0%nat) :: A ++ [((x, e, 3), 0%nat)])) nodes') /\
    nget nodes' 0 = Some n0' /\ ns_pos n0' = (mkv 0 0 0)%R /\ nget nodes' e = Some ne /\ ns_pos ne = (mkv (c / 2) 0 0)%R.
Proof.
  intros N0 N2 N3 Ne HA G0 P0 Gx Px.
  eexists. eexists. eexists. split.
  - cbn [apply_op ms_nodes ms_faces]. rewrite G0, Gx, (cas_edge x A N0). cbn [negb].
    rewrite (split_cas x e A N0 N2 N3 HA). reflexivity.
  - assert (E0e : (0 =? e) = false) by (apply N.eqb_neq; congruence).
    assert (E0x : (0 =? x) = false) by (apply N.eqb_neq; congruence).
    rewrite !nget_nset, E0e, E0x, !N.eqb_refl.
    split; [reflexivity|]. split; [exact P0|]. split; [reflexivity|].
    cbn [ns_pos]. rewrite P0, Px. unfold midpoint, vscale, vadd, chalf. cbn. f_equal; lra.
Qed.

Lemma cascade : forall (m : nat) (x e : N) (A : list ltri) (nodes : nmapR) (n0 nx : nstateR) (c : R)
                       (iter : nat) (acc : list op),
  x <> 0 -> x <> 2 -> x <> 3 -> 4 <= e -> Forall no0 A ->
  nget nodes 0 = Some n0 -> ns_pos n0 = (mkv 0 0 0)%R -> nget nodes x = Some nx -> ns_pos nx = (mkv c 0 0)%R ->
  (2 ^ m <= c)%R -> (iter <= length A)%nat ->
  exists (st' : mstateR) (ops : list op),
    loop NumR true 0%R 1%R (mkms (cas_faces x A) nodes) iter acc (cas_script m x e) 0 = Returned st' (iter + m) ops 0 /\
    length ops = (length acc + m)%nat.
Proof.
  induction m as [|m IH]; intros x e A nodes n0 nx c iter acc N0 N2 N3 He HA G0 P0 Gx Px Hc Hit;
    cbn [cas_script loop p_a p_b p_new].
  - cbn [Nat.eqb orb]. unfold after_loop.
    pose proof (cas_nb_edges x A nodes iter Hit) as Hlt.
    destruct (Nat.eqb_spec iter (nb_edges (mkms (cas_faces x A) nodes))) as [E|_]; [lia|].
    exists (mkms (cas_faces x A) nodes), (rev acc). rewrite rev_length, !Nat.add_0_r. split; reflexivity.
  - pose proof (cas_nb_edges x A nodes iter Hit) as Hlt. apply Nat.ltb_lt in Hlt. rewrite Hlt.
    assert (H1 : (1 <= 2 ^ m)%R) by (apply pow_R1_Rle; lra).
    assert (Hc2 : (2 <= c)%R) by (cbn [pow] in Hc; lra).
    rewrite (cas_decide x A nodes n0 nx c N0 G0 P0 Gx Px Hc2). cbv zeta.
    assert (Ne : e <> 0) by lia.
    destruct (cas_apply x e A nodes n0 nx c N0 N2 N3 Ne HA G0 P0 Gx Px) as (nodes' & n0' & ne & Eap & G0' & P0' & Ge & Pe).
    rewrite Eap.
    destruct (IH e (e + 1) (((e, x, 2), 0%nat) :: A ++ [((x, e, 3), 0%nat)]) nodes' n0' ne (c / 2)%R (S iter)
                 (OpSplit 0 x e :: acc)) as (st' & ops & Hl & Hlen); try assumption; try lia.
    + constructor; [cbn; repeat split; (congruence || discriminate)|].
      apply Forall_app. split; [exact HA|]. constructor; [|constructor]. cbn. repeat split; (congruence || discriminate).
    + cbn [pow] in Hc. lra.
    + cbn [length]. rewrite app_length. cbn [length]. lia.
    + exists st', ops. split.
      * rewrite Hl. f_equal. lia.
      * rewrite Hlen. cbn [length]. lia.
Qed.

Lemma unbounded_operations : forall n : nat, exists (st : mstateR) (script : list pop),
  ValidSurface (tris (ms_faces st)) /\
  exists (st' : mstateR) (ops : list op), loopR true 0%R 1%R st script 0 = Returned st' n ops 0 /\ length ops = n.
Proof.
  intros n.
  set (z := mkv 0%R 0%R 0%R).
  set (nodes := [(0, mkns z z); (1, mkns (mkv (2 ^ n)%R 0%R 0%R) z); (2, mkns (mkv 0%R 1%R 0%R) z); (3, mkns (mkv 0%R 0%R 1%R) z)] : nmapR).
  exists (mkms (cas_faces 1 []) nodes), (cas_script n 1 4). split.
  - cbn [ms_faces]. apply valid_surface_b_spec. vm_compute. reflexivity.
  - unfold refine_loop.
    destruct (cascade n 1 4 [] nodes (mkns z z) (mkns (mkv (2 ^ n)%R 0%R 0%R) z) (2 ^ n)%R 0%nat [])
      as (st' & ops & Hl & Hlen); try discriminate; try reflexivity.
    + constructor.
    + lra.
    + exists st', ops. split; [exact Hl | exact Hlen].
Qed.
End Cascade.

Print Assumptions loop_is_replay.
Print Assumptions loop_fixpoint.
Print Assumptions threw_arith.
Print Assumptions split_cascade_never_throws.
Print Assumptions unbounded_operations.
