(* IntegratorSpec.v — what property C03 says, independent of the loop in Integrator.step:
   well-formedness of a population (imported from C08: list index = local id, couplings mutual and live,
   none ending in a static cell) and the per-node result the law prescribes. *)
From Coq Require Import Reals ZArith Bool List Lia.
From SC Require Import Num Vec3 VecR Integrator.
Import ListNotations.
Local Open Scope R_scope.

Notation inodeR := (inode R).
Notation icellR := (icell R).
Notation stateR := (state R).
Notation dnodeR := (dnode NumR).
Notation dcellR := (dcell NumR).

Definition node_at (s : stateR) (g : nat) : inodeR := nth g (s_nodes s) dnodeR.
Definition cell_of (s : stateR) (n : inodeR) : icellR := nth (n_cell n) (s_cells s) dcellR.
Definition integrated (s : stateR) (n : inodeR) : bool := negb (c_static (cell_of s n)) && n_used n.

Definition WF (s : stateR) : Prop :=
  (forall g, (g < length (s_nodes s))%nat -> (n_cell (node_at s g) < length (s_cells s))%nat) /\
  (forall c, (c < length (s_cells s))%nat -> c_local (nth c (s_cells s) dcellR) = c) /\
  (forall g h, (g < length (s_nodes s))%nat -> integrated s (node_at s g) = true ->
     n_cpl (node_at s g) = Some h ->
     (h < length (s_nodes s))%nat /\ n_cpl (node_at s h) = Some g /\
     n_cell (node_at s h) <> n_cell (node_at s g) /\ integrated s (node_at s h) = true).

(* the node the law prescribes for global index g after one step (contact model 1) *)
Definition final1 (over : bool) (dt damping : R) (s : stateR) (g : nat) : inodeR :=
  let n := node_at s g in
  if integrated s n then
    match n_cpl n with
    | None => upd_single NumR over dt damping (c_mass (cell_of s n)) n
    | Some h =>
        let m := node_at s h in
        if Nat.ltb (n_cell m) (n_cell n)
        then fst (upd_pair NumR over dt damping (c_mass (cell_of s n)) (c_mass (cell_of s m)) n m)
        else snd (upd_pair NumR over dt damping (c_mass (cell_of s m)) (c_mass (cell_of s n)) m n)
    end
  else n.

(* contact model 0: couplings do not exist *)
Definition final0 (over : bool) (dt damping : R) (s : stateR) (g : nat) : inodeR :=
  let n := node_at s g in
  if integrated s n then upd_single NumR over dt damping (c_mass (cell_of s n)) n else n.
