(* IterationProofs.v — theorems about the composition of the phases of one iteration (Iteration.v), for the order
   `documented_order` (which Properties_C08/C19 show equal to the order read from the source). *)
From Coq Require Import NArith Arith Bool List Lia.
From SC Require Import Population PopulationSpec PopulationProofs IterationDefs Iteration.
Import ListNotations.

(* the population the middle of the iteration works on: after the divider (when it runs), before the removals *)
Definition divider_runs (inp : inputs) (s : istate) : bool := negb (in_tmp inp) && Nat.eqb (Nat.modulo (i_iter s) 5) 0.
Definition mid_pop (inp : inputs) (s : istate) : pop := if divider_runs inp s then divide (in_div inp) (i_pop s) else i_pop s.


(* ---- auxiliary: one iteration in closed form ---- *)
Lemma fl_cons : forall (A B : Type) (f : A -> B -> A) (x : B) (l : list B) (a : A),
  fold_left f (x :: l) a = fold_left f l (f a x).
Proof. reflexivity. Qed.

Lemma exec_phase_eq : forall inp s e, exec_phase inp s e =
  if negb (enabled e inp (i_iter s)) then s else
  match pe_phase e with
  | PSave => log (ESave (i_iter s) (ids (i_pop s))) s
  | PDivide => set_pop (divide (in_div inp) (i_pop s)) s
  | PContact => log (EUse PContact (i_iter s) (p_cells (i_pop s))) s
  | PAutoPolarize => s
  | PPolarize => log (EUse PPolarize (i_iter s) (p_cells (i_pop s))) s
  | PIntegrate => let s1 := log (EUse PIntegrate (i_iter s) (p_cells (i_pop s))) s in
                  log (EStep (i_iter s)) (mkis (i_pop s1) (i_iter s1) (S (i_steps s1)) (i_log s1))
  | PStats => log (EStats (i_iter s) (ids (i_pop s))) s
  | PRemove => set_pop (erase (in_below inp) (i_pop s)) s
  | PRenumber => set_pop (renumber_pop (i_pop s)) s
  | PCount => mkis (i_pop s) (S (i_iter s)) (i_steps s) (i_log s)
  | PFaceTypes | PRefine | PForces => s
  end.
Proof. reflexivity. Qed.

Ltac phase_step E5 E50 :=
  rewrite fl_cons; rewrite exec_phase_eq; unfold enabled, log, set_pop;
  cbn [pe_phase pe_not_tmp pe_period negb orb andb i_iter i_pop i_steps i_log in_tmp in_div in_below];
  rewrite ?E5, ?E50;
  cbn [pe_phase pe_not_tmp pe_period negb orb andb i_iter i_pop i_steps i_log in_tmp in_div in_below].

Lemma iteration_eq : forall (inp : inputs) (s : istate),
  run_iteration documented_order inp s =
  mkis (remove (in_below inp) (mid_pop inp s)) (S (i_iter s)) (S (i_steps s))
    ((if Nat.eqb (Nat.modulo (i_iter s) 50) 0 then [EStats (i_iter s) (ids (mid_pop inp s))] else []) ++
     [EStep (i_iter s); EUse PIntegrate (i_iter s) (p_cells (mid_pop inp s)); EUse PPolarize (i_iter s) (p_cells (mid_pop inp s));
      EUse PContact (i_iter s) (p_cells (mid_pop inp s))] ++
     (if negb (in_tmp inp) then [ESave (i_iter s) (ids (i_pop s))] else []) ++ i_log s).
Proof.
  intros [dv bl tmp] [p it st lg].
  unfold run_iteration, documented_order, mid_pop, divider_runs.
  cbn [i_iter i_pop i_steps i_log in_tmp in_div in_below].
  destruct tmp; destruct (Nat.eqb (Nat.modulo it 5) 0) eqn:E5; destruct (Nat.eqb (Nat.modulo it 50) 0) eqn:E50;
    cbn [negb andb app];
    do 12 (phase_step E5 E50);
    cbn [fold_left]; reflexivity.
Qed.

Lemma uses_ok_app : forall a b, uses_ok (a ++ b) = uses_ok a && uses_ok b.
Proof.
  induction a as [|e a IH]; intro b; cbn [app uses_ok]; [reflexivity|].
  destruct e; rewrite IH; try reflexivity. rewrite andb_assoc. reflexivity.
Qed.

Lemma popinv_locals : forall p, PopInv p -> locals_ok (p_cells p) 0 = true.
Proof.
  intros p [H _]. apply locals_ok_spec. intros j c Hn. cbn [Nat.add]. apply H. exact Hn.
Qed.


(* I1: the population after one iteration is the bookkeeping of Population.v: the divisions (when the divider runs), then
   the removals (erase + renumber = Population.remove) *)
Lemma iteration_population : forall (inp : inputs) (s : istate),
  i_pop (run_iteration documented_order inp s) = remove (in_below inp) (mid_pop inp s).
Proof. intros inp s. rewrite iteration_eq. reflexivity. Qed.

(* I2: what one iteration records, newest first: the statistics record (every 50th iteration) lists the cells alive after
   the divisions and before the removals; the three phases that dereference stored list indices see that same population;
   the mesh files (not on a temporary step) list the cells alive before the divisions *)
Lemma iteration_log : forall (inp : inputs) (s : istate),
  i_log (run_iteration documented_order inp s) =
    (if Nat.eqb (Nat.modulo (i_iter s) 50) 0 then [EStats (i_iter s) (ids (mid_pop inp s))] else []) ++
    [EStep (i_iter s); EUse PIntegrate (i_iter s) (p_cells (mid_pop inp s)); EUse PPolarize (i_iter s) (p_cells (mid_pop inp s));
     EUse PContact (i_iter s) (p_cells (mid_pop inp s))] ++
    (if negb (in_tmp inp) then [ESave (i_iter s) (ids (i_pop s))] else []) ++ i_log s.
Proof. intros inp s. rewrite iteration_eq. reflexivity. Qed.

(* I3: counters: exactly one time step and one iteration *)
Lemma iteration_counters : forall (inp : inputs) (s : istate),
  i_iter (run_iteration documented_order inp s) = S (i_iter s) /\ i_steps (run_iteration documented_order inp s) = S (i_steps s).
Proof. intros inp s. rewrite iteration_eq. split; reflexivity. Qed.

(* inputs that designate existing cells whenever the divider runs *)
Definition inputs_ok_at (inp : inputs) (s : istate) : Prop :=
  divider_runs inp s = true -> event_ok (i_pop s) (EvDivide (in_div inp)).
Fixpoint inputs_all_ok (inps : list inputs) (s : istate) : Prop :=
  match inps with [] => True | i :: r => inputs_ok_at i s /\ inputs_all_ok r (run_iteration documented_order i s) end.

Lemma mid_pop_inv : forall inp s, PopInv (i_pop s) -> inputs_ok_at inp s -> PopInv (mid_pop inp s).
Proof.
  intros inp s Hinv Hok. unfold mid_pop. unfold inputs_ok_at in Hok.
  destruct (divider_runs inp s); [|exact Hinv].
  exact (step_inv (i_pop s) (EvDivide (in_div inp)) Hinv (Hok eq_refl)).
Qed.

Lemma iteration_step_ok : forall inp s, PopInv (i_pop s) -> uses_ok (i_log s) = true -> inputs_ok_at inp s ->
  PopInv (i_pop (run_iteration documented_order inp s)) /\ uses_ok (i_log (run_iteration documented_order inp s)) = true.
Proof.
  intros inp s Hinv Hlog Hok.
  pose proof (mid_pop_inv inp s Hinv Hok) as Hmid.
  split.
  - rewrite iteration_population.
    exact (step_inv (mid_pop inp s) (EvRemove (in_below inp)) Hmid I).
  - rewrite iteration_log. rewrite !uses_ok_app.
    pose proof (popinv_locals _ Hmid) as Hl.
    cbn [uses_ok]. rewrite Hl, Hlog.
    destruct (Nat.eqb (Nat.modulo (i_iter s) 50) 0); destruct (negb (in_tmp inp)); reflexivity.
Qed.

(* stated for a generic order: with `documented_order` the conversion test would try to evaluate the twelve phases *)
Lemma run_iterations_cons : forall o i r s, run_iterations o (i :: r) s = run_iterations o r (run_iteration o i s).
Proof. reflexivity. Qed.

(* I4: across any number of iterations with any history of divisions and removals, the invariant of C08 holds between
   iterations, and EVERY phase that dereferences stored list indices ran on a population whose list indices were the
   positions *)
Lemma uses_see_positions : forall (inps : list inputs) (s : istate),
  PopInv (i_pop s) -> uses_ok (i_log s) = true -> inputs_all_ok inps s ->
  PopInv (i_pop (run_iterations documented_order inps s)) /\ uses_ok (i_log (run_iterations documented_order inps s)) = true.
Proof.
  induction inps as [|inp r IH]; intros s Hinv Hlog Hok; [split; assumption|].
  destruct Hok as [Hok Hrest].
  destruct (iteration_step_ok inp s Hinv Hlog Hok) as [H1 H2].
  rewrite run_iterations_cons.
  exact (IH (run_iteration documented_order inp s) H1 H2 Hrest).
Qed.

(* I5: a cell found below its minimum volume by the force phase is not in the population when the next iteration starts,
   and never comes back *)
Lemma below_min_cells_gone : forall (inp : inputs) (s : istate) (i : N),
  In i (in_below inp) -> ~ In i (ids (i_pop (run_iteration documented_order inp s))).
Proof.
  intros inp s i Hin H. rewrite iteration_population in H.
  unfold remove, ids in H. cbn [p_cells] in H. rewrite renumber_ids in H.
  apply in_map_iff in H. destruct H as [c [Hc Hf]].
  apply filter_In in Hf. destruct Hf as [_ Hf].
  apply negb_true_iff in Hf.
  assert (Hex : existsb (N.eqb (p_id c)) (in_below inp) = true).
  { apply existsb_exists. exists i. split; [exact Hin|]. rewrite Hc. apply N.eqb_refl. }
  rewrite Hex in Hf. discriminate.
Qed.

(* I6: the order matters: recording the statistics AFTER the removal (the two entries exchanged) gives another record on a
   population in which a cell is removed on a recorded iteration *)
Definition stats_after_removal : list phase_entry :=
  [ mkpe PSave true 0; mkpe PDivide true 5; mkpe PFaceTypes false 0; mkpe PRefine false 0; mkpe PContact false 0;
    mkpe PPolarize false 0; mkpe PForces false 0; mkpe PIntegrate false 0; mkpe PRemove false 0; mkpe PStats false 50;
    mkpe PRenumber false 0; mkpe PCount false 0 ].
Lemma order_matters :
  i_log (run_iteration stats_after_removal (mkin [] [1%N] false) (init_state 3)) <>
  i_log (run_iteration documented_order (mkin [] [1%N] false) (init_state 3)).
Proof. intro H. vm_compute in H. discriminate. Qed.

Print Assumptions iteration_log.
Print Assumptions uses_see_positions.
