(* DividerProofs.v — proofs about the deterministic geometric stages of cell_divider (model: Divider.v) over R:
   the edge/plane intersection, the subdivision of a cut face, the volume bookkeeping of the two daughters, and the
   quaternion rotation to the xy plane (with its degenerate axis). *)
From Coq Require Import Reals Lra Lia Psatz Nsatz Arith Bool List.
From SC Require Import Num Vec3 VecR Geometry Divider.
Import ListNotations.
Local Open Scope R_scope.

(* ------------------------------------------------------------------ find_edge_plane_intersection *)
Lemma edge_plane_sound : forall e1 e2 p n x : vR,
  edge_plane NumR e1 e2 p n = Some x ->
  exists t, 0 <= t <= 1 /\ x = e1 +v (e2 -v e1) *v t /\ n ·  (x -v p) = 0.
Proof.
  intros e1 e2 p n x. unfold edge_plane. cbn [neqb nltb ndiv nzero none_ NumR].
  set (d1 := n ·  (p -v e1)). set (d2 := n ·  (e2 -v e1)).
  destruct (Reqb_spec d2 0) as [Hz|Hnz]; [discriminate|].
  destruct (Rltb_spec (d1 / d2) 0) as [H0|H0]; [discriminate|].
  destruct (Rltb_spec 1 (d1 / d2)) as [H1|H1]; [discriminate|].
  cbn [orb]. intros Hx. injection Hx as Hx. subst x.
  exists (d1 / d2). split; [lra|]. split; [reflexivity|].
  assert (Ht : d1 / d2 * d2 = d1) by (field; exact Hnz).
  set (t := d1 / d2) in *. clearbody t.
  replace (n ·  (e1 +v (e2 -v e1) *v t -v p)) with (t * d2 - d1); [lra|].
  unfold d1, d2. clear. vunfold. ring.
Qed.

Lemma unit_interval_of_products (d1 d2 : R) : d2 <> 0 -> 0 <= d1 * d2 -> 0 <= (d2 - d1) * d2 -> 0 <= d1 / d2 <= 1.
Proof.
  intros Hnz Ha Hb.
  assert (Hsq : 0 < d2 * d2).
  { destruct (Rtotal_order d2 0) as [Hn|[He|Hp]]; [|contradiction|].
    - replace (d2 * d2) with ((- d2) * (- d2)) by ring. apply Rmult_lt_0_compat; lra.
    - apply Rmult_lt_0_compat; lra. }
  assert (Hi : 0 < / (d2 * d2)) by (apply Rinv_0_lt_compat; exact Hsq).
  assert (E1 : d1 / d2 = (d1 * d2) * / (d2 * d2)) by (field; exact Hnz).
  assert (E2 : 1 - d1 / d2 = ((d2 - d1) * d2) * / (d2 * d2)) by (field; exact Hnz).
  assert (P1 : 0 <= (d1 * d2) * / (d2 * d2)) by (apply Rmult_le_pos; lra).
  assert (P2 : 0 <= ((d2 - d1) * d2) * / (d2 * d2)) by (apply Rmult_le_pos; lra).
  lra.
Qed.

Lemma edge_plane_complete : forall e1 e2 p n : vR,
  (n ·  (e1 -v p)) * (n ·  (e2 -v p)) < 0 -> exists x, edge_plane NumR e1 e2 p n = Some x.
Proof.
  intros e1 e2 p n. unfold edge_plane. cbn [neqb nltb ndiv nzero none_ NumR].
  set (A := n ·  (e1 -v p)). set (B := n ·  (e2 -v p)).
  assert (E1 : n ·  (p -v e1) = - A) by (unfold A; clear; vunfold; ring).
  assert (E2 : n ·  (e2 -v e1) = B - A) by (unfold A, B; clear; vunfold; ring).
  rewrite E1, E2. clearbody A B. intros HAB.
  assert (HAA : 0 <= A * A) by apply Rle_0_sqr.
  assert (HBB : 0 <= B * B) by apply Rle_0_sqr.
  assert (Hnz : B - A <> 0).
  { intros He. assert (B = A) by lra. subst B. lra. }
  assert (Ht : 0 <= - A / (B - A) <= 1).
  { apply unit_interval_of_products; [exact Hnz| |].
    - replace (- A * (B - A)) with (A * A - A * B) by ring. lra.
    - replace ((B - A - - A) * (B - A)) with (B * B - A * B) by ring. lra. }
  destruct (Reqb_spec (B - A) 0) as [Hz|_]; [contradiction|].
  destruct (Rltb_spec (- A / (B - A)) 0) as [H0|_]; [lra|].
  destruct (Rltb_spec 1 (- A / (B - A))) as [H1|_]; [lra|].
  cbn [orb]. eexists. reflexivity.
Qed.

(* ------------------------------------------------------------------ create_daughter_cells: volumes *)
Lemma ssv_acc (l : list (vR * vR * vR)) (acc : R) :
  fold_left (fun v p => v + vol_term NumR p) l acc = acc + six_signed_volume NumR l.
Proof.
  unfold six_signed_volume. cbn [nadd nzero NumR].
  revert acc. induction l as [|t l IH]; intros acc; cbn [fold_left].
  - ring.
  - rewrite (IH (acc + vol_term NumR t)), (IH (0 + vol_term NumR t)). ring.
Qed.

Lemma ssv_app (l1 l2 : list (vR * vR * vR)) :
  six_signed_volume NumR (l1 ++ l2) = six_signed_volume NumR l1 + six_signed_volume NumR l2.
Proof.
  unfold six_signed_volume at 1. cbn [nadd nzero NumR]. rewrite fold_left_app.
  fold (six_signed_volume NumR l1) . rewrite ssv_acc.
  change (fold_left (fun v p => v + vol_term NumR p) l1 0) with (six_signed_volume NumR l1). reflexivity.
Qed.

Lemma vol_term_flip (t : vR * vR * vR) : vol_term NumR (flip t) = - vol_term NumR t.
Proof.
  destruct t as [[a b] c]. unfold flip, vol_term.
  cbn [vx vy vz nadd nsub nmul nneg NumR]. ring.
Qed.

Lemma ssv_map_flip (l : list (vR * vR * vR)) : six_signed_volume NumR (map flip l) = - six_signed_volume NumR l.
Proof.
  induction l as [|t l IH].
  - unfold six_signed_volume. cbn. ring.
  - change (map flip (t :: l)) with ([flip t] ++ map flip l). change (t :: l) with ([t] ++ l).
    rewrite !ssv_app, IH. unfold six_signed_volume at 1 3. cbn [fold_left nadd nzero NumR].
    rewrite vol_term_flip. ring.
Qed.

Lemma daughters_volume_sum : forall side1 side2 iface : list (vR * vR * vR),
  let d := daughters side1 side2 iface in
  six_signed_volume NumR (fst d) + six_signed_volume NumR (snd d) = six_signed_volume NumR (side1 ++ side2).
Proof.
  intros side1 side2 iface. unfold daughters. cbn [fst snd].
  rewrite !ssv_app, ssv_map_flip. ring.
Qed.

(* ------------------------------------------------------------------ divide_faces on a cut triangle *)
Fixpoint rotl {A} (k : nat) (l : list A) : list A :=
  match k with O => l | S k' => match l with [] => [] | x :: r => rotl k' (r ++ [x]) end end.

Lemma divide_face5_cases (a p b q c : vR) (rot : nat) : (rot < 5)%nat ->
  exists tris, divide_face5 NumR (rotl rot [(false, a); (true, p); (false, b); (true, q); (false, c)]) = Some tris /\
    (tris = [(p, b, q); (a, p, q); (a, q, c)] \/ tris = [(q, p, b); (q, c, a); (q, a, p)]).
Proof.
  intros Hrot.
  destruct rot as [|[|[|[|[|rot]]]]];
    try (eexists; split; [reflexivity|]; (left; reflexivity) || (right; reflexivity)).
  exfalso. lia.
Qed.

Lemma sqn_scale (v : vR) (k : R) : sqn (v *v k) = (k * k) * sqn v.
Proof. vunfold. ring. Qed.

Lemma vnorm_scale_nonneg (v : vR) (k : R) : 0 <= k -> vnorm NumR (v *v k) = k * vnorm NumR v.
Proof.
  intros Hk. unfold vnorm. cbn [nsqrt NumR]. rewrite sqn_scale.
  rewrite sqrt_mult; [| apply Rle_0_sqr | apply sqn_nonneg].
  rewrite sqrt_square; [reflexivity | exact Hk].
Qed.

Lemma face_area_of_multiple (tr tr0 : vR * vR * vR) (k : R) : 0 <= k ->
  face_normal_raw NumR tr = face_normal_raw NumR tr0 *v k -> face_area NumR tr = k * face_area NumR tr0.
Proof.
  intros Hk E. unfold face_area. rewrite E, vnorm_scale_nonneg; [|exact Hk].
  cbn [nmul NumR]. ring.
Qed.

Lemma divide_face5_preserves : forall (a b c : vR) (s t : R) (rot : nat),
  0 <= s <= 1 -> 0 <= t <= 1 -> (rot < 5)%nat ->
  let p := a +v (b -v a) *v s in let q := b +v (c -v b) *v t in
  exists tris, divide_face5 NumR (rotl rot [(false, a); (true, p); (false, b); (true, q); (false, c)]) = Some tris /\
    fold_right (fun tr acc => vol_term NumR tr + acc) 0 tris = vol_term NumR (a, b, c) /\
    fold_right (fun tr acc => face_area NumR tr + acc) 0 tris = face_area NumR (a, b, c).
Proof.
  intros a b c s t rot Hs Ht Hrot p q.
  assert (K1 : 0 <= (1 - s) * t) by (apply Rmult_le_pos; lra).
  assert (K2 : 0 <= s * t) by (apply Rmult_le_pos; lra).
  assert (K3 : 0 <= 1 - t) by lra.
  destruct (divide_face5_cases a p b q c rot Hrot) as [tris [Hd [E|E]]];
    exists tris; (split; [exact Hd|]); subst tris; cbn [fold_right]; split.
  - subst p q. unfold vol_term. vunfold. ring.
  - assert (F1 : face_area NumR (p, b, q) = ((1 - s) * t) * face_area NumR (a, b, c)).
    { apply face_area_of_multiple; [exact K1|]. subst p q. unfold face_normal_raw. apply vec3_eq; vunfold; ring. }
    assert (F2 : face_area NumR (a, p, q) = (s * t) * face_area NumR (a, b, c)).
    { apply face_area_of_multiple; [exact K2|]. subst p q. unfold face_normal_raw. apply vec3_eq; vunfold; ring. }
    assert (F3 : face_area NumR (a, q, c) = (1 - t) * face_area NumR (a, b, c)).
    { apply face_area_of_multiple; [exact K3|]. subst p q. unfold face_normal_raw. apply vec3_eq; vunfold; ring. }
    rewrite F1, F2, F3. ring.
  - subst p q. unfold vol_term. vunfold. ring.
  - assert (F1 : face_area NumR (q, p, b) = ((1 - s) * t) * face_area NumR (a, b, c)).
    { apply face_area_of_multiple; [exact K1|]. subst p q. unfold face_normal_raw. apply vec3_eq; vunfold; ring. }
    assert (F2 : face_area NumR (q, c, a) = (1 - t) * face_area NumR (a, b, c)).
    { apply face_area_of_multiple; [exact K3|]. subst p q. unfold face_normal_raw. apply vec3_eq; vunfold; ring. }
    assert (F3 : face_area NumR (q, a, p) = (s * t) * face_area NumR (a, b, c)).
    { apply face_area_of_multiple; [exact K2|]. subst p q. unfold face_normal_raw. apply vec3_eq; vunfold; ring. }
    rewrite F1, F2, F3. ring.
Qed.

(* ------------------------------------------------------------------ the quaternion rotation *)
Ltac munfold :=
  unfold mdot, mtranspose, midentity, quat_matrix, zaxis, two;
  cbn [r1 r2 r3 vx vy vz nofZ NumR]; vunfold.

Lemma quat_orthogonal (qw qx qy qz : R) : qw * qw + qx * qx + qy * qy + qz * qz = 1 ->
  let M := quat_matrix NumR qw qx qy qz in
  (forall v, mdot NumR (mtranspose M) (mdot NumR M v) = v) /\
  (forall v, mdot NumR M (mdot NumR (mtranspose M) v) = v).
Proof.
  intros Hq M. subst M. split; intros [v1 v2 v3]; munfold; apply vec3_eq; cbn [vx vy vz]; nsatz.
Qed.

Lemma quat_maps_normal (x y z u : R) : x * x + y * y + z * z = 1 -> u * u * (2 * (1 + z)) = 1 ->
  mdot NumR (quat_matrix NumR ((1 + z) * u) (y * u) (- x * u) (0 * u)) (mkv x y z) = zaxis NumR.
Proof.
  intros Hn Hu. munfold. apply vec3_eq; cbn [vx vy vz]; nsatz.
Qed.

Lemma unit_z_bounds (x y z : R) : x * x + y * y + z * z = 1 -> z <> -1 -> -1 < z.
Proof.
  intros Hn Hz.
  assert (Hx : 0 <= x * x) by apply Rle_0_sqr. assert (Hy : 0 <= y * y) by apply Rle_0_sqr.
  destruct (Rle_lt_dec z (-1)) as [Hle|Hlt]; [|exact Hlt]. exfalso.
  assert (Hs : z < -1) by lra.
  assert (Hp : 0 < (-1 - z) * (1 - z)) by (apply Rmult_lt_0_compat; lra).
  replace ((-1 - z) * (1 - z)) with (z * z - 1) in Hp by ring. lra.
Qed.

Lemma rot_to_z_quat (x y z : R) : x * x + y * y + z * z = 1 -> z <> -1 -> z <> 1 ->
  exists u, u * u * (2 * (1 + z)) = 1 /\
    u * u * ((1 + z) * (1 + z) + y * y + x * x) = 1 /\
    rot_to_z NumR (mkv x y z) = quat_matrix NumR ((1 + z) * u) (y * u) (- x * u) (0 * u).
Proof.
  intros Hn Hz Hz1.
  assert (Hzb : -1 < z) by (eapply unit_z_bounds; eauto).
  unfold rot_to_z, zaxis, vcross, vdot.
  cbn [vx vy vz neqb nadd nsub nmul ndiv nsqrt nzero none_ NumR].
  destruct (Reqb_spec (0 * x + 0 * y + 1 * z) 1) as [He|_]; [exfalso; lra|].
  set (E := (1 + (x * 0 + y * 0 + z * 1)) * (1 + (x * 0 + y * 0 + z * 1)) + (y * 1 - z * 0) * (y * 1 - z * 0) +
            (z * 0 - x * 1) * (z * 0 - x * 1) + (x * 0 - y * 0) * (x * 0 - y * 0)).
  assert (HE : E = 2 * (1 + z)) by (unfold E; lra).
  assert (HEpos : 0 < E) by lra.
  set (r := sqrt E).
  assert (Hrr : r * r = E) by (apply sqrt_sqrt; lra).
  assert (Hr : r <> 0).
  { intros H0. rewrite H0 in Hrr. lra. }
  exists (/ r). split; [|split].
  - rewrite <- HE, <- Hrr. field. exact Hr.
  - replace ((1 + z) * (1 + z) + y * y + x * x) with E by (unfold E; ring).
    rewrite <- Hrr. field. exact Hr.
  - clearbody r. clear Hrr HE HEpos. clearbody E. f_equal; unfold Rdiv; ring.
Qed.

Lemma midentity_spec (v : vR) : mdot NumR (midentity NumR) v = v /\ mdot NumR (mtranspose (midentity NumR)) v = v.
Proof. destruct v as [v1 v2 v3]. split; munfold; apply vec3_eq; cbn [vx vy vz]; ring. Qed.

Lemma rot_to_z_spec : forall n : vR, vsqnorm NumR n = 1 -> vz n <> -1 ->
  let M := rot_to_z NumR n in
  mdot NumR M n = zaxis NumR /\ (forall v, mdot NumR (mtranspose M) (mdot NumR M v) = v) /\
  (forall v, mdot NumR M (mdot NumR (mtranspose M) v) = v).
Proof.
  intros [x y z] Hn Hz M. vunfold. cbn [vz] in Hz.
  destruct (Req_EM_T z 1) as [Hz1|Hz1].
  - (* n = +z: the identity *)
    assert (Hxy : x * x + y * y = 0) by (subst z; lra).
    assert (Hx0 : x = 0 /\ y = 0) by (apply Rplus_sqr_eq_0; unfold Rsqr; exact Hxy).
    destruct Hx0 as [Hx0 Hy0].
    assert (HM : M = midentity NumR).
    { subst M. unfold rot_to_z, zaxis, vdot. cbn [vx vy vz neqb nadd nmul nzero none_ NumR].
      destruct (Reqb_spec (0 * x + 0 * y + 1 * z) 1) as [_|Hne]; [reflexivity|exfalso; lra]. }
    rewrite HM. split; [|split].
    + subst x y z. munfold. apply vec3_eq; cbn [vx vy vz]; ring.
    + intros v. rewrite (proj1 (midentity_spec v)). apply midentity_spec.
    + intros v. rewrite (proj2 (midentity_spec v)). apply midentity_spec.
  - destruct (rot_to_z_quat x y z Hn Hz Hz1) as [u [Hu [Hu2 HM]]].
    subst M. rewrite HM. split.
    + apply quat_maps_normal; assumption.
    + apply quat_orthogonal. etransitivity; [|exact Hu2]. ring.
Qed.

Lemma xy_round_trip_gen (M : mat) (n tr p : vR) :
  mdot NumR M n = zaxis NumR -> (forall v, mdot NumR (mtranspose M) (mdot NumR M v) = v) ->
  n ·  (p +v tr) = 0 -> to_plane NumR M tr (to_xy NumR M tr p) = p.
Proof.
  intros Hn Ho Hp.
  assert (Hr3 : r3 M = n).
  { rewrite <- (Ho n), Hn. destruct M as [[a1 a2 a3] [b1 b2 b3] [c1 c2 c3]].
    munfold. apply vec3_eq; cbn [vx vy vz]; ring. }
  assert (Hq : to_xy NumR M tr p = mdot NumR M (p +v tr)).
  { unfold to_xy. cbn zeta. apply vec3_eq; cbn [vx vy vz]; try reflexivity.
    unfold mdot. cbn [vz nzero NumR]. rewrite Hr3. symmetry. exact Hp. }
  unfold to_plane. rewrite Hq, Ho. vunfold. apply vec3_eq; cbn [vx vy vz]; ring.
Qed.

Lemma xy_round_trip : forall n tr p : vR, vsqnorm NumR n = 1 -> vz n <> -1 ->
  n ·  (p +v tr) = 0 ->
  let M := rot_to_z NumR n in to_plane NumR M tr (to_xy NumR M tr p) = p.
Proof.
  intros n tr p Hn Hz Hp M. destruct (rot_to_z_spec n Hn Hz) as [H1 [H2 _]].
  exact (xy_round_trip_gen M n tr p H1 H2 Hp).
Qed.

Lemma minus_z_degenerate : let M := rot_to_z NumR (mkv 0 0 (-1)) in mdot NumR M (mkv 0 0 (-1)) <> zaxis NumR.
Proof.
  intros M HM.
  assert (Hz : vz (mdot NumR M (mkv 0 0 (-1))) = -1).
  { subst M. unfold rot_to_z, zaxis, vcross, vdot.
    cbn [vx vy vz neqb nadd nsub nmul ndiv nsqrt nzero none_ NumR].
    destruct (Reqb_spec (0 * 0 + 0 * 0 + 1 * -1) 1) as [He|_]; [exfalso; lra|].
    set (r := sqrt _). clearbody r. munfold. unfold Rdiv. ring. }
  rewrite HM in Hz. unfold zaxis in Hz. cbn [vz none_ NumR] in Hz. lra.
Qed.
