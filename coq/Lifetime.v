(* Lifetime.v — references into a growable vector (std::vector<node>, std::vector<edge>): a reference (or a range-for
   iterator) taken before a push_back is dangling after it whenever the push reallocates.
   A code fragment is transcribed as a list of actions on ONE vector; the machine records whether a dangling
   reference was ever used.  The boolean checker `safe_prog` is the discipline the repaired code follows: no reference
   is used after a push that followed its creation. *)
From Coq Require Import Arith Bool List.
Import ListNotations.

Inductive act :=
| Borrow (r : nat)        (* T& r = v[i]  /  an iterator of a range-for *)
| Push                    (* v.push_back(...): reallocates when size = capacity *)
| Use (r : nat)           (* read or write through the reference r *)
| IndexUse.               (* v[i] evaluated afresh: never dangling *)

Record lstate := mkls { l_size : nat; l_cap : nat; l_gen : nat; l_refs : list (nat * nat) (* reference, generation when taken *); l_stale : bool }.

Definition lstep (s : lstate) (a : act) : lstate :=
  match a with
  | Borrow r => mkls (l_size s) (l_cap s) (l_gen s) ((r, l_gen s) :: filter (fun p => negb (Nat.eqb (fst p) r)) (l_refs s)) (l_stale s)
  | Push => if Nat.ltb (l_size s) (l_cap s) then mkls (S (l_size s)) (l_cap s) (l_gen s) (l_refs s) (l_stale s)
            else mkls (S (l_size s)) (2 * S (l_cap s)) (S (l_gen s)) (l_refs s) (l_stale s)
  | Use r => let bad := existsb (fun p => Nat.eqb (fst p) r && negb (Nat.eqb (snd p) (l_gen s))) (l_refs s) in
             mkls (l_size s) (l_cap s) (l_gen s) (l_refs s) (l_stale s || bad)
  | IndexUse => s
  end.
Definition lrun (prog : list act) (s : lstate) : lstate := fold_left lstep prog s.

(* the discipline: `live` = references taken since the last push *)
Fixpoint safe_from (live : list nat) (prog : list act) : bool :=
  match prog with
  | [] => true
  | Borrow r :: p => safe_from (r :: live) p
  | Push :: p => safe_from [] p
  | Use r :: p => existsb (Nat.eqb r) live && safe_from live p
  | IndexUse :: p => safe_from live p
  end.
Definition safe_prog (prog : list act) : bool := safe_from [] prog.

(* ---- transcriptions (by hand) of the fragments named by the property *)
(* local_mesh_refiner::split_edge before the repair (3f38b09): node& n_a, n_b, n_c, n_d taken, then add_node, then the
   winding tests read n_a .. n_d *)
Definition split_edge_before : list act := [Borrow 0; Borrow 1; Borrow 2; Borrow 3; Push; Use 0; Use 1; Use 2; Use 3].
(* after the repair: positions are copied out before add_node and nodes are re-indexed afterwards *)
Definition split_edge_after : list act := [Borrow 0; Borrow 1; Borrow 2; Borrow 3; Use 0; Use 1; Use 2; Use 3; Push; IndexUse; IndexUse; IndexUse; IndexUse].
(* ball_pivoting_algorithm::fill_surface_holes before the repair: range-for over edge_lst_ (iterator 0) while get_edge
   appends edges; the next iteration dereferences the iterator *)
Definition fill_holes_before : list act := [Borrow 0; Use 0; Push; Push; Use 0].
(* after the repair: the loop runs over indices and works on a copy of the edge *)
Definition fill_holes_after : list act := [IndexUse; Push; Push; IndexUse].
