(* ForcesProofsB.v — proofs for property C02 (part B):
     bending_force_zero : the bending forces of a cell sum to zero (fresh normals, coherent hinges, pi = PI)
     area_gradient      : -1/2 n x (x2 - x3) is the derivative of the triangle area with respect to its first node
   Model: Forces.v at R.  Nothing is assumed: no axiom beyond those of the Reals / Coquelicot libraries. *)
From Coq Require Import NArith ZArith Bool List Lia Reals Lra Psatz.
From Coquelicot Require Import Coquelicot.
From SC Require Import Num Vec3 VecR Mesh Geometry GeometrySpec Forces ForcesSpec.
Import ListNotations.
Local Open Scope R_scope.

(* coordinates of a closed vector expression (cbv is much faster than cbn on deep terms) *)
Ltac vcbv := cbv [vadd vsub vscale vdivs vneg vdot vcross vsqnorm vzero vx vy vz nadd nsub nmul ndiv nneg nzero none_ NumR].

(* ================================================================== force-list bookkeeping *)
Lemma addf_length (F : list vR) (i : nat) (f : vR) : length (addf NumR F i f) = length F.
Proof.
  revert i; induction F as [|x r IH]; intros [|k]; cbn [addf length]; auto.
Qed.

Lemma add_force_length (F : list vR) (i : N) (f : vR) : length (add_force NumR F i f) = length F.
Proof. unfold add_force. apply addf_length. Qed.

Lemma vsum_addf (F : list vR) (i : nat) (f : vR) :
  (i < length F)%nat -> vsum (addf NumR F i f) = vsum F +v f.
Proof.
  revert i; induction F as [|x r IH]; intros [|k] Hi; cbn [addf length] in *; try lia.
  - unfold vsum; cbn [fold_right]. vring.
  - unfold vsum in *; cbn [fold_right]. rewrite IH by lia. vring.
Qed.

Lemma net_add_force (F : list vR) (i : N) (f : vR) :
  (N.to_nat i < length F)%nat -> net_force (add_force NumR F i f) = net_force F +v f.
Proof. unfold net_force, add_force. apply vsum_addf. Qed.

Lemma net_zeroF (n : nat) : net_force (zeroF n) = mkv 0 0 0.
Proof.
  unfold net_force, zeroF, vsum. induction n as [|n IH]; cbn [repeat fold_right]; [reflexivity|].
  rewrite IH. vring.
Qed.

Lemma zeroF_length (n : nat) : length (zeroF n) = n.
Proof. unfold zeroF. apply repeat_length. Qed.

Lemma net_add4 (F : list vR) (i0 i1 i2 i3 : N) (f0 f1 f2 f3 : vR) (n : nat) :
  length F = n ->
  (N.to_nat i0 < n)%nat -> (N.to_nat i1 < n)%nat -> (N.to_nat i2 < n)%nat -> (N.to_nat i3 < n)%nat ->
  f0 +v f1 +v f2 +v f3 = mkv 0 0 0 ->
  length (add_force NumR (add_force NumR (add_force NumR (add_force NumR F i0 f0) i1 f1) i2 f2) i3 f3) = n /\
  net_force (add_force NumR (add_force NumR (add_force NumR (add_force NumR F i0 f0) i1 f1) i2 f2) i3 f3) = net_force F.
Proof.
  intros HL H0 H1 H2 H3 Hs. split.
  - rewrite !add_force_length. exact HL.
  - rewrite !net_add_force by (rewrite ?add_force_length; lia).
    assert (Hx := f_equal vx Hs). assert (Hy := f_equal vy Hs). assert (Hz := f_equal vz Hs).
    revert Hx Hy Hz. generalize (net_force F). intros S.
    destruct S as [sx sy sz], f0 as [ax ay az], f1 as [bx by_ bz], f2 as [cx cy cz], f3 as [dx dy dz].
    vunfold. cbn [vx vy vz]. intros Hx Hy Hz. f_equal; lra.
Qed.

(* ================================================================== node ids of a coherent hinge are in range *)
Lemma opposite_has (t : tri) (a b : N) : tri_has t (opposite t a b).
Proof.
  destruct t as [[x y] z]. unfold opposite, tri_has.
  destruct (negb (N.eqb x a) && negb (N.eqb x b)); [auto|].
  destruct (negb (N.eqb y a) && negb (N.eqb y b)); auto.
Qed.

Lemma tri_has_in_range (nodes : list vR) (tris : list tri) (t : tri) (a : N) :
  ids_in_range nodes tris -> In t tris -> tri_has t a -> (N.to_nat a < length nodes)%nat.
Proof.
  unfold ids_in_range. intros Hr Ht Ha. rewrite Forall_forall in Hr. apply Hr.
  unfold all_nodes. apply in_flat_map. exists t. split; [exact Ht|].
  destruct t as [[x y] z]. unfold tri_has in Ha. cbn [tri_nodes In].
  destruct Ha as [Ha|[Ha|Ha]]; subst; auto.
Qed.

Lemma nth_face_tri_in (faces : list ffaceR) (k : nat) :
  (k < length faces)%nat -> In (ff_tri (nth k faces (dface NumR))) (tris_of faces).
Proof.
  intros Hk. unfold tris_of. apply in_map_iff. exists (nth k faces (dface NumR)). split; [reflexivity|].
  apply nth_In. exact Hk.
Qed.

(* ================================================================== the face of a hinge, seen from its edge *)
(* the raw normal of a face whose node set is {a, b, opposite t a b} is +-(x_b - x_a) x (x_opp - x_a) *)
Lemma tri_raw_from_edge (nodes : list vR) (t : tri) (a b : N) :
  tri_has t a -> tri_has t b -> a <> b -> tri_distinct t ->
  exists s : R, (s = 1 \/ s = -1) /\
    face_normal_raw NumR (tri_pos NumR nodes t) =
    ((pos_of NumR nodes b -v pos_of NumR nodes a) × (pos_of NumR nodes (opposite t a b) -v pos_of NumR nodes a)) *v s.
Proof.
  destruct t as [[x y] z]. unfold tri_has, tri_distinct, opposite. intros Ha Hb Hab (Hxy & Hyz & Hxz).
  assert (Exx : forall u : N, N.eqb u u = true) by (intros; apply N.eqb_refl).
  assert (Exy : N.eqb x y = false) by (apply N.eqb_neq; exact Hxy).
  assert (Eyx : N.eqb y x = false) by (apply N.eqb_neq; auto).
  assert (Eyz : N.eqb y z = false) by (apply N.eqb_neq; exact Hyz).
  assert (Ezy : N.eqb z y = false) by (apply N.eqb_neq; auto).
  assert (Exz : N.eqb x z = false) by (apply N.eqb_neq; exact Hxz).
  assert (Ezx : N.eqb z x = false) by (apply N.eqb_neq; auto).
  unfold face_normal_raw, tri_pos.
  destruct Ha as [Ha|[Ha|Ha]]; destruct Hb as [Hb|[Hb|Hb]]; subst a b; try (exfalso; apply Hab; reflexivity);
    rewrite ?Exx, ?Exy, ?Eyx, ?Eyz, ?Ezy, ?Exz, ?Ezx; cbn [negb andb];
    generalize (pos_of NumR nodes x) (pos_of NumR nodes y) (pos_of NumR nodes z); intros [px1 px2 px3] [py1 py2 py3] [pz1 pz2 pz3].
  - exists 1. split; [auto|]. vring.
  - exists (-1). split; [auto|]. vring.
  - exists (-1). split; [auto|]. vring.
  - exists 1. split; [auto|]. vring.
  - exists 1. split; [auto|]. vring.
  - exists (-1). split; [auto|]. vring.
Qed.

Lemma sqn_scale_sign (w : vR) (s : R) : s = 1 \/ s = -1 -> sqn (w *v s) = sqn w.
Proof. intros [H|H]; subst s; destruct w as [a b c]; vunfold; cbn [vx vy vz]; ring. Qed.

(* normal and area of a fresh face with raw normal w * s, s = +-1: the normal is a multiple of w, the area is |w|/2 *)
Lemma fresh_face_shape (nodes : list vR) (f : ffaceR) (w : vR) (s : R) :
  f = refresh NumR nodes (ff_tri f) (ff_type f) -> (s = 1 \/ s = -1) ->
  face_normal_raw NumR (tri_pos NumR nodes (ff_tri f)) = w *v s ->
  (exists k : R, ff_normal f = w *v k) /\ 2 * ff_area f = sqrt (sqn w).
Proof.
  intros Hf Hs Hraw.
  assert (Hn : ff_normal f = face_normal NumR (tri_pos NumR nodes (ff_tri f))) by (rewrite Hf at 1; reflexivity).
  assert (Ha : ff_area f = face_area NumR (tri_pos NumR nodes (ff_tri f))) by (rewrite Hf at 1; reflexivity).
  split.
  - rewrite Hn. unfold face_normal. rewrite Hraw. cbn [neqb nzero NumR].
    destruct (Reqb_spec (vnorm NumR (w *v s)) 0) as [E|E].
    + exists 0. destruct w as [a b c]. vunfold. cbn [vx vy vz]. f_equal; ring.
    + exists (s / vnorm NumR (w *v s)). generalize (vnorm NumR (w *v s)). intros l.
      destruct w as [a b c]. unfold vdivs, vscale. cbn [vx vy vz nmul ndiv NumR]. unfold Rdiv. f_equal; ring.
  - rewrite Ha. unfold face_area, half. rewrite Hraw. unfold vnorm. rewrite (sqn_scale_sign w s Hs).
    cbn [nsqrt nmul ndiv none_ nofZ NumR]. field.
Qed.

(* ================================================================== cot of the angle between two vectors *)
Lemma cot_angle (u v : vR) :
  sqn (u × v) <> 0 ->
  cot NumR LibmRF (angle_with NumR LibmRF u v) = (u ·  v) / sqrt (sqn (u × v)).
Proof.
  intros HS.
  assert (HS0 : 0 < sqn (u × v)) by (pose proof (sqn_nonneg (u × v)); lra).
  pose proof (lagrange u v) as HL.
  pose proof (sqn_nonneg u) as Hu0. pose proof (sqn_nonneg v) as Hv0.
  set (d := u ·  v) in *. set (su := sqn u) in *. set (sv := sqn v) in *. set (S := sqn (u × v)) in *.
  assert (Hprod : 0 < su * sv) by nra.
  assert (Hu : 0 < su) by nra.
  assert (Hv : 0 < sv) by nra.
  unfold cot, angle_with, isfinite, vnorm. fold su sv d.
  cbn [neqb nsub nzero none_ ndiv nmul nsqrt lacos ltan LibmRF NumR].
  set (a := sqrt su). set (b := sqrt sv).
  assert (Ha : 0 < a) by (apply sqrt_lt_R0; exact Hu).
  assert (Hb : 0 < b) by (apply sqrt_lt_R0; exact Hv).
  assert (Haa : a * a = su) by (apply sqrt_sqrt; lra).
  assert (Hbb : b * b = sv) by (apply sqrt_sqrt; lra).
  set (c := d / (a * b)).
  replace (Reqb (acos c - acos c) 0) with true by (symmetry; apply Reqb_true; ring).
  cbn [negb].
  assert (Hab : 0 < a * b) by nra.
  assert (Hc2 : 1 - c * c = S / ((a * b) * (a * b))).
  { unfold c. rewrite HL. replace su with (a * a) by exact Haa. replace sv with (b * b) by exact Hbb.
    field. split; lra. }
  assert (Hc : -1 <= c <= 1).
  { assert (0 < S / ((a * b) * (a * b))) by (apply Rdiv_lt_0_compat; nra). nra. }
  rewrite (tan_acos c Hc). unfold Rsqr. rewrite Hc2.
  rewrite sqrt_div_alt by nra. rewrite (sqrt_square (a * b)) by lra.
  assert (HsS : 0 < sqrt S) by (apply sqrt_lt_R0; exact HS0).
  unfold c. unfold Rdiv. rewrite !Rinv_mult, !Rinv_inv. field. split; [lra|split; lra].
Qed.

(* over R the two overloads of get_angle_with agree (no NaN, no infinity) *)
Lemma angle_with_nan_R (u v : vR) : angle_with_nan NumR LibmRF u v = angle_with NumR LibmRF u v.
Proof.
  unfold angle_with_nan, angle_with, isnan, isfinite.
  cbn [neqb nsub nzero NumR].
  set (a := lacos LibmRF _).
  replace (Reqb a a) with true by (symmetry; apply Reqb_true; reflexivity).
  replace (Reqb (a - a) 0) with true by (symmetry; apply Reqb_true; ring).
  reflexivity.
Qed.

(* the coefficient of the face normal in the sum of the four theta-gradients vanishes:
   cot al_a + cot al_b = |e0|^2 / (2 A) for the two angles of the face at the end points of the edge *)
Lemma theta_coeff (x1 x2 x3 : vR) (A : R) :
  2 * A = sqrt (sqn ((x2 -v x1) × (x3 -v x1))) -> A <> 0 -> vnorm NumR (x2 -v x1) <> 0 ->
  (cot NumR LibmRF (angle_with NumR LibmRF (x3 -v x2) ((x2 -v x1) *v (Ropp 1)))
   + cot NumR LibmRF (angle_with NumR LibmRF (x2 -v x1) (x3 -v x1))) * ((Ropp 1) / vnorm NumR (x2 -v x1))
  + vnorm NumR (x2 -v x1) / (2 * A) = 0.
Proof.
  intros HA HA0 Hel.
  assert (HS : sqn ((x2 -v x1) × (x3 -v x1)) <> 0).
  { intros E. rewrite E, sqrt_0 in HA. lra. }
  assert (HS' : sqn ((x3 -v x2) × ((x2 -v x1) *v (Ropp 1))) = sqn ((x2 -v x1) × (x3 -v x1))).
  { destruct x1 as [a1 b1 c1], x2 as [a2 b2 c2], x3 as [a3 b3 c3]. vunfold. cbn [vx vy vz]. ring. }
  rewrite (cot_angle (x2 -v x1) (x3 -v x1) HS).
  rewrite (cot_angle (x3 -v x2) ((x2 -v x1) *v (Ropp 1))) by (rewrite HS'; exact HS).
  rewrite HS'. rewrite HA.
  assert (Hd : (x3 -v x2) ·  ((x2 -v x1) *v (Ropp 1)) = sqn (x2 -v x1) - (x2 -v x1) ·  (x3 -v x1)).
  { destruct x1 as [a1 b1 c1], x2 as [a2 b2 c2], x3 as [a3 b3 c3]. vunfold. cbn [vx vy vz]. ring. }
  rewrite Hd.
  assert (Hsq : sqn (x2 -v x1) = vnorm NumR (x2 -v x1) * vnorm NumR (x2 -v x1)).
  { unfold vnorm. cbn [nsqrt NumR]. symmetry. apply sqrt_sqrt. apply sqn_nonneg. }
  rewrite Hsq.
  assert (HS2 : sqrt (sqn ((x2 -v x1) × (x3 -v x1))) <> 0) by (rewrite <- HA; lra).
  revert Hel HS2. generalize (vnorm NumR (x2 -v x1)) (sqrt (sqn ((x2 -v x1) × (x3 -v x1)))) ((x2 -v x1) ·  (x3 -v x1)).
  intros el S q Hel HS2. field. split; assumption.
Qed.

(* Rodrigues rotation by +-PI/2 *)
Lemma rot_hp (v n : vR) :
  rotate_around_axis NumR LibmRF v n (PI / 2) = (n × v) +v (n *v (n ·  v)).
Proof.
  unfold rotate_around_axis. cbn [lcos lsin LibmRF]. rewrite cos_PI2, sin_PI2.
  destruct v as [a b c], n as [p q r]. vunfold. cbn [vx vy vz]. f_equal; ring.
Qed.
Lemma rot_mhp (v n : vR) :
  rotate_around_axis NumR LibmRF v n (Ropp (PI / 2)) = ((n × v) *v (Ropp 1)) +v (n *v (n ·  v)).
Proof.
  unfold rotate_around_axis. cbn [lcos lsin LibmRF]. rewrite cos_neg, sin_neg, cos_PI2, sin_PI2.
  destruct v as [a b c], n as [p q r]. vunfold. cbn [vx vy vz]. f_equal; ring.
Qed.

(* ================================================================== the four forces of one hinge *)
(* the part of bending_hinge after its early exits, as a function of the stencil data *)
Section HingeForces.
  Variables (x1 x2 x3 x4 n1 n2 : vR) (A1 A2 pf1 pf2 : R).
  Definition hf_e0 : vR := x2 -v x1.
  Definition hf_e1 : vR := x3 -v x1.
  Definition hf_e2 : vR := x4 -v x1.
  Definition hf_e3 : vR := x3 -v x2.
  Definition hf_e4 : vR := x4 -v x2.
  Definition hf_me0 : vR := hf_e0 *v (Ropp 1).
  Definition hf_al1 : R := angle_with_nan NumR LibmRF hf_e0 hf_e1.
  Definition hf_al2 : R := angle_with_nan NumR LibmRF hf_e0 hf_e2.
  Definition hf_al3 : R := angle_with NumR LibmRF hf_e3 hf_me0.
  Definition hf_al4 : R := angle_with NumR LibmRF hf_e4 hf_me0.
  Definition hf_el : R := vnorm NumR hf_e0.
  Definition hf_sumA : R := A1 + A2.
  Definition hf_minv : R := (Ropp 1) / hf_el.
  Definition hf_cot (a : R) : R := cot NumR LibmRF a.
  Definition hf_g0t : vR := ((n1 *v hf_cot hf_al3) +v (n2 *v hf_cot hf_al4)) *v hf_minv.
  Definition hf_g1t : vR := ((n1 *v hf_cot hf_al1) +v (n2 *v hf_cot hf_al2)) *v hf_minv.
  Definition hf_g2t : vR := n1 *v (hf_el / (2 * A1)).
  Definition hf_g3t : vR := n2 *v (hf_el / (2 * A2)).
  Definition hf_hp : R := PI / 2.
  Definition hf_mhp : R := (Ropp PI) / 2.          (* -M_PI / 2. as the source writes it *)
  Definition hf_rot (v axis : vR) (ang : R) : vR := rotate_around_axis NumR LibmRF v axis ang.
  Definition hf_t1 : vR := hf_rot hf_e1 n1 hf_hp.
  Definition hf_t2 : vR := hf_rot hf_e2 n2 hf_mhp.
  Definition hf_t3 : vR := hf_rot hf_e3 n1 hf_mhp.
  Definition hf_t4 : vR := hf_rot hf_e4 n2 hf_hp.
  Definition hf_t00 : vR := hf_rot hf_e0 n1 hf_mhp.
  Definition hf_t01 : vR := hf_rot hf_e0 n2 hf_hp.
  Definition hf_pf3 : R := (hf_el * hf_el) / ((2 * hf_sumA) * hf_sumA).
  Definition hf_g0i : vR := (hf_e0 *v ((Ropp 2) / hf_sumA)) +v ((hf_t3 +v hf_t4) *v hf_pf3).
  Definition hf_g1i : vR := (hf_e0 *v (2 / hf_sumA)) +v ((hf_t1 +v hf_t2) *v hf_pf3).
  Definition hf_g2i : vR := hf_t00 *v hf_pf3.
  Definition hf_g3i : vR := hf_t01 *v hf_pf3.
  Definition hf_fb (gi gt : vR) : vR := (gi *v pf1) +v (gt *v pf2).
  Definition hf_f0 : vR := hf_fb hf_g0i hf_g0t.
  Definition hf_f1 : vR := hf_fb hf_g1i hf_g1t.
  Definition hf_f2 : vR := hf_fb hf_g2i hf_g2t.
  Definition hf_f3 : vR := hf_fb hf_g3i hf_g3t.

  (* (a) the in-plane gradients sum to zero as soon as each normal is orthogonal to the edges of its own face *)
  Lemma hf_inplane_sum :
    n1 ·  hf_e0 = 0 -> n1 ·  hf_e1 = 0 -> n1 ·  hf_e3 = 0 ->
    n2 ·  hf_e0 = 0 -> n2 ·  hf_e2 = 0 -> n2 ·  hf_e4 = 0 ->
    hf_g0i +v hf_g1i +v hf_g2i +v hf_g3i = mkv 0 0 0.
  Proof.
    intros H10 H11 H13 H20 H22 H24.
    unfold hf_g0i, hf_g1i, hf_g2i, hf_g3i, hf_t1, hf_t2, hf_t3, hf_t4, hf_t00, hf_t01, hf_rot, hf_hp, hf_mhp.
    replace (Ropp PI / 2) with (Ropp (PI / 2)) by field.
    rewrite !rot_hp, !rot_mhp. rewrite H10, H11, H13, H20, H22, H24.
    unfold Rdiv. generalize hf_pf3 (/ hf_sumA). intros p3 is.
    unfold hf_e0, hf_e1, hf_e2, hf_e3, hf_e4.
    clear H10 H11 H13 H20 H22 H24.
    destruct x1 as [a1 b1 c1], x2 as [a2 b2 c2], x3 as [a3 b3 c3], x4 as [a4 b4 c4], n1 as [p1 q1 r1], n2 as [p2 q2 r2].
    vcbv. f_equal; ring.
  Qed.

  (* (b) the theta gradients sum to zero *)
  Lemma hf_theta_sum :
    2 * A1 = sqrt (sqn (hf_e0 × hf_e1)) -> 2 * A2 = sqrt (sqn (hf_e0 × hf_e2)) ->
    hf_el <> 0 -> A1 <> 0 -> A2 <> 0 ->
    hf_g0t +v hf_g1t +v hf_g2t +v hf_g3t = mkv 0 0 0.
  Proof.
    intros HA1 HA2 Hel HA10 HA20.
    pose proof (theta_coeff x1 x2 x3 A1 HA1 HA10 Hel) as C1.
    pose proof (theta_coeff x1 x2 x4 A2 HA2 HA20 Hel) as C2.
    fold hf_e0 hf_e1 hf_e2 hf_e3 hf_e4 in C1, C2. fold hf_me0 in C1, C2.
    rewrite <- (angle_with_nan_R hf_e0 hf_e1) in C1. rewrite <- (angle_with_nan_R hf_e0 hf_e2) in C2.
    fold hf_al1 hf_al2 hf_al3 hf_al4 in C1, C2. fold hf_el in C1, C2. fold hf_minv in C1, C2.
    fold (hf_cot hf_al1) (hf_cot hf_al2) (hf_cot hf_al3) (hf_cot hf_al4) in C1, C2.
    assert (E : hf_g0t +v hf_g1t +v hf_g2t +v hf_g3t =
                (n1 *v ((hf_cot hf_al3 + hf_cot hf_al1) * hf_minv + hf_el / (2 * A1))) +v
                (n2 *v ((hf_cot hf_al4 + hf_cot hf_al2) * hf_minv + hf_el / (2 * A2)))).
    { unfold hf_g0t, hf_g1t, hf_g2t, hf_g3t.
      generalize (hf_cot hf_al1) (hf_cot hf_al2) (hf_cot hf_al3) (hf_cot hf_al4) hf_minv (hf_el / (2 * A1)) (hf_el / (2 * A2)).
      intros k1 k2 k3 k4 m u1 u2. destruct n1 as [p1 q1 r1], n2 as [p2 q2 r2].
      vunfold. cbn [vx vy vz]. f_equal; ring. }
    rewrite E, C1, C2. destruct n1 as [p1 q1 r1], n2 as [p2 q2 r2]. vunfold. cbn [vx vy vz]. f_equal; ring.
  Qed.

  (* the four forces of a hinge between two fresh, non-degenerate faces sum to zero *)
  Lemma hf_sum_zero (k1 k2 : R) :
    n1 = (hf_e0 × hf_e1) *v k1 -> n2 = (hf_e0 × hf_e2) *v k2 ->
    2 * A1 = sqrt (sqn (hf_e0 × hf_e1)) -> 2 * A2 = sqrt (sqn (hf_e0 × hf_e2)) ->
    hf_el <> 0 -> A1 <> 0 -> A2 <> 0 ->
    hf_f0 +v hf_f1 +v hf_f2 +v hf_f3 = mkv 0 0 0.
  Proof.
    intros Hn1 Hn2 HA1 HA2 Hel HA10 HA20.
    assert (Ei : hf_g0i +v hf_g1i +v hf_g2i +v hf_g3i = mkv 0 0 0).
    { apply hf_inplane_sum; rewrite ?Hn1, ?Hn2; unfold hf_e0, hf_e1, hf_e2, hf_e3, hf_e4;
        destruct x1 as [a1 b1 c1], x2 as [a2 b2 c2], x3 as [a3 b3 c3], x4 as [a4 b4 c4];
        vunfold; cbn [vx vy vz]; ring. }
    assert (Et : hf_g0t +v hf_g1t +v hf_g2t +v hf_g3t = mkv 0 0 0).
    { apply hf_theta_sum; assumption. }
    assert (E : hf_f0 +v hf_f1 +v hf_f2 +v hf_f3 =
                ((hf_g0i +v hf_g1i +v hf_g2i +v hf_g3i) *v pf1) +v ((hf_g0t +v hf_g1t +v hf_g2t +v hf_g3t) *v pf2)).
    { unfold hf_f0, hf_f1, hf_f2, hf_f3, hf_fb.
      generalize hf_g0i hf_g1i hf_g2i hf_g3i hf_g0t hf_g1t hf_g2t hf_g3t.
      intros [u01 u02 u03] [u11 u12 u13] [u21 u22 u23] [u31 u32 u33] [v01 v02 v03] [v11 v12 v13] [v21 v22 v23] [v31 v32 v33].
      vunfold. cbn [vx vy vz]. f_equal; ring. }
    rewrite E, Ei, Et. vunfold. cbn [vx vy vz]. f_equal; ring.
  Qed.
End HingeForces.

(* bending_hinge either leaves F unchanged or adds hf_f0 .. hf_f3 (for some prefactors pf1 pf2) to the four
   stencil nodes, and in the second case the edge length and both cached areas are non-zero *)
Lemma bending_hinge_cases (nodes : list vR) (bends : list R) (faces : list ffaceR) (F : list vR) (h : hinge) :
  bending_hinge NumR LibmRF PI nodes bends faces F h = F \/
  exists pf1 pf2 : R,
    let f1 := nth (h_f1 h) faces (dface NumR) in
    let f2 := nth (h_f2 h) faces (dface NumR) in
    let i3 := opposite (ff_tri f1) (h_n1 h) (h_n2 h) in
    let i4 := opposite (ff_tri f2) (h_n1 h) (h_n2 h) in
    let x1 := pos_of NumR nodes (h_n1 h) in
    let x2 := pos_of NumR nodes (h_n2 h) in
    let x3 := pos_of NumR nodes i3 in
    let x4 := pos_of NumR nodes i4 in
    let n1 := ff_normal f1 in let n2 := ff_normal f2 in
    let A1 := ff_area f1 in let A2 := ff_area f2 in
    (hf_el x1 x2 <> 0 /\ A1 <> 0 /\ A2 <> 0) /\
    bending_hinge NumR LibmRF PI nodes bends faces F h =
      add_force NumR (add_force NumR (add_force NumR (add_force NumR F
        (h_n1 h) (hf_f0 x1 x2 x3 x4 n1 n2 A1 A2 pf1 pf2))
        (h_n2 h) (hf_f1 x1 x2 x3 x4 n1 n2 A1 A2 pf1 pf2))
        i3 (hf_f2 x1 x2 n1 A1 A2 pf1 pf2))
        i4 (hf_f3 x1 x2 n2 A1 A2 pf1 pf2).
Proof.
  unfold bending_hinge. cbv zeta.
  match goal with |- (if ?c then _ else _) = _ \/ _ => destruct c eqn:E1; [left; reflexivity|] end.
  match goal with |- (if ?c then _ else _) = _ \/ _ => destruct c eqn:E2; [left; reflexivity|] end.
  match goal with |- (if ?c then _ else _) = _ \/ _ => destruct c eqn:E3; [left; reflexivity|] end.
  right. do 2 eexists. split; [|reflexivity].
  clear E1 E3. apply orb_false_elim in E2. destruct E2 as [E2 Ec]. apply orb_false_elim in E2. destruct E2 as [Ea Eb].
  cbn [neqb nzero NumR] in Ea, Eb, Ec.
  apply Reqb_false in Ea. apply Reqb_false in Eb. apply Reqb_false in Ec.
  split; [exact Ea|split; assumption].
Qed.

(* ================================================================== one hinge step preserves length and net force *)
Lemma bending_hinge_net (nodes : list vR) (bends : list R) (faces : list ffaceR) (F : list vR) (h : hinge) :
  ids_in_range nodes (tris_of faces) -> fresh nodes faces -> hinge_ok faces h -> length F = length nodes ->
  length (bending_hinge NumR LibmRF PI nodes bends faces F h) = length nodes /\
  net_force (bending_hinge NumR LibmRF PI nodes bends faces F h) = net_force F.
Proof.
  intros Hr Hfresh Hok HL.
  destruct (bending_hinge_cases nodes bends faces F h) as [E|(pf1 & pf2 & HH)].
  { rewrite E. split; [exact HL|reflexivity]. }
  cbv zeta in HH. destruct HH as ((Hel & HA10 & HA20) & E). rewrite E. clear E.
  destruct Hok as (Hf1 & Hf2 & Hne & H11 & H12 & H21 & H22 & Hd1 & Hd2).
  set (f1 := nth (h_f1 h) faces (dface NumR)) in *.
  set (f2 := nth (h_f2 h) faces (dface NumR)) in *.
  unfold fresh in Hfresh. rewrite Forall_forall in Hfresh.
  assert (Hfr1 : f1 = refresh NumR nodes (ff_tri f1) (ff_type f1)) by (apply Hfresh; apply nth_In; exact Hf1).
  assert (Hfr2 : f2 = refresh NumR nodes (ff_tri f2) (ff_type f2)) by (apply Hfresh; apply nth_In; exact Hf2).
  destruct (tri_raw_from_edge nodes (ff_tri f1) (h_n1 h) (h_n2 h) H11 H12 Hne Hd1) as (s1 & Hs1 & Hraw1).
  destruct (tri_raw_from_edge nodes (ff_tri f2) (h_n1 h) (h_n2 h) H21 H22 Hne Hd2) as (s2 & Hs2 & Hraw2).
  destruct (fresh_face_shape nodes f1 _ s1 Hfr1 Hs1 Hraw1) as ((k1 & Hk1) & HAr1).
  destruct (fresh_face_shape nodes f2 _ s2 Hfr2 Hs2 Hraw2) as ((k2 & Hk2) & HAr2).
  assert (Hin1 : In (ff_tri f1) (tris_of faces)) by (apply nth_face_tri_in; exact Hf1).
  assert (Hin2 : In (ff_tri f2) (tris_of faces)) by (apply nth_face_tri_in; exact Hf2).
  apply net_add4.
  - exact HL.
  - exact (tri_has_in_range nodes (tris_of faces) (ff_tri f1) (h_n1 h) Hr Hin1 H11).
  - exact (tri_has_in_range nodes (tris_of faces) (ff_tri f1) (h_n2 h) Hr Hin1 H12).
  - exact (tri_has_in_range nodes (tris_of faces) (ff_tri f1) _ Hr Hin1 (opposite_has (ff_tri f1) (h_n1 h) (h_n2 h))).
  - exact (tri_has_in_range nodes (tris_of faces) (ff_tri f2) _ Hr Hin2 (opposite_has (ff_tri f2) (h_n1 h) (h_n2 h))).
  - apply (hf_sum_zero _ _ _ _ _ _ _ _ pf1 pf2 k1 k2); assumption.
Qed.

Lemma bending_fold_net (nodes : list vR) (bends : list R) (faces : list ffaceR) (hinges : list hinge) :
  ids_in_range nodes (tris_of faces) -> fresh nodes faces -> List.Forall (hinge_ok faces) hinges ->
  forall F : list vR, length F = length nodes ->
  net_force (fold_left (bending_hinge NumR LibmRF PI nodes bends faces) hinges F) = net_force F.
Proof.
  intros Hr Hfresh Hok. induction Hok as [|h hs Hh Hhs IH]; intros F HL; cbn [fold_left]; [reflexivity|].
  destruct (bending_hinge_net nodes bends faces F h Hr Hfresh Hh HL) as (HL' & HN').
  rewrite (IH _ HL'). exact HN'.
Qed.

(* ================================================================== C02, bending: zero net force *)
Lemma bending_force_zero : forall (nodes : list vR) (bends : list R) (faces : list ffaceR) (hinges : list hinge),
  ids_in_range nodes (tris_of faces) -> fresh nodes faces -> List.Forall (hinge_ok faces) hinges ->
  net_force (apply_bending NumR LibmRF PI nodes bends faces hinges (zeroF (length nodes))) = mkv 0 0 0.
Proof.
  intros nodes bends faces hinges Hr Hfresh Hok. unfold apply_bending.
  destruct (forallb (fun b : R => neqb NumR b (nzero NumR)) bends).
  - apply net_zeroF.
  - rewrite (bending_fold_net nodes bends faces hinges Hr Hfresh Hok) by apply zeroF_length.
    apply net_zeroF.
Qed.
Print Assumptions bending_force_zero.

(* ================================================================== C02, tension: the area gradient *)
(* squared norm of the raw normal of the triangle with its first node moved by h d: a quadratic in h *)
Lemma area_sq_poly (p1 p2 p3 d : vR) (h : R) :
  sqn (face_normal_raw NumR (p1 +v d *v h, p2, p3)) =
  sqn (face_normal_raw NumR (p1, p2, p3))
  + (2 * (face_normal_raw NumR (p1, p2, p3) ·  (d × (p2 -v p3)))) * h
  + sqn (d × (p2 -v p3)) * (h * h).
Proof.
  unfold face_normal_raw.
  destruct p1 as [a1 b1 c1], p2 as [a2 b2 c2], p3 as [a3 b3 c3], d as [dx dy dz].
  vcbv. ring.
Qed.

Lemma area_gradient : forall (p1 p2 p3 d : vR),
  vnorm NumR (face_normal_raw NumR (p1, p2, p3)) <> 0 ->
  is_derive (fun h : R => face_area NumR (p1 +v d *v h, p2, p3)) 0
    ((face_normal NumR (p1, p2, p3) × (p2 -v p3)) *v (- (1 / 2)) ·  d).
Proof.
  intros p1 p2 p3 d Hn.
  set (raw := face_normal_raw NumR (p1, p2, p3)) in *.
  set (q0 := sqn raw).
  set (q1 := 2 * (raw ·  (d × (p2 -v p3)))).
  set (q2 := sqn (d × (p2 -v p3))).
  assert (Hl : vnorm NumR raw = sqrt q0) by reflexivity.
  assert (Hq0 : 0 < q0).
  { pose proof (sqn_nonneg raw) as H0. fold q0 in H0.
    destruct (Req_dec q0 0) as [E|E]; [|lra]. exfalso. apply Hn. rewrite Hl, E. apply sqrt_0. }
  (* the function is 1/2 * sqrt (q0 + q1 h + q2 h^2) *)
  apply (is_derive_ext (fun h : R => (1 / 2) * sqrt (q0 + q1 * h + q2 * (h * h)))).
  { intros h. unfold face_area, half, vnorm. cbn [nmul ndiv none_ nofZ nsqrt NumR].
    rewrite (area_sq_poly p1 p2 p3 d h). reflexivity. }
  (* value of the derivative *)
  assert (Hval : (face_normal NumR (p1, p2, p3) × (p2 -v p3)) *v (- (1 / 2)) ·  d
                 = (1 / 2) * (q1 / (2 * sqrt (q0 + q1 * 0 + q2 * (0 * 0))))).
  { replace (q0 + q1 * 0 + q2 * (0 * 0)) with q0 by ring.
    unfold face_normal. fold raw. cbn [neqb nzero NumR]. rewrite Hl.
    destruct (Reqb_spec (sqrt q0) 0) as [E|E]; [exfalso; apply Hn; rewrite Hl; exact E|].
    unfold q1. revert E. generalize (sqrt q0). intros l E.
    generalize (p2 -v p3). intros w. clear Hn Hl Hq0. clearbody raw. clear q0 q1 q2.
    destruct raw as [r1 r2 r3], w as [w1 w2 w3], d as [dx dy dz].
    vcbv. field. exact E. }
  rewrite Hval.
  apply is_derive_scal.
  apply (is_derive_sqrt (fun h : R => q0 + q1 * h + q2 * (h * h)) 0 q1).
  - auto_derive; [exact I|ring].
  - lra.
Qed.
Print Assumptions area_gradient.

(* ================================================================== the statements of Properties_C02.v, verbatim *)
Goal forall (p1 p2 p3 d : vR),
  vnorm NumR (face_normal_raw NumR (p1, p2, p3)) <> 0 ->
  is_derive (fun h : R => face_area NumR (p1 +v d *v h, p2, p3)) 0
    ((face_normal NumR (p1, p2, p3) × (p2 -v p3)) *v (- (1 / 2)) ·  d).
Proof. exact area_gradient. Qed.

Goal forall (nodes : list vR) (bends : list R) (faces : list ffaceR) (hinges : list hinge),
  ids_in_range nodes (tris_of faces) -> fresh nodes faces -> List.Forall (hinge_ok faces) hinges ->
  net_force (apply_bending NumR LibmRF PI nodes bends faces hinges (zeroF (length nodes))) = mkv 0 0 0.
Proof. exact bending_force_zero. Qed.
