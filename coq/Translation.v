(* Translation.v — what "translating the tissue by t" means for the state of each phase model (C14). *)
From Coq Require Import Reals NArith ZArith Bool List.
From SC Require Import Num Vec3 VecR Integrator Contact MeshOps.
Import ListNotations.
Local Open Scope R_scope.

Definition tr_inode (t : vR) (n : inode R) : inode R :=
  mknode (n_used n) (n_cell n) (n_pos n +v t) (n_mom n) (n_force n) (n_cpl n) (n_cpls n).
Definition tr_istate (t : vR) (s : Integrator.state R) : Integrator.state R :=
  mkstate (s_cells s) (map (tr_inode t) (s_nodes s)) (Integrator.s_time s).

Definition tr_cnode (t : vR) (n : cnode (T:=R)) : cnode (T:=R) :=
  mkcn (cn_used n) (cn_pos n +v t) (cn_normal n) (cn_curv n) (cn_force n) (cn_cpl n) (cn_sqd n).
Definition tr_cstate (t : vR) (st : Contact.state (T:=R)) : Contact.state (T:=R) :=
  map (fun c => mkcc (cc_id c) (cc_local c) (cc_type c) (cc_maxcurv c) (map (tr_cnode t) (cc_nodes c)) (cc_faces c)) st.

Definition tr_mstate (t : vR) (st : mstate (T:=R)) : mstate (T:=R) :=
  mkms (ms_faces st) (map (fun kv => (fst kv, mkns (ns_pos (snd kv) +v t) (ns_mom (snd kv)))) (ms_nodes st)).

(* a phase commutes with a symmetry of the state *)
Definition equivariant {S : Type} (sym : S -> S) (phase : S -> S) : Prop := forall s, phase (sym s) = sym (phase s).
Definition equivariant_opt {S : Type} (sym : S -> S) (phase : S -> option S) : Prop := forall s, phase (sym s) = option_map sym (phase s).
