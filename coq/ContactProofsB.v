(* ContactProofsB.v — proofs of the C06 statements (Properties_C06.v) about the contact phase of Contact.v,
   instantiated at R with Flocq's Zfloor / Zceil.  No axiom besides those of the standard Reals. *)
From Coq Require Import Reals Lra Lia Psatz ZArith Bool List.
From Flocq Require Import Core.Raux.
From SC Require Import Num Vec3 VecR Kernel KernelProofs Grid GridProofs Contact.
Import ListNotations.
Local Open Scope R_scope.

(* ================================================================ 1. the narrow range lies inside the padded box *)
Section BoxR.
  Lemma nmin_le (x y : R) : nmin NumR x y <= x /\ nmin NumR x y <= y.
  Proof. unfold nmin. cbn [nltb NumR]. destruct (Rltb_spec y x) as [Hlt | Hge]; lra. Qed.

  Lemma nmax_ge (x y : R) : x <= nmax NumR x y /\ y <= nmax NumR x y.
  Proof. unfold nmax. cbn [nltb NumR]. destruct (Rltb_spec x y) as [Hlt | Hge]; lra. Qed.

  Lemma min3_le (x y z : R) : min3 NumR x y z <= x /\ min3 NumR x y z <= y /\ min3 NumR x y z <= z.
  Proof.
    unfold min3. pose proof (nmin_le x (nmin NumR y z)) as H1. pose proof (nmin_le y z) as H2. lra.
  Qed.

  Lemma max3_ge (x y z : R) : x <= max3 NumR x y z /\ y <= max3 NumR x y z /\ z <= max3 NumR x y z.
  Proof.
    unfold max3. pose proof (nmax_ge x (nmax NumR y z)) as H1. pose proof (nmax_ge y z) as H2. lra.
  Qed.

  Lemma convex_lo (m xa xb xc u v w : R) :
    m <= xa -> m <= xb -> m <= xc -> 0 <= u -> 0 <= v -> 0 <= w -> u + v + w = 1 ->
    m <= xa * u + xb * v + xc * w.
  Proof.
    intros Ha Hb Hc Hu Hv Hw Hs.
    assert (H1 : 0 <= (xa - m) * u) by (apply Rmult_le_pos; lra).
    assert (H2 : 0 <= (xb - m) * v) by (apply Rmult_le_pos; lra).
    assert (H3 : 0 <= (xc - m) * w) by (apply Rmult_le_pos; lra).
    assert (E : m = m * (u + v + w)) by (rewrite Hs; ring).
    nra.
  Qed.

  Lemma convex_hi (m xa xb xc u v w : R) :
    xa <= m -> xb <= m -> xc <= m -> 0 <= u -> 0 <= v -> 0 <= w -> u + v + w = 1 ->
    xa * u + xb * v + xc * w <= m.
  Proof.
    intros Ha Hb Hc Hu Hv Hw Hs.
    assert (H1 : 0 <= (m - xa) * u) by (apply Rmult_le_pos; lra).
    assert (H2 : 0 <= (m - xb) * v) by (apply Rmult_le_pos; lra).
    assert (H3 : 0 <= (m - xc) * w) by (apply Rmult_le_pos; lra).
    assert (E : m = m * (u + v + w)) by (rewrite Hs; ring).
    nra.
  Qed.

  Lemma sq_lt_bound (d r : R) : 0 <= r -> d * d < r * r -> - r < d < r.
  Proof.
    intros Hr Hd. split.
    - destruct (Rlt_le_dec (- r) d) as [Hlt | Hge]; [exact Hlt | exfalso].
      assert (H : r * r <= (- d) * (- d)) by (apply Rmult_le_compat; lra). lra.
    - destruct (Rlt_le_dec d r) as [Hlt | Hge]; [exact Hlt | exfalso].
      assert (H : r * r <= d * d) by (apply Rmult_le_compat; lra). lra.
  Qed.

  Variables (cut_adh cut_rep : R).
  Hypothesis Hadh : 0 <= cut_adh.
  Hypothesis Hrep : 0 <= cut_rep.
  Notation padR := (pad NumR cut_adh cut_rep).

  Lemma pad_nonneg : 0 <= padR.
  Proof using Hadh Hrep. pose proof (nmax_ge cut_rep cut_adh) as H. unfold pad. lra. Qed.

  Lemma cut2_max_pad : cut2_max NumR cut_adh cut_rep = padR * padR.
  Proof using Hadh Hrep.
    unfold cut2_max, pad, cut2_rep, cut2_adh, nmax. cbn [nltb nmul NumR].
    destruct (Rltb_spec cut_rep cut_adh) as [H1 | H1];
      destruct (Rltb_spec (cut_rep * cut_rep) (cut_adh * cut_adh)) as [H2 | H2]; nra.
  Qed.

  Lemma cutoff_in_box_ : forall p a b c : vR, nondegenerate a b c ->
    k_dist (kernel NumR p a b c) < cut2_max NumR cut_adh cut_rep ->
    in_box NumR (face_box NumR cut_adh cut_rep a b c) p = true.
  Proof using Hadh Hrep.
    intros p a b c ND Hk.
    pose proof (bary_sum_one_ p a b c ND) as Hsum.
    destruct (bary_nonneg_ p a b c ND) as (Hu & Hv & Hw).
    rewrite (dist_bary_ p a b c ND), cut2_max_pad in Hk.
    pose proof pad_nonneg as Hp.
    set (u := k_bary (kernel NumR p a b c)) in *.
    remember (pad NumR cut_adh cut_rep) as P eqn:EP.
    destruct (min3_le (vx a) (vx b) (vx c)) as (Lx1 & Lx2 & Lx3).
    destruct (min3_le (vy a) (vy b) (vy c)) as (Ly1 & Ly2 & Ly3).
    destruct (min3_le (vz a) (vz b) (vz c)) as (Lz1 & Lz2 & Lz3).
    destruct (max3_ge (vx a) (vx b) (vx c)) as (Ux1 & Ux2 & Ux3).
    destruct (max3_ge (vy a) (vy b) (vy c)) as (Uy1 & Uy2 & Uy3).
    destruct (max3_ge (vz a) (vz b) (vz c)) as (Uz1 & Uz2 & Uz3).
    pose proof (convex_lo _ _ _ _ _ _ _ Lx1 Lx2 Lx3 Hu Hv Hw Hsum) as Qx1.
    pose proof (convex_lo _ _ _ _ _ _ _ Ly1 Ly2 Ly3 Hu Hv Hw Hsum) as Qy1.
    pose proof (convex_lo _ _ _ _ _ _ _ Lz1 Lz2 Lz3 Hu Hv Hw Hsum) as Qz1.
    pose proof (convex_hi _ _ _ _ _ _ _ Ux1 Ux2 Ux3 Hu Hv Hw Hsum) as Qx2.
    pose proof (convex_hi _ _ _ _ _ _ _ Uy1 Uy2 Uy3 Hu Hv Hw Hsum) as Qy2.
    pose proof (convex_hi _ _ _ _ _ _ _ Uz1 Uz2 Uz3 Hu Hv Hw Hsum) as Qz2.
    unfold bary_point in Hk. vunfold.
    set (qx := vx a * vx u + vx b * vy u + vx c * vz u) in *.
    set (qy := vy a * vx u + vy b * vy u + vy c * vz u) in *.
    set (qz := vz a * vx u + vz b * vy u + vz c * vz u) in *.
    clearbody qx qy qz u.
    assert (Sx : 0 <= (vx p - qx) * (vx p - qx)) by apply Rle_0_sqr.
    assert (Sy : 0 <= (vy p - qy) * (vy p - qy)) by apply Rle_0_sqr.
    assert (Sz : 0 <= (vz p - qz) * (vz p - qz)) by apply Rle_0_sqr.
    assert (Dx : (vx p - qx) * (vx p - qx) < P * P) by lra.
    assert (Dy : (vy p - qy) * (vy p - qy) < P * P) by lra.
    assert (Dz : (vz p - qz) * (vz p - qz) < P * P) by lra.
    apply (sq_lt_bound _ _ Hp) in Dx. apply (sq_lt_bound _ _ Hp) in Dy. apply (sq_lt_bound _ _ Hp) in Dz.
    unfold in_box, face_box. cbn [b_lo b_hi vx vy vz nltb nadd nsub NumR].
    rewrite !andb_true_iff, !negb_true_iff, !orb_false_iff, !Rltb_false.
    rewrite <- EP. lra.
  Qed.
End BoxR.

Lemma cutoff_in_box (cut_adh cut_rep : R) (Hadh : 0 <= cut_adh) (Hrep : 0 <= cut_rep) :
  forall p a b c : vR, nondegenerate a b c ->
  k_dist (kernel NumR p a b c) < cut2_max NumR cut_adh cut_rep ->
  in_box NumR (face_box NumR cut_adh cut_rep a b c) p = true.
Proof. exact (cutoff_in_box_ cut_adh cut_rep Hadh Hrep). Qed.

(* ================================================================ 2. lists: updn, strictly decreasing lists, option folds *)
Section ListFactsB.
  Lemma updn_length {B} (l : list B) n f : length (updn l n f) = length l.
  Proof.
    revert n. induction l as [| a r IH]; intros n; [reflexivity |].
    destruct n as [| k]; cbn [updn length]; [reflexivity | rewrite IH; reflexivity].
  Qed.

  Lemma nth_updn_same {B} (l : list B) n f d :
    (n < length l)%nat -> nth n (updn l n f) d = f (nth n l d).
  Proof.
    revert n. induction l as [| a r IH]; intros n Hn; cbn [length] in Hn; [lia |].
    destruct n as [| k]; cbn [updn nth]; [reflexivity | apply IH; lia].
  Qed.

  Lemma nth_updn_other {B} (l : list B) n m f d :
    n <> m -> nth m (updn l n f) d = nth m l d.
  Proof.
    revert n m. induction l as [| a r IH]; intros n m Hnm; [reflexivity |].
    destruct n as [| k]; destruct m as [| j]; cbn [updn nth]; try reflexivity; [lia | apply IH; lia].
  Qed.

  Lemma map_updn_id {A B} (h : A -> B) (l : list A) n f :
    (forall x, h (f x) = h x) -> map h (updn l n f) = map h l.
  Proof.
    intros Hf. revert n. induction l as [| a r IH]; intros n; [reflexivity |].
    destruct n as [| k]; cbn [updn map]; [rewrite Hf; reflexivity | rewrite IH; reflexivity].
  Qed.

  Lemma nth_repeat_nil {B} n k : nth k (repeat (@nil B) n) [] = [].
  Proof. apply nth_repeat_default. Qed.

  (* desc k l: l is strictly decreasing and all its elements are below k *)
  Fixpoint desc (k : nat) (l : list nat) : Prop :=
    match l with [] => True | x :: r => (x < k)%nat /\ desc x r end.

  Lemma desc_mono k k' l : (k <= k')%nat -> desc k l -> desc k' l.
  Proof. destruct l as [| x r]; cbn [desc]; [auto |]. intros Hk [Hx Hr]. split; [lia | exact Hr]. Qed.

  Lemma desc_lt k l x : desc k l -> In x l -> (x < k)%nat.
  Proof.
    revert k. induction l as [| a r IH]; intros k Hd Hin; [destruct Hin |].
    cbn [desc] in Hd. destruct Hd as [Ha Hr]. destruct Hin as [E | Hin]; [subst; exact Ha |].
    pose proof (IH a Hr Hin) as H. lia.
  Qed.

  Lemma desc_NoDup k l : desc k l -> NoDup l.
  Proof.
    revert k. induction l as [| a r IH]; intros k Hd; [constructor |].
    cbn [desc] in Hd. destruct Hd as [Ha Hr]. constructor; [| exact (IH a Hr)].
    intros Hin. pose proof (desc_lt a r a Hr Hin) as H. lia.
  Qed.

  Lemma desc_nth k l : desc k l -> forall i j x y,
    nth_error l i = Some x -> nth_error l j = Some y -> (i < j)%nat -> (y < x)%nat.
  Proof.
    revert k. induction l as [| a r IH]; intros k Hd i j x y Hi Hj Hij.
    - destruct i; discriminate Hi.
    - cbn [desc] in Hd. destruct Hd as [Ha Hr].
      destruct j as [| j']; [lia |]. cbn [nth_error] in Hj.
      destruct i as [| i']; cbn [nth_error] in Hi.
      + injection Hi as <-. apply (desc_lt a r y Hr). exact (nth_error_In _ _ Hj).
      + apply (IH a Hr i' j' x y Hi Hj). lia.
  Qed.

  (* folds over option states *)
  Lemma fold_opt_None {S A} (f : option S -> A -> option S) :
    (forall a, f None a = None) -> forall l, fold_left f l None = None.
  Proof. intros Hf l. induction l as [| a r IH]; cbn [fold_left]; [reflexivity | rewrite Hf; exact IH]. Qed.

  Lemma fold_opt_inv {S A} (f : option S -> A -> option S) (P : S -> Prop) :
    (forall a, f None a = None) ->
    (forall s a s', P s -> f (Some s) a = Some s' -> P s') ->
    forall l s r, P s -> fold_left f l (Some s) = Some r -> P r.
  Proof.
    intros HN HP l. induction l as [| a l' IH]; intros s r Hs Hf; cbn [fold_left] in Hf.
    - injection Hf as <-. exact Hs.
    - destruct (f (Some s) a) as [s1 |] eqn:E1.
      + exact (IH s1 r (HP s a s1 Hs E1) Hf).
      + rewrite (fold_opt_None f HN) in Hf. discriminate Hf.
  Qed.

  Lemma fold_opt_sim {S A} (f1 f2 : option S -> A -> option S) (P : S -> Prop) :
    (forall a, f1 None a = None) ->
    (forall s a s', P s -> f1 (Some s) a = Some s' -> f2 (Some s) a = Some s' /\ P s') ->
    forall l s r, P s -> fold_left f1 l (Some s) = Some r -> fold_left f2 l (Some s) = Some r /\ P r.
  Proof.
    intros HN HS l. induction l as [| a l' IH]; intros s r Hs Hf; cbn [fold_left] in Hf |- *.
    - injection Hf as <-. split; [reflexivity | exact Hs].
    - destruct (f1 (Some s) a) as [s1 |] eqn:E1.
      + destruct (HS s a s1 Hs E1) as [E2 Hs1]. rewrite E2. exact (IH s1 r Hs1 Hf).
      + rewrite (fold_opt_None f1 HN) in Hf. discriminate Hf.
  Qed.

  (* a fold over a strictly decreasing sublist equals the fold over all indices in decreasing order when the
     step is the identity on the indices left out *)
  Lemma fold_skip {S} (f : option S -> nat -> option S) (P : S -> Prop) :
    (forall a, f None a = None) ->
    (forall s a s', P s -> f (Some s) a = Some s' -> P s') ->
    forall n l, desc n l ->
    (forall a, (a < n)%nat -> ~ In a l -> forall s, P s -> f (Some s) a = Some s) ->
    forall s, P s -> fold_left f l (Some s) = fold_left f (rev (seq 0 n)) (Some s).
  Proof.
    intros HN HP n. induction n as [| m IH]; intros l Hd Hskip s Hs.
    - destruct l as [| x r]; [reflexivity |]. cbn [desc] in Hd. lia.
    - rewrite seq_S, rev_app_distr. cbn [rev app fold_left plus].
      destruct l as [| x r].
      + rewrite (Hskip m (Nat.lt_succ_diag_r m) (fun H => H) s Hs).
        apply (IH [] I); [| exact Hs]. intros a Ha _. apply Hskip; [lia | intros []].
      + cbn [desc] in Hd. destruct Hd as [Hx Hr].
        destruct (Nat.eq_dec x m) as [E | NE].
        * subst x. cbn [fold_left].
          destruct (f (Some s) m) as [s1 |] eqn:E1.
          -- apply (IH r Hr); [| exact (HP s m s1 Hs E1)].
             intros a Ha Hna. apply Hskip; [lia |]. intros [E | Hin]; [lia | contradiction].
          -- rewrite !(fold_opt_None f HN). reflexivity.
        * assert (Hm : ~ In m (x :: r)).
          { intros [E | Hin]; [lia |]. pose proof (desc_lt x r m Hr Hin) as H. lia. }
          rewrite (Hskip m (Nat.lt_succ_diag_r m) Hm s Hs).
          apply (IH (x :: r)); [cbn [desc]; split; [lia | exact Hr] | | exact Hs].
          intros a Ha Hna. apply Hskip; [lia | exact Hna].
  Qed.

  Lemma map_eq_nth {A B} (h : A -> B) (l l' : list A) i x :
    map h l = map h l' -> nth_error l i = Some x -> exists x', nth_error l' i = Some x' /\ h x' = h x.
  Proof.
    intros E Hx. assert (E' : nth_error (map h l) i = nth_error (map h l') i) by (rewrite E; reflexivity).
    rewrite !nth_error_map, Hx in E'. destruct (nth_error l' i) as [x' |]; cbn [option_map] in E'; [| discriminate E'].
    injection E' as E'. exists x'. split; [reflexivity | symmetry; exact E'].
  Qed.

  Lemma all_some_length {A} (l : list (option A)) r : all_some l = Some r -> length r = length l.
  Proof.
    revert r. induction l as [| o l' IH]; intros r H; cbn [all_some] in H.
    - injection H as <-. reflexivity.
    - destruct o as [a |]; [| discriminate H].
      destruct (all_some l') as [r' |]; cbn [option_map] in H; [| discriminate H].
      injection H as <-. cbn [length]. rewrite (IH r' eq_refl). reflexivity.
  Qed.
End ListFactsB.

(* ================================================================ 3. registration of the faces in the grid *)
Section RegR.
  Variable g : dims (T:=R).
  Notation fl v := (Z.to_nat (flat g v)).
  Notation stor := (list (list nat)).

  Definition pstep (i : nat) (acc : option stor) (v : Z * Z * Z) : option stor :=
    match acc with
    | Some s => if in_range g v then Some (updn s (fl v) (fun c => i :: c)) else None
    | None => None
    end.

  Lemma place_face_pstep st i b : place_face NumR Zfloor g st i b = fold_left (pstep i) (box_voxels NumR Zfloor g b) st.
  Proof. reflexivity. Qed.

  Lemma pstep_None i v : pstep i None v = None.
  Proof. reflexivity. Qed.

  Lemma place_vs_spec i vs : forall s s', length s = Z.to_nat (nvox g) -> NoDup vs ->
    fold_left (pstep i) vs (Some s) = Some s' ->
    length s' = length s /\
    (forall v, In v vs -> in_range g v = true /\ nth (fl v) s' [] = i :: nth (fl v) s []) /\
    (forall j, (forall v, In v vs -> fl v <> j) -> nth j s' [] = nth j s []) /\
    (forall j, nth j s' [] = nth j s [] \/ nth j s' [] = i :: nth j s []).
  Proof.
    induction vs as [| v vs' IH]; intros s s' Hlen Hnd Hf; cbn [fold_left] in Hf.
    - injection Hf as <-. split; [reflexivity |]. split; [intros v [] |]. split; [reflexivity | left; reflexivity].
    - inversion Hnd as [| v0 vs0 Hnin Hnd']; subst v0 vs0.
      cbn [pstep] in Hf. destruct (in_range g v) eqn:Hr; [| rewrite (fold_opt_None _ (pstep_None i)) in Hf; discriminate Hf].
      set (s1 := updn s (fl v) (fun c => i :: c)) in *.
      assert (Hlen1 : length s1 = Z.to_nat (nvox g)) by (unfold s1; rewrite updn_length; exact Hlen).
      destruct (IH s1 s' Hlen1 Hnd' Hf) as (A1 & B1 & C1 & D1).
      assert (Hlt : (fl v < length s)%nat) by (apply (flat_lt_length g v _ Hlen Hr)).
      assert (Hdiff : forall w, In w vs' -> fl w <> fl v).
      { intros w Hw E. destruct (B1 w Hw) as [Hrw _].
        pose proof (flat_bounds_gen g w Hrw) as Bw. pose proof (flat_bounds_gen g v Hr) as Bv.
        assert (Ewv : w = v) by (apply (flat_inj_gen g w v Hrw Hr); lia).
        subst w. contradiction. }
      assert (Ev : nth (fl v) s' [] = i :: nth (fl v) s []).
      { rewrite (C1 (fl v) Hdiff). unfold s1. rewrite nth_updn_same by exact Hlt. reflexivity. }
      split; [rewrite A1; unfold s1; apply updn_length |]. split; [| split].
      + intros w [E | Hw].
        * subst w. split; [exact Hr | exact Ev].
        * destruct (B1 w Hw) as [Hrw Ew]. split; [exact Hrw |]. rewrite Ew. unfold s1.
          rewrite nth_updn_other; [reflexivity |]. intros E. exact (Hdiff w Hw (eq_sym E)).
      + intros j Hj. rewrite C1 by (intros w Hw; apply Hj; right; exact Hw).
        unfold s1. apply nth_updn_other. apply Hj. left. reflexivity.
      + intros j. destruct (Nat.eq_dec j (fl v)) as [E | NE].
        * subst j. right. exact Ev.
        * assert (E1 : nth j s1 [] = nth j s []) by (unfold s1; apply nth_updn_other; lia).
          rewrite <- E1. exact (D1 j).
  Qed.

  Definition rstep (acc : option stor) (ib : nat * box) : option stor :=
    place_face NumR Zfloor g acc (fst ib) (snd ib).

  Lemma rstep_None ib : rstep None ib = None.
  Proof. unfold rstep. rewrite place_face_pstep. apply fold_opt_None. apply pstep_None. Qed.

  Lemma NoDup_box_voxels b : NoDup (box_voxels NumR Zfloor g b).
  Proof.
    unfold box_voxels. destruct (d_nb g) as [[nx ny] nz].
    destruct (raw3 NumR Zfloor g (b_lo b)) as [[xs ys] zs]. destruct (raw3 NumR Zfloor g (b_hi b)) as [[xe ye] ze].
    cbv zeta. apply (NoDup_prod3 (zrange xs _) (zrange ys _) (zrange zs _)); apply NoDup_zrange.
  Qed.

  Lemma reg_inv bs : forall k s s', length s = Z.to_nat (nvox g) -> (forall j, desc k (nth j s [])) ->
    fold_left rstep (combine (seq k (length bs)) bs) (Some s) = Some s' ->
    length s' = length s /\
    (forall j, desc (k + length bs) (nth j s' [])) /\
    (forall j x, In x (nth j s []) -> In x (nth j s' [])) /\
    (forall i b v, nth_error bs i = Some b -> In v (box_voxels NumR Zfloor g b) ->
                   in_range g v = true /\ In (k + i)%nat (nth (fl v) s' [])).
  Proof.
    induction bs as [| b bs' IH]; intros k s s' Hlen Hd Hf; cbn [length seq combine fold_left] in Hf.
    - injection Hf as <-. split; [reflexivity |]. split.
      + intros j. cbn [length]. rewrite Nat.add_0_r. apply Hd.
      + split; [auto |]. intros i b v Hi. destruct i; discriminate Hi.
    - unfold rstep at 2 in Hf. cbn [fst snd] in Hf. rewrite place_face_pstep in Hf.
      destruct (fold_left (pstep k) (box_voxels NumR Zfloor g b) (Some s)) as [s1 |] eqn:E1;
        [| rewrite (fold_opt_None _ rstep_None) in Hf; discriminate Hf].
      destruct (place_vs_spec k _ s s1 Hlen (NoDup_box_voxels b) E1) as (A1 & B1 & _ & D1).
      assert (Hlen1 : length s1 = Z.to_nat (nvox g)) by (rewrite A1; exact Hlen).
      assert (Hd1 : forall j, desc (S k) (nth j s1 [])).
      { intros j. destruct (D1 j) as [E | E]; rewrite E.
        - apply (desc_mono k); [lia | apply Hd].
        - cbn [desc]. split; [lia | apply Hd]. }
      destruct (IH (S k) s1 s' Hlen1 Hd1 Hf) as (A2 & B2 & C2 & D2).
      assert (Hgrow : forall j x, In x (nth j s []) -> In x (nth j s1 [])).
      { intros j x Hx. destruct (D1 j) as [E | E]; rewrite E; [exact Hx | right; exact Hx]. }
      split; [rewrite A2; exact A1 |]. split; [| split].
      + intros j. cbn [length]. replace (k + S (length bs'))%nat with (S k + length bs')%nat by lia. apply B2.
      + intros j x Hx. apply C2. apply Hgrow. exact Hx.
      + intros i b0 v Hi Hv. destruct i as [| i']; cbn [nth_error] in Hi.
        * injection Hi as <-. destruct (B1 v Hv) as [Hr Ev]. split; [exact Hr |].
          apply C2. rewrite Ev. rewrite Nat.add_0_r. left. reflexivity.
        * replace (k + S i')%nat with (S k + i')%nat by lia. exact (D2 i' b0 v Hi Hv).
  Qed.

  Lemma register_spec boxes s : register NumR Zfloor g boxes = Some s ->
    (forall j, desc (length boxes) (nth j s [])) /\
    (forall i b v, nth_error boxes i = Some b -> In v (box_voxels NumR Zfloor g b) -> In i (nth (fl v) s [])).
  Proof.
    intros Hreg.
    assert (Hlen : length (repeat (@nil nat) (Z.to_nat (nvox g))) = Z.to_nat (nvox g)) by apply repeat_length.
    assert (Hd : forall j, desc 0 (nth j (repeat (@nil nat) (Z.to_nat (nvox g))) [])).
    { intros j. rewrite nth_repeat_nil. exact I. }
    destruct (reg_inv boxes 0%nat _ s Hlen Hd Hreg) as (_ & B & _ & D).
    split; [exact B |]. intros i b v Hi Hv. exact (proj2 (D i b v Hi Hv)).
  Qed.

  (* the node's own voxel is one of the voxels of every face box that contains the node *)
  Hypothesis Hs : 0 < d_s g.

  Lemma raw_idx1_mono lo x y : x <= y -> (raw_idx1 NumR Zfloor lo (d_s g) x <= raw_idx1 NumR Zfloor lo (d_s g) y)%Z.
  Proof.
    intros Hxy. unfold raw_idx1. cbn [nsub ndiv NumR]. apply Zfloor_le.
    unfold Rdiv. apply Rmult_le_compat_r; [| lra]. apply Rlt_le. apply Rinv_0_lt_compat. exact Hs.
  Qed.

  Lemma in_box_bounds b pos : in_box NumR b pos = true ->
    (vx (b_lo b) <= vx pos <= vx (b_hi b)) /\ (vy (b_lo b) <= vy pos <= vy (b_hi b)) /\ (vz (b_lo b) <= vz pos <= vz (b_hi b)).
  Proof.
    unfold in_box. cbn [nltb NumR]. rewrite !andb_true_iff, !negb_true_iff, !orb_false_iff, !Rltb_false. lra.
  Qed.

  Lemma own_voxel_in_box_voxels b pos :
    in_box NumR b pos = true -> in_range g (raw3 NumR Zfloor g pos) = true ->
    In (raw3 NumR Zfloor g pos) (box_voxels NumR Zfloor g b).
  Proof.
    intros Hb Hr. destruct (in_box_bounds b pos Hb) as ((X1 & X2) & (Y1 & Y2) & (Z1 & Z2)).
    unfold box_voxels, raw3 in *.
    destruct (d_nb g) as [[nx ny] nz] eqn:En. destruct (d_lo g) as [[lx ly] lz] eqn:El.
    rewrite (in_range_spec g nx ny nz _ _ _ En) in Hr. destruct Hr as (Rx & Ry & Rz).
    cbv zeta.
    apply (proj2 (in_prod3 (zrange _ _) (zrange _ _) (zrange _ _) _ _ _)). rewrite !in_zrange.
    pose proof (raw_idx1_mono lx _ _ X1) as MX1. pose proof (raw_idx1_mono lx _ _ X2) as MX2.
    pose proof (raw_idx1_mono ly _ _ Y1) as MY1. pose proof (raw_idx1_mono ly _ _ Y2) as MY2.
    pose proof (raw_idx1_mono lz _ _ Z1) as MZ1. pose proof (raw_idx1_mono lz _ _ Z2) as MZ2.
    lia.
  Qed.

  Lemma candidates_eq s pos l : candidates NumR Zfloor g s pos = Some l ->
    in_range g (raw3 NumR Zfloor g pos) = true /\ l = nth (fl (raw3 NumR Zfloor g pos)) s [].
  Proof.
    unfold candidates. cbv zeta. destruct (in_range g (raw3 NumR Zfloor g pos)); [| discriminate].
    intros H. injection H as <-. split; reflexivity.
  Qed.

  Lemma complete_core boxes s fid b pos l :
    register NumR Zfloor g boxes = Some s -> nth_error boxes fid = Some b -> in_box NumR b pos = true ->
    candidates NumR Zfloor g s pos = Some l -> In fid l.
  Proof.
    intros Hreg Hfid Hb Hc. destruct (candidates_eq s pos l Hc) as [Hr ->].
    destruct (register_spec boxes s Hreg) as [_ D].
    apply (D fid b _ Hfid). apply own_voxel_in_box_voxels; assumption.
  Qed.
End RegR.

Lemma once_core (g : dims (T:=R)) boxes s pos l :
  register NumR Zfloor g boxes = Some s -> candidates NumR Zfloor g s pos = Some l -> desc (length boxes) l.
Proof.
  intros Hreg Hc. destruct (candidates_eq g s pos l Hc) as [_ ->].
  destruct (register_spec g boxes s Hreg) as [B _]. apply B.
Qed.

(* ================================================================ 4. prepare *)
Section PrepR.
  Variables (eps dmax inf lmin cut_adh cut_rep : R).
  Hypothesis Hlmin : 0 < lmin.
  Hypothesis Hadh : 0 <= cut_adh.
  Hypothesis Hrep : 0 <= cut_rep.
  Notation prepareR := (prepare NumR Zceil eps dmax inf lmin cut_adh cut_rep).

  Lemma prepare_spec st p : prepareR st = Some p ->
    p_state p = reset_state dmax st /\ p_gfs p = gfaces (reset_state dmax st) /\
    all_some (map (face_box_of NumR cut_adh cut_rep (reset_state dmax st)) (gfaces (reset_state dmax st))) = Some (p_boxes p) /\
    p_grid p = grid_of NumR Zceil eps lmin cut_adh cut_rep (global_box NumR inf cut_adh cut_rep (p_boxes p)).
  Proof.
    unfold prepare. cbv zeta.
    destruct (all_some (map (face_box_of NumR cut_adh cut_rep (reset_state dmax st)) (gfaces (reset_state dmax st)))) as [boxes |];
      [| discriminate].
    intros H. injection H as <-. cbn [p_state p_gfs p_boxes p_grid]. repeat split; reflexivity.
  Qed.

  Lemma grid_size_pos gb : 0 < d_s (grid_of NumR Zceil eps lmin cut_adh cut_rep gb).
  Proof using Hlmin Hadh Hrep.
    unfold grid_of, update_dimensions. cbn [d_s]. unfold vsize. cbn [nadd nmul nofZ NumR].
    pose proof (pad_nonneg cut_adh cut_rep Hadh Hrep) as Hp. lra.
  Qed.
End PrepR.

Lemma candidates_complete (eps dmax inf lmin cut_adh cut_rep : R)
  (Hlmin : 0 < lmin) (Hadh : 0 <= cut_adh) (Hrep : 0 <= cut_rep) :
  forall st p s fid b pos l,
  prepare NumR Zceil eps dmax inf lmin cut_adh cut_rep st = Some p ->
  register NumR Zfloor (p_grid p) (p_boxes p) = Some s ->
  nth_error (p_boxes p) fid = Some b -> in_box NumR b pos = true ->
  candidates NumR Zfloor (p_grid p) s pos = Some l -> In fid l.
Proof.
  intros st p s fid b pos l Hp Hreg Hfid Hb Hc.
  destruct (prepare_spec eps dmax inf lmin cut_adh cut_rep st p Hp) as (_ & _ & _ & Eg).
  apply (complete_core (p_grid p)) with (boxes := p_boxes p) (s := s) (b := b) (pos := pos); try assumption.
  rewrite Eg. apply grid_size_pos; assumption.
Qed.

Lemma candidates_once (eps dmax inf lmin cut_adh cut_rep : R) :
  forall st p s pos l,
  prepare NumR Zceil eps dmax inf lmin cut_adh cut_rep st = Some p ->
  register NumR Zfloor (p_grid p) (p_boxes p) = Some s ->
  candidates NumR Zfloor (p_grid p) s pos = Some l ->
  NoDup l /\ (forall i j x y, nth_error l i = Some x -> nth_error l j = Some y -> (i < j)%nat -> (y < x)%nat) /\
  (forall x, In x l -> (x < length (p_boxes p))%nat).
Proof.
  intros st p s pos l _ Hreg Hc.
  pose proof (once_core (p_grid p) (p_boxes p) s pos l Hreg Hc) as Hd.
  split; [exact (desc_NoDup _ _ Hd) |]. split; [exact (desc_nth _ _ Hd) |].
  intros x Hx. exact (desc_lt _ _ _ Hd Hx).
Qed.

(* ================================================================ 5. the node loop: the grid candidates against all faces *)
Section LoopR.
  Variables (dmax c45 c90 cut_adh cut_rep : R).
  Notation stateR := (@state R).
  Notation tryR := (try_face NumR dmax c45 c90 cut_adh cut_rep).
  Notation resolveR := (resolve_contact NumR dmax c45 cut_adh cut_rep).

  (* the positions of all nodes: never changed by the narrow phase *)
  Definition posmap (st : stateR) : list (list vR) := map (fun c => map cn_pos (cc_nodes c)) st.

  Lemma posmap_upd_node st ci ni f :
    (forall n, cn_pos (f n) = cn_pos n) -> posmap (upd_node st ci ni f) = posmap st.
  Proof.
    intros Hf. unfold posmap, upd_node. apply map_updn_id. intros c. cbn [cc_nodes].
    apply map_updn_id. exact Hf.
  Qed.

  Lemma posmap_length st st' : posmap st = posmap st' -> length st = length st'.
  Proof. intros E. apply (f_equal (@length _)) in E. unfold posmap in E. rewrite !map_length in E. exact E. Qed.

  Lemma Some_inj {A} (a b : A) : Some a = Some b -> a = b.
  Proof. intros H. injection H as H. exact H. Qed.

  Lemma resolve_posmap st ci ni gf st' : resolveR st ci ni gf = Some st' -> posmap st' = posmap st.
  Proof.
    intros H. unfold resolve_contact in H. cbv zeta in H.
    repeat match goal with
           | H0 : context [match ?x with _ => _ end] |- _ => destruct x eqn:?; try congruence
           end.
    all: repeat match goal with E : Some _ = Some _ |- _ => apply Some_inj in E end; subst.
    all: rewrite ?posmap_upd_node by (intros; reflexivity); reflexivity.
  Qed.

  Lemma try_None boxes gfs ci ni fid : tryR boxes gfs ci ni None fid = None.
  Proof. reflexivity. Qed.

  Lemma try_posmap boxes gfs ci ni st fid st' :
    tryR boxes gfs ci ni (Some st) fid = Some st' -> posmap st' = posmap st.
  Proof.
    unfold try_face.
    destruct (nth_error st ci) as [c1 |]; [| discriminate].
    destruct (nth_error gfs fid) as [gf |]; [| discriminate].
    destruct (nth_error boxes fid) as [b |]; [| discriminate].
    destruct (nth_error st (fst gf)) as [c2 |]; [| discriminate].
    destruct (nth_error (cc_nodes c1) ni) as [n1 |]; [| discriminate].
    destruct (negb (Nat.eqb (cc_id c1) (cc_id c2))).
    - destruct (in_box NumR b (cn_pos n1) && nltb NumR (vdot NumR (cn_normal n1) (cf_normal (snd gf))) c90).
      + apply resolve_posmap.
      + intros H. injection H as <-. reflexivity.
    - intros H. injection H as <-. reflexivity.
  Qed.

  (* the two loops as named functions *)
  Definition innerF (cands : vR -> option (list nat)) (boxes : list (@box R)) (gfs : list (nat * @cface R)) (ci : nat)
             (acc2 : option stateR) (ni : nat) : option stateR :=
    match acc2 with None => None | Some st2 =>
      match nth_error st2 ci with None => None | Some c =>
        match nth_error (cc_nodes c) ni with None => None | Some n =>
          if node_active NumR c n then
            match cands (cn_pos n) with
            | None => None
            | Some l => fold_left (tryR boxes gfs ci ni) l (Some st2)
            end
          else Some st2
        end end end.

  Definition outerF (cands : vR -> option (list nat)) (boxes : list (@box R)) (gfs : list (nat * @cface R))
             (acc : option stateR) (ci : nat) : option stateR :=
    match acc with None => None | Some st =>
      match nth_error st ci with None => None | Some c0 =>
        fold_left (innerF cands boxes gfs ci) (seq 0 (length (cc_nodes c0))) (Some st)
      end end.

  Lemma node_loop_eq cands boxes gfs st0 :
    node_loop NumR dmax c45 c90 cut_adh cut_rep cands boxes gfs st0 =
    fold_left (outerF cands boxes gfs) (seq 0 (length st0)) (Some st0).
  Proof. reflexivity. Qed.

  Variables (boxes : list (@box R)) (gfs : list (nat * @cface R)) (st1 : stateR) (cands1 : vR -> option (list nat)).
  Hypothesis Hlen : length boxes = length gfs.
  Hypothesis Hown : forall fid gf, nth_error gfs fid = Some gf -> (fst gf < length st1)%nat.
  Hypothesis Hcomp : forall fid b pos l,
    nth_error boxes fid = Some b -> in_box NumR b pos = true -> cands1 pos = Some l -> In fid l.
  Hypothesis Honce : forall pos l, cands1 pos = Some l -> desc (length gfs) l.

  Definition cands_all (_ : vR) : option (list nat) := Some (rev (seq 0 (length gfs))).
  Definition Pinv (st : stateR) : Prop := posmap st = posmap st1.

  Lemma try_Pinv ci ni s a s' : Pinv s -> tryR boxes gfs ci ni (Some s) a = Some s' -> Pinv s'.
  Proof. unfold Pinv. intros Hs H. rewrite (try_posmap _ _ _ _ _ _ _ H). exact Hs. Qed.

  (* a face that is not in the node's voxel is skipped by the narrow-phase rules anyway *)
  Lemma try_skip ci ni st2 c n l : Pinv st2 ->
    nth_error st2 ci = Some c -> nth_error (cc_nodes c) ni = Some n -> cands1 (cn_pos n) = Some l ->
    forall a, (a < length gfs)%nat -> ~ In a l -> forall s, Pinv s -> tryR boxes gfs ci ni (Some s) a = Some s.
  Proof using Hlen Hown Hcomp.
    intros H2 Ec En El a Ha Hna s Hs.
    assert (Epm : posmap st2 = posmap s) by (unfold Pinv in *; congruence).
    destruct (map_eq_nth (fun c => map cn_pos (cc_nodes c)) st2 s ci c Epm Ec) as (c1 & Ec1 & Ecc).
    cbv beta in Ecc.
    destruct (map_eq_nth cn_pos (cc_nodes c) (cc_nodes c1) ni n (eq_sym Ecc) En) as (n1 & En1 & Epos).
    destruct (nth_error gfs a) as [gf |] eqn:Egf; [| apply nth_error_None in Egf; lia].
    destruct (nth_error boxes a) as [b |] eqn:Eb; [| apply nth_error_None in Eb; lia].
    pose proof (Hown a gf Egf) as Hgf.
    assert (Els : length s = length st1) by (apply posmap_length; exact Hs).
    destruct (nth_error s (fst gf)) as [c2 |] eqn:Ec2; [| apply nth_error_None in Ec2; lia].
    unfold try_face. rewrite Ec1, Egf, Eb, Ec2, En1.
    destruct (negb (Nat.eqb (cc_id c1) (cc_id c2))); [| reflexivity].
    destruct (in_box NumR b (cn_pos n1)) eqn:Ebox; [exfalso | reflexivity].
    apply Hna. apply (Hcomp a b (cn_pos n) l Eb); [rewrite <- Epos; exact Ebox | exact El].
  Qed.

  Lemma inner_None cands ci ni : innerF cands boxes gfs ci None ni = None.
  Proof. reflexivity. Qed.

  Lemma outer_None cands ci : outerF cands boxes gfs None ci = None.
  Proof. reflexivity. Qed.

  Lemma inner_sim ci s ni s' : Pinv s ->
    innerF cands1 boxes gfs ci (Some s) ni = Some s' ->
    innerF cands_all boxes gfs ci (Some s) ni = Some s' /\ Pinv s'.
  Proof using Hlen Hown Hcomp Honce.
    intros Hs H. unfold innerF in H |- *.
    destruct (nth_error s ci) as [c |] eqn:Ec; [| discriminate H].
    destruct (nth_error (cc_nodes c) ni) as [n |] eqn:En; [| discriminate H].
    destruct (node_active NumR c n); [| injection H as <-; split; [reflexivity | exact Hs]].
    destruct (cands1 (cn_pos n)) as [l |] eqn:El; [| discriminate H].
    unfold cands_all. split.
    - rewrite <- (fold_skip (tryR boxes gfs ci ni) Pinv (try_None boxes gfs ci ni) (try_Pinv ci ni)
                            (length gfs) l (Honce _ _ El) (try_skip ci ni s c n l Hs Ec En El) s Hs).
      exact H.
    - exact (fold_opt_inv (tryR boxes gfs ci ni) Pinv (try_None boxes gfs ci ni) (try_Pinv ci ni) l s s' Hs H).
  Qed.

  Lemma outer_sim s ci s' : Pinv s ->
    outerF cands1 boxes gfs (Some s) ci = Some s' ->
    outerF cands_all boxes gfs (Some s) ci = Some s' /\ Pinv s'.
  Proof using Hlen Hown Hcomp Honce.
    intros Hs H. unfold outerF in H |- *.
    destruct (nth_error s ci) as [c0 |]; [| discriminate H].
    exact (fold_opt_sim (innerF cands1 boxes gfs ci) (innerF cands_all boxes gfs ci) Pinv
                        (inner_None cands1 ci) (inner_sim ci) _ s s' Hs H).
  Qed.

  Lemma node_loop_sim r :
    node_loop NumR dmax c45 c90 cut_adh cut_rep cands1 boxes gfs st1 = Some r ->
    node_loop NumR dmax c45 c90 cut_adh cut_rep cands_all boxes gfs st1 = Some r.
  Proof using Hlen Hown Hcomp Honce.
    rewrite !node_loop_eq. intros H.
    exact (proj1 (fold_opt_sim (outerF cands1 boxes gfs) (outerF cands_all boxes gfs) Pinv
                               (outer_None cands1) outer_sim _ st1 r eq_refl H)).
  Qed.
End LoopR.

(* ================================================================ 6. the phase *)
Lemma gfaces_owner (st : @state R) fid gf : nth_error (gfaces st) fid = Some gf -> (fst gf < length st)%nat.
Proof.
  intros H. apply nth_error_In in H. unfold gfaces in H.
  apply in_concat in H. destruct H as (l & Hl & Hin).
  apply in_map_iff in Hl. destruct Hl as ([i c] & El & Hic). subst l.
  apply in_map_iff in Hin. destruct Hin as (f & Ef & _). subst gf. cbn [fst].
  apply in_combine_l in Hic. apply in_seq in Hic. lia.
Qed.

Lemma grid_all_pairs (eps dmax inf c45 c90 lmin cut_adh cut_rep : R)
  (Hlmin : 0 < lmin) (Hadh : 0 <= cut_adh) (Hrep : 0 <= cut_rep) :
  forall st r s,
  contact_phase NumR Zfloor Zceil eps dmax inf c45 c90 lmin cut_adh cut_rep st = Some (r, s) ->
  all_pairs_phase NumR Zceil eps dmax inf c45 c90 lmin cut_adh cut_rep st = Some r.
Proof.
  intros st r s H. unfold contact_phase in H. unfold all_pairs_phase.
  destruct (prepare NumR Zceil eps dmax inf lmin cut_adh cut_rep st) as [p |] eqn:Ep; [| discriminate H].
  destruct (register NumR Zfloor (p_grid p) (p_boxes p)) as [s0 |] eqn:Ereg; [| discriminate H].
  destruct (node_loop NumR dmax c45 c90 cut_adh cut_rep (candidates NumR Zfloor (p_grid p) s0)
                      (p_boxes p) (p_gfs p) (p_state p)) as [st2 |] eqn:Eloop; [| discriminate H].
  destruct (centre_pairs NumR st2) as [r0 |] eqn:Ecp; cbn [option_map] in H; [| discriminate H].
  injection H as <- <-.
  destruct (prepare_spec eps dmax inf lmin cut_adh cut_rep st p Ep) as (Est & Egfs & Eboxes & _).
  assert (Hlen : length (p_boxes p) = length (p_gfs p)).
  { rewrite (all_some_length _ _ Eboxes), map_length, Egfs. reflexivity. }
  assert (Hown : forall fid gf, nth_error (p_gfs p) fid = Some gf -> (fst gf < length (p_state p))%nat).
  { rewrite Egfs, Est. apply gfaces_owner. }
  assert (Hcomp : forall fid b pos l, nth_error (p_boxes p) fid = Some b -> in_box NumR b pos = true ->
                  candidates NumR Zfloor (p_grid p) s0 pos = Some l -> In fid l).
  { intros fid b pos l. apply (candidates_complete eps dmax inf lmin cut_adh cut_rep Hlmin Hadh Hrep st p s0); assumption. }
  assert (Honce : forall pos l, candidates NumR Zfloor (p_grid p) s0 pos = Some l -> desc (length (p_gfs p)) l).
  { intros pos l Hc. rewrite <- Hlen. exact (once_core (p_grid p) (p_boxes p) s0 pos l Ereg Hc). }
  pose proof (node_loop_sim dmax c45 c90 cut_adh cut_rep (p_boxes p) (p_gfs p) (p_state p)
                            (candidates NumR Zfloor (p_grid p) s0) Hlen Hown Hcomp Honce st2 Eloop) as Hsim.
  unfold cands_all in Hsim. unfold all_faces_desc. rewrite Hsim. exact Ecp.
Qed.
